package core

import (
	"go/constant"
	"go/token"
	"go/types"

	"golang.org/x/tools/go/ssa"
)

// ---------------------------------------------------------------------------
// Instruction-level path queries on one SSA function.
//
// A "point" is an instruction; the function's flow graph is the sequence of
// instructions inside each block plus the block successor edges.  All queries
// are plain graph reachability with some instructions or edges removed, which
// gives must-pass-through, dominance and "paired" checks without computing
// dominator trees, and works at instruction granularity.
// ---------------------------------------------------------------------------

// Edge is a CFG edge From -> From.Succs[Idx].
type Edge struct {
	From *ssa.BasicBlock
	Idx  int
}

// PathQuery describes a reachability question.
type PathQuery struct {
	Fn       *ssa.Function
	CutInstr func(ssa.Instruction) bool // instructions that block the path (the path may not pass *through* them)
	CutEdge  func(Edge) bool            // edges that may not be taken
	Inter    int                        // follow static calls into same-package functions up to this depth (0: DefaultInter; <0: never)
	Into     func(*ssa.Function) bool   // with Inter: which callees to follow (nil: all of the package)
}

// instrIndex returns the index of instr in its block.
func instrIndex(in ssa.Instruction) int {
	for i, x := range in.Block().Instrs {
		if x == in {
			return i
		}
	}
	return -1
}

// DefaultInter is the depth to which path queries that do not set Inter themselves follow static calls into
// functions of the same package (0 = stay inside Fn).
var DefaultInter = 2

// reach explores from the point *after* instruction `from` (or from function
// entry if from == nil) and calls visit on every instruction reached (cut
// instructions are visited but not passed).  visit returning true stops.
//
// With Inter > 0 the exploration follows static calls into functions of the same package (not recursive ones)
// up to that depth and comes back to the instruction after the call when the callee returns: a step extracted
// into a helper lies on the path like the statements it replaced.  Return instructions of callees are internal
// to the path and are not shown to visit.  Call strings are kept, so a helper called from two sites does not
// mix their continuations.
func (q PathQuery) reach(from ssa.Instruction, visit func(ssa.Instruction) bool) bool {
	depth := q.Inter
	if depth == 0 {
		depth = DefaultInter
	}
	if depth < 0 {
		depth = 0
	}
	type frame struct {
		call   *ssa.Call
		parent *frame
		depth  int
	}
	type pt struct {
		b      *ssa.BasicBlock
		i      int
		fr     *frame
		cor    *correlation
		forced int // 1+index of the only successor that can be taken out of b on this path (0: any)
	}
	type key struct {
		b      *ssa.BasicBlock
		fr     *frame
		cor    *correlation
		forced int
	}
	// a flag set on the way into a block decides the block's own test: entering s from b, if s ends in `if φ` with φ a
	// phi of s whose operand for b is a boolean constant, only the matching successor can follow (`unmet = true; break`
	// … `if unmet { continue }`)
	forcedBy := func(b, s *ssa.BasicBlock) int {
		if len(s.Instrs) == 0 {
			return 0
		}
		ifi, ok := s.Instrs[len(s.Instrs)-1].(*ssa.If)
		if !ok {
			return 0
		}
		c, neg := StripNot(ifi.Cond)
		ph, ok := c.(*ssa.Phi)
		if !ok || ph.Block() != s {
			return 0
		}
		for i, pred := range s.Preds {
			if pred != b || i >= len(ph.Edges) {
				continue
			}
			k, ok := ph.Edges[i].(*ssa.Const)
			if !ok || k.Value == nil || k.Value.Kind() != constant.Bool {
				return 0
			}
			if constant.BoolVal(k.Value) != neg {
				return 1
			}
			return 2
		}
		return 0
	}
	cors := map[[2]interface{}]*correlation{}
	corFor := func(c *ssa.Call, ret *ssa.Return) *correlation {
		k := [2]interface{}{c, ret}
		if x, ok := cors[k]; ok {
			return x
		}
		x := &correlation{cut: returnCorrelation(c, ret)}
		if len(x.cut) == 0 {
			x = nil
		}
		cors[k] = x
		return x
	}
	frames := map[[2]interface{}]*frame{}
	frameFor := func(parent *frame, c *ssa.Call) *frame {
		k := [2]interface{}{parent, c}
		if f, ok := frames[k]; ok {
			return f
		}
		d := 1
		if parent != nil {
			d = parent.depth + 1
		}
		f := &frame{call: c, parent: parent, depth: d}
		frames[k] = f
		return f
	}
	onStack := func(fr *frame, fn *ssa.Function) bool {
		if fn == q.Fn {
			return true
		}
		for f := fr; f != nil; f = f.parent {
			if StaticFn(f.call.Common()) == fn {
				return true
			}
		}
		return false
	}
	seenBlockStart := map[key]bool{}
	var stack []pt
	if from == nil {
		if len(q.Fn.Blocks) == 0 {
			return false
		}
		stack = append(stack, pt{q.Fn.Blocks[0], 0, nil, nil, 0})
		seenBlockStart[key{q.Fn.Blocks[0], nil, nil, 0}] = true
	} else {
		stack = append(stack, pt{from.Block(), instrIndex(from) + 1, nil, nil, 0})
	}
	for len(stack) > 0 {
		p := stack[len(stack)-1]
		stack = stack[:len(stack)-1]
		b := p.b
		blocked := false
		for i := p.i; i < len(b.Instrs); i++ {
			in := b.Instrs[i]
			if ret, isRet := in.(*ssa.Return); isRet && p.fr != nil {
				// back to the caller, after the call; what the callee returns as its error decides which way the
				// caller's test of that error can go on this path
				c := p.fr.call
				cor := p.cor
				if nc := corFor(c, ret); nc != nil {
					cor = nc
				}
				stack = append(stack, pt{c.Block(), instrIndex(c) + 1, p.fr.parent, cor, 0})
				blocked = true
				break
			} else if ret, isRet := in.(*ssa.Return); isRet && depth > 0 && b.Parent() != q.Fn && b.Parent().Parent() == nil {
				// the exploration started inside a callee of Fn (an instruction found there by FindInstrs): it goes on
				// after every call of that callee in Fn and the functions Fn reaches
				for _, m := range Family(q.Fn, depth) {
					for _, mb := range m.Blocks {
						for mi, x := range mb.Instrs {
							if c, ok := x.(*ssa.Call); ok && StaticFn(c.Common()) == b.Parent() {
								stack = append(stack, pt{mb, mi + 1, nil, corFor(c, ret), 0})
							}
						}
					}
				}
				blocked = true
				break
			}
			if visit(in) {
				return true
			}
			if q.CutInstr != nil && q.CutInstr(in) {
				blocked = true
				break
			}
			if c, isCall := in.(*ssa.Call); isCall && depth > 0 {
				cur := 0
				if p.fr != nil {
					cur = p.fr.depth
				}
				if callee := StaticFn(c.Common()); callee != nil && cur < depth && len(callee.Blocks) > 0 && callee.Pkg != nil && callee.Pkg == q.Fn.Pkg && !onStack(p.fr, callee) && (q.Into == nil || q.Into(callee)) {
					fr := frameFor(p.fr, c)
					k := key{callee.Blocks[0], fr, p.cor, 0}
					if !seenBlockStart[k] {
						seenBlockStart[k] = true
						stack = append(stack, pt{callee.Blocks[0], 0, fr, p.cor, 0})
					}
					blocked = true // the continuation is taken when (and if) the callee returns
					break
				}
			}
		}
		if blocked {
			continue
		}
		for si, s := range b.Succs {
			if q.CutEdge != nil && q.CutEdge(Edge{b, si}) {
				continue
			}
			if p.cor != nil && p.cor.cuts(Edge{b, si}) {
				continue
			}
			if p.forced != 0 && p.i == 0 && si != p.forced-1 {
				continue
			}
			f := forcedBy(b, s)
			k := key{s, p.fr, p.cor, f}
			if !seenBlockStart[k] {
				seenBlockStart[k] = true
				stack = append(stack, pt{s, 0, p.fr, p.cor, f})
			}
		}
	}
	return false
}

// correlation: edges that cannot be taken on the rest of a path because of what a callee returned on it.
type correlation struct{ cut []Edge }

func (c *correlation) cuts(e Edge) bool {
	for _, x := range c.cut {
		if x == e {
			return true
		}
	}
	return false
}

// errorResultState: +1 when the last (error) result of the return is certainly non-nil (a constructed error, or a
// value returned on the edge where it was tested non-nil), -1 when it is the nil constant, 0 otherwise.
func errorResultState(ret *ssa.Return) int {
	vals := ReturnValues(ret)
	if len(vals) == 0 {
		return 0
	}
	v := vals[len(vals)-1]
	if !isErrorType(v.Type()) {
		return 0
	}
	switch x := v.(type) {
	case *ssa.Const:
		if x.IsNil() {
			return -1
		}
	case *ssa.MakeInterface:
		return +1
	case *ssa.Call:
		if cl := CommonCallee(x.Common()); cl != nil {
			switch cl.Name() {
			case "Errorf", "New", "NewError", "Error", "Wrap", "Wrapf", "NewErrInvalidArg", "NewRetryableErr":
				if cl.Name() != "Error" || (cl.Pkg() != nil && cl.Pkg().Name() == "status") {
					return +1
				}
			}
		}
	}
	// returned on the edge where it was found non-nil
	for d := ret.Block(); d != nil; d = d.Idom() {
		idom := d.Idom()
		if idom == nil || len(d.Preds) != 1 || d.Preds[0] != idom {
			continue
		}
		ifi, ok := idom.Instrs[len(idom.Instrs)-1].(*ssa.If)
		if !ok {
			continue
		}
		c, neg := StripNot(ifi.Cond)
		bo, ok := c.(*ssa.BinOp)
		if !ok || (bo.Op != token.NEQ && bo.Op != token.EQL) {
			continue
		}
		if k, isK := bo.Y.(*ssa.Const); !isK || !k.IsNil() {
			continue
		}
		if bo.X != v && ResolveCell(bo.X) != v {
			continue
		}
		nonNilIdx := 0
		if (bo.Op == token.EQL) != neg {
			nonNilIdx = 1
		}
		if idom.Succs[nonNilIdx] == d {
			return +1
		}
		return -1
	}
	return 0
}

// returnCorrelation: the edges of the caller that cannot be taken after the callee left through ret: tests of the
// call's error result against nil when the returned error is certainly nil / non-nil, and tests of a result
// against a constant (or of a boolean result itself) when the callee returned a constant there.
func returnCorrelation(c *ssa.Call, ret *ssa.Return) []Edge {
	var out []Edge
	switch errorResultState(ret) {
	case +1:
		out = append(out, errTestEdges(c, true)...)
	case -1:
		out = append(out, errTestEdges(c, false)...)
	}
	vals := ReturnValues(ret)
	resultUses := func(i int) []ssa.Value {
		if len(vals) == 1 {
			return []ssa.Value{c}
		}
		var xs []ssa.Value
		for _, ref := range *c.Referrers() {
			if ex, ok := ref.(*ssa.Extract); ok && ex.Index == i {
				xs = append(xs, ex)
			}
		}
		return xs
	}
	for i, v := range vals {
		k, ok := v.(*ssa.Const)
		if !ok || isErrorType(v.Type()) {
			continue
		}
		for _, rv := range resultUses(i) {
			for _, ref := range *rv.Referrers() {
				switch x := ref.(type) {
				case *ssa.If:
					// a boolean result tested directly
					if k.Value != nil && k.Value.Kind() == constant.Bool {
						if constant.BoolVal(k.Value) {
							out = append(out, Edge{x.Block(), 1})
						} else {
							out = append(out, Edge{x.Block(), 0})
						}
					}
				case *ssa.UnOp:
					if x.Op == token.NOT && k.Value != nil && k.Value.Kind() == constant.Bool {
						for _, r2 := range *x.Referrers() {
							if ifi, ok := r2.(*ssa.If); ok {
								if constant.BoolVal(k.Value) {
									out = append(out, Edge{ifi.Block(), 0})
								} else {
									out = append(out, Edge{ifi.Block(), 1})
								}
							}
						}
					}
				case *ssa.BinOp:
					if x.Op != token.EQL && x.Op != token.NEQ {
						continue
					}
					var other ssa.Value
					if x.X == rv {
						other = x.Y
					} else {
						other = x.X
					}
					ok2, isK := other.(*ssa.Const)
					if !isK {
						continue
					}
					var equal bool
					switch {
					case k.Value == nil || ok2.Value == nil:
						equal = k.Value == nil && ok2.Value == nil
					default:
						equal = constant.Compare(k.Value, token.EQL, ok2.Value)
					}
					holds := equal == (x.Op == token.EQL)
					for _, r2 := range *x.Referrers() {
						if ifi, ok := r2.(*ssa.If); ok {
							if holds {
								out = append(out, Edge{ifi.Block(), 1})
							} else {
								out = append(out, Edge{ifi.Block(), 0})
							}
						}
					}
				}
			}
		}
	}
	return out
}

// errTestEdges: the edges of the caller's tests `err != nil` / `err == nil` of the call's error result that stand
// for "the error is nil" (wantNil) or "is not nil" (!wantNil).
func errTestEdges(c *ssa.Call, wantNil bool) []Edge {
	var errv []ssa.Value
	if isErrorType(c.Type()) {
		errv = append(errv, c)
	} else {
		for _, ref := range *c.Referrers() {
			if ex, ok := ref.(*ssa.Extract); ok && isErrorType(ex.Type()) {
				errv = append(errv, ex)
			}
		}
	}
	var out []Edge
	for _, v := range errv {
		// the value may be tested directly, or after being stored in a local cell
		vals := []ssa.Value{v}
		for _, ref := range *v.Referrers() {
			if st, ok := ref.(*ssa.Store); ok && st.Val == v {
				if al, ok := st.Addr.(*ssa.Alloc); ok {
					for _, ar := range *al.Referrers() {
						if u, ok := ar.(*ssa.UnOp); ok && u.Op == token.MUL && u.Block() == st.Block() {
							vals = append(vals, u)
						}
					}
				}
			}
		}
		for _, tv := range vals {
			for _, ref := range *tv.Referrers() {
				bo, ok := ref.(*ssa.BinOp)
				if !ok || (bo.Op != token.NEQ && bo.Op != token.EQL) {
					continue
				}
				k, isK := bo.Y.(*ssa.Const)
				if !isK || !k.IsNil() || bo.X != tv {
					continue
				}
				for _, br := range *bo.Referrers() {
					ifi, ok := br.(*ssa.If)
					if !ok {
						continue
					}
					nilIdx := 1
					if bo.Op == token.EQL {
						nilIdx = 0
					}
					if wantNil {
						out = append(out, Edge{ifi.Block(), nilIdx})
					} else {
						out = append(out, Edge{ifi.Block(), 1 - nilIdx})
					}
				}
			}
		}
	}
	return out
}

// IsNormalExit reports whether the instruction ends the function normally.
func IsNormalExit(in ssa.Instruction) bool {
	_, ok := in.(*ssa.Return)
	return ok
}

// CanReach reports whether some path from `from` (exclusive; nil = entry)
// reaches an instruction satisfying target without passing a cut.
func (q PathQuery) CanReach(from ssa.Instruction, target func(ssa.Instruction) bool) (ssa.Instruction, bool) {
	var hit ssa.Instruction
	ok := q.reach(from, func(in ssa.Instruction) bool {
		if target(in) {
			hit = in
			return true
		}
		return false
	})
	return hit, ok
}

// MustPassBefore: every path from entry to an instruction satisfying `site`
// passes through an instruction satisfying `guard`.  Returns an offending site.
func MustPassBefore(fn *ssa.Function, guard, site func(ssa.Instruction) bool) (ssa.Instruction, bool) {
	q := PathQuery{Fn: fn, CutInstr: guard}
	hit, reached := q.CanReach(nil, func(in ssa.Instruction) bool { return site(in) && !guard(in) })
	return hit, !reached
}

// MustReachAfter: every path from `from` to a normal exit passes `through`.
// Returns the exit reached without passing.
func MustReachAfter(fn *ssa.Function, from ssa.Instruction, through func(ssa.Instruction) bool, isExit func(ssa.Instruction) bool) (ssa.Instruction, bool) {
	if isExit == nil {
		isExit = IsNormalExit
	}
	q := PathQuery{Fn: fn, CutInstr: through}
	hit, reached := q.CanReach(from, func(in ssa.Instruction) bool { return isExit(in) && !through(in) })
	return hit, !reached
}

// OnlyViaEdge: every path from entry to `site` takes the edge e.
func OnlyViaEdge(fn *ssa.Function, e Edge, site func(ssa.Instruction) bool) (ssa.Instruction, bool) {
	q := PathQuery{Fn: fn, CutEdge: func(x Edge) bool { return x == e }}
	hit, reached := q.CanReach(nil, site)
	return hit, !reached
}

// ---------------------------------------------------------------------------
// Instruction predicates
// ---------------------------------------------------------------------------

// CalleeOf returns the statically resolved callee object of a call
// instruction (function, method or interface method), or nil.
func CalleeOf(in ssa.Instruction) *types.Func {
	c, ok := in.(ssa.CallInstruction)
	if !ok {
		return nil
	}
	return CommonCallee(c.Common())
}

// CommonCallee resolves the callee object of a call.
func CommonCallee(cc *ssa.CallCommon) *types.Func {
	if cc.IsInvoke() {
		return cc.Method
	}
	switch v := cc.Value.(type) {
	case *ssa.Function:
		if o, ok := v.Object().(*types.Func); ok {
			return o
		}
		if v.Origin() != nil {
			if o, ok := v.Origin().Object().(*types.Func); ok {
				return o
			}
		}
	case *ssa.MakeClosure:
		if f, ok := v.Fn.(*ssa.Function); ok {
			if o, ok := f.Object().(*types.Func); ok {
				return o
			}
		}
	}
	return nil
}

// StaticFn returns the SSA function called (static calls and direct closure calls).
func StaticFn(cc *ssa.CallCommon) *ssa.Function {
	if cc.IsInvoke() {
		return nil
	}
	switch v := cc.Value.(type) {
	case *ssa.Function:
		return v
	case *ssa.MakeClosure:
		if f, ok := v.Fn.(*ssa.Function); ok {
			return f
		}
	}
	return nil
}

// IsCallTo returns a predicate matching calls (incl. go/defer) to one of the objects.
func IsCallTo(objs ...*types.Func) func(ssa.Instruction) bool {
	set := map[*types.Func]bool{}
	for _, o := range objs {
		set[o] = true
	}
	return func(in ssa.Instruction) bool {
		c := CalleeOf(in)
		if c == nil {
			return false
		}
		if set[c] {
			return true
		}
		if o := c.Origin(); o != nil && set[o] {
			return true
		}
		return false
	}
}

// IsBuiltinCall matches calls of the given builtin (delete, append, copy, panic, len...).
func IsBuiltinCall(in ssa.Instruction, name string) (*ssa.CallCommon, bool) {
	c, ok := in.(ssa.CallInstruction)
	if !ok {
		return nil, false
	}
	b, ok := c.Common().Value.(*ssa.Builtin)
	if !ok || b.Name() != name {
		return nil, false
	}
	return c.Common(), true
}

// Instrs calls f for every instruction of fn (blocks in order).
func Instrs(fn *ssa.Function, f func(ssa.Instruction)) {
	for _, b := range fn.Blocks {
		for _, in := range b.Instrs {
			f(in)
		}
	}
	if InstrsAlwaysDeep && !inDeep && fn.Parent() == nil {
		inDeep = true
		fam := Family(fn, DeepFind)
		inDeep = false
		for _, m := range fam {
			if m == fn || m.Parent() != nil {
				continue
			}
			for _, b := range m.Blocks {
				for _, in := range b.Instrs {
					f(in)
				}
			}
		}
	}
}

// InstrsAlwaysDeep (experiment): Instrs also visits the same-package callees of a top-level function.
var InstrsAlwaysDeep = false
var inDeep = false

// FindInstrs collects instructions satisfying pred.
//
// When nothing in fn matches and DeepFind > 0, the functions of the same package that fn calls statically (to
// that depth, closures excluded) are searched instead: a rule looking for "the call to X in F" finds it in the
// helper a step of F was extracted into, and keeps answering its path questions through PathQuery.Inter.  The
// fallback only ever applies where the search in fn itself found nothing.
func FindInstrs(fn *ssa.Function, pred func(ssa.Instruction) bool) []ssa.Instruction {
	var out []ssa.Instruction
	Instrs(fn, func(in ssa.Instruction) {
		if pred(in) {
			out = append(out, in)
		}
	})
	if (len(out) == 0 || DeepAlways) && DeepFind > 0 && fn != nil {
		for _, m := range Family(fn, DeepFind) {
			if m == fn || m.Parent() != nil {
				continue
			}
			Instrs(m, func(in ssa.Instruction) {
				if pred(in) {
					out = append(out, in)
				}
			})
		}
	}
	return out
}

// SiteIn maps an instruction found in a callee of fn (FindInstrs's fallback) to the instruction of fn through
// which it is reached: the call, in fn or one of its closures, to the function holding it (directly or through one
// more call).  An instruction of fn itself is returned unchanged; nil when no such call exists.
func SiteIn(fn *ssa.Function, in ssa.Instruction) ssa.Instruction {
	holder := in.Parent()
	for holder != nil && holder.Parent() != nil && holder != fn {
		holder = holder.Parent()
	}
	if holder == fn || in.Parent() == fn {
		return in
	}
	var res ssa.Instruction
	for _, m := range WithClosures(fn) {
		Instrs(m, func(x ssa.Instruction) {
			ci, ok := x.(ssa.CallInstruction)
			if !ok || res != nil {
				return
			}
			c := StaticFn(ci.Common())
			if c == nil {
				return
			}
			if c == holder {
				res = x
				return
			}
			// one more level
			if c.Pkg == fn.Pkg && c.Blocks != nil {
				Instrs(c, func(y ssa.Instruction) {
					if cj, ok := y.(ssa.CallInstruction); ok && StaticFn(cj.Common()) == holder && res == nil {
						res = x
					}
				})
			}
		})
	}
	return res
}

// InstrsDeep calls f for the instructions of fn and of the functions of its package that it calls statically, to
// the depth of DeepFind (closures of fn included, as with Family).
func InstrsDeep(fn *ssa.Function, f func(ssa.Instruction)) {
	for _, m := range Family(fn, DeepFind) {
		Instrs(m, f)
	}
}

// CallerValues: like CallerValue for a helper called from several sites of fn's family: the argument passed at each
// site (one level).  nil when v is not a parameter of such a helper.
func CallerValues(fn *ssa.Function, v ssa.Value) []ssa.Value {
	prm, ok := SkipConv(v).(*ssa.Parameter)
	if !ok || prm.Parent() == fn || prm.Parent() == nil {
		return nil
	}
	h := prm.Parent()
	idx := -1
	for k, hp := range h.Params {
		if hp == prm {
			idx = k
		}
	}
	var out []ssa.Value
	for _, m := range Family(fn, DeepFind) {
		Instrs(m, func(in ssa.Instruction) {
			if ci, ok := in.(ssa.CallInstruction); ok && StaticFn(ci.Common()) == h && idx >= 0 && idx < len(ci.Common().Args) {
				out = append(out, ci.Common().Args[idx])
			}
		})
	}
	return out
}

// CallerValue reads a value of a helper in terms of fn: a parameter of a function that fn's family calls from
// exactly one site stands for the argument passed there (transitively); any other value is returned unchanged.
func CallerValue(fn *ssa.Function, v ssa.Value) ssa.Value {
	for i := 0; i < 3; i++ {
		// a parameter spilled to a local cell (its address is taken somewhere) is read through the cell
		if u, ok := SkipConv(v).(*ssa.UnOp); ok && u.Op == token.MUL {
			if al, ok := u.X.(*ssa.Alloc); ok && al.Parent() != fn {
				var stored []ssa.Value
				for _, ref := range *al.Referrers() {
					if st, ok := ref.(*ssa.Store); ok && st.Addr == ssa.Value(al) {
						stored = append(stored, st.Val)
					}
				}
				if len(stored) == 1 {
					if sp, ok := stored[0].(*ssa.Parameter); ok {
						v = sp
					}
				}
			}
		}
		prm, ok := SkipConv(v).(*ssa.Parameter)
		if !ok || prm.Parent() == fn || prm.Parent() == nil {
			return v
		}
		h := prm.Parent()
		idx := -1
		for k, hp := range h.Params {
			if hp == prm {
				idx = k
			}
		}
		var sites []ssa.CallInstruction
		for _, m := range Family(fn, DeepFind) {
			Instrs(m, func(in ssa.Instruction) {
				if ci, ok := in.(ssa.CallInstruction); ok && StaticFn(ci.Common()) == h {
					sites = append(sites, ci)
				}
			})
		}
		if idx < 0 || len(sites) != 1 || idx >= len(sites[0].Common().Args) {
			return v
		}
		v = sites[0].Common().Args[idx]
	}
	return v
}

// FindInstrsIn is FindInstrs restricted to fn's own body (no callees).
func FindInstrsIn(fn *ssa.Function, pred func(ssa.Instruction) bool) []ssa.Instruction {
	var out []ssa.Instruction
	Instrs(fn, func(in ssa.Instruction) {
		if pred(in) {
			out = append(out, in)
		}
	})
	return out
}

// DeepFind is the depth of FindInstrs's fallback into callees of the same package (0 = none).
var DeepFind = 2

// DeepAlways (experiment): search the callees even when fn itself has matches.
var DeepAlways = true

// WithClosures returns fn and all functions nested in it (transitively).
func WithClosures(fn *ssa.Function) []*ssa.Function {
	out := []*ssa.Function{fn}
	for _, a := range fn.AnonFuncs {
		out = append(out, WithClosures(a)...)
	}
	return out
}

// InstrPos returns the best position for an instruction.
func InstrPos(in ssa.Instruction) token.Pos {
	if in == nil {
		return token.NoPos
	}
	if p := in.Pos(); p.IsValid() {
		return p
	}
	// fall back on operands / neighbours
	if v, ok := in.(ssa.Value); ok {
		_ = v
	}
	b := in.Block()
	idx := instrIndex(in)
	for i := idx; i >= 0; i-- {
		if p := b.Instrs[i].Pos(); p.IsValid() {
			return p
		}
	}
	for i := idx + 1; i < len(b.Instrs); i++ {
		if p := b.Instrs[i].Pos(); p.IsValid() {
			return p
		}
	}
	return in.Parent().Pos()
}

// CalleeIs reports whether fn is the SSA function of the given object.
func CalleeIs(fn *ssa.Function, obj *types.Func) bool {
	return fn != nil && fn.Object() == obj
}

// ReturnValues resolves the operands of a Return through defer-spilled result
// cells: when a function has defers, go/ssa stores each result into a cell,
// runs the defers and returns the loaded cells.  For each result that is such a
// load, the value stored into the cell in the same block (before the return)
// is given instead.
func ReturnValues(ret *ssa.Return) []ssa.Value {
	out := make([]ssa.Value, len(ret.Results))
	for i, rv := range ret.Results {
		out[i] = rv
		u, ok := rv.(*ssa.UnOp)
		if !ok || u.Op != token.MUL {
			continue
		}
		al, ok := u.X.(*ssa.Alloc)
		if !ok {
			continue
		}
		for _, in := range ret.Block().Instrs {
			if st, ok := in.(*ssa.Store); ok && st.Addr == ssa.Value(al) {
				out[i] = st.Val
			}
			if in == ssa.Instruction(u) {
				break
			}
		}
	}
	return out
}

// ResolveCell: if v is a load of a local cell with a store earlier in the same block, the stored value.
func ResolveCell(v ssa.Value) ssa.Value {
	u, ok := v.(*ssa.UnOp)
	if !ok || u.Op != token.MUL {
		return v
	}
	al, ok := u.X.(*ssa.Alloc)
	if !ok {
		return v
	}
	res := v
	for _, in := range u.Block().Instrs {
		if in == ssa.Instruction(u) {
			break
		}
		if st, ok := in.(*ssa.Store); ok && st.Addr == ssa.Value(al) {
			res = st.Val
		}
	}
	return res
}

// ErrorTested reports whether the error produced by the call instruction (its
// error-typed result) is compared with nil somewhere, directly or after being
// stored in a local cell.
func ErrorTested(call ssa.Instruction) bool {
	v, ok := call.(ssa.Value)
	if !ok {
		return false
	}
	var errVals []ssa.Value
	if isErrorType(v.Type()) {
		errVals = append(errVals, v)
	}
	if refs := v.Referrers(); refs != nil {
		for _, r := range *refs {
			if ex, ok := r.(*ssa.Extract); ok && isErrorType(ex.Type()) {
				errVals = append(errVals, ex)
			}
		}
	}
	tested := func(x ssa.Value) bool {
		for _, r := range *x.Referrers() {
			if bo, ok := r.(*ssa.BinOp); ok && (bo.Op == token.NEQ || bo.Op == token.EQL) {
				return true
			}
			if _, ok := r.(*ssa.Return); ok {
				return true // handed to the caller
			}
		}
		return false
	}
	for _, ev := range errVals {
		if tested(ev) {
			return true
		}
		for _, r := range *ev.Referrers() {
			st, ok := r.(*ssa.Store)
			if !ok {
				continue
			}
			al, ok := st.Addr.(*ssa.Alloc)
			if !ok {
				continue
			}
			for _, rr := range *al.Referrers() {
				if ld, ok := rr.(*ssa.UnOp); ok && ld.Op == token.MUL && tested(ld) {
					return true
				}
			}
		}
	}
	return false
}

// ErrorPropagated reports whether a non-nil error of `call` always ends the
// function with a non-nil error: with the err==nil edges of the call's error
// test removed, no return of a (possibly) nil error is reachable from the call.
// nilEdges must be the edges on which the call's error is nil.
func ErrorPropagated(fn *ssa.Function, call ssa.Instruction, nilEdges []Edge, isNilReturn func(ssa.Instruction) bool) (ssa.Instruction, bool) {
	q := PathQuery{Fn: fn, CutEdge: func(e Edge) bool {
		for _, x := range nilEdges {
			if x == e {
				return true
			}
		}
		return false
	}}
	hit, reach := q.CanReach(call, isNilReturn)
	return hit, !reach
}

// Family returns fn, its closures, and the repository functions of the same package that it calls statically, up to
// the given depth (closures of those included).  Rules anchored on a function look at its family so that a piece of the
// function extracted into a helper (or a helper inlined back) does not change what they see.
func Family(fn *ssa.Function, depth int) []*ssa.Function {
	seen := map[*ssa.Function]bool{}
	var out []*ssa.Function
	var visit func(f *ssa.Function, d int)
	visit = func(f *ssa.Function, d int) {
		if f == nil || seen[f] || f.Blocks == nil {
			return
		}
		seen[f] = true
		out = append(out, f)
		for _, c := range f.AnonFuncs {
			visit(c, d)
		}
		if d == 0 {
			return
		}
		Instrs(f, func(in ssa.Instruction) {
			if ci, ok := in.(ssa.CallInstruction); ok {
				if c := StaticFn(ci.Common()); c != nil && c.Pkg != nil && fn.Pkg != nil && c.Pkg == fn.Pkg && c.Parent() == nil {
					visit(c, d-1)
				}
			}
		})
	}
	visit(fn, depth)
	return out
}

// ErrorResultState: +1 when the error result of the return is certainly non-nil, -1 when certainly nil, 0 otherwise.
func ErrorResultState(ret *ssa.Return) int { return errorResultState(ret) }
