package core

import (
	"go/token"
	"go/types"

	"golang.org/x/tools/go/ssa"
)

// ---------------------------------------------------------------------------
// Instruction-level path queries on one SSA function.
//
// A "point" is an instruction; the function's flow graph is the sequence of
// instructions inside each block plus the block successor edges.  All queries
// are plain graph reachability with some instructions or edges removed, which
// gives must-pass-through, dominance and "paired" checks without computing
// dominator trees, and works at instruction granularity.
// ---------------------------------------------------------------------------

// Edge is a CFG edge From -> From.Succs[Idx].
type Edge struct {
	From *ssa.BasicBlock
	Idx  int
}

// PathQuery describes a reachability question.
type PathQuery struct {
	Fn       *ssa.Function
	CutInstr func(ssa.Instruction) bool // instructions that block the path (the path may not pass *through* them)
	CutEdge  func(Edge) bool            // edges that may not be taken
}

// instrIndex returns the index of instr in its block.
func instrIndex(in ssa.Instruction) int {
	for i, x := range in.Block().Instrs {
		if x == in {
			return i
		}
	}
	return -1
}

// reach explores from the point *after* instruction `from` (or from function
// entry if from == nil) and calls visit on every instruction reached (cut
// instructions are visited but not passed).  visit returning true stops.
func (q PathQuery) reach(from ssa.Instruction, visit func(ssa.Instruction) bool) bool {
	type pt struct {
		b *ssa.BasicBlock
		i int
	}
	seenBlockStart := map[*ssa.BasicBlock]bool{}
	var stack []pt
	if from == nil {
		if len(q.Fn.Blocks) == 0 {
			return false
		}
		stack = append(stack, pt{q.Fn.Blocks[0], 0})
		seenBlockStart[q.Fn.Blocks[0]] = true
	} else {
		stack = append(stack, pt{from.Block(), instrIndex(from) + 1})
	}
	for len(stack) > 0 {
		p := stack[len(stack)-1]
		stack = stack[:len(stack)-1]
		b := p.b
		blocked := false
		for i := p.i; i < len(b.Instrs); i++ {
			in := b.Instrs[i]
			if visit(in) {
				return true
			}
			if q.CutInstr != nil && q.CutInstr(in) {
				blocked = true
				break
			}
		}
		if blocked {
			continue
		}
		for si, s := range b.Succs {
			if q.CutEdge != nil && q.CutEdge(Edge{b, si}) {
				continue
			}
			if !seenBlockStart[s] {
				seenBlockStart[s] = true
				stack = append(stack, pt{s, 0})
			}
		}
	}
	return false
}

// IsNormalExit reports whether the instruction ends the function normally.
func IsNormalExit(in ssa.Instruction) bool {
	_, ok := in.(*ssa.Return)
	return ok
}

// CanReach reports whether some path from `from` (exclusive; nil = entry)
// reaches an instruction satisfying target without passing a cut.
func (q PathQuery) CanReach(from ssa.Instruction, target func(ssa.Instruction) bool) (ssa.Instruction, bool) {
	var hit ssa.Instruction
	ok := q.reach(from, func(in ssa.Instruction) bool {
		if target(in) {
			hit = in
			return true
		}
		return false
	})
	return hit, ok
}

// MustPassBefore: every path from entry to an instruction satisfying `site`
// passes through an instruction satisfying `guard`.  Returns an offending site.
func MustPassBefore(fn *ssa.Function, guard, site func(ssa.Instruction) bool) (ssa.Instruction, bool) {
	q := PathQuery{Fn: fn, CutInstr: guard}
	hit, reached := q.CanReach(nil, func(in ssa.Instruction) bool { return site(in) && !guard(in) })
	return hit, !reached
}

// MustReachAfter: every path from `from` to a normal exit passes `through`.
// Returns the exit reached without passing.
func MustReachAfter(fn *ssa.Function, from ssa.Instruction, through func(ssa.Instruction) bool, isExit func(ssa.Instruction) bool) (ssa.Instruction, bool) {
	if isExit == nil {
		isExit = IsNormalExit
	}
	q := PathQuery{Fn: fn, CutInstr: through}
	hit, reached := q.CanReach(from, func(in ssa.Instruction) bool { return isExit(in) && !through(in) })
	return hit, !reached
}

// OnlyViaEdge: every path from entry to `site` takes the edge e.
func OnlyViaEdge(fn *ssa.Function, e Edge, site func(ssa.Instruction) bool) (ssa.Instruction, bool) {
	q := PathQuery{Fn: fn, CutEdge: func(x Edge) bool { return x == e }}
	hit, reached := q.CanReach(nil, site)
	return hit, !reached
}

// ---------------------------------------------------------------------------
// Instruction predicates
// ---------------------------------------------------------------------------

// CalleeOf returns the statically resolved callee object of a call
// instruction (function, method or interface method), or nil.
func CalleeOf(in ssa.Instruction) *types.Func {
	c, ok := in.(ssa.CallInstruction)
	if !ok {
		return nil
	}
	return CommonCallee(c.Common())
}

// CommonCallee resolves the callee object of a call.
func CommonCallee(cc *ssa.CallCommon) *types.Func {
	if cc.IsInvoke() {
		return cc.Method
	}
	switch v := cc.Value.(type) {
	case *ssa.Function:
		if o, ok := v.Object().(*types.Func); ok {
			return o
		}
		if v.Origin() != nil {
			if o, ok := v.Origin().Object().(*types.Func); ok {
				return o
			}
		}
	case *ssa.MakeClosure:
		if f, ok := v.Fn.(*ssa.Function); ok {
			if o, ok := f.Object().(*types.Func); ok {
				return o
			}
		}
	}
	return nil
}

// StaticFn returns the SSA function called (static calls and direct closure calls).
func StaticFn(cc *ssa.CallCommon) *ssa.Function {
	if cc.IsInvoke() {
		return nil
	}
	switch v := cc.Value.(type) {
	case *ssa.Function:
		return v
	case *ssa.MakeClosure:
		if f, ok := v.Fn.(*ssa.Function); ok {
			return f
		}
	}
	return nil
}

// IsCallTo returns a predicate matching calls (incl. go/defer) to one of the objects.
func IsCallTo(objs ...*types.Func) func(ssa.Instruction) bool {
	set := map[*types.Func]bool{}
	for _, o := range objs {
		set[o] = true
	}
	return func(in ssa.Instruction) bool {
		c := CalleeOf(in)
		if c == nil {
			return false
		}
		if set[c] {
			return true
		}
		if o := c.Origin(); o != nil && set[o] {
			return true
		}
		return false
	}
}

// IsBuiltinCall matches calls of the given builtin (delete, append, copy, panic, len...).
func IsBuiltinCall(in ssa.Instruction, name string) (*ssa.CallCommon, bool) {
	c, ok := in.(ssa.CallInstruction)
	if !ok {
		return nil, false
	}
	b, ok := c.Common().Value.(*ssa.Builtin)
	if !ok || b.Name() != name {
		return nil, false
	}
	return c.Common(), true
}

// Instrs calls f for every instruction of fn (blocks in order).
func Instrs(fn *ssa.Function, f func(ssa.Instruction)) {
	for _, b := range fn.Blocks {
		for _, in := range b.Instrs {
			f(in)
		}
	}
}

// FindInstrs collects instructions satisfying pred.
func FindInstrs(fn *ssa.Function, pred func(ssa.Instruction) bool) []ssa.Instruction {
	var out []ssa.Instruction
	Instrs(fn, func(in ssa.Instruction) {
		if pred(in) {
			out = append(out, in)
		}
	})
	return out
}

// WithClosures returns fn and all functions nested in it (transitively).
func WithClosures(fn *ssa.Function) []*ssa.Function {
	out := []*ssa.Function{fn}
	for _, a := range fn.AnonFuncs {
		out = append(out, WithClosures(a)...)
	}
	return out
}

// InstrPos returns the best position for an instruction.
func InstrPos(in ssa.Instruction) token.Pos {
	if in == nil {
		return token.NoPos
	}
	if p := in.Pos(); p.IsValid() {
		return p
	}
	// fall back on operands / neighbours
	if v, ok := in.(ssa.Value); ok {
		_ = v
	}
	b := in.Block()
	idx := instrIndex(in)
	for i := idx; i >= 0; i-- {
		if p := b.Instrs[i].Pos(); p.IsValid() {
			return p
		}
	}
	for i := idx + 1; i < len(b.Instrs); i++ {
		if p := b.Instrs[i].Pos(); p.IsValid() {
			return p
		}
	}
	return in.Parent().Pos()
}

// CalleeIs reports whether fn is the SSA function of the given object.
func CalleeIs(fn *ssa.Function, obj *types.Func) bool {
	return fn != nil && fn.Object() == obj
}

// ReturnValues resolves the operands of a Return through defer-spilled result
// cells: when a function has defers, go/ssa stores each result into a cell,
// runs the defers and returns the loaded cells.  For each result that is such a
// load, the value stored into the cell in the same block (before the return)
// is given instead.
func ReturnValues(ret *ssa.Return) []ssa.Value {
	out := make([]ssa.Value, len(ret.Results))
	for i, rv := range ret.Results {
		out[i] = rv
		u, ok := rv.(*ssa.UnOp)
		if !ok || u.Op != token.MUL {
			continue
		}
		al, ok := u.X.(*ssa.Alloc)
		if !ok {
			continue
		}
		for _, in := range ret.Block().Instrs {
			if st, ok := in.(*ssa.Store); ok && st.Addr == ssa.Value(al) {
				out[i] = st.Val
			}
			if in == ssa.Instruction(u) {
				break
			}
		}
	}
	return out
}

// ResolveCell: if v is a load of a local cell with a store earlier in the same block, the stored value.
func ResolveCell(v ssa.Value) ssa.Value {
	u, ok := v.(*ssa.UnOp)
	if !ok || u.Op != token.MUL {
		return v
	}
	al, ok := u.X.(*ssa.Alloc)
	if !ok {
		return v
	}
	res := v
	for _, in := range u.Block().Instrs {
		if in == ssa.Instruction(u) {
			break
		}
		if st, ok := in.(*ssa.Store); ok && st.Addr == ssa.Value(al) {
			res = st.Val
		}
	}
	return res
}

// ErrorTested reports whether the error produced by the call instruction (its
// error-typed result) is compared with nil somewhere, directly or after being
// stored in a local cell.
func ErrorTested(call ssa.Instruction) bool {
	v, ok := call.(ssa.Value)
	if !ok {
		return false
	}
	var errVals []ssa.Value
	if isErrorType(v.Type()) {
		errVals = append(errVals, v)
	}
	if refs := v.Referrers(); refs != nil {
		for _, r := range *refs {
			if ex, ok := r.(*ssa.Extract); ok && isErrorType(ex.Type()) {
				errVals = append(errVals, ex)
			}
		}
	}
	tested := func(x ssa.Value) bool {
		for _, r := range *x.Referrers() {
			if bo, ok := r.(*ssa.BinOp); ok && (bo.Op == token.NEQ || bo.Op == token.EQL) {
				return true
			}
			if _, ok := r.(*ssa.Return); ok {
				return true // handed to the caller
			}
		}
		return false
	}
	for _, ev := range errVals {
		if tested(ev) {
			return true
		}
		for _, r := range *ev.Referrers() {
			st, ok := r.(*ssa.Store)
			if !ok {
				continue
			}
			al, ok := st.Addr.(*ssa.Alloc)
			if !ok {
				continue
			}
			for _, rr := range *al.Referrers() {
				if ld, ok := rr.(*ssa.UnOp); ok && ld.Op == token.MUL && tested(ld) {
					return true
				}
			}
		}
	}
	return false
}

// ErrorPropagated reports whether a non-nil error of `call` always ends the
// function with a non-nil error: with the err==nil edges of the call's error
// test removed, no return of a (possibly) nil error is reachable from the call.
// nilEdges must be the edges on which the call's error is nil.
func ErrorPropagated(fn *ssa.Function, call ssa.Instruction, nilEdges []Edge, isNilReturn func(ssa.Instruction) bool) (ssa.Instruction, bool) {
	q := PathQuery{Fn: fn, CutEdge: func(e Edge) bool {
		for _, x := range nilEdges {
			if x == e {
				return true
			}
		}
		return false
	}}
	hit, reach := q.CanReach(call, isNilReturn)
	return hit, !reach
}

// Family returns fn, its closures, and the repository functions of the same package that it calls statically, up to
// the given depth (closures of those included).  Rules anchored on a function look at its family so that a piece of the
// function extracted into a helper (or a helper inlined back) does not change what they see.
func Family(fn *ssa.Function, depth int) []*ssa.Function {
	seen := map[*ssa.Function]bool{}
	var out []*ssa.Function
	var visit func(f *ssa.Function, d int)
	visit = func(f *ssa.Function, d int) {
		if f == nil || seen[f] || f.Blocks == nil {
			return
		}
		seen[f] = true
		out = append(out, f)
		for _, c := range f.AnonFuncs {
			visit(c, d)
		}
		if d == 0 {
			return
		}
		Instrs(f, func(in ssa.Instruction) {
			if ci, ok := in.(ssa.CallInstruction); ok {
				if c := StaticFn(ci.Common()); c != nil && c.Pkg != nil && fn.Pkg != nil && c.Pkg == fn.Pkg && c.Parent() == nil {
					visit(c, d-1)
				}
			}
		})
	}
	visit(fn, depth)
	return out
}
