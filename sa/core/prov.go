package core

import (
	"go/token"
	"go/types"
	"sort"
	"strings"

	"golang.org/x/tools/go/callgraph"
	"golang.org/x/tools/go/ssa"
)

// ---------------------------------------------------------------------------
// Provenance (engine E6): backward slice of an SSA value to its sources.
// ---------------------------------------------------------------------------

// Sources is the result of a backward slice.
type Sources struct {
	Params  map[*ssa.Parameter]bool
	Fields  map[*types.Var]bool  // struct fields loaded on the way
	Calls   map[*types.Func]bool // callees whose results flow in
	Consts  []*ssa.Const
	Globals map[*types.Var]bool
	Free    map[*ssa.FreeVar]bool
	Opaque  int // values that could not be traced (dynamic calls, ...)
	// KeyFields: fields whose value only selects (index of a slice, key of a
	// map lookup, argument of a declared resolver) rather than flowing in.
	KeyFields map[*types.Var]bool
	KeyParams map[*ssa.Parameter]bool
	Resolvers map[*types.Func]bool // callees whose arguments are key-uses
	NoInline  map[*types.Func]bool // callees never traced into (their result is opaque)
	keyMode   bool
}

func newSources() *Sources {
	return &Sources{Params: map[*ssa.Parameter]bool{}, Fields: map[*types.Var]bool{}, Calls: map[*types.Func]bool{},
		Globals: map[*types.Var]bool{}, Free: map[*ssa.FreeVar]bool{}, KeyFields: map[*types.Var]bool{}, KeyParams: map[*ssa.Parameter]bool{}}
}

func (s *Sources) addField(f *types.Var) {
	if f == nil {
		return
	}
	if s.keyMode {
		s.KeyFields[f] = true
	} else {
		s.Fields[f] = true
	}
}

// TraceWithResolvers is Trace with a set of resolver callees (name → object
// lookups): fields reaching the value only through a resolver argument, a map
// key or a slice index are reported in KeyFields instead of Fields.
func TraceWithResolvers(v ssa.Value, depth int, resolvers, noInline map[*types.Func]bool) *Sources {
	s := newSources()
	s.Resolvers = resolvers
	s.NoInline = noInline
	traceInto(s, v, depth, map[ssa.Value]bool{})
	return s
}

// asKey traces v in key mode (with its own visited set).
func (s *Sources) asKey(v ssa.Value, depth int) {
	if s.Resolvers == nil {
		return
	}
	old := s.keyMode
	s.keyMode = true
	traceInto(s, v, depth, map[ssa.Value]bool{})
	s.keyMode = old
}

// CallNames lists the callee names (pkg.Name or Recv.Name), sorted.
func (s *Sources) CallNames() []string {
	var out []string
	for c := range s.Calls {
		out = append(out, ObjName(c))
	}
	sort.Strings(out)
	return out
}

// FieldNames lists loaded fields as Type.field when known.
func (s *Sources) FieldNames() []string {
	var out []string
	for f := range s.Fields {
		out = append(out, f.Name())
	}
	sort.Strings(out)
	return out
}

// HasCall reports whether a callee with the given object flows in.
func (s *Sources) HasCall(f *types.Func) bool {
	if s.Calls[f] {
		return true
	}
	for c := range s.Calls {
		if c.Origin() == f {
			return true
		}
	}
	return false
}

// ObjName renders a function object as pkgname.Func or pkgname.Type.Method.
func ObjName(f *types.Func) string {
	if f == nil {
		return "<nil>"
	}
	sig, _ := f.Type().(*types.Signature)
	pk := ""
	if f.Pkg() != nil {
		pk = strings.TrimPrefix(f.Pkg().Path(), ModPath+"/") + "."
	}
	if sig != nil && sig.Recv() != nil {
		t := sig.Recv().Type()
		if p, ok := t.(*types.Pointer); ok {
			t = p.Elem()
		}
		if n, ok := t.(*types.Named); ok {
			return pk + n.Obj().Name() + "." + f.Name()
		}
	}
	return pk + f.Name()
}

// Trace computes the sources of v.  depth bounds the inlining of static
// repository callees (their results are traced to their parameters, which are
// mapped back to the call's arguments); beyond it a call contributes the
// callee object and the sources of all its arguments.
func Trace(v ssa.Value, depth int) *Sources {
	s := newSources()
	traceInto(s, v, depth, map[ssa.Value]bool{})
	return s
}

// ParamSources returns just the parameters v derives from.
func ParamSources(v ssa.Value, depth int) map[*ssa.Parameter]bool {
	return Trace(v, depth).Params
}

func traceInto(s *Sources, v ssa.Value, depth int, seen map[ssa.Value]bool) {
	if v == nil || seen[v] {
		return
	}
	seen[v] = true
	switch x := v.(type) {
	case *ssa.Parameter:
		if s.keyMode {
			s.KeyParams[x] = true
		} else {
			s.Params[x] = true
		}
	case *ssa.FreeVar:
		s.Free[x] = true
	case *ssa.Const:
		s.Consts = append(s.Consts, x)
	case *ssa.Global:
		if gv, ok := x.Object().(*types.Var); ok {
			s.Globals[gv] = true
		}
	case *ssa.Function, *ssa.Builtin:
	case *ssa.Phi:
		for _, e := range x.Edges {
			traceInto(s, e, depth, seen)
		}
	case *ssa.UnOp:
		if x.Op == token.MUL {
			switch a := x.X.(type) {
			case *ssa.FieldAddr:
				s.addField(FieldOfAddr(a))
				// a field of a locally built struct: the values stored into that field (and only that field)
				if al, ok := a.X.(*ssa.Alloc); ok {
					traceAllocField(s, al, a.Field, depth, seen)
					return
				}
				traceInto(s, a.X, depth, seen)
				return
			case *ssa.Alloc:
				traceAlloc(s, a, depth, seen)
				return
			}
		}
		traceInto(s, x.X, depth, seen)
	case *ssa.Field:
		s.addField(FieldOfValue(x))
		traceInto(s, x.X, depth, seen)
	case *ssa.FieldAddr:
		s.addField(FieldOfAddr(x))
		traceInto(s, x.X, depth, seen)
	case *ssa.IndexAddr:
		traceInto(s, x.X, depth, seen)
		if s.Resolvers != nil {
			s.asKey(x.Index, depth)
		} else {
			traceInto(s, x.Index, depth, seen)
		}
	case *ssa.Index:
		traceInto(s, x.X, depth, seen)
		if s.Resolvers != nil {
			s.asKey(x.Index, depth)
		} else {
			traceInto(s, x.Index, depth, seen)
		}
	case *ssa.Lookup:
		traceInto(s, x.X, depth, seen)
		if s.Resolvers != nil {
			s.asKey(x.Index, depth)
		} else {
			traceInto(s, x.Index, depth, seen)
		}
	case *ssa.Extract:
		if c, ok := x.Tuple.(*ssa.Call); ok {
			traceCall(s, c, x.Index, depth, seen)
			return
		}
		traceInto(s, x.Tuple, depth, seen)
	case *ssa.BinOp:
		traceInto(s, x.X, depth, seen)
		traceInto(s, x.Y, depth, seen)
	case *ssa.Convert:
		traceInto(s, x.X, depth, seen)
	case *ssa.ChangeType:
		traceInto(s, x.X, depth, seen)
	case *ssa.ChangeInterface:
		traceInto(s, x.X, depth, seen)
	case *ssa.MakeInterface:
		traceInto(s, x.X, depth, seen)
	case *ssa.TypeAssert:
		traceInto(s, x.X, depth, seen)
	case *ssa.Slice:
		traceInto(s, x.X, depth, seen)
		traceInto(s, x.Low, depth, seen)
		traceInto(s, x.High, depth, seen)
		if _, isAlloc := x.X.(*ssa.Alloc); isAlloc {
			traceFilledBy(s, x, depth, seen) // make([]T, const): filled by calls receiving the slice
		}
	case *ssa.SliceToArrayPointer:
		traceInto(s, x.X, depth, seen)
	case *ssa.MakeClosure:
		for _, b := range x.Bindings {
			traceInto(s, b, depth, seen)
		}
	case *ssa.Alloc:
		traceAlloc(s, x, depth, seen)
	case *ssa.Call:
		traceCall(s, x, -1, depth, seen)
	case *ssa.MakeSlice:
		traceFilledBy(s, x, depth, seen)
	case *ssa.MakeMap, *ssa.MakeChan:
	case *ssa.Range, *ssa.Next:
		for _, op := range x.(ssa.Instruction).Operands(nil) {
			if *op != nil {
				traceInto(s, *op, depth, seen)
			}
		}
	default:
		s.Opaque++
	}
}

// traceAlloc: the content of a local cell = everything stored into it (or its fields/elements).
func traceAlloc(s *Sources, al *ssa.Alloc, depth int, seen map[ssa.Value]bool) {
	refs := al.Referrers()
	if refs == nil {
		return
	}
	for _, r := range *refs {
		switch u := r.(type) {
		case *ssa.Store:
			if u.Addr == al {
				traceInto(s, u.Val, depth, seen)
			}
		case *ssa.FieldAddr:
			for _, rr := range *u.Referrers() {
				if st, ok := rr.(*ssa.Store); ok && st.Addr == u {
					traceInto(s, st.Val, depth, seen)
				}
			}
		case *ssa.IndexAddr:
			for _, rr := range *u.Referrers() {
				if st, ok := rr.(*ssa.Store); ok && st.Addr == u {
					traceInto(s, st.Val, depth, seen)
				}
			}
		}
	}
}

func traceAllocField(s *Sources, al *ssa.Alloc, field int, depth int, seen map[ssa.Value]bool) {
	refs := al.Referrers()
	if refs == nil {
		return
	}
	for _, r := range *refs {
		// a store of the whole struct defines the field as well
		if st, ok := r.(*ssa.Store); ok && st.Addr == al {
			traceInto(s, st.Val, depth, seen)
		}
		if u, ok := r.(*ssa.FieldAddr); ok && u.Field == field {
			for _, rr := range *u.Referrers() {
				if st, ok := rr.(*ssa.Store); ok && st.Addr == u {
					traceInto(s, st.Val, depth, seen)
				}
			}
		}
	}
}

func traceCall(s *Sources, c *ssa.Call, resultIdx int, depth int, seen map[ssa.Value]bool) {
	cc := c.Common()
	if b, ok := cc.Value.(*ssa.Builtin); ok {
		_ = b
		for _, a := range cc.Args {
			traceInto(s, a, depth, seen)
		}
		return
	}
	callee := CommonCallee(cc)
	if callee != nil {
		s.Calls[callee] = true
	}
	if callee != nil && s.Resolvers != nil && (s.Resolvers[callee] || s.Resolvers[callee.Origin()]) {
		if cc.IsInvoke() {
			traceInto(s, cc.Value, depth, seen)
		}
		for i, a := range cc.Args {
			if i == 0 && !cc.IsInvoke() && cc.Signature().Recv() != nil {
				traceInto(s, a, depth, seen) // the receiver (the graph) is a value
				continue
			}
			s.asKey(a, depth)
		}
		return
	}
	if callee != nil && s.NoInline != nil && (s.NoInline[callee] || s.NoInline[callee.Origin()]) {
		return
	}
	fn := StaticFn(cc)
	if fn != nil && fn.Blocks != nil && IsRepo(fn) && depth > 0 {
		// trace the callee's returned values to its parameters
		inner := newSources()
		inner.Resolvers = s.Resolvers
		inner.NoInline = s.NoInline
		inner.keyMode = s.keyMode
		innerSeen := map[ssa.Value]bool{}
		Instrs(fn, func(in ssa.Instruction) {
			if ret, ok := in.(*ssa.Return); ok {
				for i, rv := range ret.Results {
					if resultIdx >= 0 && i != resultIdx {
						continue
					}
					traceInto(inner, rv, depth-1, innerSeen)
				}
			}
		})
		for f := range inner.Fields {
			s.Fields[f] = true
		}
		for f := range inner.KeyFields {
			s.KeyFields[f] = true
		}
		for cl := range inner.Calls {
			s.Calls[cl] = true
		}
		for g := range inner.Globals {
			s.Globals[g] = true
		}
		s.Consts = append(s.Consts, inner.Consts...)
		s.Opaque += inner.Opaque
		for prm := range inner.Params {
			for i, fp := range fn.Params {
				if fp == prm && i < len(cc.Args) {
					traceInto(s, cc.Args[i], depth, seen)
				}
			}
		}
		for prm := range inner.KeyParams {
			for i, fp := range fn.Params {
				if fp == prm && i < len(cc.Args) {
					if s.Resolvers != nil {
						s.asKey(cc.Args[i], depth)
					} else {
						traceInto(s, cc.Args[i], depth, seen)
					}
				}
			}
		}
		if mc, ok := cc.Value.(*ssa.MakeClosure); ok {
			for fv := range inner.Free {
				for i, f := range fn.FreeVars {
					if f == fv && i < len(mc.Bindings) {
						traceInto(s, mc.Bindings[i], depth, seen)
					}
				}
			}
		}
		return
	}
	if cc.IsInvoke() {
		traceInto(s, cc.Value, depth, seen)
	} else if fn == nil {
		traceInto(s, cc.Value, depth, seen)
	}
	for _, a := range cc.Args {
		traceInto(s, a, depth, seen)
	}
}

// ---------------------------------------------------------------------------
// Call-graph helpers (engine E8)
// ---------------------------------------------------------------------------

// CGPath finds a shortest call-graph path from `from` to a function satisfying target.
func CGPath(cg *callgraph.Graph, from *ssa.Function, target func(*ssa.Function) bool) []*ssa.Function {
	start := cg.Nodes[from]
	if start == nil {
		return nil
	}
	prev := map[*callgraph.Node]*callgraph.Node{start: nil}
	queue := []*callgraph.Node{start}
	for len(queue) > 0 {
		n := queue[0]
		queue = queue[1:]
		if n != start && target(n.Func) || (n == start && target(n.Func) && false) {
			var path []*ssa.Function
			for x := n; x != nil; x = prev[x] {
				path = append([]*ssa.Function{x.Func}, path...)
			}
			return path
		}
		outs := append([]*callgraph.Edge(nil), n.Out...)
		sort.Slice(outs, func(i, j int) bool { return outs[i].Callee.Func.String() < outs[j].Callee.Func.String() })
		for _, e := range outs {
			if _, ok := prev[e.Callee]; !ok {
				prev[e.Callee] = n
				queue = append(queue, e.Callee)
			}
		}
	}
	return nil
}

// CGPathString renders a path.
func CGPathString(path []*ssa.Function) string {
	var s []string
	for _, f := range path {
		s = append(s, FuncName(f))
	}
	return strings.Join(s, " → ")
}

// Reachable returns the set of functions reachable from the roots (roots included).
func Reachable(cg *callgraph.Graph, roots ...*ssa.Function) map[*ssa.Function]bool {
	out := map[*ssa.Function]bool{}
	var stack []*callgraph.Node
	for _, r := range roots {
		if n := cg.Nodes[r]; n != nil {
			stack = append(stack, n)
		} else if r != nil {
			out[r] = true
		}
	}
	for len(stack) > 0 {
		n := stack[len(stack)-1]
		stack = stack[:len(stack)-1]
		if out[n.Func] {
			continue
		}
		out[n.Func] = true
		for _, e := range n.Out {
			if !out[e.Callee.Func] {
				stack = append(stack, e.Callee)
			}
		}
	}
	return out
}

// SliceReaches reports whether the backward slice of `from` contains `target`.
func SliceReaches(from, target ssa.Value, depth int) bool {
	seen := map[ssa.Value]bool{}
	traceInto(newSources(), from, depth, seen)
	return seen[target]
}

// LiteralFields returns, for a struct allocated by a composite literal
// (Alloc + field stores), the value stored into each field (by name).  A field
// stored more than once gets all values.
func LiteralFields(al *ssa.Alloc) map[string][]ssa.Value {
	out := map[string][]ssa.Value{}
	refs := al.Referrers()
	if refs == nil {
		return out
	}
	for _, r := range *refs {
		fa, ok := r.(*ssa.FieldAddr)
		if !ok {
			continue
		}
		f := FieldOfAddr(fa)
		for _, rr := range *fa.Referrers() {
			if st, ok := rr.(*ssa.Store); ok && st.Addr == fa {
				out[f.Name()] = append(out[f.Name()], st.Val)
			}
		}
	}
	return out
}

// AllocsOf finds the allocations of the named struct type in fn.
func AllocsOf(fn *ssa.Function, named *types.Named) []*ssa.Alloc {
	var out []*ssa.Alloc
	Instrs(fn, func(in ssa.Instruction) {
		al, ok := in.(*ssa.Alloc)
		if !ok {
			return
		}
		pt, ok := al.Type().(*types.Pointer)
		if !ok {
			return
		}
		if n, ok := pt.Elem().(*types.Named); ok && n.Obj() == named.Obj() {
			out = append(out, al)
		}
	})
	return out
}

// FlowSink is a place a value flows into (forward slice).
type FlowSink struct {
	Callee *types.Func // call argument sink
	Arg    int
	Field  *types.Var // field store sink
	Cmp    *ssa.BinOp // comparison sink
	Ret    int        // return index (when IsRet)
	IsRet  bool
	Instr  ssa.Instruction
}

// ForwardSinks follows a value forward through conversions, calls (the result
// of a call is assumed to derive from its arguments), phis, local cells and
// extracts, and reports the calls, field stores, comparisons and returns it reaches.
func ForwardSinks(v ssa.Value, maxDepth int) []FlowSink {
	var out []FlowSink
	seen := map[ssa.Value]bool{}
	var walk func(v ssa.Value, d int)
	walk = func(v ssa.Value, d int) {
		if v == nil || seen[v] || d > maxDepth {
			return
		}
		seen[v] = true
		refs := v.Referrers()
		if refs == nil {
			return
		}
		for _, r := range *refs {
			switch u := r.(type) {
			case *ssa.Call:
				cc := u.Common()
				callee := CommonCallee(cc)
				for i, a := range cc.Args {
					if a == v {
						out = append(out, FlowSink{Callee: callee, Arg: i, Instr: u})
					}
				}
				if _, isB := cc.Value.(*ssa.Builtin); isB || callee != nil {
					walk(u, d+1)
				}
			case *ssa.Convert:
				walk(u, d+1)
			case *ssa.ChangeType:
				walk(u, d+1)
			case *ssa.MakeInterface:
				walk(u, d+1)
			case *ssa.Phi:
				walk(u, d+1)
			case *ssa.Extract:
				walk(u, d+1)
			case *ssa.Slice:
				walk(u, d+1)
			case *ssa.BinOp:
				switch u.Op {
				case token.EQL, token.NEQ, token.LSS, token.LEQ, token.GTR, token.GEQ:
					out = append(out, FlowSink{Cmp: u, Instr: u})
				}
				walk(u, d+1)
			case *ssa.UnOp:
				walk(u, d+1)
			case *ssa.Store:
				if u.Val != v {
					continue
				}
				switch a := u.Addr.(type) {
				case *ssa.FieldAddr:
					out = append(out, FlowSink{Field: FieldOfAddr(a), Instr: u})
				case *ssa.Alloc:
					for _, rr := range *a.Referrers() {
						if ld, ok := rr.(*ssa.UnOp); ok && ld.Op == token.MUL {
							walk(ld, d+1)
						}
					}
				case *ssa.IndexAddr:
					if al, ok := a.X.(*ssa.Alloc); ok { // varargs array
						for _, rr := range *al.Referrers() {
							if sl, ok := rr.(*ssa.Slice); ok {
								walk(sl, d+1)
							}
						}
					}
				}
			case *ssa.Return:
				for i, rv := range u.Results {
					if rv == v {
						out = append(out, FlowSink{IsRet: true, Ret: i, Instr: u})
					}
				}
			}
		}
	}
	walk(v, 0)
	return out
}

// OriginParam resolves a value to the function parameter it is a copy of,
// looking through conversions, spilled parameter cells (`t = new T (p); *t = p`)
// and captured variables of enclosing functions.  nil if it is not one.
func OriginParam(v ssa.Value) *ssa.Parameter {
	v = SkipConv(v)
	switch x := v.(type) {
	case *ssa.Parameter:
		return x
	case *ssa.UnOp:
		if x.Op != token.MUL {
			return nil
		}
		switch a := x.X.(type) {
		case *ssa.Alloc:
			return cellParam(a)
		case *ssa.FreeVar:
			fn := a.Parent()
			parent := fn.Parent()
			if parent == nil {
				return nil
			}
			idx := -1
			for i, fv := range fn.FreeVars {
				if fv == a {
					idx = i
				}
			}
			var res *ssa.Parameter
			Instrs(parent, func(in ssa.Instruction) {
				mc, ok := in.(*ssa.MakeClosure)
				if !ok || mc.Fn != ssa.Value(fn) || idx >= len(mc.Bindings) {
					return
				}
				switch b := mc.Bindings[idx].(type) {
				case *ssa.Alloc:
					res = cellParam(b)
				case *ssa.FreeVar:
					// captured from a grandparent: resolve one more level through a synthetic load
					res = OriginParam(&ssa.UnOp{Op: token.MUL, X: b})
				}
			})
			return res
		}
	}
	return nil
}

func cellParam(a *ssa.Alloc) *ssa.Parameter {
	var prm *ssa.Parameter
	n := 0
	for _, r := range *a.Referrers() {
		if st, ok := r.(*ssa.Store); ok && st.Addr == ssa.Value(a) {
			n++
			if p, ok := st.Val.(*ssa.Parameter); ok {
				prm = p
			}
		}
	}
	if n == 1 {
		return prm
	}
	return nil
}

// traceFilledBy: a fresh buffer's content is whatever the calls that receive it
// as destination write into it (PutUint64(buf, v), copy(buf, src)).
func traceFilledBy(s *Sources, buf ssa.Value, depth int, seen map[ssa.Value]bool) {
	refs := buf.Referrers()
	if refs == nil {
		return
	}
	for _, r := range *refs {
		c, ok := r.(*ssa.Call)
		if !ok {
			continue
		}
		isDst := false
		for i, a := range c.Call.Args {
			if a == buf && i <= 1 {
				isDst = true
			}
		}
		if !isDst {
			continue
		}
		for _, a := range c.Call.Args {
			if a != buf {
				traceInto(s, a, depth, seen)
			}
		}
	}
}

// SliceReachesPred reports whether the backward slice of `from` contains a value satisfying pred.
func SliceReachesPred(from ssa.Value, pred func(ssa.Value) bool, depth int) bool {
	seen := map[ssa.Value]bool{}
	traceInto(newSources(), from, depth, seen)
	for v := range seen {
		if pred(v) {
			return true
		}
	}
	return false
}

// TraceFrom is Trace read from fn: where the provenance of v ends in parameters of a helper that fn's family calls
// from one site, it continues with the arguments passed there (fields, calls and parameters are merged in).
func TraceFrom(fn *ssa.Function, v ssa.Value, depth int) *Sources {
	s := Trace(v, depth)
	for i := 0; i < 2; i++ {
		var more []*Sources
		for prm := range s.Params {
			if prm.Parent() == fn {
				continue
			}
			if cv := CallerValue(fn, prm); cv != ssa.Value(prm) {
				more = append(more, Trace(cv, depth))
			}
		}
		if len(more) == 0 {
			break
		}
		for _, m := range more {
			for k := range m.Fields {
				s.Fields[k] = true
			}
			for k := range m.Calls {
				s.Calls[k] = true
			}
			for k := range m.Params {
				s.Params[k] = true
			}
			for k := range m.KeyFields {
				s.KeyFields[k] = true
			}
		}
	}
	return s
}

// HasCallNamed reports whether a call to a function or method of that name lies on the provenance of the value.
func (s *Sources) HasCallNamed(name string) bool {
	for c := range s.Calls {
		if c.Name() == name {
			return true
		}
	}
	return false
}

// OperandSlice returns the intra-procedural backward slice of v: every value reachable through operands (calls
// depend on their callee value and all arguments; loads of a local cell depend on every value stored into it).
// Callees are not entered.
func OperandSlice(v ssa.Value) map[ssa.Value]bool {
	seen := map[ssa.Value]bool{}
	var walk func(v ssa.Value)
	walk = func(v ssa.Value) {
		if v == nil || seen[v] {
			return
		}
		seen[v] = true
		if in, ok := v.(ssa.Instruction); ok {
			for _, op := range in.Operands(nil) {
				if *op != nil {
					walk(*op)
				}
			}
		}
		if al, ok := v.(*ssa.Alloc); ok {
			var stores func(addr ssa.Value)
			stores = func(addr ssa.Value) {
				if addr.Referrers() == nil {
					return
				}
				for _, ref := range *addr.Referrers() {
					switch x := ref.(type) {
					case *ssa.Store:
						if x.Addr == addr {
							walk(x.Val)
						}
					case *ssa.IndexAddr:
						if x.X == addr {
							stores(x)
						}
					case *ssa.FieldAddr:
						if x.X == addr {
							stores(x)
						}
					}
				}
			}
			stores(al)
		}
	}
	walk(v)
	return seen
}
