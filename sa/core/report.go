package core

import (
	"crypto/sha1"
	"encoding/json"
	"fmt"
	"golang.org/x/tools/go/ssa"
	"os"
	"path/filepath"
	"sort"
	"strings"
)

// Status of one obligation.
type Status string

const (
	OK        Status = "ok"
	Violated  Status = "violated"
	Undec     Status = "undecided"
	KnownOpen Status = "known-finding"
)

// Obligation is one rule instance evaluated on the current tree.
type Obligation struct {
	Rule      string   `json:"rule"`      // e.g. C03.R1
	Construct string   `json:"construct"` // stable key: function / callee / field / case label (never a line)
	Desc      string   `json:"desc"`      // what is required
	Status    Status   `json:"status"`
	Detail    string   `json:"detail,omitempty"` // why it failed / what was found
	Sites     []string `json:"sites,omitempty"`  // file:line of sites analysed
}

// Key identifies an obligation for known-findings matching.
func (o *Obligation) Key() string { return o.Rule + "|" + o.Construct }

// Report collects obligations of one property run.
type Report struct {
	Property    string
	Obligations []*Obligation
	Funcs       map[string]bool // functions analysed
	CallSites   int
	Notes       []string
}

func NewReport(prop string) *Report {
	return &Report{Property: prop, Funcs: map[string]bool{}}
}

// Add records an obligation.
func (r *Report) Add(o *Obligation) *Obligation {
	r.Obligations = append(r.Obligations, o)
	return o
}

// Pass records a discharged obligation.
func (r *Report) Pass(rule, construct, desc string, sites ...string) {
	r.Add(&Obligation{Rule: rule, Construct: construct, Desc: desc, Status: OK, Sites: sites})
}

// Fail records a violated obligation.
func (r *Report) Fail(rule, construct, desc, detail string, sites ...string) {
	r.Add(&Obligation{Rule: rule, Construct: construct, Desc: desc, Status: Violated, Detail: detail, Sites: sites})
}

// Check records ok/violated depending on cond.
func (r *Report) Check(cond bool, rule, construct, desc, detail string, sites ...string) {
	if cond {
		r.Pass(rule, construct, desc, sites...)
	} else {
		r.Fail(rule, construct, desc, detail, sites...)
	}
}

// Touch notes that a function was analysed.
func (r *Report) Touch(names ...string) {
	for _, n := range names {
		r.Funcs[n] = true
	}
}

// Guard runs f; an Undecided panic (or any other panic) becomes an undecided obligation.
//
// Anchor re-resolution.  The rule bodies look their entry points up by name (Prog.Func).  When the obligations a
// body produces are not all discharged, the outermost Guard re-runs the body with ONE of the anchors it looked up
// resolved to a helper of that anchor instead: a function of the same package that the anchor calls statically
// and that no other function calls (the shape an "extract function" refactoring leaves behind).  If the body then
// discharges every obligation, those results stand and a note records on which helper they were decided;
// otherwise the first results stand.  A step that was moved into a helper carries the constructs the rule reads
// with it, so the rule is decided where the code now is; a rule that fails on the anchor and on every helper
// fails as before.  (An anchor that kept a violating copy of the step while a helper holds a good one would be
// masked: the breaking variants and seeded changes of the thorough tier are the guard against that.)
func (r *Report) Guard(rule, construct, desc string, f func()) {
	run := func() {
		defer func() {
			if x := recover(); x != nil {
				msg := fmt.Sprint(x)
				if u, ok := x.(Undecided); ok {
					msg = u.Msg
				} else {
					msg = "engine panic: " + msg
				}
				r.Add(&Obligation{Rule: rule, Construct: construct, Desc: desc, Status: Undec, Detail: msg})
			}
		}()
		f()
	}
	if guardDepth > 0 || AnchorHelpers == nil {
		guardDepth++
		run()
		guardDepth--
		return
	}
	guardDepth++
	defer func() { guardDepth--; anchorSubst = nil; anchorLog = nil }()
	start := len(r.Obligations)
	allOK := func() bool {
		for _, o := range r.Obligations[start:] {
			if o.Status == Violated || o.Status == Undec {
				return false
			}
		}
		return true
	}
	anchorLog = map[*ssa.Function]bool{}
	anchorSubst = nil
	run()
	if allOK() {
		return
	}
	first := append([]*Obligation(nil), r.Obligations[start:]...)
	var looked []*ssa.Function
	for fn := range anchorLog {
		looked = append(looked, fn)
	}
	sort.Slice(looked, func(i, j int) bool { return looked[i].String() < looked[j].String() })
	anchorLog = nil
	for _, fn := range looked {
		for _, h := range AnchorHelpers(fn) {
			r.Obligations = r.Obligations[:start]
			anchorSubst = map[*ssa.Function]*ssa.Function{fn: h}
			run()
			anchorSubst = nil
			if allOK() && len(r.Obligations) > start {
				r.Notes = append(r.Notes, fmt.Sprintf("%s %s: decided on %s, the helper of %s that now holds the step", rule, construct, h.String(), fn.String()))
				r.Touch(FuncName(h))
				return
			}
		}
	}
	// no helper discharges the obligations: the first results stand.  The body is run once more on the real anchors so
	// that whatever it left in variables shared with later rules is what the real anchors give, not a helper's.
	r.Obligations = r.Obligations[:start]
	anchorSubst = nil
	run()
	r.Obligations = append(r.Obligations[:start], first...)
}

// GuardExact is Guard without anchor re-resolution, for rules that state an absence over the anchored function (a
// helper, where the thing is trivially absent, must not discharge them) or that already look at the anchor's family.
func (r *Report) GuardExact(rule, construct, desc string, f func()) {
	guardDepth++
	defer func() { guardDepth-- }()
	r.Guard(rule, construct, desc, f)
}

var (
	guardDepth  int
	anchorLog   map[*ssa.Function]bool
	anchorSubst map[*ssa.Function]*ssa.Function
	// AnchorHelpers gives the re-resolution candidates of an anchor (set by the loader; nil disables re-resolution).
	AnchorHelpers func(*ssa.Function) []*ssa.Function
)

// resolveAnchor is applied by Prog.Func to every anchor it returns.
func resolveAnchor(fn *ssa.Function) *ssa.Function {
	if anchorLog != nil {
		anchorLog[fn] = true
	}
	if h, ok := anchorSubst[fn]; ok {
		return h
	}
	return fn
}

// MinInstances fails as undecided if fewer than n obligations of the rule exist.
func (r *Report) MinInstances(rule string, n int) {
	c := 0
	for _, o := range r.Obligations {
		if o.Rule == rule {
			c++
		}
	}
	if c < n {
		r.Add(&Obligation{Rule: rule, Construct: "instance-count", Desc: fmt.Sprintf("at least %d instances of the rule are matched", n),
			Status: Undec, Detail: fmt.Sprintf("only %d instances matched; the rule would pass vacuously", c)})
	}
}

// KnownFinding is an entry of /verif/known_findings.json.
type KnownFinding struct {
	Property  string `json:"property"`
	Rule      string `json:"rule"`
	Construct string `json:"construct"`
	What      string `json:"what"`
	Status    string `json:"status"` // open | fixed
	Commit    string `json:"commit,omitempty"`
}

func LoadKnown(path string) ([]KnownFinding, error) {
	b, err := os.ReadFile(path)
	if err != nil {
		if os.IsNotExist(err) {
			return nil, nil
		}
		return nil, err
	}
	var k []KnownFinding
	if err := json.Unmarshal(b, &k); err != nil {
		return nil, err
	}
	return k, nil
}

// ApplyKnown turns violated obligations listed as open known findings into KnownOpen (own rules: rule+construct; rules
// folded in from an included property: "<that property's rule> <construct>").
func (r *Report) ApplyKnown(known []KnownFinding, print bool) {
	open := map[string]KnownFinding{}
	for _, k := range known {
		if k.Status != "open" {
			continue
		}
		if k.Property == r.Property {
			open[k.Rule+"|"+k.Construct] = k
		}
		open[r.Property+".I|"+k.Rule+" "+k.Construct] = k
	}
	for _, o := range r.Obligations {
		if o.Status == Violated {
			if k, ok := open[o.Key()]; ok {
				o.Status = KnownOpen
				if print {
					fmt.Printf("KNOWN-FINDING: property=%s %s %s — %s\n", r.Property, o.Rule, o.Construct, k.What)
				}
			}
		}
	}
}

// Finish applies known findings, prints the per-obligation lines, writes replay
// files, and returns (violations, undecided).
func (r *Report) Finish(known []KnownFinding, outDir string) (viol, undec int) {
	r.ApplyKnown(known, true)
	sort.SliceStable(r.Obligations, func(i, j int) bool {
		a, b := r.Obligations[i], r.Obligations[j]
		if a.Rule != b.Rule {
			return ruleLess(a.Rule, b.Rule)
		}
		return a.Construct < b.Construct
	})
	for _, o := range r.Obligations {
		switch o.Status {
		case OK:
			fmt.Printf("ok        %-8s %s — %s\n", o.Rule, o.Construct, o.Desc)
		case KnownOpen:
			fmt.Printf("known     %-8s %s — %s: %s\n", o.Rule, o.Construct, o.Desc, o.Detail)
		case Undec:
			undec++
			fmt.Printf("UNDECIDED %-8s %s — %s: %s\n", o.Rule, o.Construct, o.Desc, o.Detail)
		case Violated:
			viol++
			fmt.Printf("violated  %-8s %s — %s: %s %s\n", o.Rule, o.Construct, o.Desc, o.Detail, strings.Join(o.Sites, " "))
			h := sha1.Sum([]byte(o.Key()))
			name := fmt.Sprintf("%s-%s-%x.json", r.Property, strings.ReplaceAll(o.Rule, ".", "_"), h[:4])
			path := filepath.Join(outDir, name)
			_ = os.MkdirAll(outDir, 0o755)
			b, _ := json.MarshalIndent(map[string]interface{}{
				"property": r.Property, "rule": o.Rule, "construct": o.Construct,
				"desc": o.Desc, "detail": o.Detail, "sites": o.Sites,
			}, "", " ")
			_ = os.WriteFile(path, b, 0o644)
			fmt.Printf("VIOLATION property=%s replay=%s\n", r.Property, path)
		}
	}
	return
}

func ruleLess(a, b string) bool {
	// C03.R10 after C03.R2
	pa, pb := strings.SplitN(a, ".R", 2), strings.SplitN(b, ".R", 2)
	if len(pa) == 2 && len(pb) == 2 && pa[0] == pb[0] {
		var x, y int
		fmt.Sscanf(pa[1], "%d", &x)
		fmt.Sscanf(pb[1], "%d", &y)
		if x != y {
			return x < y
		}
	}
	return a < b
}

// Evidence is the evidence file content (EVIDENCE.schema.json, level other).
type Evidence struct {
	PropertyID  string                 `json:"property_id"`
	Tier        string                 `json:"tier"`
	Seed        int                    `json:"seed"`
	Level       string                 `json:"level"`
	Coverage    map[string]interface{} `json:"coverage"`
	Assumptions []string               `json:"assumptions"`
	WallS       float64                `json:"wall_s"`
	Violations  int                    `json:"violations"`
}

// WriteEvidence writes the evidence file for this run.
func (r *Report) WriteEvidence(path, tier string, seed int, wall float64, p *Prog, explanation string, notCovered string, assumptions []string, extra map[string]interface{}) error {
	disc, viol, undec, known := 0, 0, 0, 0
	rules := map[string]bool{}
	var samples []interface{}
	for _, o := range r.Obligations {
		rules[o.Rule] = true
		switch o.Status {
		case OK:
			disc++
		case Violated:
			viol++
		case Undec:
			undec++
		case KnownOpen:
			known++
		}
		samples = append(samples, o)
	}
	var fns []string
	for f := range r.Funcs {
		fns = append(fns, f)
	}
	sort.Strings(fns)
	var rl []string
	for k := range rules {
		rl = append(rl, k)
	}
	sort.Slice(rl, func(i, j int) bool { return ruleLess(rl[i], rl[j]) })
	cov := map[string]interface{}{
		"explanation":        explanation,
		"not_covered":        notCovered,
		"obligations":        len(r.Obligations),
		"discharged":         disc,
		"violated":           viol,
		"undecided":          undec,
		"known_findings":     known,
		"rules":              rl,
		"checker_cmd":        "bin/check " + r.Property + " " + tier,
		"trusted_base":       []string{"go/types, go/ssa, callgraph/vta (golang.org/x/tools v0.29.0)", "Go type checker", "generated protobuf code (struct tags taken as schema)", "external packages bstream, dstore, roaring, shopspring/decimal"},
		"samples":            samples,
		"functions_analysed": fns,
		"call_sites":         r.CallSites,
		"notes":              r.Notes,
	}
	if p != nil {
		cov["packages_loaded"] = len(p.Roots)
		cov["load_s"] = p.LoadSecs
		cov["ssa_s"] = p.SSASecs
	}
	for k, v := range extra {
		cov[k] = v
	}
	ev := Evidence{PropertyID: r.Property, Tier: tier, Seed: seed, Level: "other", Coverage: cov,
		Assumptions: assumptions, WallS: wall, Violations: viol}
	b, err := json.MarshalIndent(ev, "", " ")
	if err != nil {
		return err
	}
	_ = os.MkdirAll(filepath.Dir(path), 0o755)
	return os.WriteFile(path, b, 0o644)
}
