package core

import (
	"go/ast"
	"go/token"
	"go/types"
	"strings"

	"golang.org/x/tools/go/ast/astutil"
	"golang.org/x/tools/go/packages"
)

// FileAt returns the repository package and file containing pos.
func (p *Prog) FileAt(pos token.Pos) (*packages.Package, *ast.File) {
	if !pos.IsValid() {
		return nil, nil
	}
	for _, pk := range p.Roots {
		for _, f := range pk.Syntax {
			if f.FileStart <= pos && pos <= f.FileEnd {
				return pk, f
			}
		}
	}
	return nil, nil
}

// PathAt returns the AST path enclosing pos (innermost first).
func (p *Prog) PathAt(pos token.Pos) ([]ast.Node, *packages.Package) {
	pk, f := p.FileAt(pos)
	if f == nil {
		return nil, nil
	}
	path, _ := astutil.PathEnclosingInterval(f, pos, pos)
	return path, pk
}

// CaseLabels returns, outermost first, the labels of the case clauses
// enclosing pos ("default" for default clauses).  Case expressions are
// rendered by the name of the constant they denote when they denote one.
// Clauses reached by fallthrough are labelled with the textual clause only
// (the caller can use FallthroughInto to extend).
func (p *Prog) CaseLabels(pos token.Pos) []string {
	path, pk := p.PathAt(pos)
	var out []string
	for i := len(path) - 1; i >= 0; i-- {
		cc, ok := path[i].(*ast.CaseClause)
		if !ok {
			continue
		}
		if cc.List == nil {
			out = append(out, "default")
			continue
		}
		var ls []string
		for _, e := range cc.List {
			ls = append(ls, ExprLabel(pk, e))
		}
		out = append(out, strings.Join(ls, ","))
	}
	return out
}

// ExprLabel renders a case expression: constant name if it is one, else source-like text.
func ExprLabel(pk *packages.Package, e ast.Expr) string {
	switch x := e.(type) {
	case *ast.Ident:
		if c, ok := pk.TypesInfo.Uses[x].(*types.Const); ok {
			return c.Name()
		}
		return x.Name
	case *ast.SelectorExpr:
		if c, ok := pk.TypesInfo.Uses[x.Sel].(*types.Const); ok {
			return c.Name()
		}
		return types.ExprString(e)
	case *ast.StarExpr:
		return "*" + ExprLabel(pk, x.X)
	}
	if tv, ok := pk.TypesInfo.Types[e]; ok && tv.Value != nil {
		return tv.Value.ExactString()
	}
	return types.ExprString(e)
}

// EnclosingFuncDecl returns the FuncDecl enclosing pos.
func (p *Prog) EnclosingFuncDecl(pos token.Pos) *ast.FuncDecl {
	path, _ := p.PathAt(pos)
	for _, n := range path {
		if fd, ok := n.(*ast.FuncDecl); ok {
			return fd
		}
	}
	return nil
}

// CalleeObj resolves the called function object of a call expression (nil for builtins/func values).
func CalleeObj(info *types.Info, call *ast.CallExpr) *types.Func {
	var id *ast.Ident
	switch f := ast.Unparen(call.Fun).(type) {
	case *ast.Ident:
		id = f
	case *ast.SelectorExpr:
		id = f.Sel
	case *ast.IndexExpr:
		switch g := ast.Unparen(f.X).(type) {
		case *ast.Ident:
			id = g
		case *ast.SelectorExpr:
			id = g.Sel
		}
	}
	if id == nil {
		return nil
	}
	if fn, ok := info.Uses[id].(*types.Func); ok {
		return fn
	}
	return nil
}
