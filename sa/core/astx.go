package core

import (
	"go/ast"
	"go/token"
	"go/types"
	"strings"

	"golang.org/x/tools/go/ast/astutil"
	"golang.org/x/tools/go/packages"
)

// FileAt returns the repository package and file containing pos.
func (p *Prog) FileAt(pos token.Pos) (*packages.Package, *ast.File) {
	if !pos.IsValid() {
		return nil, nil
	}
	for _, pk := range p.Roots {
		for _, f := range pk.Syntax {
			if f.FileStart <= pos && pos <= f.FileEnd {
				return pk, f
			}
		}
	}
	return nil, nil
}

// PathAt returns the AST path enclosing pos (innermost first).
func (p *Prog) PathAt(pos token.Pos) ([]ast.Node, *packages.Package) {
	pk, f := p.FileAt(pos)
	if f == nil {
		return nil, nil
	}
	path, _ := astutil.PathEnclosingInterval(f, pos, pos)
	return path, pk
}

// CaseLabels returns, outermost first, the labels of the case clauses
// enclosing pos ("default" for default clauses).  Case expressions are
// rendered by the name of the constant they denote when they denote one.
// Clauses reached by fallthrough are labelled with the textual clause only
// (the caller can use FallthroughInto to extend).
func (p *Prog) CaseLabels(pos token.Pos) []string {
	path, pk := p.PathAt(pos)
	var out []string
	for i := len(path) - 1; i >= 0; i-- {
		cc, ok := path[i].(*ast.CaseClause)
		if !ok {
			continue
		}
		if cc.List == nil {
			out = append(out, "default")
			continue
		}
		var ls []string
		for _, e := range cc.List {
			ls = append(ls, ExprLabel(pk, e))
		}
		out = append(out, strings.Join(ls, ","))
	}
	return out
}

// ExprLabel renders a case expression: constant name if it is one, else source-like text.
func ExprLabel(pk *packages.Package, e ast.Expr) string {
	switch x := e.(type) {
	case *ast.Ident:
		if c, ok := pk.TypesInfo.Uses[x].(*types.Const); ok {
			return c.Name()
		}
		return x.Name
	case *ast.SelectorExpr:
		if c, ok := pk.TypesInfo.Uses[x.Sel].(*types.Const); ok {
			return c.Name()
		}
		return types.ExprString(e)
	case *ast.StarExpr:
		return "*" + ExprLabel(pk, x.X)
	}
	if tv, ok := pk.TypesInfo.Types[e]; ok && tv.Value != nil {
		return tv.Value.ExactString()
	}
	return types.ExprString(e)
}

// EnclosingFuncDecl returns the FuncDecl enclosing pos.
func (p *Prog) EnclosingFuncDecl(pos token.Pos) *ast.FuncDecl {
	path, _ := p.PathAt(pos)
	for _, n := range path {
		if fd, ok := n.(*ast.FuncDecl); ok {
			return fd
		}
	}
	return nil
}

// CalleeObj resolves the called function object of a call expression (nil for builtins/func values).
func CalleeObj(info *types.Info, call *ast.CallExpr) *types.Func {
	var id *ast.Ident
	switch f := ast.Unparen(call.Fun).(type) {
	case *ast.Ident:
		id = f
	case *ast.SelectorExpr:
		id = f.Sel
	case *ast.IndexExpr:
		switch g := ast.Unparen(f.X).(type) {
		case *ast.Ident:
			id = g
		case *ast.SelectorExpr:
			id = g.Sel
		}
	}
	if id == nil {
		return nil
	}
	if fn, ok := info.Uses[id].(*types.Func); ok {
		return fn
	}
	return nil
}

// SwitchInfo describes one switch / type-switch statement.
type SwitchInfo struct {
	Node       ast.Stmt
	Tag        ast.Expr // nil for `switch {` and type switches
	IsType     bool
	Clauses    []*ast.CaseClause
	Labels     [][]string // per clause, labels (nil slice = default)
	HasDefault bool
	Pos        token.Pos
}

// SwitchesIn lists the switch statements of a function body (outermost first, source order).
func SwitchesIn(pk *packages.Package, body ast.Node) []*SwitchInfo {
	var out []*SwitchInfo
	ast.Inspect(body, func(n ast.Node) bool {
		switch s := n.(type) {
		case *ast.SwitchStmt:
			si := &SwitchInfo{Node: s, Tag: s.Tag, Pos: s.Pos()}
			fillClauses(pk, si, s.Body)
			out = append(out, si)
		case *ast.TypeSwitchStmt:
			si := &SwitchInfo{Node: s, IsType: true, Pos: s.Pos()}
			fillClauses(pk, si, s.Body)
			out = append(out, si)
		}
		return true
	})
	return out
}

func fillClauses(pk *packages.Package, si *SwitchInfo, body *ast.BlockStmt) {
	for _, st := range body.List {
		cc, ok := st.(*ast.CaseClause)
		if !ok {
			continue
		}
		si.Clauses = append(si.Clauses, cc)
		if cc.List == nil {
			si.HasDefault = true
			si.Labels = append(si.Labels, nil)
			continue
		}
		var ls []string
		for _, e := range cc.List {
			if si.IsType {
				ls = append(ls, TypeLabel(pk, e))
			} else {
				ls = append(ls, ExprLabel(pk, e))
			}
		}
		si.Labels = append(si.Labels, ls)
	}
}

// TypeLabel renders a type expression of a type-switch case as [*]Name.
func TypeLabel(pk *packages.Package, e ast.Expr) string {
	if tv, ok := pk.TypesInfo.Types[e]; ok && tv.Type != nil {
		t := tv.Type
		star := ""
		if p, ok := t.(*types.Pointer); ok {
			star = "*"
			t = p.Elem()
		}
		if n, ok := t.(*types.Named); ok {
			return star + n.Obj().Name()
		}
		return star + t.String()
	}
	return types.ExprString(e)
}

// AllLabels returns the flattened label set of the switch.
func (s *SwitchInfo) AllLabels() map[string]bool {
	out := map[string]bool{}
	for _, ls := range s.Labels {
		for _, l := range ls {
			out[l] = true
		}
	}
	return out
}

// TagIsFieldOf reports whether the switch tag is a selector x.<field> (by name) — or a call x.Get<Field>().
func (s *SwitchInfo) TagIsField(field string) bool {
	switch t := ast.Unparen(s.Tag).(type) {
	case *ast.SelectorExpr:
		return t.Sel.Name == field
	case *ast.CallExpr:
		if se, ok := t.Fun.(*ast.SelectorExpr); ok {
			return se.Sel.Name == "Get"+field
		}
	case *ast.Ident:
		return t.Name == field
	}
	return false
}

// TagType returns the type of the switch tag.
func (s *SwitchInfo) TagType(pk *packages.Package) types.Type {
	if s.Tag == nil {
		return nil
	}
	if tv, ok := pk.TypesInfo.Types[s.Tag]; ok {
		return tv.Type
	}
	return nil
}

// ClauseAt returns the index of the clause containing pos, or -1.
func (s *SwitchInfo) ClauseAt(pos token.Pos) int {
	for i, c := range s.Clauses {
		if c.Pos() <= pos && pos <= c.End() {
			return i
		}
	}
	return -1
}
