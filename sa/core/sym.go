package core

import (
	"fmt"
	"go/constant"
	"go/token"
	"go/types"
	"sort"
	"strings"

	"golang.org/x/tools/go/ssa"
)

// ---------------------------------------------------------------------------
// Path-sensitive effect summaries (engine E4).
//
// For one function (or one iteration of one loop) enumerate the acyclic
// control-flow paths and, along each, compute
//   * the net additive change of tracked integer fields as a linear
//     combination of symbolic atoms (len(x.F), parameters, ...),
//   * the ordered list of updates/deletes on tracked map fields with the
//     symbolic key and value,
//   * the branch conditions taken (in a normal form),
//   * the calls made.
// Nothing is executed and no solver is used: terms are canonical strings,
// linear forms are collected syntactically, and path conditions are only used
// (a) to label the path with the enum constant it dispatches on and (b) to
// identify two atoms when the conditions leave "equal" as the only ordering.
// ---------------------------------------------------------------------------

// Lin is a linear form  C + Σ coef·atom.
type Lin struct {
	C int64
	T map[string]int64
}

func LinConst(c int64) Lin { return Lin{C: c, T: map[string]int64{}} }
func LinAtom(a string) Lin { return Lin{T: map[string]int64{a: 1}} }
func (l Lin) clone() Lin {
	n := Lin{C: l.C, T: map[string]int64{}}
	for k, v := range l.T {
		n.T[k] = v
	}
	return n
}
func (l Lin) Add(o Lin, sign int64) Lin {
	n := l.clone()
	n.C += sign * o.C
	for k, v := range o.T {
		n.T[k] += sign * v
		if n.T[k] == 0 {
			delete(n.T, k)
		}
	}
	return n
}
func (l Lin) Scale(k int64) Lin {
	n := LinConst(l.C * k)
	for a, v := range l.T {
		if v*k != 0 {
			n.T[a] = v * k
		}
	}
	return n
}
func (l Lin) IsZero() bool { return l.C == 0 && len(l.T) == 0 }
func (l Lin) Equal(o Lin) bool {
	return l.Add(o, -1).IsZero()
}

// SingleAtom returns the atom if the form is exactly 1·atom.
func (l Lin) SingleAtom() (string, bool) {
	if l.C != 0 || len(l.T) != 1 {
		return "", false
	}
	for a, v := range l.T {
		if v == 1 {
			return a, true
		}
	}
	return "", false
}

// Subst replaces atom a by atom b.
func (l Lin) Subst(a, b string) Lin {
	n := l.clone()
	if v, ok := n.T[a]; ok {
		delete(n.T, a)
		n.T[b] += v
		if n.T[b] == 0 {
			delete(n.T, b)
		}
	}
	return n
}

func (l Lin) String() string {
	if a, ok := l.SingleAtom(); ok {
		return a
	}
	if len(l.T) == 0 {
		return fmt.Sprint(l.C)
	}
	var ks []string
	for k := range l.T {
		ks = append(ks, k)
	}
	sort.Strings(ks)
	var sb strings.Builder
	for _, k := range ks {
		v := l.T[k]
		switch {
		case v == 1:
			sb.WriteString("+" + k)
		case v == -1:
			sb.WriteString("-" + k)
		default:
			fmt.Fprintf(&sb, "%+d*%s", v, k)
		}
	}
	if l.C != 0 || len(ks) == 0 {
		fmt.Fprintf(&sb, "%+d", l.C)
	}
	return sb.String()
}

// leaves collects the leaf terms flowing into v: parameters, free variables,
// results of calls (the call's own term, and the leaves of its arguments),
// and the marker "+" when an addition (integer/float + or a method named Add)
// combines operands.  Phis are resolved along the path.
func (s *symPath) leaves(v ssa.Value) map[string]bool {
	out := map[string]bool{}
	seen := map[ssa.Value]bool{}
	var walk func(v ssa.Value, d int)
	walk = func(v ssa.Value, d int) {
		if v == nil || seen[v] || d > 12 {
			return
		}
		seen[v] = true
		if src, ok := s.loads[v]; ok {
			walk(src, d+1)
			return
		}
		switch x := v.(type) {
		case *ssa.Parameter:
			out[x.Name()] = true
		case *ssa.FreeVar:
			out[x.Name()] = true
		case *ssa.Const, *ssa.Function, *ssa.Builtin, *ssa.Global:
		case *ssa.Phi:
			if e := s.phiEdge(x); e != nil {
				walk(e, d+1)
			} else {
				for _, e := range x.Edges {
					walk(e, d+1)
				}
			}
		case *ssa.BinOp:
			if x.Op == token.ADD {
				out["+"] = true
			}
			walk(x.X, d+1)
			walk(x.Y, d+1)
		case *ssa.Extract:
			out[s.term(x)] = true
			walk(x.Tuple, d+1)
		case *ssa.Call:
			out[s.term(x)] = true
			cc := x.Common()
			if c := CommonCallee(cc); c != nil && c.Name() == "Add" {
				out["+"] = true
			}
			if cc.IsInvoke() {
				walk(cc.Value, d+1)
			}
			for _, a := range cc.Args {
				walk(a, d+1)
			}
		case *ssa.Alloc:
			if refs := x.Referrers(); refs != nil {
				for _, r := range *refs {
					switch u := r.(type) {
					case *ssa.Call:
						// a method called on the cell (x.Add(a, b), x.SetString(s)) writes it
						cc := u.Common()
						if !cc.IsInvoke() && len(cc.Args) > 0 && cc.Args[0] == ssa.Value(x) && cc.Signature().Recv() != nil {
							if c := CommonCallee(cc); c != nil && c.Name() == "Add" {
								out["+"] = true
							}
							for _, a := range cc.Args[1:] {
								walk(a, d+1)
							}
						}
					case *ssa.Store:
						if u.Addr == x {
							walk(u.Val, d+1)
						}
					case *ssa.IndexAddr:
						for _, rr := range *u.Referrers() {
							if st, ok := rr.(*ssa.Store); ok && st.Addr == u {
								walk(st.Val, d+1)
							}
						}
					case *ssa.FieldAddr:
						for _, rr := range *u.Referrers() {
							if st, ok := rr.(*ssa.Store); ok && st.Addr == u {
								walk(st.Val, d+1)
							}
						}
					}
				}
			}
		default:
			if in, ok := v.(ssa.Instruction); ok {
				for _, op := range in.Operands(nil) {
					if *op != nil {
						walk(*op, d+1)
					}
				}
			}
		}
	}
	walk(v, 0)
	return out
}

// Cond is one branch condition in normal form: X op Y (op in == != < <= > >=),
// or a boolean term (Op "true") — with Neg telling whether the false edge was taken.
type Cond struct {
	Op   string
	X, Y string // canonical terms (Lin.String() for arithmetic operands)
	LX   *Lin
	LY   *Lin
	Neg  bool
	// three-way compare: X is Cmp(CmpA, CmpB) and Y an integer constant
	CmpA, CmpB string
}

func (c Cond) String() string {
	s := c.X
	if c.Op != "true" {
		s = c.X + " " + c.Op + " " + c.Y
	}
	if c.Neg {
		return "!(" + s + ")"
	}
	return s
}

// MapEffect is one update of a tracked map.
type MapEffect struct {
	Field string // tracked field name
	Del   bool
	Key   string
	Val   string
	Instr ssa.Instruction
}

func (m MapEffect) String() string {
	if m.Del {
		return fmt.Sprintf("delete(%s,%s)", m.Field, m.Key)
	}
	return fmt.Sprintf("%s[%s]=%s", m.Field, m.Key, m.Val)
}

// CallEffect is one call made on the path.
type CallEffect struct {
	Callee *types.Func
	Args   []string
	Leaves []map[string]bool // per argument: leaf terms (parameters, call results, adds) flowing into it, phis resolved along the path
	Instr  ssa.Instruction
}

// PathSummary is the summary of one acyclic path.
type PathSummary struct {
	Conds        []Cond
	Ints         map[string]Lin // tracked int field -> net change
	Maps         []MapEffect
	Calls        []CallEffect
	Assigns      map[string]string // tracked plain field -> last assigned term
	End          string            // "return" | "panic" | "continue" (back to loop header) | "exit" (left the region)
	EndIn        ssa.Instruction
	Blocks       []*ssa.BasicBlock
	Results      []string          // terms of returned values (End == return)
	BackPhi      map[string]string // End == continue: value fed to each header phi (keyed by source name)
	ResultLeaves []map[string]bool
}

// SymConfig configures the summarizer.
type SymConfig struct {
	Fn *ssa.Function
	// IntFields / MapFields / PlainFields are the tracked fields (by object).
	IntFields   map[*types.Var]string
	MapFields   map[*types.Var]string
	PlainFields map[*types.Var]string
	// Root gives a canonical name to selected values (e.g. every value of type *StoreDelta -> "δ").
	Root func(v ssa.Value) (string, bool)
	// Start block (nil = entry).  StopAt: reaching this block ends the path with End="continue".
	Start  *ssa.BasicBlock
	StopAt *ssa.BasicBlock
	// Region: if non-nil, leaving it ends the path with End="exit".
	Region   map[*ssa.BasicBlock]bool
	MaxPaths int
	// Inline > 0: in terms, a static call to a single-block function of the same package is replaced by the term of its
	// result with the parameters replaced by the argument terms (to that depth).  NoInline excludes callees (constructors
	// whose call is the thing to look at).
	Inline   int
	NoInline map[*ssa.Function]bool
}

type symPath struct {
	cfg     *SymConfig
	pred    map[*ssa.BasicBlock]*ssa.BasicBlock
	env     map[ssa.Value]Lin // snapshot values of tracked int loads
	ints    map[string]Lin
	mapVer  map[string]int
	lookVer map[ssa.Value]int
	cells   map[*ssa.Alloc]ssa.Value // last value stored into a local cell on this path
	loads   map[ssa.Value]ssa.Value  // load instruction -> the value it read from a local cell
	plain   map[*types.Var]ssa.Value // tracked plain field -> last value assigned on this path
	sum     PathSummary
}

// Summarize enumerates the paths.
func Summarize(cfg *SymConfig) []PathSummary {
	if cfg.MaxPaths == 0 {
		cfg.MaxPaths = 20000
	}
	start := cfg.Start
	if start == nil {
		start = cfg.Fn.Blocks[0]
	}
	var out []PathSummary
	var walk func(b *ssa.BasicBlock, from *ssa.BasicBlock, st *symPath, onPath map[*ssa.BasicBlock]bool)
	walk = func(b *ssa.BasicBlock, from *ssa.BasicBlock, st *symPath, onPath map[*ssa.BasicBlock]bool) {
		if len(out) > cfg.MaxPaths {
			Undecide("path explosion in %s", FuncName(cfg.Fn))
		}
		if from != nil {
			st.pred[b] = from
		}
		st.sum.Blocks = append(st.sum.Blocks, b)
		onPath[b] = true
		defer delete(onPath, b)
		for _, in := range b.Instrs {
			st.step(in)
		}
		last := b.Instrs[len(b.Instrs)-1]
		finish := func(kind string) {
			s := st.sum
			s.End = kind
			s.EndIn = last
			s.Ints = map[string]Lin{}
			for k, v := range st.ints {
				s.Ints[k] = v
			}
			out = append(out, s)
		}
		switch t := last.(type) {
		case *ssa.Return:
			for _, r := range t.Results {
				st.sum.Results = append(st.sum.Results, st.term(r))
				st.sum.ResultLeaves = append(st.sum.ResultLeaves, st.leaves(r))
			}
			finish("return")
			return
		case *ssa.Panic:
			finish("panic")
			return
		}
		if len(b.Succs) == 0 {
			finish("return")
			return
		}
		for i, s := range b.Succs {
			ns := st.fork()
			if ifi, ok := last.(*ssa.If); ok {
				ns.addCond(ifi.Cond, i == 1)
			}
			if s == cfg.StopAt {
				c := ns.sum
				c.End = "continue"
				c.EndIn = last
				c.Ints = ns.ints
				c.BackPhi = map[string]string{}
				for _, in := range s.Instrs {
					ph, ok := in.(*ssa.Phi)
					if !ok {
						break
					}
					for pi, pb := range s.Preds {
						if pb == b {
							c.BackPhi[PhiName(ph)] = ns.term(ph.Edges[pi])
						}
					}
				}
				out = append(out, c)
				continue
			}
			if cfg.Region != nil && !cfg.Region[s] {
				c := ns.sum
				c.End = "exit"
				c.EndIn = last
				c.Ints = ns.ints
				out = append(out, c)
				continue
			}
			if onPath[s] {
				// inner cycle: cut (the inner loop body was traversed once)
				c := ns.sum
				c.End = "cycle"
				c.EndIn = last
				c.Ints = ns.ints
				out = append(out, c)
				continue
			}
			walk(s, b, ns, onPath)
		}
	}
	st := &symPath{cfg: cfg, pred: map[*ssa.BasicBlock]*ssa.BasicBlock{}, env: map[ssa.Value]Lin{},
		ints: map[string]Lin{}, mapVer: map[string]int{}, lookVer: map[ssa.Value]int{},
		cells: map[*ssa.Alloc]ssa.Value{}, loads: map[ssa.Value]ssa.Value{}, plain: map[*types.Var]ssa.Value{}}
	st.sum.Assigns = map[string]string{}
	walk(start, nil, st, map[*ssa.BasicBlock]bool{})
	return out
}

func (s *symPath) fork() *symPath {
	n := &symPath{cfg: s.cfg, pred: map[*ssa.BasicBlock]*ssa.BasicBlock{}, env: map[ssa.Value]Lin{},
		ints: map[string]Lin{}, mapVer: map[string]int{}, lookVer: map[ssa.Value]int{},
		cells: map[*ssa.Alloc]ssa.Value{}, loads: map[ssa.Value]ssa.Value{}, plain: map[*types.Var]ssa.Value{}}
	for k, v := range s.plain {
		n.plain[k] = v
	}
	for k, v := range s.cells {
		n.cells[k] = v
	}
	for k, v := range s.loads {
		n.loads[k] = v
	}
	for k, v := range s.pred {
		n.pred[k] = v
	}
	for k, v := range s.env {
		n.env[k] = v
	}
	for k, v := range s.ints {
		n.ints[k] = v
	}
	for k, v := range s.mapVer {
		n.mapVer[k] = v
	}
	for k, v := range s.lookVer {
		n.lookVer[k] = v
	}
	n.sum = s.sum
	n.sum.Conds = append([]Cond(nil), s.sum.Conds...)
	n.sum.Maps = append([]MapEffect(nil), s.sum.Maps...)
	n.sum.Calls = append([]CallEffect(nil), s.sum.Calls...)
	n.sum.Blocks = append([]*ssa.BasicBlock(nil), s.sum.Blocks...)
	n.sum.Assigns = map[string]string{}
	for k, v := range s.sum.Assigns {
		n.sum.Assigns[k] = v
	}
	return n
}

func (s *symPath) trackedInt(addr ssa.Value) (string, bool) {
	fa, ok := addr.(*ssa.FieldAddr)
	if !ok {
		return "", false
	}
	f := FieldOfAddr(fa)
	for k, name := range s.cfg.IntFields {
		if fieldIs(f, k) {
			return name, true
		}
	}
	return "", false
}

func (s *symPath) trackedMap(v ssa.Value) (string, bool) {
	f, _ := LoadedField(v)
	if f == nil {
		return "", false
	}
	for k, name := range s.cfg.MapFields {
		if fieldIs(f, k) {
			return name, true
		}
	}
	return "", false
}

func (s *symPath) step(in ssa.Instruction) {
	switch x := in.(type) {
	case *ssa.UnOp:
		if x.Op == token.MUL {
			if al, ok := x.X.(*ssa.Alloc); ok {
				if v, has := s.cells[al]; has {
					s.loads[x] = v
				}
			}
			if fa, ok := x.X.(*ssa.FieldAddr); ok {
				f := FieldOfAddr(fa)
				for k := range s.cfg.PlainFields {
					if fieldIs(f, k) {
						if v, has := s.plain[k]; has {
							s.loads[x] = v
						}
					}
				}
			}
			if name, ok := s.trackedInt(x.X); ok {
				cur, has := s.ints[name]
				if !has {
					cur = LinConst(0)
				}
				s.env[x] = LinAtom("$"+name).Add(cur, 1)
			}
		}
	case *ssa.Store:
		if al, ok := x.Addr.(*ssa.Alloc); ok {
			s.cells[al] = x.Val
		}
		if name, ok := s.trackedInt(x.Addr); ok {
			l := s.lin(x.Val)
			base := LinAtom("$" + name)
			s.ints[name] = l.Add(base, -1)
			return
		}
		if fa, ok := x.Addr.(*ssa.FieldAddr); ok {
			f := FieldOfAddr(fa)
			for k, name := range s.cfg.PlainFields {
				if fieldIs(f, k) {
					s.sum.Assigns[name] = s.term(x.Val)
					s.plain[k] = x.Val
				}
			}
		}
	case *ssa.MapUpdate:
		if name, ok := s.trackedMap(x.Map); ok {
			s.sum.Maps = append(s.sum.Maps, MapEffect{Field: name, Key: s.term(x.Key), Val: s.term(x.Value), Instr: in})
			s.mapVer[name]++
		}
	case *ssa.Lookup:
		if name, ok := s.trackedMap(x.X); ok {
			s.lookVer[x] = s.mapVer[name]
		}
	case ssa.CallInstruction:
		cc := x.Common()
		if _, ok := IsBuiltinCall(in, "delete"); ok {
			if name, ok := s.trackedMap(cc.Args[0]); ok {
				s.sum.Maps = append(s.sum.Maps, MapEffect{Field: name, Del: true, Key: s.term(cc.Args[1]), Instr: in})
				s.mapVer[name]++
			}
			return
		}
		if callee := CommonCallee(cc); callee != nil {
			ce := CallEffect{Callee: callee, Instr: in}
			if cc.IsInvoke() {
				ce.Args = append(ce.Args, s.term(cc.Value))
			}
			if cc.IsInvoke() {
				ce.Leaves = append(ce.Leaves, s.leaves(cc.Value))
			}
			for _, a := range cc.Args {
				ce.Args = append(ce.Args, s.term(a))
				ce.Leaves = append(ce.Leaves, s.leaves(a))
			}
			s.sum.Calls = append(s.sum.Calls, ce)
		}
	}
}

// lin evaluates an integer-valued SSA value to a linear form.
func (s *symPath) lin(v ssa.Value) Lin {
	if l, ok := s.env[v]; ok {
		return l
	}
	if src, ok := s.loads[v]; ok {
		return s.lin(src)
	}
	switch x := v.(type) {
	case *ssa.Const:
		if x.Value != nil && x.Value.Kind() == constant.Int {
			if i, ok := constant.Int64Val(x.Value); ok {
				return LinConst(i)
			}
		}
	case *ssa.BinOp:
		switch x.Op {
		case token.ADD:
			if isInteger(x.Type()) {
				return s.lin(x.X).Add(s.lin(x.Y), 1)
			}
		case token.SUB:
			if isInteger(x.Type()) {
				return s.lin(x.X).Add(s.lin(x.Y), -1)
			}
		case token.MUL:
			if c, ok := x.Y.(*ssa.Const); ok && c.Value != nil && c.Value.Kind() == constant.Int {
				if i, ok := constant.Int64Val(c.Value); ok {
					return s.lin(x.X).Scale(i)
				}
			}
			if c, ok := x.X.(*ssa.Const); ok && c.Value != nil && c.Value.Kind() == constant.Int {
				if i, ok := constant.Int64Val(c.Value); ok {
					return s.lin(x.Y).Scale(i)
				}
			}
		}
	case *ssa.Convert:
		if isInteger(x.Type()) && isInteger(x.X.Type()) {
			return s.lin(x.X)
		}
	case *ssa.ChangeType:
		return s.lin(x.X)
	case *ssa.Phi:
		if e := s.phiEdge(x); e != nil {
			return s.lin(e)
		}
	}
	return LinAtom(s.term(v))
}

func isInteger(t types.Type) bool {
	b, ok := t.Underlying().(*types.Basic)
	return ok && b.Info()&types.IsInteger != 0
}

func (s *symPath) phiEdge(p *ssa.Phi) ssa.Value {
	pred, ok := s.pred[p.Block()]
	if !ok {
		return nil
	}
	for i, pb := range p.Block().Preds {
		if pb == pred {
			return p.Edges[i]
		}
	}
	return nil
}

// term gives the canonical term of a value.
func (s *symPath) term(v ssa.Value) string {
	if s.cfg.Root != nil {
		if r, ok := s.cfg.Root(v); ok {
			return r
		}
	}
	if l, ok := s.env[v]; ok {
		return l.String()
	}
	if src, ok := s.loads[v]; ok {
		return s.term(src)
	}
	switch x := v.(type) {
	case *ssa.Const:
		if x.Value == nil {
			return "nil"
		}
		return x.Value.ExactString()
	case *ssa.Parameter:
		return x.Name()
	case *ssa.FreeVar:
		return x.Name()
	case *ssa.Global:
		return "&" + x.Name()
	case *ssa.Function:
		return "func:" + FuncName(x)
	case *ssa.UnOp:
		switch x.Op {
		case token.MUL:
			switch a := x.X.(type) {
			case *ssa.FieldAddr:
				f := FieldOfAddr(a)
				return s.term(a.X) + "." + f.Name()
			case *ssa.IndexAddr:
				return s.term(a.X) + "[" + s.term(a.Index) + "]"
			case *ssa.Global:
				return a.Name()
			case *ssa.Alloc:
				// local variable cell: find the unique dominating store on this path is out of scope; name the cell
				return "*" + s.term(a)
			}
			return "*" + s.term(x.X)
		case token.NOT:
			return "!" + s.term(x.X)
		case token.SUB:
			return "-" + s.term(x.X)
		}
	case *ssa.Field:
		return s.term(x.X) + "." + FieldOfValue(x).Name()
	case *ssa.FieldAddr:
		return "&" + s.term(x.X) + "." + FieldOfAddr(x).Name()
	case *ssa.IndexAddr:
		return "&" + s.term(x.X) + "[" + s.term(x.Index) + "]"
	case *ssa.Index:
		return s.term(x.X) + "[" + s.term(x.Index) + "]"
	case *ssa.Lookup:
		name := s.term(x.X)
		if n, ok := s.trackedMap(x.X); ok {
			name = fmt.Sprintf("%s@%d", n, s.lookVer[x])
		}
		return name + "[" + s.term(x.Index) + "]"
	case *ssa.Extract:
		if lk, ok := x.Tuple.(*ssa.Lookup); ok && lk.CommaOk {
			if x.Index == 0 {
				name := s.term(lk.X)
				if n, ok := s.trackedMap(lk.X); ok {
					name = fmt.Sprintf("%s@%d", n, s.lookVer[lk])
				}
				return name + "[" + s.term(lk.Index) + "]"
			}
			name := s.term(lk.X)
			if n, ok := s.trackedMap(lk.X); ok {
				name = fmt.Sprintf("%s@%d", n, s.lookVer[lk])
			}
			return "has(" + name + "," + s.term(lk.Index) + ")"
		}
		// one result of an inlinable call (a single-block helper of the package returning several values)
		if call, ok := x.Tuple.(*ssa.Call); ok && s.cfg.Inline > 0 && !call.Common().IsInvoke() {
			cc := call.Common()
			if callee := StaticFn(cc); callee != nil && callee.Blocks != nil && len(callee.Blocks) == 1 && callee.Pkg == s.cfg.Fn.Pkg && !s.cfg.NoInline[callee] && callee != s.cfg.Fn {
				if rt, ok := callee.Blocks[0].Instrs[len(callee.Blocks[0].Instrs)-1].(*ssa.Return); ok && x.Index < len(rt.Results) {
					argTerms := make([]string, len(cc.Args))
					for i, a := range cc.Args {
						argTerms[i] = s.term(a)
					}
					sub := &symPath{cfg: &SymConfig{Fn: callee, Inline: s.cfg.Inline - 1, NoInline: s.cfg.NoInline, Root: func(v ssa.Value) (string, bool) {
						if prm, ok := v.(*ssa.Parameter); ok {
							for i, cp := range callee.Params {
								if cp == prm && i < len(argTerms) {
									return argTerms[i], true
								}
							}
						}
						return "", false
					}}}
					return sub.term(ReturnValues(rt)[x.Index])
				}
			}
		}
		return fmt.Sprintf("%s#%d", s.term(x.Tuple), x.Index)
	case *ssa.Phi:
		if e := s.phiEdge(x); e != nil {
			return s.term(e)
		}
		return "φ(" + PhiName(x) + ")"
	case *ssa.Convert:
		return s.term(x.X)
	case *ssa.ChangeType:
		return s.term(x.X)
	case *ssa.ChangeInterface:
		return s.term(x.X)
	case *ssa.MakeInterface:
		return s.term(x.X)
	case *ssa.BinOp:
		if isInteger(x.Type()) && (x.Op == token.ADD || x.Op == token.SUB) {
			return "(" + s.lin(x).String() + ")"
		}
		return "(" + s.term(x.X) + " " + x.Op.String() + " " + s.term(x.Y) + ")"
	case *ssa.Slice:
		lo, hi := "", ""
		if x.Low != nil {
			lo = s.term(x.Low)
		}
		if x.High != nil {
			hi = s.term(x.High)
		}
		return s.term(x.X) + "[" + lo + ":" + hi + "]"
	case *ssa.Call:
		cc := x.Common()
		if b, ok := cc.Value.(*ssa.Builtin); ok {
			var as []string
			for _, a := range cc.Args {
				as = append(as, s.term(a))
			}
			return b.Name() + "(" + strings.Join(as, ",") + ")"
		}
		if s.cfg.Inline > 0 && !cc.IsInvoke() {
			if callee := StaticFn(cc); callee != nil && callee.Blocks != nil && len(callee.Blocks) == 1 && callee.Pkg == s.cfg.Fn.Pkg && !s.cfg.NoInline[callee] && callee != s.cfg.Fn {
				if rt, ok := callee.Blocks[0].Instrs[len(callee.Blocks[0].Instrs)-1].(*ssa.Return); ok && len(rt.Results) == 1 {
					argTerms := make([]string, len(cc.Args))
					for i, a := range cc.Args {
						argTerms[i] = s.term(a)
					}
					sub := &symPath{cfg: &SymConfig{Fn: callee, Inline: s.cfg.Inline - 1, NoInline: s.cfg.NoInline, Root: func(v ssa.Value) (string, bool) {
						if prm, ok := v.(*ssa.Parameter); ok {
							for i, cp := range callee.Params {
								if cp == prm && i < len(argTerms) {
									return argTerms[i], true
								}
							}
						}
						return "", false
					}}}
					return sub.term(rt.Results[0])
				}
			}
		}
		name := "?"
		if c := CommonCallee(cc); c != nil {
			name = c.Name()
		}
		var as []string
		if cc.IsInvoke() {
			as = append(as, s.term(cc.Value))
		}
		for _, a := range cc.Args {
			as = append(as, s.term(a))
		}
		return name + "(" + strings.Join(as, ",") + ")"
	case *ssa.Alloc:
		return "alloc:" + x.Name()
	case *ssa.MakeSlice:
		return "make(" + s.term(x.Len) + ")"
	case *ssa.TypeAssert:
		return s.term(x.X) + ".(" + types.TypeString(x.AssertedType, func(p *types.Package) string { return p.Name() }) + ")"
	}
	return "v:" + v.Name()
}

func (s *symPath) addCond(c ssa.Value, neg bool) {
	if src, ok := s.loads[c]; ok {
		c = src
	}
	for {
		if u, ok := c.(*ssa.UnOp); ok && u.Op == token.NOT {
			c = u.X
			neg = !neg
			continue
		}
		break
	}
	if bo, ok := c.(*ssa.BinOp); ok {
		switch bo.Op {
		case token.EQL, token.NEQ, token.LSS, token.LEQ, token.GTR, token.GEQ:
			cd := Cond{Op: bo.Op.String(), Neg: neg}
			if isInteger(bo.X.Type()) {
				lx, ly := s.lin(bo.X), s.lin(bo.Y)
				cd.LX, cd.LY = &lx, &ly
				cd.X, cd.Y = lx.String(), ly.String()
			} else {
				cd.X, cd.Y = s.term(bo.X), s.term(bo.Y)
			}
			if call, ok := bo.X.(*ssa.Call); ok {
				if cl := CommonCallee(call.Common()); cl != nil && (cl.Name() == "Cmp" || cl.Name() == "Compare") {
					var as []ssa.Value
					if call.Call.IsInvoke() {
						as = append(as, call.Call.Value)
					}
					as = append(as, call.Call.Args...)
					if len(as) == 2 {
						cd.CmpA, cd.CmpB = s.term(as[0]), s.term(as[1])
					}
				}
			}
			s.sum.Conds = append(s.sum.Conds, cd)
			return
		}
	}
	s.sum.Conds = append(s.sum.Conds, Cond{Op: "true", X: s.term(c), Neg: neg})
}

// ---------------------------------------------------------------------------
// Ordering constraints between atoms (finite set of orderings, no solver)
// ---------------------------------------------------------------------------

const (
	ordLT = 1 << iota
	ordEQ
	ordGT
)

func ordSet(op string, neg bool) int {
	var s int
	switch op {
	case "==":
		s = ordEQ
	case "!=":
		s = ordLT | ordGT
	case "<":
		s = ordLT
	case "<=":
		s = ordLT | ordEQ
	case ">":
		s = ordGT
	case ">=":
		s = ordGT | ordEQ
	default:
		return ordLT | ordEQ | ordGT
	}
	if neg {
		s = (ordLT | ordEQ | ordGT) &^ s
	}
	return s
}

// AtomEqualities derives, from the path's conditions that compare two single
// atoms, (a) whether the path is feasible and (b) the pairs forced equal.
func (p *PathSummary) AtomEqualities() (feasible bool, eq [][2]string) {
	type pair struct{ a, b string }
	allowed := map[pair]int{}
	for _, c := range p.Conds {
		if c.LX == nil || c.LY == nil {
			continue
		}
		a, ok1 := c.LX.SingleAtom()
		b, ok2 := c.LY.SingleAtom()
		if !ok1 || !ok2 || a == b {
			continue
		}
		s := ordSet(c.Op, c.Neg)
		k := pair{a, b}
		if a > b {
			k = pair{b, a}
			// swap LT/GT
			sw := s & ordEQ
			if s&ordLT != 0 {
				sw |= ordGT
			}
			if s&ordGT != 0 {
				sw |= ordLT
			}
			s = sw
		}
		if cur, ok := allowed[k]; ok {
			allowed[k] = cur & s
		} else {
			allowed[k] = s
		}
	}
	feasible = true
	for k, s := range allowed {
		if s == 0 {
			feasible = false
		}
		if s == ordEQ {
			eq = append(eq, [2]string{k.a, k.b})
		}
	}
	sort.Slice(eq, func(i, j int) bool { return eq[i][0]+eq[i][1] < eq[j][0]+eq[j][1] })
	return
}

// ConstFeasible: the path's comparisons of a term with constants are consistent: no term is found equal to two
// different constants, nor equal and not equal to the same one.  (go/ssa loads `x.f` anew for every test, so two
// switches over the same field enumerate combinations that cannot happen; the terms are compared as rendered, which is
// only meaningful for memory the summarised code does not write — the caller's responsibility.)
func (p *PathSummary) ConstFeasible() bool {
	eqTrue := map[string]map[string]bool{}
	eqFalse := map[string]map[string]bool{}
	for _, c := range p.Conds {
		if c.Op != "==" && c.Op != "!=" {
			continue
		}
		x, y := c.X, c.Y
		isConst := func(t string) bool {
			if t == "" {
				return false
			}
			for _, r := range t {
				if !(r >= '0' && r <= '9' || r == '-') {
					return false
				}
			}
			return true
		}
		if isConst(x) && !isConst(y) {
			x, y = y, x
		}
		if !isConst(y) || isConst(x) {
			continue
		}
		holds := (c.Op == "==") != c.Neg
		m := eqFalse
		if holds {
			m = eqTrue
		}
		if m[x] == nil {
			m[x] = map[string]bool{}
		}
		m[x][y] = true
	}
	for x, ks := range eqTrue {
		if len(ks) > 1 {
			return false
		}
		for k := range ks {
			if eqFalse[x][k] {
				return false
			}
		}
	}
	return true
}

// EnumCase returns the enum constant the path dispatches on: the conditions
// `term == CONST` (true) or all `term == CONST` false (→ "default").
func (p *PathSummary) EnumCase(term string) (val string, isDefault bool, ok bool) {
	seen := false
	for _, c := range p.Conds {
		if c.Op != "==" && c.Op != "!=" {
			continue
		}
		x, y := c.X, c.Y
		if y == term {
			x, y = y, x
		}
		if x != term {
			continue
		}
		seen = true
		eq := (c.Op == "==") != c.Neg
		if eq {
			return y, false, true
		}
	}
	if seen {
		return "", true, true
	}
	return "", false, false
}

// PhiName names a phi by its source variable when known.
func PhiName(p *ssa.Phi) string {
	if p.Comment != "" {
		return p.Comment
	}
	return p.Name()
}

// OrderingOf returns the set of orderings of (a, b) the path's conditions
// allow, considering conditions that compare exactly these two terms.
func (p *PathSummary) OrderingOf(a, b string) int {
	set := OrdAny
	for _, c := range p.Conds {
		var s int
		switch {
		case c.X == a && c.Y == b:
			s = ordSet(c.Op, c.Neg)
		case c.X == b && c.Y == a:
			s = ordSet(c.Op, c.Neg)
			sw := s & ordEQ
			if s&ordLT != 0 {
				sw |= ordGT
			}
			if s&ordGT != 0 {
				sw |= ordLT
			}
			s = sw
		default:
			continue
		}
		set &= s
	}
	return set
}

// Relation interprets the condition as an ordering constraint between two
// terms: a direct comparison `a op b`, or a three-way compare `Cmp(a,b) op c`.
func (c Cond) Relation() (a, b string, set int, ok bool) {
	if c.CmpA != "" {
		var k int64
		if _, err := fmt.Sscanf(c.Y, "%d", &k); err != nil {
			return "", "", 0, false
		}
		rset := 0
		for _, r := range []int64{-1, 0, 1} {
			hold := false
			switch c.Op {
			case "==":
				hold = r == k
			case "!=":
				hold = r != k
			case "<":
				hold = r < k
			case "<=":
				hold = r <= k
			case ">":
				hold = r > k
			case ">=":
				hold = r >= k
			}
			if hold != c.Neg {
				switch r {
				case -1:
					rset |= ordLT
				case 0:
					rset |= ordEQ
				case 1:
					rset |= ordGT
				}
			}
		}
		return c.CmpA, c.CmpB, rset, true
	}
	switch c.Op {
	case "==", "!=", "<", "<=", ">", ">=":
		return c.X, c.Y, ordSet(c.Op, c.Neg), true
	}
	return "", "", 0, false
}

// RelationOf intersects the constraints the path puts on the pair (a, b).
func (p *PathSummary) RelationOf(a, b string) int {
	set := OrdAny
	for _, c := range p.Conds {
		x, y, s, ok := c.Relation()
		if !ok {
			continue
		}
		switch {
		case x == a && y == b:
		case x == b && y == a:
			sw := s & ordEQ
			if s&ordLT != 0 {
				sw |= ordGT
			}
			if s&ordGT != 0 {
				sw |= ordLT
			}
			s = sw
		default:
			continue
		}
		set &= s
	}
	return set
}

// IsNamed reports whether t is the named type n or a pointer to it.
func IsNamed(t types.Type, n *types.Named) bool {
	if pt, ok := t.(*types.Pointer); ok {
		t = pt.Elem()
	}
	nt, ok := t.(*types.Named)
	return ok && n != nil && nt.Obj() == n.Obj()
}
