// Package core: loader, SSA program, anchor resolution and generic analysis
// helpers shared by all property rule sets.
package core

import (
	"fmt"
	"go/ast"
	"go/token"
	"go/types"
	"os"
	"sort"
	"strings"
	"time"

	"golang.org/x/tools/go/callgraph"
	"golang.org/x/tools/go/callgraph/cha"
	"golang.org/x/tools/go/callgraph/vta"
	"golang.org/x/tools/go/packages"
	"golang.org/x/tools/go/ssa"
	"golang.org/x/tools/go/ssa/ssautil"
)

// ModPath is the module under analysis.
const ModPath = "github.com/streamingfast/substreams"

// Prog is the loaded, type-checked and SSA-built program.
type Prog struct {
	RepoDir  string
	Fset     *token.FileSet
	Roots    []*packages.Package          // packages of the module (pattern ./...)
	ByPath   map[string]*packages.Package // every package reachable, by path
	SSA      *ssa.Program
	Thorough bool
	WholeCG  bool // thorough tier: every call-graph query uses the whole-program VTA graph (dependencies included)

	LoadSecs, SSASecs float64

	cgRepo  *callgraph.Graph
	cgWhole *callgraph.Graph
	allFns  map[*ssa.Function]bool
	repoFns []*ssa.Function

	declOf map[*types.Func]*ast.FuncDecl
	fileOf map[*ast.FuncDecl]*ast.File
}

// LoadOptions controls loading.
type LoadOptions struct {
	Dir     string
	Tests   bool
	Overlay map[string][]byte
}

// Load parses, type-checks and SSA-builds /repo's working tree.
func Load(opt LoadOptions) (*Prog, error) {
	t0 := time.Now()
	env := []string{}
	for _, e := range os.Environ() {
		if strings.HasPrefix(e, "GOWORK=") || strings.HasPrefix(e, "GOFLAGS=") ||
			strings.HasPrefix(e, "GOPROXY=") || strings.HasPrefix(e, "GOSUMDB=") ||
			strings.HasPrefix(e, "GOTOOLCHAIN=") {
			continue
		}
		env = append(env, e)
	}
	env = append(env, "GOFLAGS=-mod=mod", "GOPROXY=off", "GOSUMDB=off", "GOTOOLCHAIN=local", "GOWORK=off")
	fset := token.NewFileSet()
	cfg := &packages.Config{
		Mode:    packages.LoadAllSyntax,
		Dir:     opt.Dir,
		Env:     env,
		Fset:    fset,
		Tests:   opt.Tests,
		Overlay: opt.Overlay,
	}
	pkgs, err := packages.Load(cfg, "./...")
	if err != nil {
		return nil, fmt.Errorf("packages.Load: %w", err)
	}
	p := &Prog{RepoDir: opt.Dir, Fset: fset, ByPath: map[string]*packages.Package{}, Thorough: opt.Tests}
	nerr := 0
	var firstErr string
	packages.Visit(pkgs, nil, func(pk *packages.Package) {
		if _, dup := p.ByPath[pk.ID]; !dup {
			p.ByPath[pk.ID] = pk
		}
		if strings.HasPrefix(pk.PkgPath, ModPath) {
			for _, e := range pk.Errors {
				nerr++
				if firstErr == "" {
					firstErr = e.Error()
				}
			}
		}
	})
	if nerr > 0 {
		return nil, fmt.Errorf("%d load/type errors in repository packages, first: %s", nerr, firstErr)
	}
	for _, pk := range pkgs {
		if strings.HasPrefix(pk.PkgPath, ModPath) {
			p.Roots = append(p.Roots, pk)
		}
	}
	if len(p.Roots) < 80 {
		return nil, fmt.Errorf("only %d repository packages loaded (expected >= 80)", len(p.Roots))
	}
	sort.Slice(p.Roots, func(i, j int) bool { return p.Roots[i].ID < p.Roots[j].ID })
	p.LoadSecs = time.Since(t0).Seconds()

	t1 := time.Now()
	prog, _ := ssautil.AllPackages(pkgs, ssa.InstantiateGenerics)
	prog.Build()
	p.SSA = prog
	p.SSASecs = time.Since(t1).Seconds()

	p.declOf = map[*types.Func]*ast.FuncDecl{}
	p.fileOf = map[*ast.FuncDecl]*ast.File{}
	for _, pk := range p.Roots {
		for _, f := range pk.Syntax {
			for _, d := range f.Decls {
				if fd, ok := d.(*ast.FuncDecl); ok {
					if obj, ok := pk.TypesInfo.Defs[fd.Name].(*types.Func); ok {
						p.declOf[obj] = fd
						p.fileOf[fd] = f
					}
				}
			}
		}
	}
	return p, nil
}

// Pkg returns the (non-test) package with the given path relative to the module ("" = root).
func (p *Prog) Pkg(rel string) *packages.Package {
	path := ModPath
	if rel != "" {
		path = ModPath + "/" + rel
	}
	if pk, ok := p.ByPath[path]; ok {
		return pk
	}
	// with Tests:true the ID of the plain package is still the path.
	for _, pk := range p.Roots {
		if pk.PkgPath == path && !strings.Contains(pk.ID, "[") && !strings.HasSuffix(pk.ID, ".test") {
			return pk
		}
	}
	return nil
}

// AnyPkg returns any loaded package by full import path (dependencies included).
func (p *Prog) AnyPkg(path string) *packages.Package {
	if pk, ok := p.ByPath[path]; ok {
		return pk
	}
	return nil
}

// IsRepo tells whether a function belongs to the module under analysis.
func IsRepo(fn *ssa.Function) bool {
	if fn == nil {
		return false
	}
	if fn.Pkg != nil {
		return strings.HasPrefix(fn.Pkg.Pkg.Path(), ModPath)
	}
	if o := fn.Origin(); o != nil && o.Pkg != nil {
		return strings.HasPrefix(o.Pkg.Pkg.Path(), ModPath)
	}
	if fn.Parent() != nil {
		return IsRepo(fn.Parent())
	}
	if fn.Object() != nil && fn.Object().Pkg() != nil {
		return strings.HasPrefix(fn.Object().Pkg().Path(), ModPath)
	}
	return false
}

// AllFunctions returns every function of the SSA program (cached).
func (p *Prog) AllFunctions() map[*ssa.Function]bool {
	if p.allFns == nil {
		p.allFns = ssautil.AllFunctions(p.SSA)
	}
	return p.allFns
}

// RepoFunctions returns the source functions (incl. methods and closures) of
// the module's non-test files, sorted by name.  Cached.
func (p *Prog) RepoFunctions() []*ssa.Function {
	if p.repoFns != nil {
		return p.repoFns
	}
	seen := map[*ssa.Function]bool{}
	var out []*ssa.Function
	var add func(fn *ssa.Function)
	add = func(fn *ssa.Function) {
		if fn == nil || seen[fn] || fn.Blocks == nil {
			return
		}
		seen[fn] = true
		if !isTestFn(p, fn) {
			out = append(out, fn)
		}
		for _, a := range fn.AnonFuncs {
			add(a)
		}
	}
	for _, pk := range p.Roots {
		sp := p.SSA.Package(pk.Types)
		if sp == nil {
			continue
		}
		for _, m := range sp.Members {
			switch x := m.(type) {
			case *ssa.Function:
				add(x)
			case *ssa.Type:
				if n, ok := x.Type().(*types.Named); ok {
					for i := 0; i < n.NumMethods(); i++ {
						add(p.SSA.FuncValue(n.Method(i)))
					}
				}
			}
		}
	}
	sort.Slice(out, func(i, j int) bool {
		if out[i].String() != out[j].String() {
			return out[i].String() < out[j].String()
		}
		return out[i].Pos() < out[j].Pos()
	})
	p.repoFns = out
	return out
}

func isTestFn(p *Prog, fn *ssa.Function) bool {
	pos := fn.Pos()
	if !pos.IsValid() {
		if fn.Parent() != nil {
			return isTestFn(p, fn.Parent())
		}
		return false
	}
	return strings.HasSuffix(p.Fset.Position(pos).Filename, "_test.go")
}

// IsTestFunc reports whether the function is declared in a _test.go file.
func (p *Prog) IsTestFunc(fn *ssa.Function) bool { return isTestFn(p, fn) }

// CallGraph returns the VTA call graph; restricted to repository functions
// unless whole is set (dependencies included).
func (p *Prog) CallGraph(whole bool) *callgraph.Graph {
	if whole || p.WholeCG {
		if p.cgWhole == nil {
			all := p.AllFunctions()
			p.cgWhole = vta.CallGraph(all, cha.CallGraph(p.SSA))
		}
		return p.cgWhole
	}
	if p.cgRepo == nil {
		p.cgRepo = p.buildRepoCG()
	}
	return p.cgRepo
}

// Pos renders a position relative to the repository.
func (p *Prog) Pos(pos token.Pos) string {
	if !pos.IsValid() {
		return "?"
	}
	ps := p.Fset.Position(pos)
	fn := strings.TrimPrefix(ps.Filename, p.RepoDir+"/")
	return fmt.Sprintf("%s:%d", fn, ps.Line)
}

// Decl returns the syntax of a function object.
func (p *Prog) Decl(obj *types.Func) *ast.FuncDecl { return p.declOf[obj] }

// FileOf returns the file of a declaration.
func (p *Prog) FileOf(fd *ast.FuncDecl) *ast.File { return p.fileOf[fd] }
