package core

import (
	"go/types"
	"strings"

	"golang.org/x/tools/go/callgraph"
	"golang.org/x/tools/go/callgraph/vta"
	"golang.org/x/tools/go/ssa"
)

// repoCHA builds a class-hierarchy call graph for the call sites of the
// repository's functions only (the whole-program cha.CallGraph costs ~9 s; this
// one < 1 s).  Interface calls resolve to every named type of any loaded
// package that implements the interface; dynamic calls of function values
// resolve to every function or closure of the program with an identical
// signature.  It is the initial graph handed to VTA.
func (p *Prog) repoCHA(fns map[*ssa.Function]bool) *callgraph.Graph {
	g := callgraph.New(nil)
	all := p.AllFunctions()

	// method name -> candidate receiver types (T and *T)
	byMethod := map[string][]types.Type{}
	for _, pk := range p.ByPath {
		if pk.Types == nil {
			continue
		}
		sc := pk.Types.Scope()
		for _, name := range sc.Names() {
			tn, ok := sc.Lookup(name).(*types.TypeName)
			if !ok || tn.IsAlias() {
				continue
			}
			n, ok := tn.Type().(*types.Named)
			if !ok || n.TypeParams().Len() > 0 {
				continue
			}
			if _, isIface := n.Underlying().(*types.Interface); isIface {
				continue
			}
			for _, t := range []types.Type{n, types.NewPointer(n)} {
				ms := p.SSA.MethodSets.MethodSet(t)
				for i := 0; i < ms.Len(); i++ {
					byMethod[ms.At(i).Obj().Name()] = append(byMethod[ms.At(i).Obj().Name()], t)
				}
			}
		}
	}
	// signature -> functions (for dynamic calls)
	type sigKey string
	bySig := map[sigKey][]*ssa.Function{}
	sigOf := func(s *types.Signature) sigKey {
		// receiver-less signature, parameter and result NAMES left out (`func(_ *Clock, …)` is the same type as
		// `func(clock *Clock, …)`: a renamed or blanked parameter must not cut the function value off its call sites)
		var sb strings.Builder
		sb.WriteString("func(")
		for i := 0; i < s.Params().Len(); i++ {
			if i > 0 {
				sb.WriteString(",")
			}
			if s.Variadic() && i == s.Params().Len()-1 {
				sb.WriteString("...")
			}
			sb.WriteString(types.TypeString(s.Params().At(i).Type(), nil))
		}
		sb.WriteString(")(")
		for i := 0; i < s.Results().Len(); i++ {
			if i > 0 {
				sb.WriteString(",")
			}
			sb.WriteString(types.TypeString(s.Results().At(i).Type(), nil))
		}
		sb.WriteString(")")
		return sigKey(sb.String())
	}
	for fn := range all {
		if fn.Signature == nil || fn.Synthetic != "" && fn.Parent() == nil && fn.Object() == nil {
			continue
		}
		if !IsRepo(fn) {
			continue
		}
		if fn.Signature.Recv() != nil {
			continue // method values appear as bound closures (synthetic) — handled by VTA through MakeClosure
		}
		bySig[sigOf(fn.Signature)] = append(bySig[sigOf(fn.Signature)], fn)
	}
	type implKey struct {
		t types.Type
		i *types.Interface
	}
	implCache := map[implKey]bool{}
	implements := func(t types.Type, i *types.Interface) bool {
		k := implKey{t, i}
		if v, ok := implCache[k]; ok {
			return v
		}
		v := types.Implements(t, i)
		implCache[k] = v
		return v
	}
	for fn := range fns {
		if fn.Blocks == nil {
			continue
		}
		caller := g.CreateNode(fn)
		for _, b := range fn.Blocks {
			for _, in := range b.Instrs {
				site, ok := in.(ssa.CallInstruction)
				if !ok {
					continue
				}
				cc := site.Common()
				if cc.IsInvoke() {
					it, ok := cc.Value.Type().Underlying().(*types.Interface)
					if !ok {
						continue
					}
					for _, t := range byMethod[cc.Method.Name()] {
						if !implements(t, it) {
							continue
						}
						if callee := p.SSA.LookupMethod(t, cc.Method.Pkg(), cc.Method.Name()); callee != nil {
							callgraph.AddEdge(caller, site, g.CreateNode(callee))
						}
					}
					continue
				}
				if callee := StaticFn(cc); callee != nil {
					callgraph.AddEdge(caller, site, g.CreateNode(callee))
					continue
				}
				if _, isB := cc.Value.(*ssa.Builtin); isB {
					continue
				}
				if sig, ok := cc.Value.Type().Underlying().(*types.Signature); ok {
					for _, callee := range bySig[sigOf(sig)] {
						callgraph.AddEdge(caller, site, g.CreateNode(callee))
					}
				}
			}
		}
	}
	return g
}

// buildRepoCG builds the VTA graph over the repository's functions.
func (p *Prog) buildRepoCG() *callgraph.Graph {
	fns := map[*ssa.Function]bool{}
	for fn := range p.AllFunctions() {
		if IsRepo(fn) {
			fns[fn] = true
		}
	}
	initial := p.repoCHA(fns)
	return vta.CallGraph(fns, initial)
}
