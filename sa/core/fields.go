package core

import (
	"go/token"
	"go/types"

	"golang.org/x/tools/go/ssa"
)

// FieldOfAddr returns the field object addressed by a FieldAddr value.
func FieldOfAddr(fa *ssa.FieldAddr) *types.Var {
	t := fa.X.Type()
	if p, ok := t.Underlying().(*types.Pointer); ok {
		t = p.Elem()
	}
	st, ok := t.Underlying().(*types.Struct)
	if !ok {
		return nil
	}
	return st.Field(fa.Field)
}

// FieldOfValue returns the field object of a Field (struct value) instruction.
func FieldOfValue(f *ssa.Field) *types.Var {
	st, ok := f.X.Type().Underlying().(*types.Struct)
	if !ok {
		return nil
	}
	return st.Field(f.Field)
}

// LoadedField: if v is the value loaded from a struct field (x.f), returns
// that field and the base x.  Looks through ChangeType/Convert-free moves only.
func LoadedField(v ssa.Value) (*types.Var, ssa.Value) {
	switch x := v.(type) {
	case *ssa.UnOp:
		if x.Op == token.MUL {
			if fa, ok := x.X.(*ssa.FieldAddr); ok {
				return FieldOfAddr(fa), fa.X
			}
		}
	case *ssa.Field:
		return FieldOfValue(x), x.X
	}
	return nil, nil
}

// FieldWriteKind classifies a write.
type FieldWriteKind string

const (
	WAssign   FieldWriteKind = "assign"    // x.f = v
	WMapSet   FieldWriteKind = "map-set"   // x.f[k] = v
	WMapDel   FieldWriteKind = "map-del"   // delete(x.f, k)
	WElemSet  FieldWriteKind = "elem-set"  // x.f[i] = v
	WAddrTake FieldWriteKind = "addr-take" // &x.f escapes (passed to a call / stored)
)

// FieldWrite is one write site of a field.
type FieldWrite struct {
	Kind  FieldWriteKind
	Instr ssa.Instruction
	Fn    *ssa.Function
	Value ssa.Value // assigned value (assign, map-set, elem-set)
	Key   ssa.Value // map key / index
}

// fieldIs tells whether obj is the tracked field (also through generic instantiation origin).
func fieldIs(obj, want *types.Var) bool {
	if obj == nil {
		return false
	}
	return obj == want || obj.Origin() == want
}

// FieldWritesIn finds all writes to field f in fn (not in its closures).
func FieldWritesIn(fn *ssa.Function, f *types.Var) []FieldWrite {
	var out []FieldWrite
	Instrs(fn, func(in ssa.Instruction) {
		switch x := in.(type) {
		case *ssa.Store:
			switch a := x.Addr.(type) {
			case *ssa.FieldAddr:
				if fieldIs(FieldOfAddr(a), f) {
					out = append(out, FieldWrite{Kind: WAssign, Instr: in, Fn: fn, Value: x.Val})
				}
			case *ssa.IndexAddr:
				if fo, _ := LoadedField(a.X); fieldIs(fo, f) {
					out = append(out, FieldWrite{Kind: WElemSet, Instr: in, Fn: fn, Value: x.Val, Key: a.Index})
				}
			}
		case *ssa.MapUpdate:
			if fo, _ := LoadedField(x.Map); fieldIs(fo, f) {
				out = append(out, FieldWrite{Kind: WMapSet, Instr: in, Fn: fn, Value: x.Value, Key: x.Key})
			}
		case ssa.CallInstruction:
			if cc, ok := IsBuiltinCall(in, "delete"); ok {
				if fo, _ := LoadedField(cc.Args[0]); fieldIs(fo, f) {
					out = append(out, FieldWrite{Kind: WMapDel, Instr: in, Fn: fn, Key: cc.Args[1]})
				}
			}
		}
	})
	// address escapes: FieldAddr used other than as Store.Addr / load
	Instrs(fn, func(in ssa.Instruction) {
		fa, ok := in.(*ssa.FieldAddr)
		if !ok || !fieldIs(FieldOfAddr(fa), f) {
			return
		}
		for _, r := range *fa.Referrers() {
			switch u := r.(type) {
			case *ssa.Store:
				if u.Addr == fa {
					continue
				}
				out = append(out, FieldWrite{Kind: WAddrTake, Instr: r, Fn: fn})
			case *ssa.UnOp:
				continue
			case *ssa.DebugRef:
				continue
			case *ssa.FieldAddr, *ssa.IndexAddr:
				// nested addressing of a struct/array field: x.f.g = v or x.f[i] = v (array)
				if v, ok := r.(ssa.Value); ok && onlyLoaded(v) {
					continue
				}
				out = append(out, FieldWrite{Kind: WAddrTake, Instr: r, Fn: fn})
			default:
				out = append(out, FieldWrite{Kind: WAddrTake, Instr: r, Fn: fn})
			}
		}
	})
	return out
}

func onlyLoaded(v ssa.Value) bool {
	refs := v.Referrers()
	if refs == nil {
		return false
	}
	for _, r := range *refs {
		switch u := r.(type) {
		case *ssa.UnOp:
			if u.Op != token.MUL {
				return false
			}
		case *ssa.DebugRef:
		default:
			return false
		}
	}
	return true
}

// FieldWrites finds writes to f in all given functions (closures are separate entries of fns).
func FieldWrites(fns []*ssa.Function, f *types.Var) []FieldWrite {
	var out []FieldWrite
	for _, fn := range fns {
		out = append(out, FieldWritesIn(fn, f)...)
	}
	return out
}

// GlobalWrites finds stores to a package-level variable.
func GlobalWrites(fns []*ssa.Function, v *types.Var) []FieldWrite {
	var out []FieldWrite
	for _, fn := range fns {
		Instrs(fn, func(in ssa.Instruction) {
			if st, ok := in.(*ssa.Store); ok {
				if g, ok := st.Addr.(*ssa.Global); ok && g.Object() == v {
					out = append(out, FieldWrite{Kind: WAssign, Instr: in, Fn: fn, Value: st.Val})
				}
			}
		})
	}
	return out
}

// RootFn returns the outermost enclosing function of a closure.
func RootFn(fn *ssa.Function) *ssa.Function {
	for fn.Parent() != nil {
		fn = fn.Parent()
	}
	return fn
}

// StoresTo returns the stores whose address is exactly the given cell (an Alloc or other address value).
func StoresTo(addr ssa.Value) []*ssa.Store {
	var out []*ssa.Store
	refs := addr.Referrers()
	if refs == nil {
		return nil
	}
	for _, r := range *refs {
		if st, ok := r.(*ssa.Store); ok && st.Addr == addr {
			out = append(out, st)
		}
	}
	return out
}
