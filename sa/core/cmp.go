package core

import (
	"go/token"

	"golang.org/x/tools/go/ssa"
)

// Ordering sets (engine E9): which orderings of (a, b) are possible on an edge.
const (
	OrdLT  = ordLT
	OrdEQ  = ordEQ
	OrdGT  = ordGT
	OrdAny = ordLT | ordEQ | ordGT
)

// StripNot removes leading boolean negations; neg tells whether an odd number was removed.
func StripNot(v ssa.Value) (ssa.Value, bool) {
	neg := false
	for {
		u, ok := v.(*ssa.UnOp)
		if !ok || u.Op != token.NOT {
			return v, neg
		}
		v = u.X
		neg = !neg
	}
}

// CondRelation: if the condition of `ifi` compares a value matching isA with a
// value matching isB, returns the ordering sets of (a,b) on the true edge
// (Succs[0]) and on the false edge (Succs[1]).
func CondRelation(cond ssa.Value, isA, isB func(ssa.Value) bool) (onTrue, onFalse int, ok bool) {
	c, neg := StripNot(cond)
	bo, isBin := c.(*ssa.BinOp)
	if !isBin {
		return 0, 0, false
	}
	var set int
	switch bo.Op {
	case token.EQL:
		set = ordEQ
	case token.NEQ:
		set = ordLT | ordGT
	case token.LSS:
		set = ordLT
	case token.LEQ:
		set = ordLT | ordEQ
	case token.GTR:
		set = ordGT
	case token.GEQ:
		set = ordGT | ordEQ
	default:
		return 0, 0, false
	}
	switch {
	case isA(bo.X) && isB(bo.Y):
	case isA(bo.Y) && isB(bo.X):
		sw := set & ordEQ
		if set&ordLT != 0 {
			sw |= ordGT
		}
		if set&ordGT != 0 {
			sw |= ordLT
		}
		set = sw
	default:
		return 0, 0, false
	}
	if neg {
		set = OrdAny &^ set
	}
	return set, OrdAny &^ set, true
}

// SkipConv looks through integer conversions / ChangeType.
func SkipConv(v ssa.Value) ssa.Value {
	for {
		switch x := v.(type) {
		case *ssa.Convert:
			v = x.X
		case *ssa.ChangeType:
			v = x.X
		default:
			return v
		}
	}
}

// LoadsField returns a predicate: the value is (a conversion of) a load of the given field.
func LoadsField(isField func(f interface{ Name() string }) bool) func(ssa.Value) bool {
	return func(v ssa.Value) bool {
		f, _ := LoadedField(SkipConv(v))
		return f != nil && isField(f)
	}
}

// OrdString renders an ordering set.
func OrdString(s int) string {
	switch s {
	case ordLT:
		return "<"
	case ordLT | ordEQ:
		return "<="
	case ordEQ:
		return "=="
	case ordGT:
		return ">"
	case ordGT | ordEQ:
		return ">="
	case ordLT | ordGT:
		return "!="
	case OrdAny:
		return "any"
	}
	return "none"
}

// OnlyPanicsFrom reports whether no normal return is reachable from block b.
func OnlyPanicsFrom(b *ssa.BasicBlock) bool {
	seen := map[*ssa.BasicBlock]bool{}
	stack := []*ssa.BasicBlock{b}
	for len(stack) > 0 {
		x := stack[len(stack)-1]
		stack = stack[:len(stack)-1]
		if seen[x] {
			continue
		}
		seen[x] = true
		if len(x.Instrs) > 0 {
			if _, ok := x.Instrs[len(x.Instrs)-1].(*ssa.Return); ok {
				return false
			}
		}
		stack = append(stack, x.Succs...)
	}
	return true
}

// OnlyErrorReturnsFrom reports whether every return reachable from block b returns a non-constant-nil error as its last
// result (no success return is reachable).
func OnlyErrorReturnsFrom(b *ssa.BasicBlock) bool {
	seen := map[*ssa.BasicBlock]bool{}
	stack := []*ssa.BasicBlock{b}
	for len(stack) > 0 {
		x := stack[len(stack)-1]
		stack = stack[:len(stack)-1]
		if seen[x] {
			continue
		}
		seen[x] = true
		if len(x.Instrs) > 0 {
			if rt, ok := x.Instrs[len(x.Instrs)-1].(*ssa.Return); ok && ReturnsConstNilError(rt) {
				return false
			}
		}
		stack = append(stack, x.Succs...)
	}
	return true
}

// OnlyErrorValue reports whether v is known to be a non-nil error: the result of an error constructor (fmt.Errorf,
// errors.New, a function whose every return is a non-nil error).
func OnlyErrorValue(v ssa.Value) bool {
	c, ok := v.(*ssa.Call)
	if !ok {
		return false
	}
	fn := StaticFn(c.Common())
	if fn == nil {
		return false
	}
	switch fn.String() {
	case "fmt.Errorf", "errors.New":
		return true
	}
	if fn.Blocks == nil {
		return false
	}
	all := true
	Instrs(fn, func(in ssa.Instruction) {
		if rt, ok := in.(*ssa.Return); ok && ReturnsNilError(rt) {
			all = false
		}
	})
	return all
}
