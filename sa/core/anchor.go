package core

import (
	"fmt"
	"go/ast"
	"go/types"
	"strings"

	"golang.org/x/tools/go/packages"
	"golang.org/x/tools/go/ssa"
)

// Undecided is raised (by panic) when an anchor cannot be resolved or a shape
// cannot be classified; the driver turns it into an "undecided" obligation.
type Undecided struct{ Msg string }

func (u Undecided) Error() string { return u.Msg }

// Undecide aborts the current obligation as undecided.
func Undecide(format string, args ...interface{}) {
	panic(Undecided{fmt.Sprintf(format, args...)})
}

// FuncObj resolves "Name" or "Type.Name" in the package (relative path).
func (p *Prog) FuncObj(rel, name string) *types.Func {
	pk := p.Pkg(rel)
	if pk == nil {
		Undecide("anchor: package %q not loaded", rel)
	}
	return funcObjIn(pk, name)
}

// FuncObjOpt is FuncObj that answers nil instead of giving up when the function does not exist.
func (p *Prog) FuncObjOpt(rel, name string) (f *types.Func) {
	defer func() {
		if recover() != nil {
			f = nil
		}
	}()
	return p.FuncObj(rel, name)
}

func funcObjIn(pk *packages.Package, name string) *types.Func {
	if i := strings.Index(name, "."); i >= 0 {
		tn, mn := name[:i], name[i+1:]
		obj := pk.Types.Scope().Lookup(tn)
		if obj == nil {
			Undecide("anchor: type %s.%s not found", pk.PkgPath, tn)
		}
		named, ok := obj.Type().(*types.Named)
		if !ok {
			Undecide("anchor: %s.%s is not a named type", pk.PkgPath, tn)
		}
		for i := 0; i < named.NumMethods(); i++ {
			if named.Method(i).Name() == mn {
				return named.Method(i)
			}
		}
		// interface method
		if it, ok := named.Underlying().(*types.Interface); ok {
			for i := 0; i < it.NumMethods(); i++ {
				if it.Method(i).Name() == mn {
					return it.Method(i)
				}
			}
		}
		Undecide("anchor: method %s.%s.%s not found", pk.PkgPath, tn, mn)
	}
	obj := pk.Types.Scope().Lookup(name)
	f, ok := obj.(*types.Func)
	if !ok {
		Undecide("anchor: function %s.%s not found", pk.PkgPath, name)
	}
	return f
}

// HasFunc reports whether the anchor exists (no panic).
func (p *Prog) HasFunc(rel, name string) (ok bool) {
	defer func() {
		if r := recover(); r != nil {
			if _, is := r.(Undecided); is {
				ok = false
				return
			}
			panic(r)
		}
	}()
	p.FuncObj(rel, name)
	return true
}

// Func resolves an anchor to its SSA function (with body).
func (p *Prog) Func(rel, name string) *ssa.Function {
	obj := p.FuncObj(rel, name)
	fn := p.SSA.FuncValue(obj)
	if fn == nil || fn.Blocks == nil {
		Undecide("anchor: no SSA body for %s.%s", rel, name)
	}
	if AnchorHelpers == nil {
		p.installAnchorHelpers()
	}
	return resolveAnchor(fn)
}

// installAnchorHelpers: the helpers of fn are the package-level functions and methods of fn's package that fn
// calls statically (directly or from its closures) and that no other function of the repository calls.
func (p *Prog) installAnchorHelpers() {
	callers := map[*ssa.Function]map[*ssa.Function]bool{}
	top := func(f *ssa.Function) *ssa.Function {
		for f.Parent() != nil {
			f = f.Parent()
		}
		return f
	}
	for _, f := range p.RepoFunctions() {
		Instrs(f, func(in ssa.Instruction) {
			ci, ok := in.(ssa.CallInstruction)
			if !ok {
				return
			}
			c := StaticFn(ci.Common())
			if c == nil || c.Parent() != nil || c.Blocks == nil {
				// a function value taken (method value, callback) also counts as a use
				return
			}
			if callers[c] == nil {
				callers[c] = map[*ssa.Function]bool{}
			}
			callers[c][top(f)] = true
		})
		// functions used as values (callbacks, method values) are not helpers of a single caller
		Instrs(f, func(in ssa.Instruction) {
			for _, op := range in.Operands(nil) {
				if *op == nil {
					continue
				}
				if fv, ok := (*op).(*ssa.Function); ok && fv.Parent() == nil {
					if ci, isCall := in.(ssa.CallInstruction); isCall && ci.Common().Value == ssa.Value(fv) {
						continue
					}
					if callers[fv] == nil {
						callers[fv] = map[*ssa.Function]bool{}
					}
					callers[fv][nil] = true
				}
			}
		})
	}
	AnchorHelpers = func(fn *ssa.Function) []*ssa.Function {
		var out []*ssa.Function
		seen := map[*ssa.Function]bool{}
		for _, m := range WithClosures(fn) {
			Instrs(m, func(in ssa.Instruction) {
				ci, ok := in.(ssa.CallInstruction)
				if !ok {
					return
				}
				c := StaticFn(ci.Common())
				if c == nil || c == fn || seen[c] || c.Parent() != nil || c.Blocks == nil || c.Pkg == nil || c.Pkg != fn.Pkg {
					return
				}
				seen[c] = true
				if len(callers[c]) == 1 && callers[c][fn] {
					out = append(out, c)
				}
			})
		}
		return out
	}
}

// ExtFuncObj resolves a function or method in any loaded package by full path.
func (p *Prog) ExtFuncObj(path, name string) *types.Func {
	pk := p.AnyPkg(path)
	if pk == nil {
		Undecide("anchor: package %q not loaded", path)
	}
	return funcObjIn(pk, name)
}

// FuncDecl resolves an anchor to its syntax.
func (p *Prog) FuncDecl(rel, name string) (*ast.FuncDecl, *packages.Package) {
	obj := p.FuncObj(rel, name)
	// the syntax follows the anchor's re-resolution (see Report.Guard)
	if fn := p.SSA.FuncValue(obj); fn != nil && fn.Blocks != nil {
		if AnchorHelpers == nil {
			p.installAnchorHelpers()
		}
		if h := resolveAnchor(fn); h != fn {
			if ho, ok := h.Object().(*types.Func); ok {
				obj = ho
			}
		}
	}
	fd := p.declOf[obj]
	if fd == nil {
		Undecide("anchor: no syntax for %s.%s", rel, name)
	}
	return fd, p.Pkg(rel)
}

// Named resolves a named type.
func (p *Prog) Named(rel, name string) *types.Named {
	pk := p.Pkg(rel)
	if pk == nil {
		Undecide("anchor: package %q not loaded", rel)
	}
	obj := pk.Types.Scope().Lookup(name)
	if obj == nil {
		Undecide("anchor: type %s.%s not found", rel, name)
	}
	n, ok := obj.Type().(*types.Named)
	if !ok {
		Undecide("anchor: %s.%s is not a named type", rel, name)
	}
	return n
}

// ExtNamed resolves a named type in any package.
func (p *Prog) ExtNamed(path, name string) *types.Named {
	pk := p.AnyPkg(path)
	if pk == nil {
		Undecide("anchor: package %q not loaded", path)
	}
	obj := pk.Types.Scope().Lookup(name)
	if obj == nil {
		Undecide("anchor: type %s.%s not found", path, name)
	}
	n, ok := obj.Type().(*types.Named)
	if !ok {
		Undecide("anchor: %s.%s is not a named type", path, name)
	}
	return n
}

// Field resolves a struct field object of a named struct type.
func (p *Prog) Field(rel, typ, field string) *types.Var {
	n := p.Named(rel, typ)
	return FieldOf(n, field)
}

// FieldOf finds a (direct) field of a named struct type.
func FieldOf(n *types.Named, field string) *types.Var {
	st, ok := n.Underlying().(*types.Struct)
	if !ok {
		Undecide("anchor: %s is not a struct", n)
	}
	for i := 0; i < st.NumFields(); i++ {
		if st.Field(i).Name() == field {
			return st.Field(i)
		}
	}
	Undecide("anchor: field %s.%s not found", n, field)
	return nil
}

// PkgVar resolves a package-level variable.
func (p *Prog) PkgVar(rel, name string) *types.Var {
	pk := p.Pkg(rel)
	if pk == nil {
		Undecide("anchor: package %q not loaded", rel)
	}
	v, ok := pk.Types.Scope().Lookup(name).(*types.Var)
	if !ok {
		Undecide("anchor: var %s.%s not found", rel, name)
	}
	return v
}

// Const resolves a package-level constant.
func (p *Prog) Const(rel, name string) *types.Const {
	pk := p.Pkg(rel)
	if pk == nil {
		Undecide("anchor: package %q not loaded", rel)
	}
	c, ok := pk.Types.Scope().Lookup(name).(*types.Const)
	if !ok {
		Undecide("anchor: const %s.%s not found", rel, name)
	}
	return c
}

// EnumConsts lists the package-level constants of a named type in its package.
func EnumConsts(n *types.Named) []*types.Const {
	var out []*types.Const
	sc := n.Obj().Pkg().Scope()
	for _, name := range sc.Names() {
		if c, ok := sc.Lookup(name).(*types.Const); ok && types.Identical(c.Type(), n) {
			out = append(out, c)
		}
	}
	return out
}

// FuncName gives a stable human key for an SSA function: pkgrel.(Recv).Name[$closure].
func FuncName(fn *ssa.Function) string {
	if fn == nil {
		return "<nil>"
	}
	s := fn.String()
	s = strings.ReplaceAll(s, ModPath+"/", "")
	s = strings.ReplaceAll(s, ModPath, "")
	return s
}
