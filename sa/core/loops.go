package core

import (
	"go/constant"
	"go/token"

	"golang.org/x/tools/go/ssa"
)

// Loop is a natural loop of an SSA function.
type Loop struct {
	Fn     *ssa.Function
	Header *ssa.BasicBlock
	Body   map[*ssa.BasicBlock]bool // includes header
	// Exits are edges leaving the body.  BoundExits leave from the header's
	// own condition; EarlyExits are all others.
	BoundExits []Edge
	EarlyExits []Edge
}

// Loops finds the natural loops of fn (one per header; back edges to the same header are merged).
func Loops(fn *ssa.Function) []*Loop {
	var loops []*Loop
	byHeader := map[*ssa.BasicBlock]*Loop{}
	for _, b := range fn.Blocks {
		for _, s := range b.Succs {
			if s.Dominates(b) { // back edge b -> s
				l := byHeader[s]
				if l == nil {
					l = &Loop{Fn: fn, Header: s, Body: map[*ssa.BasicBlock]bool{s: true}}
					byHeader[s] = l
					loops = append(loops, l)
				}
				// add nodes reaching b without passing s
				stack := []*ssa.BasicBlock{b}
				for len(stack) > 0 {
					x := stack[len(stack)-1]
					stack = stack[:len(stack)-1]
					if l.Body[x] {
						continue
					}
					l.Body[x] = true
					stack = append(stack, x.Preds...)
				}
			}
		}
	}
	for _, l := range loops {
		for _, b := range fn.Blocks {
			if !l.Body[b] {
				continue
			}
			for i, s := range b.Succs {
				if !l.Body[s] {
					e := Edge{b, i}
					if b == l.Header {
						l.BoundExits = append(l.BoundExits, e)
					} else {
						l.EarlyExits = append(l.EarlyExits, e)
					}
				}
			}
		}
	}
	return loops
}

// ReturnsInside lists the Return instructions located in the loop body (a
// `return` statement inside a loop jumps to a block that is not part of the
// natural loop, so this looks at targets of early exits that end in Return
// without rejoining the code after the loop).
func (l *Loop) ReturnsInside() []ssa.Instruction {
	var out []ssa.Instruction
	for b := range l.Body {
		for _, in := range b.Instrs {
			if _, ok := in.(*ssa.Return); ok {
				out = append(out, in)
			}
		}
	}
	return out
}

// InductionDir classifies the loop's induction variable: +1 ascending, -1
// descending, 0 unknown.  It looks for a header phi whose in-loop operand is
// phi ± constant.
func (l *Loop) InductionDir() (dir int, phi *ssa.Phi) {
	for _, in := range l.Header.Instrs {
		ph, ok := in.(*ssa.Phi)
		if !ok {
			break
		}
		for i, e := range ph.Edges {
			pred := l.Header.Preds[i]
			if !l.Body[pred] {
				continue
			}
			bo, ok := e.(*ssa.BinOp)
			if !ok {
				continue
			}
			var c *ssa.Const
			if bo.X == ph {
				c, _ = bo.Y.(*ssa.Const)
			} else if bo.Y == ph && bo.Op == token.ADD {
				c, _ = bo.X.(*ssa.Const)
			}
			if c == nil || c.Value == nil || c.Value.Kind() != constant.Int {
				continue
			}
			sign := constant.Sign(c.Value)
			if bo.Op == token.SUB {
				sign = -sign
			} else if bo.Op != token.ADD {
				continue
			}
			if sign > 0 {
				return +1, ph
			}
			if sign < 0 {
				return -1, ph
			}
		}
	}
	return 0, nil
}

// IndexDir is the direction in which the loop walks the slice it indexes: the direction of the induction variable
// when the index is the variable itself (or the variable plus/minus a loop-invariant), the opposite direction when
// the index is `invariant - variable` (`for i := range xs { xs[last-i] }` walks xs last to first).  0 = unknown.
func (l *Loop) IndexDir(isSlice func(ssa.Value) bool) int {
	dir, phi := l.InductionDir()
	if phi == nil || dir == 0 {
		return 0
	}
	invariant := func(v ssa.Value) bool {
		if _, ok := v.(*ssa.Const); ok {
			return true
		}
		if in, ok := v.(ssa.Instruction); ok {
			return !l.Body[in.Block()]
		}
		return true // parameters, globals
	}
	res, conflict := 0, false
	note := func(d int) {
		if res != 0 && res != d {
			conflict = true
		}
		res = d
	}
	var dirOf func(idx ssa.Value, depth int) int
	dirOf = func(idx ssa.Value, depth int) int {
		idx = SkipConv(idx)
		if idx == ssa.Value(phi) {
			return dir
		}
		if depth == 0 {
			return 0
		}
		if bo, ok := idx.(*ssa.BinOp); ok {
			switch bo.Op {
			case token.ADD:
				if invariant(bo.Y) {
					return dirOf(bo.X, depth-1)
				}
				if invariant(bo.X) {
					return dirOf(bo.Y, depth-1)
				}
			case token.SUB:
				if invariant(bo.Y) {
					return dirOf(bo.X, depth-1)
				}
				if invariant(bo.X) {
					return -dirOf(bo.Y, depth-1)
				}
			}
		}
		return 0
	}
	for b := range l.Body {
		for _, in := range b.Instrs {
			switch x := in.(type) {
			case *ssa.IndexAddr:
				if isSlice(x.X) {
					if d := dirOf(x.Index, 3); d != 0 {
						note(d)
					} else {
						conflict = true
					}
				}
			case *ssa.Index:
				if isSlice(x.X) {
					if d := dirOf(x.Index, 3); d != 0 {
						note(d)
					} else {
						conflict = true
					}
				}
			}
		}
	}
	if conflict {
		return 0
	}
	return res
}

// LoopIndexing finds the loops whose body indexes the given slice value
// (IndexAddr or Index on v) with the loop's induction variable.
func LoopIndexing(fn *ssa.Function, isSlice func(ssa.Value) bool) []*Loop {
	var out []*Loop
	for _, l := range Loops(fn) {
		_, phi := l.InductionDir()
		found := false
		for b := range l.Body {
			for _, in := range b.Instrs {
				switch x := in.(type) {
				case *ssa.IndexAddr:
					if isSlice(x.X) && (phi == nil || derivesFrom(x.Index, phi, 3)) {
						found = true
					}
				case *ssa.Index:
					if isSlice(x.X) && (phi == nil || derivesFrom(x.Index, phi, 3)) {
						found = true
					}
				}
			}
		}
		if found {
			out = append(out, l)
		}
	}
	return out
}

func derivesFrom(v ssa.Value, src ssa.Value, depth int) bool {
	if v == src {
		return true
	}
	if depth == 0 {
		return false
	}
	switch x := v.(type) {
	case *ssa.BinOp:
		return derivesFrom(x.X, src, depth-1) || derivesFrom(x.Y, src, depth-1)
	case *ssa.Convert:
		return derivesFrom(x.X, src, depth-1)
	case *ssa.ChangeType:
		return derivesFrom(x.X, src, depth-1)
	}
	return false
}

// ExitTargetsReturn tells whether taking the early exit edge leads to a
// function return without passing through `rejoin` (the loop's bound-exit
// target, i.e. the code after the loop).  A plain `break` reaches the rejoin
// block; a `return` does not.
func (l *Loop) ExitTargetsReturn(e Edge) bool {
	target := e.From.Succs[e.Idx]
	after := map[*ssa.BasicBlock]bool{}
	for _, be := range l.BoundExits {
		after[be.From.Succs[be.Idx]] = true
	}
	if after[target] {
		return false
	}
	// explore from target avoiding `after` blocks: if a Return is reachable -> return-like.
	seen := map[*ssa.BasicBlock]bool{}
	stack := []*ssa.BasicBlock{target}
	for len(stack) > 0 {
		b := stack[len(stack)-1]
		stack = stack[:len(stack)-1]
		if seen[b] || after[b] {
			continue
		}
		seen[b] = true
		if len(b.Instrs) > 0 {
			if _, ok := b.Instrs[len(b.Instrs)-1].(*ssa.Return); ok {
				return true
			}
		}
		stack = append(stack, b.Succs...)
	}
	return false
}

// ExitIsPanic tells whether the early exit edge leads only to a panic.
func (l *Loop) ExitIsPanic(e Edge) bool {
	target := e.From.Succs[e.Idx]
	seen := map[*ssa.BasicBlock]bool{}
	stack := []*ssa.BasicBlock{target}
	onlyPanic := true
	for len(stack) > 0 {
		b := stack[len(stack)-1]
		stack = stack[:len(stack)-1]
		if seen[b] {
			continue
		}
		seen[b] = true
		if l.Body[b] {
			onlyPanic = false
			continue
		}
		if len(b.Succs) == 0 {
			if _, ok := b.Instrs[len(b.Instrs)-1].(*ssa.Panic); !ok {
				onlyPanic = false
			}
		}
		stack = append(stack, b.Succs...)
	}
	return onlyPanic
}

// FullRange reports whether an index loop visits every index of a slice: ascending from 0 while i < len, the compiler's
// range form (from -1, i+1 < len), or descending from len-1 while i >= 0.  isLen recognises len(<the slice>).  The
// second result says what is wrong.
func (l *Loop) FullRange(isLen func(ssa.Value) bool) (bool, string) {
	dir, phi := l.InductionDir()
	if phi == nil {
		return false, "no induction variable"
	}
	var init ssa.Value
	var next *ssa.BinOp
	for i, e := range phi.Edges {
		if l.Body[l.Header.Preds[i]] {
			next, _ = e.(*ssa.BinOp)
		} else {
			init = e
		}
	}
	if next == nil || init == nil {
		return false, "induction variable not of the form i ± 1"
	}
	stepC, _ := next.Y.(*ssa.Const)
	if stepC == nil {
		stepC, _ = next.X.(*ssa.Const)
	}
	if stepC == nil || stepC.Value == nil || (stepC.Value.ExactString() != "1" && stepC.Value.ExactString() != "-1") {
		return false, "step is not 1"
	}
	ifi, ok := l.Header.Instrs[len(l.Header.Instrs)-1].(*ssa.If)
	if !ok {
		return false, "loop head has no bound test"
	}
	contIdx := 0
	if !l.Body[l.Header.Succs[0]] || l.Header.Succs[0] == l.Header {
		contIdx = 1
	}
	isConst := func(s string) func(ssa.Value) bool {
		return func(v ssa.Value) bool {
			k, ok := SkipConv(v).(*ssa.Const)
			return ok && k.Value != nil && k.Value.ExactString() == s
		}
	}
	rel := func(isA, isB func(ssa.Value) bool) (int, bool) {
		onT, onF, ok := CondRelation(ifi.Cond, isA, isB)
		if !ok {
			return 0, false
		}
		if contIdx == 0 {
			return onT, true
		}
		return onF, true
	}
	isPhi := func(v ssa.Value) bool { return SkipConv(v) == ssa.Value(phi) }
	isNext := func(v ssa.Value) bool { return SkipConv(v) == ssa.Value(next) }
	switch {
	case dir > 0 && isConst("0")(init):
		if r, ok := rel(isPhi, isLen); ok && r == OrdLT {
			return true, ""
		}
		return false, "ascending loop does not continue exactly while i < len"
	case dir > 0 && isConst("-1")(init):
		if r, ok := rel(isNext, isLen); ok && r == OrdLT {
			return true, ""
		}
		return false, "range loop does not continue exactly while i+1 < len"
	case dir < 0:
		sub, ok := SkipConv(init).(*ssa.BinOp)
		if !ok || sub.Op != token.SUB || !isLen(sub.X) || !isConst("1")(sub.Y) {
			return false, "descending loop does not start at len-1"
		}
		if r, ok := rel(isPhi, isConst("0")); ok && r == OrdGT|OrdEQ {
			return true, ""
		}
		if r, ok := rel(isPhi, isConst("-1")); ok && r == OrdGT {
			return true, ""
		}
		return false, "descending loop does not continue exactly while i >= 0 (the first element is left out)"
	}
	return false, "loop does not start at the first or last index"
}
