package core

import (
	"go/token"
	"go/types"

	"golang.org/x/tools/go/ssa"
)

// InstrPred is a predicate on instructions.
type InstrPred func(ssa.Instruction) bool

// Or combines predicates.
func Or(ps ...InstrPred) InstrPred {
	return func(in ssa.Instruction) bool {
		for _, p := range ps {
			if p(in) {
				return true
			}
		}
		return false
	}
}

// MustDo reports whether every path from fn's entry to a normal return passes
// an instruction satisfying pred, where a static call to a function that
// itself MustDo (up to depth) also counts.  Functions without body: false.
func MustDo(fn *ssa.Function, pred InstrPred, depth int) bool {
	if fn == nil || fn.Blocks == nil {
		return false
	}
	lifted := LiftThroughCalls(pred, depth)
	_, ok := MustReachAfter(fn, nil, lifted, nil)
	return ok
}

// LiftThroughCalls extends an instruction predicate to calls of wrappers: a
// static call (not go/defer... defer counts: it runs at exit) to a function
// all of whose normal paths satisfy the predicate.
func LiftThroughCalls(pred InstrPred, depth int) InstrPred {
	memo := map[*ssa.Function]int{} // 0 unknown, 1 yes, 2 no, 3 in progress
	var lifted InstrPred
	var must func(fn *ssa.Function, d int) bool
	must = func(fn *ssa.Function, d int) bool {
		if fn == nil || fn.Blocks == nil || d < 0 {
			return false
		}
		switch memo[fn] {
		case 1:
			return true
		case 2, 3:
			return false
		}
		memo[fn] = 3
		inner := func(in ssa.Instruction) bool {
			if pred(in) {
				return true
			}
			if c, ok := in.(ssa.CallInstruction); ok {
				if _, isGo := in.(*ssa.Go); isGo {
					return false
				}
				if callee := StaticFn(c.Common()); callee != nil && d > 0 {
					return must(callee, d-1)
				}
			}
			return false
		}
		// a wrapper that reports failure is not required to have done the effect on its failing paths (its caller
		// sees the error): only the paths that can return a nil error count
		var exit func(ssa.Instruction) bool
		if res := fn.Signature.Results(); res.Len() > 0 && isErrorType(res.At(res.Len()-1).Type()) {
			exit = func(in ssa.Instruction) bool { return ReturnsNilError(in) }
		}
		_, ok := MustReachAfter(fn, nil, inner, exit)
		if ok {
			// not vacuously: a function without any success exit (e.g. an error constructor, whose every return is a
			// non-nil error) does not "do" the effect, and only repository functions are wrappers of repository effects
			hasExit := false
			Instrs(fn, func(in ssa.Instruction) {
				if exit != nil {
					if exit(in) {
						hasExit = true
					}
				} else if IsNormalExit(in) {
					hasExit = true
				}
			})
			if !hasExit || !IsRepo(fn) {
				ok = false
			}
		}
		if ok {
			memo[fn] = 1
		} else {
			memo[fn] = 2
		}
		return ok
	}
	lifted = func(in ssa.Instruction) bool {
		if pred(in) {
			return true
		}
		if c, ok := in.(ssa.CallInstruction); ok {
			if _, isGo := in.(*ssa.Go); isGo {
				return false
			}
			if callee := StaticFn(c.Common()); callee != nil && depth > 0 {
				return must(callee, depth-1)
			}
		}
		return false
	}
	return lifted
}

// MayDo reports whether fn (or a static callee up to depth) contains an instruction satisfying pred.
func MayDo(fn *ssa.Function, pred InstrPred, depth int) bool {
	seen := map[*ssa.Function]bool{}
	var may func(fn *ssa.Function, d int) bool
	may = func(fn *ssa.Function, d int) bool {
		if fn == nil || fn.Blocks == nil || seen[fn] {
			return false
		}
		seen[fn] = true
		found := false
		Instrs(fn, func(in ssa.Instruction) {
			if found {
				return
			}
			if pred(in) {
				found = true
				return
			}
			if c, ok := in.(ssa.CallInstruction); ok && d > 0 {
				if callee := StaticFn(c.Common()); callee != nil && may(callee, d-1) {
					found = true
				}
			}
		})
		return found
	}
	return may(fn, depth)
}

// IsMapDeleteOn matches delete(x.f, _) for the field f.
func IsMapDeleteOn(f *types.Var) InstrPred {
	return func(in ssa.Instruction) bool {
		cc, ok := IsBuiltinCall(in, "delete")
		if !ok {
			return false
		}
		fo, _ := LoadedField(cc.Args[0])
		return fieldIs(fo, f)
	}
}

// IsStoreToField matches x.f = v.
func IsStoreToField(f *types.Var) InstrPred {
	return func(in ssa.Instruction) bool {
		st, ok := in.(*ssa.Store)
		if !ok {
			return false
		}
		fa, ok := st.Addr.(*ssa.FieldAddr)
		return ok && fieldIs(FieldOfAddr(fa), f)
	}
}

// ReturnsNonNilError matches a Return whose last result is not the nil constant
// (i.e. possibly an error).
func ReturnsNonNilError(in ssa.Instruction) bool {
	r, ok := in.(*ssa.Return)
	if !ok || len(r.Results) == 0 {
		return false
	}
	last := ReturnValues(r)[len(r.Results)-1]
	if !isErrorType(last.Type()) {
		return false
	}
	if c, ok := last.(*ssa.Const); ok && c.IsNil() {
		return false
	}
	return true
}

// ReturnsNilError matches a Return whose error result may be nil (anything not provably non-nil).
func ReturnsNilError(in ssa.Instruction) bool {
	r, ok := in.(*ssa.Return)
	if !ok {
		return false
	}
	if len(r.Results) == 0 {
		return true
	}
	last := ReturnValues(r)[len(r.Results)-1]
	if !isErrorType(last.Type()) {
		return true
	}
	return !ProvablyNonNil(last) && !nonNilAt(last, in.Block())
}

// nonNilAt: the block is only reachable through the non-nil edge of a test
// `v != nil` / `v == nil` on the same value (the usual `if err != nil { return err }`).
func nonNilAt(v ssa.Value, b *ssa.BasicBlock) bool {
	fn := b.Parent()
	for _, blk := range fn.Blocks {
		ifi, ok := blk.Instrs[len(blk.Instrs)-1].(*ssa.If)
		if !ok {
			continue
		}
		c, neg := StripNot(ifi.Cond)
		bo, ok := c.(*ssa.BinOp)
		if !ok || (bo.Op != token.NEQ && bo.Op != token.EQL) {
			continue
		}
		var other ssa.Value
		if bo.X == v {
			other = bo.Y
		} else if bo.Y == v {
			other = bo.X
		} else {
			continue
		}
		if k, ok := other.(*ssa.Const); !ok || !k.IsNil() {
			continue
		}
		nonNilIdx := 0
		if (bo.Op == token.EQL) != neg {
			nonNilIdx = 1
		}
		e := Edge{blk, nonNilIdx}
		// b reachable only via e?
		q := PathQuery{Fn: fn, CutEdge: func(x Edge) bool { return x == e }}
		first := b.Instrs[0]
		if _, reach := q.CanReach(nil, func(in ssa.Instruction) bool { return in == first }); !reach {
			return true
		}
	}
	return false
}

func isErrorType(t types.Type) bool {
	return types.Identical(t, types.Universe.Lookup("error").Type())
}

// ProvablyNonNil: the value is a fresh error (call to fmt.Errorf / errors.New /
// status.Error..., a MakeInterface of a non-nil value) or a value tested != nil
// on the only edge leading to its use is out of scope here: only syntactic forms.
func ProvablyNonNil(v ssa.Value) bool {
	switch x := v.(type) {
	case *ssa.MakeInterface:
		return true
	case *ssa.Call:
		if c := CommonCallee(x.Common()); c != nil && c.Pkg() != nil {
			switch c.Pkg().Path() + "." + c.Name() {
			case "fmt.Errorf", "errors.New":
				return true
			}
		}
	case *ssa.Phi:
		for _, e := range x.Edges {
			if !ProvablyNonNil(e) {
				return false
			}
		}
		return true
	}
	return false
}

// ReturnsConstNilError matches a Return whose error result is the constant nil (a definite success return).
func ReturnsConstNilError(in ssa.Instruction) bool {
	r, ok := in.(*ssa.Return)
	if !ok || len(r.Results) == 0 {
		return false
	}
	last := ReturnValues(r)[len(r.Results)-1]
	if !isErrorType(last.Type()) {
		return false
	}
	c, ok := last.(*ssa.Const)
	return ok && c.IsNil()
}
