package props

import (
	"fmt"
	"go/token"
	"go/types"

	"golang.org/x/tools/go/ssa"

	"verif/sa/core"
)

// checkClosureFn: a ModuleGraph query of the shape
//
//	_, dist := graph.ShortestPaths(g, g.moduleIndex[name]); for i, d := range dist { if d REL k { res = append(res, g.indexIndex[i]) } }
//
// selects exactly the vertices at distance >= minDist from the named module (0: the module and everything it depends
// on; 1: its ancestors), with no filter other than the ones listed (duplicate suppression, store kind).
func checkClosureFn(p *core.Prog, r *core.Report, rule, name string, minDist int64, storeOnly bool) {
	fn := p.Func(pkgMani, name)
	r.Touch(core.FuncName(fn))
	mg := p.Named(pkgMani, "ModuleGraph")
	idxF, revF := core.FieldOf(mg, "moduleIndex"), core.FieldOf(mg, "indexIndex")
	// the distances: the second result of graph.ShortestPaths called in fn — or in a helper of the package that fn
	// hands its module name to and whose result fn uses as the distances
	findSP := func(f *ssa.Function) *ssa.Call {
		var c0 *ssa.Call
		core.Instrs(f, func(in ssa.Instruction) {
			if c, ok := in.(*ssa.Call); ok {
				if cl := core.CalleeOf(c); cl != nil && cl.Name() == "ShortestPaths" {
					c0 = c
				}
			}
		})
		return c0
	}
	holder, nameParam := fn, ssa.Value(fn.Params[1])
	sp := findSP(fn)
	var dist ssa.Value
	if sp == nil {
		core.Instrs(fn, func(in ssa.Instruction) {
			hc, ok := in.(*ssa.Call)
			if !ok || sp != nil {
				return
			}
			h := core.StaticFn(hc.Common())
			if h == nil || h.Blocks == nil || h.Pkg != fn.Pkg || h.Parent() != nil {
				return
			}
			hsp := findSP(h)
			if hsp == nil {
				return
			}
			// which result of h carries ShortestPaths' distances, on every return that is not the error return
			resIdx := -1
			okAll := true
			core.Instrs(h, func(x ssa.Instruction) {
				ret, ok := x.(*ssa.Return)
				if !ok {
					return
				}
				vals := core.ReturnValues(ret)
				if !core.ReturnsNilError(ret) {
					return
				}
				for i, v := range vals {
					if ex, ok := v.(*ssa.Extract); ok && ex.Tuple == ssa.Value(hsp) && ex.Index == 1 {
						if resIdx >= 0 && resIdx != i {
							okAll = false
						}
						resIdx = i
					}
				}
			})
			if resIdx < 0 || !okAll {
				return
			}
			// the module name handed to h
			for i, a := range hc.Call.Args {
				if core.SkipConv(a) == ssa.Value(fn.Params[1]) && i < len(h.Params) {
					nameParam = h.Params[i]
				}
			}
			for _, ref := range *hc.Referrers() {
				if ex, ok := ref.(*ssa.Extract); ok && ex.Index == resIdx {
					dist = ex
				}
			}
			sp, holder = hsp, h
			r.Touch(core.FuncName(h))
		})
	}
	if sp == nil {
		core.Undecide("%s: no ShortestPaths call", name)
	}
	// source vertex = moduleIndex[<name parameter>]
	okSrc := false
	srcV := core.SkipConv(sp.Call.Args[1])
	if ex, ok := srcV.(*ssa.Extract); ok && ex.Index == 0 {
		srcV = ex.Tuple // `idx, found := g.moduleIndex[name]`
	}
	if lk, ok := srcV.(*ssa.Lookup); ok {
		if f, _ := core.LoadedField(lk.X); f == idxF && core.SkipConv(lk.Index) == nameParam {
			okSrc = true
		}
	}
	r.Check(okSrc, rule, name+"/source", "distances are computed from the vertex of the named module", "ShortestPaths source is not moduleIndex[moduleName]", p.Pos(sp.Pos()))
	if holder == fn {
		for _, ref := range *sp.Referrers() {
			if ex, ok := ref.(*ssa.Extract); ok && ex.Index == 1 {
				dist = ex
			}
		}
	}
	if dist == nil {
		core.Undecide("%s: distances not used", name)
	}
	// d := dist[i]
	var dLoads []ssa.Value
	idxOf := map[ssa.Value]ssa.Value{}
	core.Instrs(fn, func(in ssa.Instruction) {
		u, ok := in.(*ssa.UnOp)
		if !ok || u.Op != token.MUL {
			return
		}
		if ia, ok := u.X.(*ssa.IndexAddr); ok && ia.X == dist {
			dLoads = append(dLoads, u)
			idxOf[u] = ia.Index
		}
	})
	if len(dLoads) != 1 {
		core.Undecide("%s: expected one load of a distance, found %d", name, len(dLoads))
	}
	d := dLoads[0]
	iv := idxOf[d]
	// the selected element: append of indexIndex[i]
	var appends []ssa.Instruction
	core.Instrs(fn, func(in ssa.Instruction) {
		c, ok := in.(*ssa.Call)
		if !ok {
			return
		}
		b, ok := c.Call.Value.(*ssa.Builtin)
		if !ok || b.Name() != "append" || len(c.Call.Args) != 2 {
			return
		}
		if core.SliceReachesPred(c.Call.Args[1], func(v ssa.Value) bool {
			lk, ok := v.(*ssa.Lookup)
			if !ok {
				return false
			}
			f, _ := core.LoadedField(lk.X)
			return f == revF && lk.Index == iv
		}, 3) {
			appends = append(appends, c)
		}
	})
	if len(appends) != 1 {
		core.Undecide("%s: expected one append of indexIndex[i], found %d", name, len(appends))
	}
	app := appends[0]
	// the distance test
	var loop *core.Loop
	for _, l := range core.Loops(fn) {
		if l.Body[app.Block()] && (loop == nil || len(l.Body) < len(loop.Body)) {
			loop = l
		}
	}
	if loop == nil {
		core.Undecide("%s: the selection is not inside a loop", name)
	}
	okDist := false
	var others []string
	for b := range loop.Body {
		ifi, ok := b.Instrs[len(b.Instrs)-1].(*ssa.If)
		if !ok || b == loop.Header {
			continue
		}
		var kc int64
		onT, onF, ok := core.CondRelation(ifi.Cond, func(v ssa.Value) bool { return core.SkipConv(v) == d }, func(v ssa.Value) bool {
			c, ok := v.(*ssa.Const)
			if ok && c.Value != nil {
				kc = c.Int64()
			}
			return ok && c.Value != nil
		})
		if ok {
			// which edge leads to the append?
			for idx, rel := range []int{onT, onF} {
				e := core.Edge{From: b, Idx: idx}
				if _, only := core.OnlyViaEdge(fn, e, func(x ssa.Instruction) bool { return x == app }); only {
					// selected set {d : d rel kc}; wanted {d >= minDist}
					if (kc == minDist && rel == core.OrdEQ|core.OrdGT) || (kc == minDist-1 && rel == core.OrdGT) {
						okDist = true
					} else {
						others = append(others, fmt.Sprintf("distance test selects d %s %d", relString(rel), kc))
					}
				}
			}
			continue
		}
		// any other condition on the way to the append must be one of the allowed filters
		if !reachFromBlock(fn, b, app) {
			continue
		}
		c, _ := core.StripNot(ifi.Cond)
		allowed := false
		if ex, ok := c.(*ssa.Extract); ok && ex.Index == 1 {
			if lk, ok := ex.Tuple.(*ssa.Lookup); ok {
				if _, isLocal := lk.X.(*ssa.MakeMap); isLocal {
					allowed = true // duplicate suppression on a local set
				}
			}
		}
		if bo, ok := c.(*ssa.BinOp); ok && storeOnly && (bo.Op == token.EQL || bo.Op == token.NEQ) {
			isKindStore := func(v ssa.Value) bool {
				cl, ok := v.(*ssa.Call)
				return ok && core.CalleeOf(cl) != nil && core.CalleeOf(cl).Name() == "GetKindStore"
			}
			isNil := func(v ssa.Value) bool { k, ok := v.(*ssa.Const); return ok && k.IsNil() }
			if (isKindStore(bo.X) && isNil(bo.Y)) || (isKindStore(bo.Y) && isNil(bo.X)) {
				allowed = true
			}
		}
		if !allowed {
			others = append(others, "extra filter at "+p.Pos(ifi.Pos()))
		}
	}
	want := "the module itself and every module it depends on, directly or not (distance >= 0)"
	if minDist == 1 {
		want = "every ancestor of the module (distance >= 1), and not the module itself"
	}
	if storeOnly {
		want += ", restricted to stores"
	}
	r.Check(okDist && len(others) == 0, rule, name+"/selection", "the result is "+want+": each vertex is selected by its distance alone", fmt.Sprintf("distance test ok=%v; %v", okDist, others), p.Pos(app.Pos()))
	// nothing selected is dropped afterwards: the returned slice is the appended one (possibly sorted in place)
	okRet := false
	core.Instrs(fn, func(in ssa.Instruction) {
		rt, ok := in.(*ssa.Return)
		if !ok || !core.ReturnsNilError(rt) {
			return
		}
		if core.SliceReaches(core.ResolveCell(rt.Results[0]), app.(ssa.Value), 2) {
			okRet = true
		}
	})
	r.Check(okRet, rule, name+"/returned", "the slice built by the selection is what is returned", "the success return does not return the selected modules", p.Pos(fn.Pos()))
	_ = types.Typ
}

func relString(rel int) string {
	switch rel {
	case core.OrdLT:
		return "<"
	case core.OrdEQ:
		return "=="
	case core.OrdGT:
		return ">"
	case core.OrdLT | core.OrdEQ:
		return "<="
	case core.OrdGT | core.OrdEQ:
		return ">="
	case core.OrdLT | core.OrdGT:
		return "!="
	}
	return "?"
}
