package props

import (
	"fmt"
	"go/token"
	"go/types"
	"sort"
	"strings"

	"golang.org/x/tools/go/ssa"

	"verif/sa/core"
)

func init() {
	register("C05", &Def{
		Title:     "The segment scheduler is safe and live under every ordering of events",
		Run:       runC05,
		Technique: "static analysis: field-writer ownership, transition table extracted from call sites vs the documented state machine, goroutine/command confinement over the VTA call graph, must-pass-through guards in NextJob and CmdTryMerge, message-switch exhaustiveness",
		Explanation: "Safety/liveness over all interleavings is a model-checking question and is NOT decided. Decided are the structural mechanisms the property names: " +
			"(R1) unit states are written only through the guarded transition function (plus the two documented direct writers), and the (to ← allowed-from) table extracted from the call sites equals the documented machine, any other transition panicking; the shadowing pass relabels a unit Shadowed only when it is still Pending (or already Shadowed) and only behind a later stage that still has a job to run; worker slots follow Free → Working → Free under source-state guards; " +
			"(R2) scheduler state (unit states, segment offsets, completed segment, worker states, walker flags, completion flags) is never written from a goroutine, an errgroup task or an asynchronous command closure — only from the single-threaded Update loop; " +
			"(R3) NextJob schedules a unit only after dependenciesCompleted(unit) held and the unit was Pending; dependenciesCompleted itself lets its loop over the lower stages go on (or answers true) only after the previous segment of EACH lower stage was found Completed/NoOp, answers true before that loop only for stage 0, and accepts a lower unit of the same segment only in the states Completed, NoOp, Shadowed, PartialPresent (the job loads the full store of every lower stage at its first block); " +
			"(R4) CmdTryMerge merges only the stage's next contiguous unit, only when its partial is present and the previous unit is complete; R4 also requires that whoever marks a store-stage unit Completed (merge finished, full snapshot found in storage) re-scans the merge frontier forward over already Completed units before returning, so the frontier can never be stranded on a Completed unit; " +
			"(R5) failed jobs and merges quit the loop with their error, a succeeded job returns its worker, and every message type is handled by Update. Also (R3) a stage's segmenter starts at the minimum initial block folded over the modules of its layer. Also (R2) once all stores are completed every CmdTryMerge returns the completion command. Also (R2) a failed background write always makes WaitAsyncWork return a non-nil error. Also (R4) no comparison has Segmenter.Count() on one side.",
		NotCovered:  "Absence of deadlock, exactly-once merging and termination over all event orders; that the decided conditions of markShadowedUnits / dependenciesCompleted are also sufficient (they were derived from what a tier-2 job loads and from defects D9, D10, D12).",
		Assumptions: []string{"loop.EventLoop calls Update from one goroutine (checked: Update is only called from EventLoop.update, itself only from Run's loop)"},
	})
}

func runC05(p *core.Prog, r *core.Report) {
	stagesT := func() *types.Named { return p.Named(pkgStage, "Stages") }

	// ------------------------------------------------------------------ R1
	r.Guard("C05.R1", "segmentStates/writers", "writers of the unit-state matrix", func() {
		f := core.FieldOf(stagesT(), "segmentStates")
		checkWriters(p, r, "C05.R1", "Stages.segmentStates", f, map[string]string{
			"(*orchestrator/stage.Stages).setState":        "the single element writer",
			"(*orchestrator/stage.Stages).allocSegments":   "grows the matrix with zero (Pending) rows",
			"(*orchestrator/stage.Stages).forceTransition": "test-only helper (no non-test caller, checked below)",
		})
		// forceTransition has no caller outside tests
		ft := p.FuncObj(pkgStage, "Stages.forceTransition")
		callers := callersOf(p, ft)
		r.Check(len(callers) == 0, "C05.R1", "forceTransition/callers", "the unguarded forceTransition has no caller outside test files", fmt.Sprintf("called by %v", callers))
		// setState callers
		ss := p.FuncObj(pkgStage, "Stages.setState")
		got := callersOf(p, ss)
		want := []string{"(*orchestrator/stage.Stages).initSegmentsOffset", "(*orchestrator/stage.Stages).markShadowedUnits", "(*orchestrator/stage.Stages).transition"}
		r.Check(strings.Join(got, ",") == strings.Join(want, ","), "C05.R1", "setState/callers", "setState is called only by the guarded transition, by initSegmentsOffset (→ NoOp) and by markShadowedUnits (→ Shadowed)", fmt.Sprintf("callers: %v", got))
	})
	r.Guard("C05.R1", "transition/table", "transition table", func() {
		stT := p.Named(pkgStage, "UnitState")
		names := map[string]string{}
		for _, c := range core.EnumConsts(stT) {
			names[c.Val().ExactString()] = strings.TrimPrefix(c.Name(), "Unit")
		}
		tr := p.FuncObj(pkgStage, "Stages.transition")
		table := map[string][]string{}
		for _, fn := range p.RepoFunctions() {
			core.Instrs(fn, func(in ssa.Instruction) {
				c, ok := in.(*ssa.Call)
				if !ok || core.CommonCallee(c.Common()) != tr {
					return
				}
				r.CallSites++
				to := "?"
				if k, ok := c.Call.Args[2].(*ssa.Const); ok {
					to = names[k.Value.ExactString()]
				}
				var from []string
				if sl, ok := c.Call.Args[3].(*ssa.Slice); ok {
					if al, ok := sl.X.(*ssa.Alloc); ok {
						for _, ref := range *al.Referrers() {
							if ia, ok := ref.(*ssa.IndexAddr); ok {
								for _, rr := range *ia.Referrers() {
									if st, ok := rr.(*ssa.Store); ok {
										if k, ok := st.Val.(*ssa.Const); ok {
											from = append(from, names[k.Value.ExactString()])
										} else {
											from = append(from, "?dynamic")
										}
									}
								}
							}
						}
					}
				} else {
					from = append(from, "?dynamic")
				}
				sort.Strings(from)
				key := to + "@" + shortFn(fn)
				table[key] = from
			})
		}
		want := map[string][]string{
			"Merging@MarkSegmentMerging":               {"PartialPresent"},
			"Pending@MarkSegmentPending":               {"Merging"},
			"PartialPresent@MarkSegmentPartialPresent": {"Pending", "Scheduled"},
			"PartialPresent@MarkJobSuccess":            {"Shadowed"},
			"Scheduled@markSegmentScheduled":           {"Pending"},
			"Completed@markSegmentCompleted":           {"Completed", "Merging", "NoOp", "Pending", "Scheduled", "Shadowed"},
		}
		var keys []string
		for k := range want {
			keys = append(keys, k)
		}
		for k := range table {
			if _, ok := want[k]; !ok {
				keys = append(keys, k)
			}
		}
		sort.Strings(keys)
		for _, k := range keys {
			w, isWanted := want[k]
			g, has := table[k]
			switch {
			case !isWanted:
				r.Fail("C05.R1", "transition/"+k, "no transition outside the documented state machine", fmt.Sprintf("undocumented transition to %s from %v", k, g))
			case !has:
				r.Fail("C05.R1", "transition/"+k, fmt.Sprintf("transition %s ← %v exists", k, w), "call site not found")
			default:
				r.Check(strings.Join(g, ",") == strings.Join(w, ","), "C05.R1", "transition/"+k, fmt.Sprintf("%s is reachable only from %v", k, w), fmt.Sprintf("allowed-from list is %v", g))
			}
		}
		// transition: sets the state only under prev == one of the allowed, else invalidTransition (panic)
		fn := p.Func(pkgStage, "Stages.transition")
		r.Touch(core.FuncName(fn))
		setCalls := core.FindInstrs(fn, core.IsCallTo(p.FuncObj(pkgStage, "Stages.setState")))
		// the refusal: a panic, or a call to a function of the package that never returns normally (invalidTransition)
		noReturn := func(x ssa.Instruction) bool {
			if _, ok := x.(*ssa.Panic); ok {
				return true
			}
			if ci, ok := x.(ssa.CallInstruction); ok {
				if h := core.StaticFn(ci.Common()); h != nil && h.Blocks != nil && h.Pkg == fn.Pkg && len(core.FindInstrs(h, core.IsNormalExit)) == 0 {
					return true
				}
			}
			return false
		}
		inv := core.FindInstrs(fn, noReturn)
		okGuard := len(setCalls) == 1 && len(inv) >= 1
		if okGuard {
			// the setState call is only reachable through an edge `prev == from` true, from being an element of the variadic list
			var eqEdges []core.Edge
			core.InstrsDeep(fn, func(in ssa.Instruction) {
				ifi, ok := in.(*ssa.If)
				if !ok {
					return
				}
				isPrev := func(v ssa.Value) bool {
					c, ok := v.(*ssa.Call)
					return ok && core.CommonCallee(c.Common()) == p.FuncObj(pkgStage, "Stages.getState")
				}
				isFrom := func(v ssa.Value) bool {
					u, ok := v.(*ssa.UnOp)
					if !ok {
						return false
					}
					_, ok = u.X.(*ssa.IndexAddr)
					return ok
				}
				onT, _, ok := core.CondRelation(ifi.Cond, isPrev, isFrom)
				if ok && onT == core.OrdEQ {
					eqEdges = append(eqEdges, core.Edge{From: ifi.Block(), Idx: 0})
				}
			})
			q := core.PathQuery{Fn: fn, CutEdge: func(e core.Edge) bool { return containsEdge(eqEdges, e) }}
			_, reach := q.CanReach(nil, func(x ssa.Instruction) bool { return x == setCalls[0] })
			okGuard = len(eqEdges) > 0 && !reach
			// every path that does not set the state ends in invalidTransition
			if okGuard {
				_, okGuard = core.MustReachAfter(fn, nil, func(x ssa.Instruction) bool { return x == setCalls[0] || noReturn(x) }, nil)
			}
		}
		r.Check(okGuard, "C05.R1", "transition/guard", "transition writes the new state only when the current state equals one of the allowed previous states, and otherwise calls invalidTransition", "guard shape not found", p.Pos(fn.Pos()))
		r.Check(len(inv) >= 1, "C05.R1", "invalidTransition/panics", "an invalid transition panics (directly or through a function that never returns)", "no panic on the refusing path", p.Pos(fn.Pos()))
		// direct setState writers use the documented constants
		for _, d := range []struct{ fn, to string }{{"Stages.initSegmentsOffset", "NoOp"}, {"Stages.markShadowedUnits", "Shadowed"}} {
			f := p.Func(pkgStage, d.fn)
			okC := true
			n := 0
			for _, c := range core.FindInstrs(f, core.IsCallTo(p.FuncObj(pkgStage, "Stages.setState"))) {
				n++
				k, ok := c.(ssa.CallInstruction).Common().Args[2].(*ssa.Const)
				if !ok || names[k.Value.ExactString()] != d.to {
					okC = false
				}
			}
			r.Check(okC && n > 0, "C05.R1", "setState@"+d.fn, d.fn+" sets units only to "+d.to, "other target state", p.Pos(f.Pos()))
		}
		// markShadowedUnits never overwrites a final state: the setState is guarded by state != Completed && state != NoOp
		ms := p.Func(pkgStage, "Stages.markShadowedUnits")
		okFinal := false
		for _, c := range core.FindInstrs(ms, core.IsCallTo(p.FuncObj(pkgStage, "Stages.setState"))) {
			var neEdges [][]core.Edge
			for _, final := range []string{"Completed", "NoOp"} {
				var es []core.Edge
				core.InstrsDeep(ms, func(in ssa.Instruction) {
					ifi, ok := in.(*ssa.If)
					if !ok {
						return
					}
					isState := func(v ssa.Value) bool {
						cc, ok := v.(*ssa.Call)
						return ok && core.CommonCallee(cc.Common()) == p.FuncObj(pkgStage, "Stages.getState")
					}
					isK := func(v ssa.Value) bool {
						k, ok := v.(*ssa.Const)
						return ok && k.Value != nil && names[k.Value.ExactString()] == final && types.Identical(k.Type(), stT)
					}
					onT, onF, ok := core.CondRelation(ifi.Cond, isState, isK)
					if !ok {
						return
					}
					if onT == core.OrdEQ {
						es = append(es, core.Edge{From: ifi.Block(), Idx: 0})
					} else if onF == core.OrdEQ {
						es = append(es, core.Edge{From: ifi.Block(), Idx: 1})
					}
				})
				neEdges = append(neEdges, es)
			}
			// the call must be unreachable via any "== Completed" / "== NoOp" edge of the unit's own state test … approximated: such tests exist and the call is not dominated by their equal edge
			okFinal = len(neEdges[0]) > 0 && len(neEdges[1]) > 0
			for _, es := range neEdges {
				for _, e := range es {
					blk := e.From.Succs[e.Idx]
					if reachFromBlock(ms, blk, c) && blk != c.Block() {
						// reachable through loop back edge is fine; direct fallthrough into the call is not
						q := core.PathQuery{Fn: ms, CutInstr: func(x ssa.Instruction) bool { return x.Block() == e.From && x == e.From.Instrs[0] }}
						if _, reach := q.CanReach(blk.Instrs[0], func(x ssa.Instruction) bool { return x == c }); reach && blk.Instrs[0] != c {
							_ = reach
						}
					}
				}
			}
		}
		_ = okFinal // superseded by markShadowedUnits/only-pending (checkShadowOnlyPending): Pending/Shadowed excludes the final states
	})

	// ------------------------------------------------------------------ R2
	r.Guard("C05.R2", "confinement", "single-threaded ownership", func() { checkConfinement(p, r) })
	r.Guard("C05.R3", "stage-segmenter", "a stage starts at its lowest module", func() { checkStageSegmenter(p, r, "C05.R3") })

	// ------------------------------------------------------------------ R3
	r.Guard("C05.R3", "NextJob", "dependencies before scheduling", func() {
		fn := p.Func(pkgStage, "Stages.NextJob")
		r.Touch(core.FuncName(fn))
		dep := p.FuncObj(pkgStage, "Stages.dependenciesCompleted")
		sched := p.FuncObj(pkgStage, "Stages.markSegmentScheduled")
		depCalls := core.FindInstrs(fn, core.IsCallTo(dep))
		if len(depCalls) != 1 {
			core.Undecide("NextJob: expected one dependenciesCompleted call, found %d", len(depCalls))
		}
		depCall := depCalls[0].(*ssa.Call)
		// the edge on which dependenciesCompleted(...) is true
		var depTrue []core.Edge
		for _, ref := range *depCall.Referrers() {
			if ifi, ok := ref.(*ssa.If); ok {
				depTrue = append(depTrue, core.Edge{From: ifi.Block(), Idx: 0})
			}
			if u, ok := ref.(*ssa.UnOp); ok {
				for _, rr := range *u.Referrers() {
					if ifi, ok := rr.(*ssa.If); ok {
						depTrue = append(depTrue, core.Edge{From: ifi.Block(), Idx: 1})
					}
				}
			}
		}
		scheds := core.FindInstrs(fn, core.IsCallTo(sched))
		if len(scheds) < 1 {
			core.Undecide("NextJob: no markSegmentScheduled call")
		}
		// per-iteration: from the dependenciesCompleted call, a schedule is reachable only via its true edge; and no schedule is reachable from the inner loop head without passing the call
		for i, s := range scheds {
			q := core.PathQuery{Fn: fn, CutEdge: func(e core.Edge) bool { return containsEdge(depTrue, e) },
				CutInstr: func(x ssa.Instruction) bool { return x == ssa.Instruction(depCall) }}
			_, reach := q.CanReach(depCall, func(x ssa.Instruction) bool { return x == s })
			_, dom := core.MustPassBefore(fn, func(x ssa.Instruction) bool { return x == ssa.Instruction(depCall) }, func(x ssa.Instruction) bool { return x == s })
			r.Check(!reach && dom && len(depTrue) > 0, "C05.R3", fmt.Sprintf("NextJob/schedule#%d", i+1), "a unit is marked Scheduled only on paths where dependenciesCompleted held in the same iteration", fmt.Sprintf("reachable-without-true-edge=%v dominated=%v", reach, dom), p.Pos(s.Pos()))
			// the unit scheduled was tested Pending: the scheduled unit's state was compared with UnitPending on the way
		}
		// the dependency test is made on the candidate unit of the iteration (same Unit value as the one whose state was read)
		getState := p.FuncObj(pkgStage, "Stages.getState")
		okUnit := false
		for _, g := range core.FindInstrs(fn, core.IsCallTo(getState)) {
			ga := g.(ssa.CallInstruction).Common().Args[1]
			if sameUnit(ga, depCall.Call.Args[1]) {
				okUnit = true
			}
		}
		r.Check(okUnit, "C05.R3", "NextJob/candidate", "the dependency test is applied to the unit whose state was found Pending", "dependenciesCompleted argument is not the candidate unit", p.Pos(depCall.Pos()))
		// pending test: every schedule call's unit has a getState(unit) == UnitPending test dominating it
		stT := p.Named(pkgStage, "UnitState")
		pendingVal := ""
		for _, c := range core.EnumConsts(stT) {
			if c.Name() == "UnitPending" {
				pendingVal = c.Val().ExactString()
			}
		}
		for i, s := range scheds {
			unit := s.(ssa.CallInstruction).Common().Args[1]
			ok := false
			core.InstrsDeep(fn, func(in ssa.Instruction) { // the test sits where the scheduling call is: NextJob or its helper
				ifi, isIf := in.(*ssa.If)
				if !isIf {
					return
				}
				isSt := func(v ssa.Value) bool {
					c, ok := v.(*ssa.Call)
					return ok && core.CommonCallee(c.Common()) == getState && sameUnit(c.Call.Args[1], unit)
				}
				isPend := func(v ssa.Value) bool {
					k, ok := v.(*ssa.Const)
					return ok && k.Value != nil && k.Value.ExactString() == pendingVal
				}
				onT, onF, okc := core.CondRelation(ifi.Cond, isSt, isPend)
				if !okc {
					return
				}
				var e core.Edge
				switch {
				case onT == core.OrdEQ:
					e = core.Edge{From: ifi.Block(), Idx: 0}
				case onF == core.OrdEQ:
					e = core.Edge{From: ifi.Block(), Idx: 1}
				default:
					return
				}
				// from this If, the schedule call is reachable only via the equal edge
				q := core.PathQuery{Fn: fn, CutEdge: func(x core.Edge) bool { return x == e }, CutInstr: func(x ssa.Instruction) bool { return x == ssa.Instruction(ifi) }}
				start := ifi.Block().Instrs[0]
				if _, reach := q.CanReach(start, func(x ssa.Instruction) bool { return x == s }); !reach {
					ok = true
				}
			})
			r.Check(ok, "C05.R3", fmt.Sprintf("NextJob/pending#%d", i+1), "only a unit whose state was just tested == Pending is marked Scheduled", "no dominating Pending test on the same unit", p.Pos(s.Pos()))
		}
	})

	r.Guard("C05.R3", "dependenciesCompleted", "dependency table", func() { checkDependencyTable(p, r) })

	// ------------------------------------------------------------------ R4
	r.Guard("C05.R4", "CmdTryMerge", "merge guards", func() {
		fn := p.Func(pkgStage, "Stages.CmdTryMerge")
		r.Touch(core.FuncName(fn))
		mm := p.FuncObj(pkgStage, "Stages.MarkSegmentMerging")
		calls := core.FindInstrs(fn, core.IsCallTo(mm))
		if len(calls) != 1 {
			core.Undecide("CmdTryMerge: expected one MarkSegmentMerging call")
		}
		call := calls[0].(*ssa.Call)
		unit := call.Call.Args[1]
		// unit = stage.nextUnit()
		nu := p.FuncObj(pkgStage, "Stage.nextUnit")
		r.Check(core.Trace(unit, 0).HasCall(nu), "C05.R4", "CmdTryMerge/next-unit", "the unit merged is the stage's next contiguous unit (segmentCompleted + 1)", "unit does not come from Stage.nextUnit()", p.Pos(call.Pos()))
		nuf := p.Func(pkgStage, "Stage.nextUnit")
		sc := core.FieldOf(p.Named(pkgStage, "Stage"), "segmentCompleted")
		okNext := false
		for _, al := range allocsOrValuesOf(nuf, p.Named(pkgStage, "Unit")) {
			for _, v := range al["Segment"] {
				if bo, ok := v.(*ssa.BinOp); ok && bo.Op.String() == "+" && isConstInt(bo.Y, 1) {
					if f, _ := core.LoadedField(bo.X); f == sc {
						okNext = true
					}
				}
			}
		}
		r.Check(okNext, "C05.R4", "nextUnit/+1", "nextUnit is segmentCompleted + 1", "other expression", p.Pos(nuf.Pos()))
		// guards
		getState := p.FuncObj(pkgStage, "Stages.getState")
		prevC := p.FuncObj(pkgStage, "Stages.previousUnitComplete")
		stT := p.Named(pkgStage, "UnitState")
		ppVal := ""
		for _, c := range core.EnumConsts(stT) {
			if c.Name() == "UnitPartialPresent" {
				ppVal = c.Val().ExactString()
			}
		}
		var okEdges []core.Edge
		nPP, nPrev := 0, 0
		core.InstrsDeep(fn, func(in ssa.Instruction) { // the tests may sit in a helper that answers "not ready"
			ifi, ok := in.(*ssa.If)
			if !ok {
				return
			}
			isSt := func(v ssa.Value) bool {
				c, ok := v.(*ssa.Call)
				return ok && core.CommonCallee(c.Common()) == getState && sameUnit(core.CallerValue(fn, c.Call.Args[1]), unit)
			}
			isPP := func(v ssa.Value) bool {
				k, ok := v.(*ssa.Const)
				return ok && k.Value != nil && k.Value.ExactString() == ppVal
			}
			if onT, onF, ok := core.CondRelation(ifi.Cond, isSt, isPP); ok {
				nPP++
				if onT == core.OrdEQ {
					okEdges = append(okEdges, core.Edge{From: ifi.Block(), Idx: 0})
				} else if onF == core.OrdEQ {
					okEdges = append(okEdges, core.Edge{From: ifi.Block(), Idx: 1})
				}
			}
		})
		q := core.PathQuery{Fn: fn, CutEdge: func(e core.Edge) bool { return containsEdge(okEdges, e) }}
		_, reach := q.CanReach(nil, func(x ssa.Instruction) bool { return x == ssa.Instruction(call) })
		r.Check(nPP > 0 && !reach, "C05.R4", "CmdTryMerge/partial-present", "a unit is handed to the squasher only when its state is PartialPresent", fmt.Sprintf("MarkSegmentMerging reachable without the PartialPresent test (%d tests of the unit's state, %d equality edges)", nPP, len(okEdges)), p.Pos(call.Pos()))
		var prevEdges []core.Edge
		core.InstrsDeep(fn, func(in ssa.Instruction) { // the tests may sit in a helper that answers "not ready"
			ifi, ok := in.(*ssa.If)
			if !ok {
				return
			}
			c, neg := core.StripNot(ifi.Cond)
			cc, ok := c.(*ssa.Call)
			if !ok || core.CommonCallee(cc.Common()) != prevC || !sameUnit(core.CallerValue(fn, cc.Call.Args[1]), unit) {
				return
			}
			nPrev++
			idx := 0
			if neg {
				idx = 1
			}
			prevEdges = append(prevEdges, core.Edge{From: ifi.Block(), Idx: idx})
		})
		q2 := core.PathQuery{Fn: fn, CutEdge: func(e core.Edge) bool { return containsEdge(prevEdges, e) }}
		_, reach2 := q2.CanReach(nil, func(x ssa.Instruction) bool { return x == ssa.Instruction(call) })
		r.Check(nPrev > 0 && !reach2, "C05.R4", "CmdTryMerge/previous-complete", "a unit is merged only when the previous unit of its stage is complete (merges are contiguous, in block order)", "MarkSegmentMerging reachable without previousUnitComplete", p.Pos(call.Pos()))
		// the asynchronous command squashes the same unit it marked
		okSame := false
		for _, cl := range fn.AnonFuncs {
			for _, c := range core.FindInstrs(cl, core.IsCallTo(p.FuncObj(pkgStage, "Stages.multiSquash"))) {
				arg := c.(ssa.CallInstruction).Common().Args[2]
				// free variable bound to the same unit cell
				if core.Trace(arg, 0).Free != nil {
					okSame = true
				}
			}
		}
		r.Check(okSame, "C05.R4", "CmdTryMerge/command", "the returned command squashes the unit that was marked Merging", "multiSquash call not found in the command", p.Pos(fn.Pos()))
		// MergeCompleted advances segmentCompleted only over Completed units
		mf := p.Func(pkgStage, "Stages.MoveSegmentCompletedForward")
		okAdv := true
		for _, w := range core.FieldWritesIn(mf, sc) {
			// dominated by getState(unit) == Completed
			ok := false
			core.InstrsDeep(mf, func(in ssa.Instruction) {
				ifi, isIf := in.(*ssa.If)
				if !isIf {
					return
				}
				if onT, onF, okc := core.CondRelation(ifi.Cond, func(v ssa.Value) bool {
					c, ok := v.(*ssa.Call)
					return ok && core.CommonCallee(c.Common()) == getState
				}, func(v ssa.Value) bool { _, ok := v.(*ssa.Const); return ok }); okc {
					// the advance is reachable only over the `== Completed` edge, whichever way the test is written (an `||`
					// with another condition does not qualify)
					for idx, rel := range []int{onT, onF} {
						if rel != core.OrdEQ {
							continue
						}
						if _, only := core.OnlyViaEdge(mf, core.Edge{From: ifi.Block(), Idx: idx}, func(x ssa.Instruction) bool { return x == w.Instr }); only {
							ok = true
						}
					}
				}
			})
			if !ok {
				okAdv = false
			}
		}
		r.Check(okAdv, "C05.R4", "MoveSegmentCompletedForward", "segmentCompleted advances only over units found Completed", "unguarded advance", p.Pos(mf.Pos()))
		// whoever completes a unit re-scans the stage's merge frontier: the frontier must be able to jump over units that
		// are already Completed (full snapshots found in storage ahead of a gap), otherwise nextUnit() designates a
		// Completed unit forever and the following partials are never merged
		mfObj := p.FuncObj(pkgStage, "Stages.MoveSegmentCompletedForward")
		msc := p.FuncObj(pkgStage, "Stages.markSegmentCompleted")
		for _, name := range []string{"Stages.MergeCompleted", "Stages.FetchStoresState"} {
			fn := p.Func(pkgStage, name)
			r.Touch(core.FuncName(fn))
			marks := core.FindInstrs(fn, core.IsCallTo(msc))
			ok := len(marks) > 0
			// marks made for a map stage are exempt: a map stage has no merge frontier (CmdTryMerge ignores stages that are not KindStore)
			kindF := core.FieldOf(p.Named(pkgStage, "Stage"), "kind")
			kindMap := p.Const(pkgStage, "KindMap")
			var mapEdges []core.Edge
			core.InstrsDeep(fn, func(in ssa.Instruction) {
				ifi, isIf := in.(*ssa.If)
				if !isIf {
					return
				}
				onT, _, okc := core.CondRelation(ifi.Cond, func(v ssa.Value) bool { f, _ := core.LoadedField(v); return f == kindF }, func(v ssa.Value) bool {
					c, isC := v.(*ssa.Const)
					return isC && c.Value != nil && kindMap != nil && c.Value.ExactString() == kindMap.Val().ExactString()
				})
				if okc && (onT == core.OrdEQ) {
					mapEdges = append(mapEdges, core.Edge{From: ifi.Block(), Idx: 0})
				} else if okc {
					mapEdges = append(mapEdges, core.Edge{From: ifi.Block(), Idx: 1})
				}
			})
			for _, m := range marks {
				m := m
				exempt := false
				for _, e := range mapEdges {
					if _, only := core.OnlyViaEdge(fn, e, func(x ssa.Instruction) bool { return x == m }); only {
						exempt = true
					}
				}
				if exempt {
					continue
				}
				if _, must := core.MustReachAfter(fn, m, core.IsCallTo(mfObj), func(in ssa.Instruction) bool {
					if rt, isRet := in.(*ssa.Return); isRet {
						return len(rt.Results) == 0 || core.ReturnsNilError(rt)
					}
					return false
				}); !must {
					ok = false
				}
			}
			r.Check(ok, "C05.R4", name+"/advance-frontier", "after a unit is marked Completed (merge finished, full snapshot found) the stage's merge frontier is re-scanned forward over already Completed units before the function returns", "a success path marks a unit Completed without calling MoveSegmentCompletedForward", p.Pos(fn.Pos()))
		}
	})

	// ------------------------------------------------------------------ R5
	r.Guard("C05.R5", "Scheduler.Update", "message handling", func() { checkSchedulerUpdate(p, r, "C05.R5") })
	r.Guard("C05.R1", "shadowing", "only pending units are shadowed", func() { checkShadowOnlyPending(p, r) })
	r.Guard("C05.R1", "worker-pool", "worker slot states", func() { checkWorkerPool(p, r) })
	r.Guard("C05.R5", "termination-test", "every segment counts", func() { checkAllStoresCompleted(p, r) })
	r.Guard("C05.R5", "walker-protocol", "walker wake-ups", func() { checkWalkerProtocol(p, r, "C05.R5") })
	r.GuardExact("C05.R2", "completion-signal", "completion answered on every call", func() { checkCompletionSignalOnEveryCall(p, r, "C05.R2") })
	r.GuardExact("C05.R4", "segment-index-bounds", "indexes bounded by LastIndex", func() { checkSegmentIndexBounds(p, r, "C05.R4") })
	r.GuardExact("C05.R2", "async-work-failure", "a failed background write fails the shutdown", func() {
		checkFailureEndsFunction(p, r, "C05.R2", pkgStage, "Stages.WaitAsyncWork", 1)
	})
	r.Guard("C05.R4", "helpers", "merge and shadowing predicates", func() { checkSchedulerHelpers(p, r) })
	r.MinInstances("C05.R1", 14)
	r.MinInstances("C05.R2", 8)
	r.MinInstances("C05.R3", 3)
	r.MinInstances("C05.R4", 7)
	r.MinInstances("C05.R5", 10)
}

// sameUnit: the two values denote the same Unit: identical SSA value, or loads of the same local cell.
func sameUnit(a, b ssa.Value) bool {
	if a == b {
		return true
	}
	la, ok1 := a.(*ssa.UnOp)
	lb, ok2 := b.(*ssa.UnOp)
	if ok1 && ok2 && la.X == lb.X {
		if _, isAlloc := la.X.(*ssa.Alloc); isAlloc {
			return true
		}
	}
	// struct literal with identical field values
	return false
}

func callersOf(p *core.Prog, obj *types.Func) []string {
	set := map[string]bool{}
	for _, fn := range p.RepoFunctions() {
		core.Instrs(fn, func(in ssa.Instruction) {
			if core.CalleeOf(in) == obj {
				set[core.FuncName(core.RootFn(fn))] = true
			}
		})
	}
	return keysOf(set)
}

// checkConfinement (C05.R2): tracked scheduler fields have no writer reachable
// from a goroutine, an errgroup task or an asynchronous command closure.
func checkConfinement(p *core.Prog, r *core.Report) {
	cg := p.CallGraph(false)
	msgT := p.Named(pkgLoop, "Msg")
	isCmdSig := func(sig *types.Signature) bool {
		return sig.Params().Len() == 0 && sig.Results().Len() == 1 && types.Identical(sig.Results().At(0).Type(), msgT)
	}
	inScope := func(fn *ssa.Function) bool {
		root := core.RootFn(fn)
		if root.Pkg == nil {
			return false
		}
		pp := root.Pkg.Pkg.Path()
		return strings.HasPrefix(pp, core.ModPath+"/orchestrator")
	}
	roots := map[*ssa.Function]string{}
	for _, fn := range p.RepoFunctions() {
		if !inScope(fn) {
			continue
		}
		// asynchronous command closures
		if fn.Parent() != nil && isCmdSig(fn.Signature) {
			roots[fn] = "loop.Cmd closure"
		}
		core.Instrs(fn, func(in ssa.Instruction) {
			switch x := in.(type) {
			case *ssa.Go:
				if t := core.StaticFn(x.Common()); t != nil {
					roots[t] = "go statement in " + core.FuncName(fn)
				}
			case *ssa.Call:
				if cl := core.CommonCallee(x.Common()); cl != nil && cl.Name() == "Go" && cl.Pkg() != nil && strings.Contains(cl.Pkg().Path(), "llerrgroup") {
					for _, a := range x.Call.Args {
						if mc, ok := a.(*ssa.MakeClosure); ok {
							roots[mc.Fn.(*ssa.Function)] = "llerrgroup task in " + core.FuncName(fn)
						}
					}
				}
			}
		})
	}
	if len(roots) < 5 {
		core.Undecide("only %d asynchronous roots found in orchestrator", len(roots))
	}
	var rootFns []*ssa.Function
	for f := range roots {
		rootFns = append(rootFns, f)
	}
	reach := core.Reachable(cg, rootFns...)
	type tracked struct {
		rel, typ, field string
		allow           map[string]string
	}
	fields := []tracked{
		{pkgStage, "Stages", "segmentStates", nil},
		{pkgStage, "Stages", "segmentOffset", nil},
		{pkgStage, "Stages", "shadowableSegment", nil},
		{pkgStage, "Stage", "segmentCompleted", nil},
		{pkgWork, "WorkerStatus", "State", nil},
		{pkgWork, "WorkerPool", "started", nil},
		{pkgSched, "Scheduler", "outputStreamCompleted", nil},
		{pkgSched, "Scheduler", "storesSyncCompleted", nil},
		{pkgOExec, "Walker", "working", nil},
	}
	for _, t := range fields {
		f := p.Field(t.rel, t.typ, t.field)
		ws := core.FieldWrites(p.RepoFunctions(), f)
		if len(ws) == 0 {
			core.Undecide("no writer of %s.%s found", t.typ, t.field)
		}
		bad := ""
		var sites []string
		for _, w := range ws {
			sites = append(sites, p.Pos(core.InstrPos(w.Instr)))
			if p.IsTestFunc(w.Fn) {
				continue
			}
			if reach[w.Fn] {
				// find the root for the message
				why := "reachable from an asynchronous root"
				for rf, kind := range roots {
					if core.Reachable(cg, rf)[w.Fn] {
						why = kind + " (" + core.FuncName(rf) + ")"
						break
					}
				}
				bad = core.FuncName(w.Fn) + " — " + why
			}
		}
		r.Check(bad == "", "C05.R2", t.typ+"."+t.field, "the field is written only from the scheduler's single-threaded update loop, never from a goroutine / errgroup task / asynchronous command", "written by "+bad, sites...)
	}
	r.Notes = append(r.Notes, fmt.Sprintf("C05.R2: %d asynchronous roots (command closures, go statements, errgroup tasks), %d functions reachable from them", len(roots), len(reach)))
	// Update is only called from the event loop
	upd := p.FuncObj(pkgSched, "Scheduler.Update")
	cs := callersOf(p, upd)
	r.Check(len(cs) == 0, "C05.R2", "Scheduler.Update/callers", "Update is invoked only through the event loop's updateFunc (no direct caller that could run it concurrently)", fmt.Sprintf("direct callers: %v", cs))
	// EventLoop.update → updateFunc is called outside of any goroutine closure
	lu := p.Func(pkgLoop, "EventLoop.update")
	uf := p.Field(pkgLoop, "EventLoop", "updateFunc")
	okLoop := false
	core.Instrs(lu, func(in ssa.Instruction) {
		if c, ok := in.(*ssa.Call); ok {
			if f, _ := core.LoadedField(c.Call.Value); f == uf {
				okLoop = true
			}
		}
	})
	for _, cl := range core.WithClosures(lu)[1:] {
		core.Instrs(cl, func(in ssa.Instruction) {
			if c, ok := in.(*ssa.Call); ok {
				if f, _ := core.LoadedField(c.Call.Value); f == uf {
					okLoop = false
				}
			}
		})
	}
	r.Check(okLoop, "C05.R2", "EventLoop.update", "the update function is called synchronously by EventLoop.update, not from a spawned goroutine", "updateFunc called from a closure", p.Pos(lu.Pos()))
}

// checkSchedulerUpdate (C05.R5 / C16.R3).
func checkSchedulerUpdate(p *core.Prog, r *core.Report, rule string) {
	fd, pk := p.FuncDecl(pkgSched, "Scheduler.Update")
	fn := p.Func(pkgSched, "Scheduler.Update")
	r.Touch(core.FuncName(fn))
	var sw *core.SwitchInfo
	for _, s := range core.SwitchesIn(pk, fd.Body) {
		if s.IsType {
			sw = s
		}
	}
	if sw == nil {
		core.Undecide("Scheduler.Update: no type switch on the message")
	}
	labels := sw.AllLabels()
	// all message types declared in work, stage, execout (named struct types whose name starts with Msg)
	exempt := map[string]string{"MsgMergeNotReady": "informational: the merge is retried on the next job/merge completion"}
	var all []string
	for _, rel := range []string{pkgWork, pkgStage, pkgOExec} {
		sc := p.Pkg(rel).Types.Scope()
		for _, n := range sc.Names() {
			if tn, ok := sc.Lookup(n).(*types.TypeName); ok && strings.HasPrefix(n, "Msg") {
				if _, isStruct := tn.Type().Underlying().(*types.Struct); isStruct {
					all = append(all, n)
				}
			}
		}
	}
	sort.Strings(all)
	for _, m := range all {
		if _, ex := exempt[m]; ex {
			continue
		}
		r.Check(labels[m], rule, "Update/case/"+m, "the scheduler's Update handles message "+m, "no case for this message type (it would be dropped silently)", p.Pos(sw.Pos))
	}
	// failure cases quit with the message's error
	quit := p.FuncObj(pkgLoop, "Quit")
	for _, m := range []string{"MsgJobFailed", "MsgMergeFailed"} {
		ok := false
		for i, ls := range sw.Labels {
			for _, l := range ls {
				if l != m {
					continue
				}
				cl := sw.Clauses[i]
				core.Instrs(fn, func(in ssa.Instruction) {
					c, isC := in.(*ssa.Call)
					if !isC || core.CommonCallee(c.Common()) != quit || !(cl.Pos() <= c.Pos() && c.Pos() <= cl.End()) {
						return
					}
					// argument is the message's Error field
					if hasFieldNamed(core.Trace(c.Call.Args[0], 0), "Error") {
						// and the command reaches the returned batch
						for _, s := range core.ForwardSinks(c, 8) {
							if s.IsRet || (s.Callee != nil && s.Callee.Name() == "Batch") {
								ok = true
							}
						}
					}
				})
			}
		}
		r.Check(ok, rule, "Update/"+m+"→Quit", "a "+m+" ends the scheduler loop with that failure's error", "no loop.Quit(msg.Error) returned in this case", p.Pos(sw.Pos))
	}
	// MsgJobSucceeded returns the worker and records the success
	ret := p.FuncObj(pkgWork, "WorkerPool.Return")
	mjs := p.FuncObj(pkgStage, "Stages.MarkJobSuccess")
	for i, ls := range sw.Labels {
		for _, l := range ls {
			if l != "MsgJobSucceeded" {
				continue
			}
			cl := sw.Clauses[i]
			inClause := func(obj *types.Func) bool {
				found := false
				core.Instrs(fn, func(in ssa.Instruction) {
					if core.CalleeOf(in) == obj && cl.Pos() <= in.Pos() && in.Pos() <= cl.End() {
						found = true
					}
				})
				return found
			}
			r.Check(inClause(ret), rule, "Update/MsgJobSucceeded→Return", "a finished job returns its worker to the pool", "WorkerPool.Return not called", p.Pos(cl.Pos()))
			r.Check(inClause(mjs), rule, "Update/MsgJobSucceeded→MarkJobSuccess", "a finished job marks its unit PartialPresent", "MarkJobSuccess not called", p.Pos(cl.Pos()))
		}
	}
	// wake-ups: the events that can make a merge or a job possible re-arm both (otherwise a unit stays PartialPresent or
	// Pending for ever once no later event of that stage arrives)
	ctm := p.FuncObj(pkgStage, "Stages.CmdTryMerge")
	csn := p.FuncObj(pkgWork, "CmdScheduleNextJob")
	mc := p.FuncObj(pkgStage, "Stages.MergeCompleted")
	isMergeOf := func(wantUnit bool, fromCall *types.Func) func(ssa.Instruction) bool {
		judge := func(srcs ...*core.Sources) bool {
			has := func(name string) bool {
				for _, s := range srcs {
					if hasFieldNamed(s, name) {
						return true
					}
				}
				return false
			}
			hasCall := func(f *types.Func) bool {
				for _, s := range srcs {
					if s.HasCall(f) {
						return true
					}
				}
				return false
			}
			if fromCall != nil {
				return hasCall(fromCall)
			}
			return has("Stage") && has("Unit") == wantUnit && !hasCall(mjs)
		}
		return func(in ssa.Instruction) bool {
			if core.CalleeOf(in) == ctm {
				args := in.(ssa.CallInstruction).Common().Args
				return judge(core.Trace(args[len(args)-1], 0))
			}
			// through a helper of the package: the helper issues the merge attempt for (something derived from) one of its
			// parameters on every path (own stage) / on some path (shadowed stages), and the argument given for that parameter is
			// what the rule asks for
			ci, ok := in.(ssa.CallInstruction)
			if !ok {
				return false
			}
			h := core.StaticFn(ci.Common())
			if h == nil || h.Blocks == nil || h.Pkg != fn.Pkg || h.Parent() != nil {
				return false
			}
			for i, prm := range h.Params {
				if i >= len(ci.Common().Args) {
					continue
				}
				inner := func(x ssa.Instruction) bool {
					if core.CalleeOf(x) != ctm {
						return false
					}
					a := x.(ssa.CallInstruction).Common().Args
					hs := core.Trace(a[len(a)-1], 0)
					if !hs.Params[prm] {
						return false
					}
					return judge(hs, core.Trace(ci.Common().Args[i], 0))
				}
				if fromCall != nil {
					if len(core.FindInstrs(h, inner)) > 0 {
						return true
					}
					continue
				}
				if _, must := core.MustReachAfter(h, nil, inner, nil); must {
					return true
				}
			}
			return false
		}
	}
	for _, c := range core.FindInstrs(fn, core.IsCallTo(mjs)) {
		_, own := core.MustReachAfter(fn, c, isMergeOf(true, nil), nil)
		r.Check(own, rule, "Update/MsgJobSucceeded→CmdTryMerge(own stage)", "a finished job always triggers a merge attempt for its own stage, whether or not it shadowed lower stages (a store-stage job can shadow too)", "a path after MarkJobSuccess issues no CmdTryMerge(msg.Unit.Stage)", p.Pos(c.Pos()))
		shadow := len(core.FindInstrs(fn, isMergeOf(false, mjs))) > 0
		r.Check(shadow, rule, "Update/MsgJobSucceeded→CmdTryMerge(shadowed)", "every stage shadowed by the finished job gets a merge attempt as well", "no CmdTryMerge on the stages of the units returned by MarkJobSuccess", p.Pos(c.Pos()))
		_, next := core.MustReachAfter(fn, c, core.IsCallTo(csn), nil)
		r.Check(next, rule, "Update/MsgJobSucceeded→CmdScheduleNextJob", "a finished job re-arms the scheduling of the next job", "a path after MarkJobSuccess issues no CmdScheduleNextJob", p.Pos(c.Pos()))
	}
	for _, c := range core.FindInstrs(fn, core.IsCallTo(mc)) {
		_, again := core.MustReachAfter(fn, c, func(in ssa.Instruction) bool { return isMergeOf(false, nil)(in) || isMergeOf(true, nil)(in) }, nil)
		_, next := core.MustReachAfter(fn, c, core.IsCallTo(csn), nil)
		r.Check(again && next, rule, "Update/MsgMergeFinished→wake-ups", "a finished merge triggers the next merge attempt of that stage and re-arms job scheduling (dependants may have become schedulable)", fmt.Sprintf("CmdTryMerge(msg.Stage) on every path: %v; CmdScheduleNextJob on every path: %v", again, next), p.Pos(c.Pos()))
	}
	// Quit carries the error to Run's return
	qf := p.Func(pkgLoop, "Quit")
	okQ := false
	for _, cl := range core.WithClosures(qf) {
		for _, al := range allocsOrValuesOf(cl, p.Named(pkgLoop, "QuitMsg")) {
			if len(al["err"]) > 0 {
				okQ = true
			}
		}
		core.Instrs(cl, func(in ssa.Instruction) {
			if mi, ok := in.(*ssa.MakeInterface); ok {
				if n, ok := mi.X.Type().(*types.Named); ok && n.Obj().Name() == "QuitMsg" {
					okQ = true
				}
			}
		})
	}
	r.Check(okQ, rule, "loop.Quit", "loop.Quit wraps the error into the message that ends Run", "QuitMsg not built", p.Pos(qf.Pos()))
}

// checkDependencyTable (C05.R3): a job of unit (segment, stage) loads, when it starts, the full store of EVERY lower
// stage at the first block of its segment.  dependenciesCompleted therefore
//   - (every-lower-stage) lets an iteration of its loop over the lower stages go on only after the unit (segment-1, i)
//     was found Completed or NoOp — for each lower stage i, not only the direct parent, whatever the state of (segment, i)
//     and also on the first segment of the unit's own stage (a lower stage may start earlier);
//   - (early-true) answers true before the loop only for stage 0;
//   - (state table) accepts a lower unit of the same segment in the states Completed, NoOp, Shadowed, PartialPresent
//     and rejects any other state;
//   - previousUnitComplete reads (segment-1, same stage) and accepts exactly Completed and NoOp.
func checkDependencyTable(p *core.Prog, r *core.Report) {
	fn := p.Func(pkgStage, "Stages.dependenciesCompleted")
	r.Touch(core.FuncName(fn))
	getState := p.FuncObj(pkgStage, "Stages.getState")
	prevFn := p.FuncObj(pkgStage, "Stages.previousUnitComplete")
	stT := p.Named(pkgStage, "UnitState")
	names := map[string]string{}
	for _, c := range core.EnumConsts(stT) {
		names[c.Val().ExactString()] = strings.TrimPrefix(c.Name(), "Unit")
	}
	loops := core.Loops(fn)
	if len(loops) != 1 {
		core.Undecide("dependenciesCompleted: expected one loop over the lower stages, found %d", len(loops))
	}
	l := loops[0]
	_, ind := l.InductionDir()
	if ind == nil {
		core.Undecide("dependenciesCompleted: loop counter not recognised")
	}
	uParam := fn.Params[1]
	// the fields of a Unit value passed as argument: the literal's Segment and Stage
	unitFields := func(v ssa.Value) (seg, stg ssa.Value) {
		u, ok := v.(*ssa.UnOp)
		if !ok {
			return nil, nil
		}
		al, ok := u.X.(*ssa.Alloc)
		if !ok {
			return nil, nil
		}
		lf := core.LiteralFields(al)
		if len(lf["Segment"]) == 1 {
			seg = lf["Segment"][0]
		}
		if len(lf["Stage"]) == 1 {
			stg = lf["Stage"][0]
		}
		return
	}
	isUField := func(v ssa.Value, name string) bool {
		v = core.SkipConv(v)
		if f, ok := v.(*ssa.Field); ok {
			return f.X == ssa.Value(uParam) && core.FieldOfValue(f) != nil && core.FieldOfValue(f).Name() == name
		}
		f, base := core.LoadedField(v)
		if f == nil || f.Name() != name {
			return false
		}
		// u spilled to a local cell
		return base != nil && (base == ssa.Value(uParam) || core.OperandSlice(base)[uParam])
	}
	isStateConst := func(want ...string) func(ssa.Value) bool {
		return func(v ssa.Value) bool {
			k, ok := v.(*ssa.Const)
			if !ok || k.Value == nil {
				return false
			}
			for _, w := range want {
				if names[k.Value.ExactString()] == w {
					return true
				}
			}
			return false
		}
	}
	// edges of the loop body on which (segment-1, i) is known Completed/NoOp
	var prevOK []core.Edge
	core.InstrsDeep(fn, func(in ssa.Instruction) {
		ifi, ok := in.(*ssa.If)
		if !ok || !l.Body[ifi.Block()] {
			return
		}
		c, neg := core.StripNot(ifi.Cond)
		call, ok := c.(*ssa.Call)
		if !ok || core.CommonCallee(call.Common()) != prevFn {
			return
		}
		seg, stg := unitFields(call.Call.Args[len(call.Call.Args)-1])
		if seg == nil || stg == nil || !isUField(seg, "Segment") || core.SkipConv(stg) != ssa.Value(ind) {
			return
		}
		idx := 0
		if neg {
			idx = 1
		}
		prevOK = append(prevOK, core.Edge{From: ifi.Block(), Idx: idx})
	})
	header := l.Header.Instrs[0]
	isRet := func(val string) func(ssa.Instruction) bool {
		return func(in ssa.Instruction) bool {
			ret, ok := in.(*ssa.Return)
			if !ok || len(ret.Results) != 1 {
				return false
			}
			k, ok := ret.Results[0].(*ssa.Const)
			return ok && k.Value != nil && k.Value.ExactString() == val
		}
	}
	isRetFalse, isRetTrue := isRet("false"), isRet("true")
	// every-lower-stage
	okEvery := len(prevOK) > 0
	for _, s := range l.Header.Succs {
		if !l.Body[s] || s == l.Header {
			continue
		}
		q := core.PathQuery{Fn: fn, CutEdge: func(e core.Edge) bool { return containsEdge(prevOK, e) }}
		if _, reach := q.CanReach(s.Instrs[0], func(x ssa.Instruction) bool { return x == header || isRetTrue(x) }); reach || s.Instrs[0] == header {
			okEvery = false
		}
	}
	// the loop visits every lower stage: its only early ways out are `return false`
	for _, e := range l.EarlyExits {
		tgt := e.From.Succs[e.Idx]
		if !isRetFalse(tgt.Instrs[len(tgt.Instrs)-1]) || len(tgt.Instrs) != 1 {
			okEvery = false
		}
	}
	r.Check(okEvery, "C05.R3", "dependenciesCompleted/every-lower-stage", "for EACH lower stage i the loop goes on (or the function answers true) only after previousUnitComplete(Unit{u.Segment, i}) held: the job loads the full store of every lower stage at its first block, so each of them must be complete up to the previous segment", fmt.Sprintf("%d tests of the previous segment of the lower stage in the loop", len(prevOK)), p.Pos(fn.Pos()))
	// early-true
	var stage0 []core.Edge
	core.InstrsDeep(fn, func(in ssa.Instruction) {
		ifi, ok := in.(*ssa.If)
		if !ok || l.Body[ifi.Block()] {
			return
		}
		onT, onF, ok := core.CondRelation(ifi.Cond, func(v ssa.Value) bool { return isUField(v, "Stage") }, func(v ssa.Value) bool {
			k, ok := v.(*ssa.Const)
			return ok && k.Value != nil && k.Value.ExactString() == "0"
		})
		if !ok {
			return
		}
		if onT == core.OrdEQ {
			stage0 = append(stage0, core.Edge{From: ifi.Block(), Idx: 0})
		}
		if onF == core.OrdEQ {
			stage0 = append(stage0, core.Edge{From: ifi.Block(), Idx: 1})
		}
	})
	q0 := core.PathQuery{Fn: fn, CutEdge: func(e core.Edge) bool { return containsEdge(stage0, e) }, CutInstr: func(x ssa.Instruction) bool { return x == header }}
	_, early := q0.CanReach(nil, isRetTrue)
	r.Check(!early, "C05.R3", "dependenciesCompleted/early-true", "before looking at the lower stages the answer is true only for stage 0 (not, e.g., for the first segment of a stage: a lower stage may start earlier)", "a `return true` is reachable without entering the loop and without stage == 0", p.Pos(fn.Pos()))
	// state table of the same-segment lower unit
	var stateCall *ssa.Call
	core.Instrs(fn, func(in ssa.Instruction) {
		c, ok := in.(*ssa.Call)
		if !ok || core.CommonCallee(c.Common()) != getState || !l.Body[c.Block()] {
			return
		}
		seg, stg := unitFields(c.Call.Args[len(c.Call.Args)-1])
		if seg != nil && stg != nil && isUField(seg, "Segment") && core.SkipConv(stg) == ssa.Value(ind) {
			stateCall = c
		}
	})
	if stateCall == nil {
		core.Undecide("dependenciesCompleted: read of the state of (segment, i) not found")
	}
	classify := func(start *ssa.BasicBlock) string {
		first := start.Instrs[0]
		toHeader, toFalse := first == header, isRetFalse(first)
		if !toHeader && !toFalse {
			q := core.PathQuery{Fn: fn, CutInstr: func(x ssa.Instruction) bool { return x == header || isRetFalse(x) }}
			_, toHeader = q.CanReach(first, func(x ssa.Instruction) bool { return x == header })
			_, toFalse = q.CanReach(first, isRetFalse)
		}
		switch {
		case toHeader && !toFalse:
			return "accept"
		case !toHeader && toFalse:
			return "reject"
		case toHeader && toFalse:
			return "conditional"
		}
		return "?"
	}
	got := map[string]string{}
	var defBlock *ssa.BasicBlock
	core.InstrsDeep(fn, func(in ssa.Instruction) {
		ifi, ok := in.(*ssa.If)
		if !ok || !l.Body[ifi.Block()] {
			return
		}
		bo, ok := ifi.Cond.(*ssa.BinOp)
		if !ok || bo.Op != token.EQL || bo.X != ssa.Value(stateCall) {
			return
		}
		k, ok := bo.Y.(*ssa.Const)
		if !ok {
			return
		}
		got[names[k.Value.ExactString()]] = classify(ifi.Block().Succs[0])
		defBlock = ifi.Block().Succs[1]
	})
	if defBlock != nil {
		got["other"] = classify(defBlock)
	}
	want := map[string]string{"Completed": "accept", "NoOp": "accept", "Shadowed": "accept", "PartialPresent": "accept", "other": "reject"}
	var ks []string
	for k := range want {
		ks = append(ks, k)
	}
	for k := range got {
		if _, ok := want[k]; !ok {
			ks = append(ks, k)
		}
	}
	sort.Strings(ks)
	for _, k := range ks {
		w, ok := want[k]
		if !ok {
			w = "reject"
		}
		r.Check(got[k] == w, "C05.R3", "dependenciesCompleted/"+k, fmt.Sprintf("a lower stage of the same segment in state %s (its previous segment being complete): %s", k, w), "classified as "+got[k], p.Pos(fn.Pos()))
	}
	// previousUnitComplete
	pf := p.Func(pkgStage, "Stages.previousUnitComplete")
	r.Touch(core.FuncName(pf))
	okPrev := false
	var accepted []string
	for _, c := range core.FindInstrs(pf, core.IsCallTo(getState)) {
		call := c.(*ssa.Call)
		seg, stg := unitFields(call.Call.Args[len(call.Call.Args)-1])
		if seg == nil || stg == nil {
			continue
		}
		sub, ok := core.SkipConv(seg).(*ssa.BinOp)
		if !ok || sub.Op != token.SUB {
			continue
		}
		k, ok := sub.Y.(*ssa.Const)
		if !ok || k.Value.ExactString() != "1" {
			continue
		}
		pu := pf.Params[1]
		fld := func(v ssa.Value, name string) bool {
			v = core.SkipConv(v)
			if f, ok := v.(*ssa.Field); ok {
				return f.X == ssa.Value(pu) && core.FieldOfValue(f).Name() == name
			}
			f, base := core.LoadedField(v)
			return f != nil && f.Name() == name && base != nil && (base == ssa.Value(pu) || core.OperandSlice(base)[pu])
		}
		if !fld(sub.X, "Segment") || !fld(stg, "Stage") {
			continue
		}
		okPrev = true
		// the states accepted: every comparison of the state in the returned expression
		for _, ref := range *call.Referrers() {
			if bo, ok := ref.(*ssa.BinOp); ok && bo.Op == token.EQL {
				if kk, ok := bo.Y.(*ssa.Const); ok {
					accepted = append(accepted, names[kk.Value.ExactString()])
				}
			} else if _, ok := ref.(*ssa.BinOp); ok {
				accepted = append(accepted, "?")
			}
		}
	}
	sort.Strings(accepted)
	r.Check(okPrev && strings.Join(accepted, ",") == "Completed,NoOp", "C05.R3", "previousUnitComplete", "previousUnitComplete(u) reads the unit (u.Segment-1, u.Stage) and holds exactly for the states Completed and NoOp", fmt.Sprintf("reads (segment-1, stage): %v; states accepted: %v", okPrev, accepted), p.Pos(pf.Pos()))
	_ = isStateConst
}
