package props

import (
	"fmt"
	"go/types"
	"sort"
	"strings"

	"golang.org/x/tools/go/ssa"

	"verif/sa/core"
)

func init() {
	register("C08", &Def{
		Title:     "Store reads honour ordinals: get_first/get_last/get_at/has_* match the deltas",
		Run:       runC08,
		Technique: "static analysis: per-iteration path summaries of the six delta walks compared with a semantic table and with each other (sibling agreement), loop direction/stop-condition normal form, must-pass-through of the stable sort, delta-literal provenance",
		Explanation: "(R1) each has_* walk agrees with the found component of its get_* sibling — same seed, same direction, same stop condition, same delta-kind→found map — or delegates to it, and the exported Get* return the inner found flag unchanged; " +
			"(R2) get_first scans the block's deltas forward and answers at the first delta of the key, get_last/get_at scan backward, get_at stops exactly at delta.Ordinal <= ord, and per delta kind the value/found answer is the one the semantics dictate; " +
			"(R3) Flush sorts the recorded operations with a stable sort whose comparator reads only the ordinal, before applying any of them; " +
			"(R4) every delta built by the write path carries the ordinal, key, previous value and new value of what is applied, CREATE only when absent, and is appended to the block's delta list iff applied. Also (R3) baseStore.Reset reassigns the operation log, the deltas and the last ordinal on every path.",
		NotCovered:  "That arbitrary operation sequences produce the model's answers end to end (the per-kind tables, seeds, directions and stop conditions are decided; their composition over a whole block is argued, not executed).",
		Assumptions: []string{"slices.SortStableFunc / sort.SliceStable are stable", "the deltas of a block are in application order (C08.R3/R4)"},
	})
}

type caseEff struct{ Value, Found, Kind string }

type readerModel struct {
	Fn         *ssa.Function
	Delegate   *types.Func // pure delegation: returns a component of this callee's result
	Dir        int
	Cases      map[string]caseEff
	KeySkip    bool // a delta of another key leaves the answer unchanged and continues
	KeyMatched bool // every delta-kind path is under Key == key
	StopOrd    int  // orderings of (δ.Ordinal, ord) under which the walk stops without looking at the delta (0 = no stop)
	ProcOrd    int  // orderings under which a delta is looked at
	Fallback   [2]string
	Seed       *types.Func
	SeedKeyArg bool
	HasValue   bool
	FullRange  bool // the walk covers every delta of the block (index 0 and len-1 included)
	RangeWhy   string
	Problems   []string
}

func runC08(p *core.Prog, r *core.Report) {
	names := map[string]string{}
	for _, c := range core.EnumConsts(p.Named(pkgPBV1, "StoreDelta_Operation")) {
		names[c.Val().ExactString()] = strings.TrimPrefix(c.Name(), "StoreDelta_")
	}
	model := func(name string) *readerModel {
		fn := p.Func(pkgStore, name)
		r.Touch(core.FuncName(fn))
		return buildReaderModel(p, fn, names)
	}

	type spec struct {
		get, has string
		dir      int
		stop     bool
		cases    map[string]caseEff
		kind     string
		seeds    []string
	}
	first := map[string]caseEff{"DELETE": {"δ.OldValue", "true", ""}, "UPDATE": {"δ.OldValue", "true", ""}, "CREATE": {"nil", "false", ""}}
	last := map[string]caseEff{"DELETE": {"nil", "false", ""}, "UPDATE": {"δ.NewValue", "true", ""}, "CREATE": {"δ.NewValue", "true", ""}}
	specs := []spec{
		{"baseStore.getFirst", "baseStore.HasFirst", +1, false, first, "return", nil},
		{"baseStore.getLast", "baseStore.HasLast", -1, false, last, "return", nil},
		{"baseStore.getAt", "baseStore.HasAt", -1, true, first, "assign", []string{"getLast", "GetLast", "HasLast"}},
	}
	for _, sp := range specs {
		sp := sp
		var gm, hm *readerModel
		for _, which := range []string{sp.get, sp.has} {
			which := which
			r.Guard("C08.R2", which, "delta walk shape", func() {
				m := model(which)
				if which == sp.get {
					gm = m
				} else {
					hm = m
				}
				if m.Delegate != nil {
					ok := false
					for _, acc := range []string{sp.get, strings.Replace(sp.get, ".get", ".Get", 1)} {
						if m.Delegate == p.FuncObj(pkgStore, acc) {
							ok = true
						}
					}
					r.Check(ok, "C08.R1", which+"/delegates", which+" delegates to its get sibling", "delegates to "+core.ObjName(m.Delegate), p.Pos(m.Fn.Pos()))
					return
				}
				pos := p.Pos(m.Fn.Pos())
				for _, pr := range m.Problems {
					r.Fail("C08.R2", which+"/shape", "the walk over the block's deltas has a classifiable shape", pr, pos)
				}
				r.Check(m.Dir == sp.dir, "C08.R2", which+"/direction", fmt.Sprintf("the deltas are scanned in direction %+d", sp.dir), fmt.Sprintf("direction is %+d", m.Dir), pos)
				r.Check(m.FullRange, "C08.R2", which+"/all-deltas", "the walk can reach every delta of the block: it starts at the first (or last) one and its bound includes the other end", m.RangeWhy, pos)
				r.Check(m.KeySkip && m.KeyMatched, "C08.R2", which+"/key-filter", "deltas of other keys are skipped without changing the answer; deltas are interpreted only under Key == key",
					fmt.Sprintf("skip-unchanged=%v, kinds-under-key-match=%v", m.KeySkip, m.KeyMatched), pos)
				if sp.stop {
					r.Check(m.StopOrd == core.OrdLT|core.OrdEQ && m.ProcOrd == core.OrdGT, "C08.R2", which+"/stop", "the backward walk stops at the first delta with Ordinal <= ord and undoes only deltas with Ordinal > ord",
						fmt.Sprintf("stops when Ordinal %s ord, interprets when Ordinal %s ord", core.OrdString(m.StopOrd), core.OrdString(m.ProcOrd)), pos)
				} else {
					r.Check(m.StopOrd == 0, "C08.R2", which+"/stop", "the walk has no ordinal-dependent stop", "stops when Ordinal "+core.OrdString(m.StopOrd)+" ord", pos)
				}
				for _, k := range []string{"CREATE", "UPDATE", "DELETE"} {
					want := sp.cases[k]
					got, has := m.Cases[k]
					bad := ""
					if !has {
						bad = "delta kind not handled"
					} else {
						if got.Found != want.Found {
							bad = fmt.Sprintf("found=%s, want %s", got.Found, want.Found)
						}
						if m.HasValue && got.Value != want.Value {
							bad += fmt.Sprintf(" value=%s, want %s", got.Value, want.Value)
						}
						if got.Kind != sp.kind {
							bad += fmt.Sprintf(" style=%s, want %s", got.Kind, sp.kind)
						}
					}
					desc := fmt.Sprintf("a %s delta of the key answers found=%s", k, want.Found)
					if m.HasValue {
						desc += ", value=" + want.Value
					}
					if sp.kind == "return" {
						desc += " and ends the walk"
					} else {
						desc += " and the walk continues"
					}
					r.Check(bad == "", "C08.R2", which+"/"+k, desc, bad, pos)
				}
				if _, other := m.Cases["default"]; other {
					r.Fail("C08.R2", which+"/other-kind", "an unknown delta kind panics", "an unknown delta kind produces an answer", pos)
				}
				if sp.seeds == nil {
					wantF := [2]string{"b.kv[key]", "has(b.kv,key)"}
					ok := m.Fallback[1] == wantF[1] && (!m.HasValue || m.Fallback[0] == wantF[0]) && m.Seed == nil
					r.Check(ok, "C08.R2", which+"/fallback", "when no delta of the block touches the key the answer is the lookup in kv", fmt.Sprintf("fallback is %v seed %v", m.Fallback, m.Seed), pos)
				} else {
					ok := m.Seed != nil && m.SeedKeyArg
					if ok {
						ok = false
						for _, s := range sp.seeds {
							if m.Seed.Name() == s {
								ok = true
							}
						}
					}
					seedName := "<none>"
					if m.Seed != nil {
						seedName = m.Seed.Name()
					}
					r.Check(ok, "C08.R2", which+"/seed", "the backward walk starts from the value after the block (get_last of the same key) and undoes later deltas",
						"seeded from "+seedName, pos)
				}
			})
		}
		r.Guard("C08.R1", sp.has, "sibling agreement", func() {
			if gm == nil || hm == nil {
				core.Undecide("models of %s / %s not available", sp.get, sp.has)
			}
			if hm.Delegate != nil {
				return // agreement by construction, reported above
			}
			var diffs []string
			if gm.Dir != hm.Dir {
				diffs = append(diffs, fmt.Sprintf("direction %+d vs %+d", gm.Dir, hm.Dir))
			}
			if gm.StopOrd != hm.StopOrd || gm.ProcOrd != hm.ProcOrd {
				diffs = append(diffs, "stop condition differs")
			}
			var ks []string
			for k := range gm.Cases {
				ks = append(ks, k)
			}
			for k := range hm.Cases {
				if _, ok := gm.Cases[k]; !ok {
					ks = append(ks, k)
				}
			}
			sort.Strings(ks)
			for _, k := range ks {
				if gm.Cases[k].Found != hm.Cases[k].Found || gm.Cases[k].Kind != hm.Cases[k].Kind {
					diffs = append(diffs, fmt.Sprintf("%s: found %s/%s vs %s/%s", k, gm.Cases[k].Found, gm.Cases[k].Kind, hm.Cases[k].Found, hm.Cases[k].Kind))
				}
			}
			if gm.Fallback[1] != hm.Fallback[1] {
				diffs = append(diffs, fmt.Sprintf("fallback %s vs %s", gm.Fallback[1], hm.Fallback[1]))
			}
			if (gm.Seed == nil) != (hm.Seed == nil) {
				diffs = append(diffs, "one is seeded, the other not")
			} else if gm.Seed != nil && !sameSeedClass(gm.Seed, hm.Seed) {
				diffs = append(diffs, fmt.Sprintf("seed %s vs %s", gm.Seed.Name(), hm.Seed.Name()))
			}
			r.Check(len(diffs) == 0, "C08.R1", sp.has+"≍"+sp.get, sp.has+" answers exactly whether "+sp.get+" finds the key (same seed, direction, stop, kind→found map, fallback)", strings.Join(diffs, "; "), p.Pos(hm.Fn.Pos()))
		})
	}
	// exported Get* return the inner found unchanged (and the inner value up to the set_sum prefix strip)
	for _, pr := range [][2]string{{"baseStore.GetFirst", "baseStore.getFirst"}, {"baseStore.GetLast", "baseStore.getLast"}, {"baseStore.GetAt", "baseStore.getAt"}} {
		pr := pr
		r.Guard("C08.R1", pr[0], "exported getter forwards found", func() {
			fn := p.Func(pkgStore, pr[0])
			r.Touch(core.FuncName(fn))
			inner := p.FuncObj(pkgStore, pr[1])
			ok := true
			n := 0
			core.Instrs(fn, func(in ssa.Instruction) {
				ret, isRet := in.(*ssa.Return)
				if !isRet {
					return
				}
				n++
				fv := ret.Results[len(ret.Results)-1]
				ex, isEx := fv.(*ssa.Extract)
				if !isEx || ex.Index != 1 {
					ok = false
					return
				}
				c, isCall := ex.Tuple.(*ssa.Call)
				if !isCall || core.CommonCallee(c.Common()) != inner {
					ok = false
					return
				}
				// args forwarded: parameters in order
				for i, a := range c.Call.Args {
					if i >= len(fn.Params) || a != ssa.Value(fn.Params[i]) {
						ok = false
					}
				}
			})
			r.Check(ok && n > 0, "C08.R1", pr[0]+"/found", pr[0]+" returns the found flag of "+pr[1]+" for the same arguments, unchanged", "found is not the inner call's second result", p.Pos(fn.Pos()))
		})
	}

	// ---- R3 stable ordinal sort before application
	r.Guard("C08.R3", "Flush/sort", "sort dominates application", func() {
		fn := p.Func(pkgStore, "baseStore.Flush")
		r.Touch(core.FuncName(fn))
		sortObj := p.FuncObj(pkgPBInt, "Operations.Sort")
		isSort := core.IsCallTo(sortObj)
		// application sites: calls to baseStore methods taking op.Ord (any static repo callee in the loop body reading Operation fields)
		opT := p.Named(pkgPBInt, "Operation")
		applies := core.FindInstrs(fn, func(in ssa.Instruction) bool {
			c, ok := in.(*ssa.Call)
			if !ok {
				return false
			}
			callee := core.StaticFn(c.Common())
			if callee == nil || !core.IsRepo(callee) || callee.Signature.Recv() == nil {
				return false
			}
			for _, a := range c.Call.Args {
				f, base := core.LoadedField(a)
				if f != nil && base != nil {
					if pt, ok := base.Type().(*types.Pointer); ok {
						if n, ok := pt.Elem().(*types.Named); ok && n.Obj() == opT.Obj() {
							return true
						}
					}
				}
			}
			return false
		})
		if len(applies) < 20 {
			core.Undecide("Flush: only %d operation application sites found", len(applies))
		}
		r.CallSites += len(applies)
		bad := ""
		for _, a := range applies {
			if _, ok := core.MustPassBefore(fn, isSort, func(in ssa.Instruction) bool { return in == a }); !ok {
				bad = p.Pos(a.Pos())
			}
		}
		r.Check(bad == "", "C08.R3", "Flush/sort-first", "Operations.Sort() runs before any recorded operation is applied", "an operation is applied without a preceding sort at "+bad, p.Pos(fn.Pos()))
		// the sorted list is the one iterated: receiver of Sort is load of b.kvOps, loop ranges b.kvOps.Operations
		kvOps := p.Field(pkgStore, "baseStore", "kvOps")
		okRecv := false
		for _, s := range core.FindInstrs(fn, isSort) {
			f, _ := core.LoadedField(s.(ssa.CallInstruction).Common().Args[0])
			if f == kvOps {
				okRecv = true
			}
		}
		r.Check(okRecv, "C08.R3", "Flush/sort-receiver", "the list that is sorted is the store's recorded operation list (baseStore.kvOps)", "Sort is called on something else", p.Pos(fn.Pos()))
	})
	r.Guard("C08.R3", "Operations.Sort", "stable sort by ordinal", func() {
		fn := p.Func(pkgPBInt, "Operations.Sort")
		r.Touch(core.FuncName(fn))
		stable := map[string]bool{"slices.SortStableFunc": true, "sort.SliceStable": true, "sort.Stable": true}
		unstable := map[string]bool{"slices.SortFunc": true, "sort.Slice": true, "sort.Sort": true, "slices.Sort": true}
		var calls []string
		var cmpFn *ssa.Function
		okStable := false
		core.Instrs(fn, func(in ssa.Instruction) {
			c, ok := in.(*ssa.Call)
			if !ok {
				return
			}
			callee := core.CommonCallee(c.Common())
			if callee == nil || callee.Pkg() == nil {
				return
			}
			name := callee.Pkg().Path() + "." + callee.Name()
			if stable[name] || unstable[name] {
				calls = append(calls, name)
				if stable[name] {
					okStable = true
				}
				for _, a := range c.Call.Args {
					if mc, ok := a.(*ssa.MakeClosure); ok {
						cmpFn, _ = mc.Fn.(*ssa.Function)
					} else if f, ok := a.(*ssa.Function); ok {
						cmpFn = f
					}
				}
			}
		})
		for _, c := range calls {
			if unstable[c] {
				okStable = false
			}
		}
		r.Check(okStable, "C08.R3", "Operations.Sort/stable", "operations are ordered with a stable sort (equal ordinals keep their recording order)", fmt.Sprintf("sort calls: %v", calls), p.Pos(fn.Pos()))
		if cmpFn == nil {
			core.Undecide("Operations.Sort: comparator not found")
		}
		// comparator reads only Ord
		fields := map[string]bool{}
		core.Instrs(cmpFn, func(in ssa.Instruction) {
			if fa, ok := in.(*ssa.FieldAddr); ok {
				fields[core.FieldOfAddr(fa).Name()] = true
			}
			if f, ok := in.(*ssa.Field); ok {
				fields[core.FieldOfValue(f).Name()] = true
			}
		})
		var fl []string
		for f := range fields {
			fl = append(fl, f)
		}
		sort.Strings(fl)
		r.Check(len(fl) == 1 && fl[0] == "Ord", "C08.R3", "Operations.Sort/key", "the sort comparator reads only the ordinal", fmt.Sprintf("comparator reads fields %v", fl), p.Pos(cmpFn.Pos()))
		// comparator is an ascending three-way compare: returns negative when a.Ord < b.Ord
		asc := comparatorAscending(cmpFn)
		r.Check(asc, "C08.R3", "Operations.Sort/ascending", "the comparator orders ascending by ordinal (negative when a.Ord < b.Ord, positive when a.Ord > b.Ord, zero otherwise)", "comparator shape not ascending three-way", p.Pos(cmpFn.Pos()))
	})

	// ---- R4
	r.Guard("C08.R4", "deltas", "delta construction", func() { checkDeltaConstruction(p, r, "C08.R4") })

	r.Guard("C08.R2", "GetAt/setsum-tag", "the set_sum tag is stripped only for set_sum stores", func() {
		fn := p.Func(pkgStore, "baseStore.GetAt")
		r.Touch(core.FuncName(fn))
		var strips []ssa.Instruction
		core.Instrs(fn, func(in ssa.Instruction) {
			if sl, ok := in.(*ssa.Slice); ok && sl.Low != nil {
				if k, ok := sl.Low.(*ssa.Const); ok && k.Int64() == 4 {
					strips = append(strips, in)
				}
			}
		})
		// the stripping may live in a helper of the family that receives the value and the found flag
		isFoundOfGetAt := func(v ssa.Value) bool {
			if ex, ok := core.ResolveCell(v).(*ssa.Extract); ok && ex.Index == 1 {
				if call, ok := ex.Tuple.(*ssa.Call); ok && core.CommonCallee(call.Common()) == p.FuncObj(pkgStore, "baseStore.getAt") {
					return true
				}
			}
			return false
		}
		isFound := isFoundOfGetAt
		outer := fn
		if len(strips) == 0 {
			for _, m := range core.Family(outer, 1) {
				if m == outer || m.Parent() != nil {
					continue
				}
				var ms []ssa.Instruction
				core.Instrs(m, func(in ssa.Instruction) {
					if sl, ok := in.(*ssa.Slice); ok && sl.Low != nil {
						if k, ok := sl.Low.(*ssa.Const); ok && k.Int64() == 4 {
							ms = append(ms, in)
						}
					}
				})
				if len(ms) == 0 {
					continue
				}
				// which parameter of the helper receives getAt's found flag at the call in GetAt
				for _, cs := range core.FindInstrs(outer, func(x ssa.Instruction) bool {
					ci, ok := x.(ssa.CallInstruction)
					return ok && core.StaticFn(ci.Common()) == m
				}) {
					for i, a := range cs.(ssa.CallInstruction).Common().Args {
						if isFoundOfGetAt(a) && i < len(m.Params) {
							prm := m.Params[i]
							isFound = func(v ssa.Value) bool { return core.ResolveCell(v) == ssa.Value(prm) || v == ssa.Value(prm) }
							strips, fn = ms, m
							r.Touch(core.FuncName(m))
						}
					}
				}
			}
		}
		if len(strips) == 0 {
			core.Undecide("GetAt: no tag stripping (out[4:]) found")
		}
		var policyEdges, foundEdges []core.Edge
		core.InstrsDeep(fn, func(in ssa.Instruction) {
			ifi, ok := in.(*ssa.If)
			if !ok {
				return
			}
			onT, onF, ok := core.CondRelation(ifi.Cond, func(v ssa.Value) bool {
				c, ok := v.(*ssa.Call)
				return ok && core.CommonCallee(c.Common()) != nil && core.CommonCallee(c.Common()).Name() == "UpdatePolicy"
			}, func(v ssa.Value) bool {
				k, ok := v.(*ssa.Const)
				return ok && k.Value != nil && k.Value.ExactString() == p.Const(pkgPBV1, "Module_KindStore_UPDATE_POLICY_SET_SUM").Val().ExactString()
			})
			if ok {
				if onT == core.OrdEQ {
					policyEdges = append(policyEdges, core.Edge{From: ifi.Block(), Idx: 0})
				}
				if onF == core.OrdEQ {
					policyEdges = append(policyEdges, core.Edge{From: ifi.Block(), Idx: 1})
				}
				return
			}
			// the found flag of the inner getAt
			c, neg := core.StripNot(ifi.Cond)
			if isFound(c) {
				idx := 0
				if neg {
					idx = 1
				}
				foundEdges = append(foundEdges, core.Edge{From: ifi.Block(), Idx: idx})
			}
		})
		for _, edges := range [][]core.Edge{policyEdges, foundEdges} {
			edges := edges
			q := core.PathQuery{Fn: fn, CutEdge: func(e core.Edge) bool { return containsEdge(edges, e) }}
			_, reach := q.CanReach(nil, func(x ssa.Instruction) bool {
				for _, s := range strips {
					if x == s {
						return true
					}
				}
				return false
			})
			if len(edges) == 0 || reach {
				r.Fail("C08.R2", "GetAt/setsum-tag", "get_at strips the 4-byte set:/sum: tag only from a value that was found in a set_sum store: for every other policy the bytes read are the bytes written", "the tag stripping is reachable without the `found` edge or without the `UpdatePolicy() == SET_SUM` edge", p.Pos(fn.Pos()))
				return
			}
		}
		r.Pass("C08.R2", "GetAt/setsum-tag", "get_at strips the 4-byte set:/sum: tag only from a value that was found in a set_sum store: for every other policy the bytes read are the bytes written", p.Pos(fn.Pos()))
	})
	r.Guard("C08.R4", "in-place", "store values are never written in place", func() { checkNoInPlaceMutation(p, r, "C08.R4") })
	r.GuardExact("C08.R3", "reset-unconditional", "Reset drops the whole per-block state", func() { checkResetUnconditional(p, r, "C08.R3") })
	r.Guard("C08.R5", "host-interface", "intrinsics forward their arguments", func() { checkHostArgs(p, r, "C08.R5") })
	r.MinInstances("C08.R1", 5)
	r.MinInstances("C08.R2", 30)
	r.MinInstances("C08.R3", 5)
	r.MinInstances("C08.R4", 10)
}

func sameSeedClass(a, b *types.Func) bool {
	cls := func(f *types.Func) string {
		switch f.Name() {
		case "getLast", "GetLast", "HasLast":
			return "last"
		case "getFirst", "GetFirst", "HasFirst":
			return "first"
		}
		return f.Name()
	}
	return cls(a) == cls(b)
}

// comparatorAscending: func(a, b) int with paths: a.F < b.F → negative const; a.F > b.F → positive const; else 0.
func comparatorAscending(fn *ssa.Function) bool {
	if len(fn.Params) != 2 {
		return false
	}
	a, b := fn.Params[0], fn.Params[1]
	// delegation to the standard three-way compare: return cmp.Compare(a.Ord, b.Ord)
	deleg := false
	core.Instrs(fn, func(in ssa.Instruction) {
		ret, ok := in.(*ssa.Return)
		if !ok || len(ret.Results) != 1 {
			return
		}
		c, ok := ret.Results[0].(*ssa.Call)
		if !ok {
			return
		}
		cl := core.CommonCallee(c.Common())
		if cl == nil || cl.Pkg() == nil || cl.Pkg().Path() != "cmp" || cl.Name() != "Compare" || len(c.Call.Args) != 2 {
			return
		}
		_, bx := core.LoadedField(c.Call.Args[0])
		_, by := core.LoadedField(c.Call.Args[1])
		if bx == ssa.Value(a) && by == ssa.Value(b) {
			deleg = true
		}
	})
	if deleg && len(fn.Blocks) == 1 {
		return true
	}
	cfg := &core.SymConfig{Fn: fn}
	paths := core.Summarize(cfg)
	ta, tb := a.Name()+".Ord", b.Name()+".Ord"
	okAll := len(paths) > 0
	seen := map[int]bool{}
	for _, ps := range paths {
		if ps.End != "return" || len(ps.Results) != 1 {
			return false
		}
		ord := ps.OrderingOf(ta, tb)
		if ord == 0 {
			continue // infeasible
		}
		var sign int
		switch {
		case strings.HasPrefix(ps.Results[0], "-") && ps.Results[0] != "-0":
			sign = -1
		case ps.Results[0] == "0":
			sign = 0
		default:
			if _, err := fmt.Sscanf(ps.Results[0], "%d", new(int)); err != nil {
				return false
			}
			sign = 1
		}
		switch ord {
		case core.OrdLT:
			okAll = okAll && sign < 0
		case core.OrdGT:
			okAll = okAll && sign > 0
		case core.OrdEQ:
			okAll = okAll && sign == 0
		default:
			return false
		}
		seen[ord] = true
	}
	return okAll && seen[core.OrdLT] && seen[core.OrdGT] && seen[core.OrdEQ]
}

// buildReaderModel summarises one of the six delta walks.
func buildReaderModel(p *core.Prog, fn *ssa.Function, opNames map[string]string) *readerModel {
	m := &readerModel{Fn: fn, Cases: map[string]caseEff{}}
	deltasF := p.Field(pkgStore, "baseStore", "deltas")
	loops := core.LoopIndexing(fn, func(v ssa.Value) bool { f, _ := core.LoadedField(v); return f == deltasF })
	if len(loops) == 0 {
		// pure delegation?
		core.Instrs(fn, func(in ssa.Instruction) {
			ret, ok := in.(*ssa.Return)
			if !ok || len(ret.Results) == 0 {
				return
			}
			fv := ret.Results[len(ret.Results)-1]
			if ex, ok := fv.(*ssa.Extract); ok {
				if c, ok := ex.Tuple.(*ssa.Call); ok && ex.Index == 1 {
					m.Delegate = core.CommonCallee(c.Common())
				}
			} else if c, ok := fv.(*ssa.Call); ok {
				m.Delegate = core.CommonCallee(c.Common())
			}
		})
		if m.Delegate == nil {
			core.Undecide("%s: no loop over baseStore.deltas and no delegation", core.FuncName(fn))
		}
		return m
	}
	if len(loops) != 1 {
		core.Undecide("%s: %d loops over baseStore.deltas", core.FuncName(fn), len(loops))
	}
	l := loops[0]
	m.Dir, _ = l.InductionDir()
	m.FullRange, m.RangeWhy = l.FullRange(func(v ssa.Value) bool {
		c, ok := core.SkipConv(v).(*ssa.Call)
		if !ok {
			return false
		}
		b, ok := c.Call.Value.(*ssa.Builtin)
		if !ok || b.Name() != "len" {
			return false
		}
		f, _ := core.LoadedField(c.Call.Args[0])
		return f == deltasF
	})
	sig := fn.Signature
	m.HasValue = sig.Results().Len() == 2
	// parameter names
	var keyP, ordP string
	for _, prm := range fn.Params[1:] {
		if b, ok := prm.Type().Underlying().(*types.Basic); ok {
			if b.Kind() == types.String {
				keyP = prm.Name()
			} else if b.Kind() == types.Uint64 {
				ordP = prm.Name()
			}
		}
	}
	// header phis by type
	var foundPhi, valuePhi *ssa.Phi
	for _, in := range l.Header.Instrs {
		ph, ok := in.(*ssa.Phi)
		if !ok {
			break
		}
		switch t := ph.Type().Underlying().(type) {
		case *types.Basic:
			if t.Kind() == types.Bool {
				foundPhi = ph
			}
		case *types.Slice:
			valuePhi = ph
		}
	}
	cfg := &core.SymConfig{Fn: fn, Start: l.Header, StopAt: l.Header,
		Root: func(v ssa.Value) (string, bool) {
			if isStoreDeltaPtr(p, v.Type()) {
				return "δ", true
			}
			return "", false
		}}
	paths := core.Summarize(cfg)
	m.KeyMatched = true
	sawSkip := false
	stopSet, procSet := 0, 0
	for _, ps := range paths {
		if ps.End == "panic" {
			continue
		}
		exhausted := len(ps.Blocks) > 1 && !l.Body[ps.Blocks[1]]
		if exhausted {
			if ps.End != "return" {
				m.Problems = append(m.Problems, "after the loop the function does not return")
				continue
			}
			res := ps.Results
			m.Fallback[1] = res[len(res)-1]
			if len(res) == 2 {
				m.Fallback[0] = res[0]
			}
			continue
		}
		keyOrd := ps.OrderingOf("δ.Key", keyP)
		ordOrd := core.OrdAny
		if ordP != "" {
			ordOrd = ps.OrderingOf("δ.Ordinal", ordP)
		}
		val, isDef, dispatched := ps.EnumCase("δ.Operation")
		switch {
		case dispatched:
			if keyOrd != core.OrdEQ {
				m.KeyMatched = false
			}
			if ordP != "" && ordOrd != core.OrdAny {
				procSet |= ordOrd
			}
			label := "default"
			if !isDef {
				label = opNames[val]
			}
			var ce caseEff
			switch ps.End {
			case "return":
				ce.Kind = "return"
				ce.Found = ps.Results[len(ps.Results)-1]
				if len(ps.Results) == 2 {
					ce.Value = ps.Results[0]
				}
			case "continue":
				ce.Kind = "assign"
				if foundPhi != nil {
					ce.Found = ps.BackPhi[core.PhiName(foundPhi)]
				}
				if valuePhi != nil {
					ce.Value = ps.BackPhi[core.PhiName(valuePhi)]
				}
			default:
				m.Problems = append(m.Problems, "delta-kind path ends with "+ps.End)
			}
			if prev, dup := m.Cases[label]; dup && prev != ce {
				m.Problems = append(m.Problems, fmt.Sprintf("kind %s has two different answers: %v vs %v", label, prev, ce))
			}
			m.Cases[label] = ce
		case keyOrd == core.OrdLT|core.OrdGT:
			// other key: continue unchanged
			unchanged := ps.End == "continue"
			if foundPhi != nil && ps.BackPhi[core.PhiName(foundPhi)] != "φ("+core.PhiName(foundPhi)+")" {
				unchanged = false
			}
			if valuePhi != nil && ps.BackPhi[core.PhiName(valuePhi)] != "φ("+core.PhiName(valuePhi)+")" {
				unchanged = false
			}
			if unchanged {
				sawSkip = true
			} else {
				m.Problems = append(m.Problems, "a delta of another key changes the answer or ends the walk")
			}
			if ordP != "" && ordOrd != core.OrdAny {
				procSet |= ordOrd
			}
		case ordP != "" && ordOrd != core.OrdAny && ps.End == "return":
			// ordinal stop: must return the current answer unchanged
			stopSet |= ordOrd
			want := []string{}
			if valuePhi != nil {
				want = append(want, "φ("+core.PhiName(valuePhi)+")")
			}
			if foundPhi != nil {
				want = append(want, "φ("+core.PhiName(foundPhi)+")")
			}
			if strings.Join(ps.Results, ",") != strings.Join(want, ",") {
				m.Problems = append(m.Problems, fmt.Sprintf("the ordinal stop returns %v instead of the current answer", ps.Results))
			}
		default:
			var cs []string
			for _, c := range ps.Conds {
				cs = append(cs, c.String())
			}
			m.Problems = append(m.Problems, "unclassified path: "+strings.Join(cs, " && ")+" → "+ps.End)
		}
	}
	m.KeySkip = sawSkip
	m.StopOrd, m.ProcOrd = stopSet, procSet
	// seed of the found phi from outside the loop
	if foundPhi != nil {
		for i, pred := range l.Header.Preds {
			if l.Body[pred] {
				continue
			}
			e := foundPhi.Edges[i]
			if ex, ok := e.(*ssa.Extract); ok {
				if c, ok := ex.Tuple.(*ssa.Call); ok {
					m.Seed = core.CommonCallee(c.Common())
					for _, a := range c.Call.Args {
						if prm, ok := a.(*ssa.Parameter); ok && prm.Name() == keyP {
							m.SeedKeyArg = true
						}
					}
				}
			} else if c, ok := e.(*ssa.Call); ok {
				m.Seed = core.CommonCallee(c.Common())
				for _, a := range c.Call.Args {
					if prm, ok := a.(*ssa.Parameter); ok && prm.Name() == keyP {
						m.SeedKeyArg = true
					}
				}
			}
		}
	}
	return m
}
