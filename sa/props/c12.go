package props

import (
	"fmt"
	"go/token"
	"go/types"
	"sort"
	"strings"

	"golang.org/x/tools/go/ssa"

	"verif/sa/core"
)

func init() {
	register("C12", &Def{
		Title:     "Request resolution and planning cover the requested range exactly",
		Run:       runC12,
		Technique: "static analysis: order-insensitive fold rule (minimum must compare with its accumulator), provenance table of every plan range endpoint, comparison normal form of clip/gate/error guards, alignment-idiom rule on boundary rounding",
		Explanation: "Which boundary the hand-off lands on (finality, stop block, mode) is NOT decided. Decided: (R1) every \"lowest initial block\" computation is a genuine minimum (the accumulator is compared with each candidate or updated through min), including the lowest store needing history used for the hand-off; " +
			"(R2) each plan range is built from the right numbers: LinearPipeline=[hand-off, stop), BuildStores=[lowest store initial block, hand-off), WriteExecOut ends at the hand-off and starts at the segment start of max(start, lowest init), ReadExecOut=[start, min(hand-off, stop)) with the clip guarded by stop≠0 ∧ stop<hand-off; the gate is max(hand-off, start); tier1 starts the block stream at the hand-off and stops it at the stop block and passes these same numbers to the plan; " +
			"(R3) impossible requests are errors (start below the lowest init block, cursor after stop, LIB above the cursor block, unresolvable cursor, start == stop ≠ 0, segment lookup yielding nil); " +
			"(R4) a cursor on a forked block yields an undo signal whose last valid block and cursor designate the junction, and processing restarts at junction+1 (step new) / at the block (step undo), a final cursor at block+1; " +
			"(R5) every boundary rounding in the hand-off computation and the store-flush boundary is a well-formed floor/ceil idiom, and every value computeLinearHandoffBlockNum can return with a nil error is such a boundary — or the start block on paths where no store needs history, or the lowest store's initial block where it lies at or above the start block's floor (in both cases nothing is back-filled up to the hand-off). Also (R4) on success BuildRequestDetails returns the undo signal exactly as resolveStartBlockNum produced it. Also (R4) the error-discipline contradiction rules are silent on pipeline, orchestrator/plan and block. Also (R3) the plan's cached-output and store ranges are assigned behind strict comparisons with the hand-off.",
		NotCovered:  "No-gap/no-overlap of the resulting ranges and that the right rounding is chosen in each branch of computeLinearHandoffBlockNum, over all configurations (integer arithmetic over runtime values).",
		Assumptions: []string{"bstream cursor semantics (IsOnFinalBlock, Step.Matches)"},
	})
}

// foldKind classifies the update of a loop accumulator.
type foldInfo struct {
	Fn       *ssa.Function
	Name     string
	Acc      *ssa.Phi
	Kind     string // "min-builtin" | "max-builtin" | "compared" | "unconditional" | "guard-ignores-accumulator"
	Pos      token.Pos
	Guard    string
	CellType types.Type
	Dir      string // for Kind "compared": "min" | "max" | "unknown"
}

// findFolds finds accumulators: header phis of loops over slices that are
// conditionally replaced by an element-derived value.
func findFolds(p *core.Prog, fn *ssa.Function) []foldInfo {
	var out []foldInfo
	for _, l := range core.Loops(fn) {
		_, ind := l.InductionDir()
		for _, in := range l.Header.Instrs {
			acc, ok := in.(*ssa.Phi)
			if !ok {
				break
			}
			if acc == ind {
				continue
			}
			// in-loop incoming values, nested merge phis flattened: (value, block the edge comes from)
			type cand struct {
				v    ssa.Value
				from *ssa.BasicBlock
			}
			var cands []cand
			keeps := false
			var flatten func(v ssa.Value, from *ssa.BasicBlock, d int)
			flatten = func(v ssa.Value, from *ssa.BasicBlock, d int) {
				if v == ssa.Value(acc) {
					keeps = true
					return
				}
				if ph, ok := v.(*ssa.Phi); ok && l.Body[ph.Block()] && ph.Block() != l.Header && d < 4 {
					for i, e := range ph.Edges {
						flatten(e, ph.Block().Preds[i], d+1)
					}
					return
				}
				cands = append(cands, cand{v, from})
			}
			for i, pred := range l.Header.Preds {
				if l.Body[pred] {
					flatten(acc.Edges[i], pred, 0)
				}
			}
			if len(cands) == 0 {
				continue
			}
			fi := foldInfo{Fn: fn, Acc: acc, Pos: acc.Pos()}
			kind := ""
			for _, c := range cands {
				k := ""
				if call, ok := c.v.(*ssa.Call); ok {
					if b, ok := call.Call.Value.(*ssa.Builtin); ok && (b.Name() == "min" || b.Name() == "max") {
						for _, a := range call.Call.Args {
							if a == ssa.Value(acc) {
								k = b.Name() + "-builtin"
							}
						}
					}
				}
				if k == "" {
					if core.SliceReaches(c.v, acc, 0) {
						k = "derived" // acc+1, append(acc, …): a counter/collector, not a selection
					} else if !keeps {
						k = "unconditional"
					} else {
						// selection: which conditions guard the edge?
						reads := false
						var guards []string
						for b := range l.Body {
							if b == l.Header {
								continue
							}
							ifi, ok := b.Instrs[len(b.Instrs)-1].(*ssa.If)
							if !ok || !(b.Dominates(c.from) || b == c.from) {
								continue
							}
							if core.SliceReaches(ifi.Cond, acc, 1) {
								reads = true
							}
							guards = append(guards, p.Pos(core.InstrPos(ifi)))
						}
						sort.Strings(guards)
						fi.Guard = strings.Join(guards, ",")
						if reads {
							k = "compared"
							fi.Dir = foldDirection(l, c.v, c.from, func(v ssa.Value) bool {
								v = core.SkipConv(v)
								if v == ssa.Value(acc) {
									return true
								}
								if u, ok := v.(*ssa.UnOp); ok && u.Op == token.MUL && u.X == ssa.Value(acc) {
									return true
								}
								return false
							})
						} else {
							k = "guard-ignores-accumulator"
						}
					}
				}
				if kind == "" || k == "guard-ignores-accumulator" || k == "unconditional" {
					kind = k
				}
			}
			fi.Kind = kind
			fi.Name = core.PhiName(acc)
			if kind != "derived" {
				out = append(out, fi)
			}
		}
		// accumulators living in a local cell (address-taken variables such as `lowest` returned by pointer)
		cells := map[*ssa.Alloc]bool{}
		for b := range l.Body {
			for _, in := range b.Instrs {
				st, ok := in.(*ssa.Store)
				if !ok {
					continue
				}
				al, ok := st.Addr.(*ssa.Alloc)
				if !ok || cells[al] || l.Body[al.Block()] {
					continue
				}
				cells[al] = true
				fi := foldInfo{Fn: fn, Name: al.Comment, Pos: al.Pos()}
				isLoadOf := func(v ssa.Value) bool {
					u, ok := v.(*ssa.UnOp)
					return ok && u.Op == token.MUL && u.X == ssa.Value(al)
				}
				derived := false
				seenV := map[ssa.Value]bool{}
				var dep func(v ssa.Value, d int) bool
				dep = func(v ssa.Value, d int) bool {
					if v == nil || seenV[v] || d > 6 {
						return false
					}
					seenV[v] = true
					if isLoadOf(v) {
						return true
					}
					if inst, ok := v.(ssa.Instruction); ok {
						for _, op := range inst.Operands(nil) {
							if *op != nil && dep(*op, d+1) {
								return true
							}
						}
					}
					return false
				}
				if dep(st.Val, 0) {
					derived = true
				}
				if derived {
					continue
				}
				reads := false
				var guards []string
				for gb := range l.Body {
					if gb == l.Header {
						continue
					}
					ifi, ok := gb.Instrs[len(gb.Instrs)-1].(*ssa.If)
					if !ok || !(gb.Dominates(b) || gb == b) || gb == b {
						continue
					}
					seenV = map[ssa.Value]bool{}
					if dep(ifi.Cond, 0) {
						reads = true
					}
					guards = append(guards, p.Pos(core.InstrPos(ifi)))
				}
				sort.Strings(guards)
				fi.Guard = strings.Join(guards, ",")
				switch {
				case reads:
					fi.Kind = "compared"
					fi.Dir = foldDirection(l, st.Val, b, isLoadOf)
				case len(guards) == 0:
					fi.Kind = "unconditional"
				default:
					fi.Kind = "guard-ignores-accumulator"
				}
				fi.CellType = al.Type().(*types.Pointer).Elem()
				out = append(out, fi)
			}
		}
	}
	return out
}

func runC12(p *core.Prog, r *core.Report) {
	// ------------------------------------------------------------------ R1
	type foldSite struct{ rel, fn, acc string }
	for _, fs := range []foldSite{
		{pkgPipe, "reprocStateRequired", ""},
		{pkgExec, "computeLowestInitBlock", ""},
		{pkgExec, "computeLowestStoresInitBlock", ""},
		{pkgStage, "NewStages", ""},
	} {
		fs := fs
		r.Guard("C12.R1", fs.fn, "minimum fold", func() {
			fn := p.Func(fs.rel, fs.fn)
			r.Touch(core.FuncName(fn))
			folds := findFolds(p, fn)
			// keep the accumulators of unsigned/pointer type that flow to the result or to WithInitialBlock
			n := 0
			seenC := map[string]bool{}
			for _, f := range folds {
				var t types.Type
				if f.Acc != nil {
					t = f.Acc.Type().Underlying()
				} else {
					t = f.CellType.Underlying()
				}
				isNum := false
				if b, ok := t.(*types.Basic); ok && b.Kind() == types.Uint64 {
					isNum = true
				}
				if pt, ok := t.(*types.Pointer); ok {
					if b, ok := pt.Elem().Underlying().(*types.Basic); ok && b.Kind() == types.Uint64 {
						isNum = true
					}
				}
				if !isNum {
					continue
				}
				construct := fs.fn + "/" + f.Name
				if seenC[construct] {
					continue
				}
				seenC[construct] = true
				n++
				ok := f.Kind == "min-builtin" || (f.Kind == "compared" && f.Dir == "min")
				detail := "accumulator update is " + f.Kind + " (guards at " + f.Guard + "): the last matching element wins"
				if f.Kind == "compared" {
					detail = "the comparison guarding the replacement is oriented as " + f.Dir + " (candidate must be below the accumulator to replace it)"
				}
				r.Check(ok, "C12.R1", construct, "the lowest initial block is a minimum: a candidate replaces the accumulator only when it is lower (comparison candidate < accumulator, or min()), so the result is the lowest and does not depend on the order of the modules", detail, p.Pos(f.Pos))
			}
			if n == 0 {
				core.Undecide("%s: no block-number accumulator found", fs.fn)
			}
		})
	}

	// ------------------------------------------------------------------ R2
	r.Guard("C12.R2", "BuildTier1RequestPlan", "plan provenance", func() { checkPlanProvenance(p, r) })
	r.Guard("C12.R2", "BuildRequestDetails/gate", "gate = max(hand-off, start)", func() {
		fn := p.Func(pkgPipe, "BuildRequestDetails")
		r.Touch(core.FuncName(fn))
		rd := p.Named(pkgReqctx, "RequestDetails")
		gate, hand, start := core.FieldOf(rd, "LinearGateBlockNum"), core.FieldOf(rd, "LinearHandoffBlockNum"), core.FieldOf(rd, "ResolvedStartBlockNum")
		// the builtin form: gate = max(start, hand-off)
		isStartV := func(v ssa.Value) bool {
			if f, _ := core.LoadedField(core.SkipConv(v)); f == start {
				return true
			}
			for _, w := range core.FieldWritesIn(fn, start) {
				if w.Value == core.SkipConv(v) {
					return true
				}
			}
			return false
		}
		isHandV := func(v ssa.Value) bool {
			if f, _ := core.LoadedField(core.SkipConv(v)); f == hand {
				return true
			}
			for _, w := range core.FieldWritesIn(fn, hand) {
				if w.Value == core.SkipConv(v) {
					return true
				}
			}
			return false
		}
		gw := core.FieldWritesIn(fn, gate)
		allMax := len(gw) > 0
		for _, w := range gw {
			c, ok := core.SkipConv(w.Value).(*ssa.Call)
			if !ok {
				allMax = false
				continue
			}
			b, ok := c.Call.Value.(*ssa.Builtin)
			if !ok || b.Name() != "max" || len(c.Call.Args) != 2 || !((isStartV(c.Call.Args[0]) && isHandV(c.Call.Args[1])) || (isStartV(c.Call.Args[1]) && isHandV(c.Call.Args[0]))) {
				allMax = false
			}
		}
		if allMax {
			r.Pass("C12.R2", "BuildRequestDetails/gate", "LinearGateBlockNum = max(LinearHandoffBlockNum, ResolvedStartBlockNum) (builtin max of the two): outputs of the linear phase are gated at the start block", p.Pos(fn.Pos()))
		}
		paths := core.Summarize(&core.SymConfig{Fn: fn, PlainFields: map[*types.Var]string{gate: "gate", hand: "hand", start: "start"}})
		n := 0
		var bad []string
		for _, ps := range paths {
			if ps.End != "return" {
				continue
			}
			g, hasG := ps.Assigns["gate"]
			h, hasH := ps.Assigns["hand"]
			s, hasS := ps.Assigns["start"]
			if !hasG {
				continue // error paths return before the gate is computed
			}
			if !hasH || !hasS {
				bad = append(bad, "gate assigned on a path where hand-off/start were not")
				continue
			}
			n++
			rel := ps.RelationOf(s, h)
			if rel == 0 {
				n--
				continue // infeasible combination of branches
			}
			switch {
			case rel == core.OrdGT && g != s:
				bad = append(bad, fmt.Sprintf("start > hand-off but gate = %s", g))
			case rel&core.OrdGT == 0 && g != h:
				bad = append(bad, fmt.Sprintf("start <= hand-off but gate = %s", g))
			case rel == core.OrdAny:
				bad = append(bad, "gate chosen without comparing start with hand-off")
			}
		}
		if !allMax {
			r.Check(n >= 2 && len(bad) == 0, "C12.R2", "BuildRequestDetails/gate", "LinearGateBlockNum = max(LinearHandoffBlockNum, ResolvedStartBlockNum): outputs of the linear phase are gated at the start block", strings.Join(bad, "; "), p.Pos(fn.Pos()))
		}
		// hand-off field ← result of computeLinearHandoffBlockNum, whose start/stop args are the resolved start and the request's stop
		clh := p.FuncObj(pkgPipe, "computeLinearHandoffBlockNum")
		okH := false
		for _, w := range core.FieldWritesIn(fn, hand) {
			if core.Trace(w.Value, 0).HasCall(clh) {
				okH = true
			}
		}
		r.Check(okH, "C12.R2", "BuildRequestDetails/handoff", "LinearHandoffBlockNum is the result of computeLinearHandoffBlockNum", "assigned from something else", p.Pos(fn.Pos()))
		for _, c := range core.FindInstrs(fn, core.IsCallTo(clh)) {
			args := c.(ssa.CallInstruction).Common().Args
			a1 := core.TraceFrom(fn, args[1], 0)
			a2 := core.TraceFrom(fn, args[2], 0)
			a4 := core.TraceFrom(fn, args[4], 1)
			ok := a1.Fields[start] && hasFieldNamed(a2, "StopBlockNum") && a4.HasCall(p.FuncObj(pkgPipe, "reprocStateRequired"))
			r.Check(ok, "C12.R2", "BuildRequestDetails/handoff-args", "the hand-off is computed from the resolved start block, the request's stop block and the lowest store needing history", "argument provenance differs", p.Pos(c.Pos()))
		}
		// the lowest store needing history is searched below the RESOLVED start (the cursor's, when there is one), among
		// the stores the requested output module depends on
		rsr := p.FuncObj(pkgPipe, "reprocStateRequired")
		for _, c := range core.FindInstrs(fn, core.IsCallTo(rsr)) {
			args := c.(ssa.CallInstruction).Common().Args
			a0 := core.TraceFrom(fn, args[0], 0) // (the call may sit in a helper that is handed the resolved start block)
			ok := a0.Fields[start] && !hasFieldNamed(a0, "StartBlockNum") && hasFieldNamed(core.TraceFrom(fn, args[1], 0), "OutputModule") && hasFieldNamed(core.TraceFrom(fn, args[2], 0), "Modules")
			r.Check(ok, "C12.R2", "BuildRequestDetails/reproc-args", "stores needing history are those starting below the resolved start block (cursor-resolved, not the request's raw start) among the ancestors of the requested output module", "argument provenance differs", p.Pos(c.Pos()))
		}
		rf := p.Func(pkgPipe, "reprocStateRequired")
		okCand, okCmp := false, false
		sdt := p.FuncObj(pkgMani, "ModuleGraph.StoresDownTo")
		for _, c := range core.FindInstrs(rf, core.IsCallTo(sdt)) {
			if core.SkipConv(c.(ssa.CallInstruction).Common().Args[1]) == ssa.Value(rf.Params[1]) {
				okCand = true
			}
		}
		initF := core.FieldOf(p.Named(pkgPBV1, "Module"), "InitialBlock")
		core.InstrsDeep(rf, func(in ssa.Instruction) {
			ifi, isIf := in.(*ssa.If)
			if !isIf {
				return
			}
			onT, onF, okc := core.CondRelation(ifi.Cond, func(v ssa.Value) bool { f, _ := core.LoadedField(core.SkipConv(v)); return f == initF }, func(v ssa.Value) bool { return core.SkipConv(v) == ssa.Value(rf.Params[0]) })
			if okc && (onT == core.OrdLT || onF == core.OrdLT) {
				okCmp = true
			}
		})
		r.Check(okCand && okCmp, "C12.R2", "reprocStateRequired/candidates", "the candidates are StoresDownTo(output module) and a store needs history exactly when its initial block is strictly below the start block", fmt.Sprintf("candidates from StoresDownTo(output)=%v, strict comparison with the start parameter=%v", okCand, okCmp), p.Pos(rf.Pos()))
	})
	checkTier1StreamBounds(p, r, "C12.R2")

	r.Guard("C12.R2", "NewStages/segmenters", "stage and module segmenters", func() {
		fn := p.Func(pkgStage, "NewStages")
		r.Touch(core.FuncName(fn))
		with := p.FuncObj(pkgBlock, "Segmenter.WithInitialBlock")
		isMin := func(v ssa.Value) (*ssa.Call, bool) {
			c, ok := core.SkipConv(v).(*ssa.Call)
			if !ok {
				return nil, false
			}
			b, ok := c.Call.Value.(*ssa.Builtin)
			return c, ok && b.Name() == "min"
		}
		okStage, okMod := false, false
		for _, c := range core.FindInstrs(fn, core.IsCallTo(p.FuncObj(pkgStage, "NewStage"))) {
			seg := c.(ssa.CallInstruction).Common().Args[2]
			wc, ok := seg.(*ssa.Call)
			if !ok || core.CommonCallee(wc.Common()) != with {
				continue
			}
			// the initial block of the stage is the running minimum over the layer's modules
			if isMinFold(fn.Pkg, wc.Call.Args[1], 1) {
				okStage = true
			}
		}
		_ = isMin
		r.Check(okStage, "C12.R2", "NewStages/stage-segmenter", "a stage's segmenter starts at the lowest initial block of the modules of its last layer (the running minimum over all of them, not the first module's)", "NewStage does not receive segmenter.WithInitialBlock(<minimum over the layer>)", p.Pos(fn.Pos()))
		for _, c := range core.FindInstrs(fn, core.IsCallTo(p.FuncObj(pkgStage, "NewModuleState"))) {
			args := c.(ssa.CallInstruction).Common().Args
			wc, ok := args[2].(*ssa.Call)
			if !ok || core.CommonCallee(wc.Common()) != with {
				continue
			}
			// keyed by the same module as the state's name
			lk, ok := core.SkipConv(wc.Call.Args[1]).(*ssa.Lookup)
			if ok && sameExpr(lk.Index, args[1], 3) {
				okMod = true
			}
		}
		r.Check(okMod, "C12.R2", "NewStages/module-segmenter", "each store module's segmenter starts at that module's own initial block", "NewModuleState does not receive segmenter.WithInitialBlock(initBlocks[<its own name>])", p.Pos(fn.Pos()))
	})

	r.Guard("C12.R2", "BackprocessSegmenter", "spans stores and outputs", func() { checkBackprocessSegmenter(p, r) })

	// ------------------------------------------------------------------ R3
	r.Guard("C12.R3", "errors", "impossible requests are errors", func() { checkImpossibleRequests(p, r) })

	// ------------------------------------------------------------------ R4
	r.Guard("C12.R4", "resolveStartBlockNum", "cursor resolution", func() { checkCursorResolution(p, r, "C12.R4") })
	r.GuardExact("C12.R4", "resolveStartBlockNum/resolved", "a start cursor is always resolved", func() { checkCursorAlwaysResolved(p, r, "C12.R4") })

	// ------------------------------------------------------------------ R5
	r.Guard("C12.R5", "handoff-values", "every hand-off is a boundary unless nothing is back-filled", func() { checkHandoffValues(p, r) })
	r.Guard("C12.R4", "undo-signal-kept", "the resolved undo signal is returned", func() { checkUndoSignalKept(p, r, "C12.R4") })
	r.GuardExact("C12.R3", "plan-strict-guards", "ranges planned only when non-empty", func() { checkPlanRangesStrictlyGuarded(p, r, "C12.R3") })
	r.GuardExact("C12.R4", "error-discipline", "errors are tested where they are produced", func() {
		checkErrorDiscipline(p, r, "C12.R4", []string{"pipeline", "orchestrator/plan", "block"}, 100)
	})
	r.Guard("C12.R5", "remainders", "alignment idiom", func() {
		fns := []*ssa.Function{p.Func(pkgPipe, "computeLinearHandoffBlockNum"), p.Func(pkgPipe, "storeBoundary.computeBoundaryBlock"), p.Func(pkgIndex, "GenerateBlockIndexWriters")}
		if n := checkAlignIdiom(p, r, "C12.R5", fns); n < 6 {
			core.Undecide("only %d remainder sites found (expected >= 6)", n)
		}
		// ceil idiom of the stop block: x - x%k + k only under x%k != 0
		fn := fns[0]
		okCeil := false
		for _, member := range core.Family(fn, 1) {
			core.Instrs(member, func(in ssa.Instruction) {
				add, ok := in.(*ssa.BinOp)
				if !ok || add.Op != token.ADD {
					return
				}
				sub, ok := add.X.(*ssa.BinOp)
				if !ok || sub.Op != token.SUB {
					return
				}
				rem, ok := sub.Y.(*ssa.BinOp)
				if !ok || rem.Op != token.REM || !sameExpr(add.Y, rem.Y, 2) {
					return
				}
				// guarded by rem != 0
				// (written `if rem != 0 { … }` or as an early return on `rem == 0`: the addition lies behind the non-zero edge)
				for _, ref := range *rem.Referrers() {
					cmp, ok := ref.(*ssa.BinOp)
					if !ok || (cmp.Op != token.NEQ && cmp.Op != token.EQL) || !isZeroConst(cmp.Y) {
						continue
					}
					for _, rr := range *cmp.Referrers() {
						ifi, ok := rr.(*ssa.If)
						if !ok {
							continue
						}
						nz := 0
						if cmp.Op == token.EQL {
							nz = 1
						}
						sb := ifi.Block().Succs[nz]
						if len(sb.Preds) == 1 && (sb == add.Block() || sb.Dominates(add.Block())) {
							okCeil = true
						}
					}
				}
			})
		}
		r.Check(okCeil, "C12.R5", "computeLinearHandoffBlockNum/ceil", "rounding the stop block up adds the segment size only when the remainder is non-zero (ceil, not floor+size)", "guarded ceil idiom not found", p.Pos(fn.Pos()))
	})
	r.MinInstances("C12.R1", 4)
	r.MinInstances("C12.R2", 14)
	r.MinInstances("C12.R3", 5)
	r.MinInstances("C12.R5", 7)
}

func checkPlanProvenance(p *core.Prog, r *core.Report) {
	fn := p.Func(pkgPlan, "BuildTier1RequestPlan")
	r.Touch(core.FuncName(fn))
	prm := map[string]*ssa.Parameter{}
	for _, x := range fn.Params {
		prm[x.Name()] = x
	}
	need := []string{"lowestInitialBlock", "lowestStoreInitialBlock", "resolvedStartBlock", "linearHandoffBlock", "exclusiveEndBlock"}
	for _, n := range need {
		if prm[n] == nil {
			core.Undecide("BuildTier1RequestPlan: parameter %s not found", n)
		}
	}
	planT := p.Named(pkgPlan, "RequestPlan")
	newRange := p.FuncObj(pkgBlock, "NewRange")
	origin := func(v ssa.Value) string {
		if q := core.OriginParam(v); q != nil {
			return q.Name()
		}
		if ph, ok := core.SkipConv(v).(*ssa.Phi); ok {
			var ns []string
			for _, e := range ph.Edges {
				if q := core.OriginParam(e); q != nil {
					ns = append(ns, q.Name())
				} else {
					ns = append(ns, "?")
				}
			}
			sort.Strings(ns)
			var un []string
			for _, n := range ns {
				if len(un) == 0 || un[len(un)-1] != n {
					un = append(un, n)
				}
			}
			return "phi(" + strings.Join(un, ",") + ")"
		}
		return "?"
	}
	type exp struct{ start, end string }
	want := map[string]exp{
		"LinearPipeline": {"linearHandoffBlock", "exclusiveEndBlock"},
		"BuildStores":    {"lowestStoreInitialBlock", "linearHandoffBlock"},
		"ReadExecOut":    {"resolvedStartBlock", "phi(exclusiveEndBlock,linearHandoffBlock)"},
	}
	seen := map[string]int{}
	for _, fname := range []string{"LinearPipeline", "BuildStores", "ReadExecOut", "WriteExecOut"} {
		f := core.FieldOf(planT, fname)
		for _, w := range core.FieldWritesIn(fn, f) {
			if k, isC := w.Value.(*ssa.Const); isC && k.IsNil() {
				continue // explicit nil (dev mode WriteExecOut)
			}
			c, ok := w.Value.(*ssa.Call)
			if !ok || core.CommonCallee(c.Common()) != newRange {
				r.Fail("C12.R2", "plan."+fname, "the range is built with block.NewRange from the plan's inputs", "assigned from something else", p.Pos(w.Instr.Pos()))
				continue
			}
			seen[fname]++
			construct := fmt.Sprintf("plan.%s#%d", fname, seen[fname])
			a, b := c.Call.Args[0], c.Call.Args[1]
			if e, ok := want[fname]; ok {
				got := exp{origin(a), origin(b)}
				r.Check(got == e, "C12.R2", construct, fmt.Sprintf("%s = [%s, %s)", fname, e.start, e.end), fmt.Sprintf("built from [%s, %s)", got.start, got.end), p.Pos(c.Pos()))
				continue
			}
			// WriteExecOut: end = hand-off; start = segmenter.Range(IndexForStartBlock(max(start, lowestInit))).StartBlock
			src := core.Trace(a, 1)
			okStart := src.HasCall(p.FuncObj(pkgBlock, "Segmenter.Range")) && src.HasCall(p.FuncObj(pkgBlock, "Segmenter.IndexForStartBlock")) &&
				src.Params[prm["resolvedStartBlock"]] && src.Params[prm["lowestInitialBlock"]] && hasFieldNamed(src, "StartBlock")
			// the max(): a builtin max call over the two params
			okMax := false
			core.Instrs(fn, func(in ssa.Instruction) {
				if cc, ok := core.IsBuiltinCall(in, "max"); ok && len(cc.Args) == 2 {
					n1, n2 := origin(cc.Args[0]), origin(cc.Args[1])
					if (n1 == "resolvedStartBlock" && n2 == "lowestInitialBlock") || (n2 == "resolvedStartBlock" && n1 == "lowestInitialBlock") {
						okMax = true
					}
				}
			})
			r.Check(okStart && okMax && origin(b) == "linearHandoffBlock", "C12.R2", construct, "WriteExecOut = [segment start of max(start, lowest init block), hand-off)",
				fmt.Sprintf("start-provenance ok=%v max ok=%v end=%s", okStart, okMax, origin(b)), p.Pos(c.Pos()))
		}
	}
	for _, fname := range []string{"LinearPipeline", "BuildStores", "ReadExecOut", "WriteExecOut"} {
		if seen[fname] == 0 {
			r.Fail("C12.R2", "plan."+fname, "the plan range is assigned somewhere", "never assigned", p.Pos(fn.Pos()))
		}
	}
	// the ReadExecOut clip: the phi takes exclusiveEndBlock only under exclusiveEnd != 0 && exclusiveEnd < handoff
	f := core.FieldOf(planT, "ReadExecOut")
	for _, w := range core.FieldWritesIn(fn, f) {
		c, ok := w.Value.(*ssa.Call)
		if !ok {
			continue
		}
		ph, ok := core.SkipConv(c.Call.Args[1]).(*ssa.Phi)
		if !ok {
			continue
		}
		okClip := false
		for i, e := range ph.Edges {
			if core.OriginParam(e) != prm["exclusiveEndBlock"] {
				continue
			}
			pred := ph.Block().Preds[i]
			// pred reachable only via the edge where exclusiveEnd < handoff, and via exclusiveEnd != 0
			lt, nz := false, false
			core.InstrsDeep(fn, func(in ssa.Instruction) {
				ifi, ok := in.(*ssa.If)
				if !ok {
					return
				}
				isEnd := func(v ssa.Value) bool { return core.OriginParam(v) == prm["exclusiveEndBlock"] }
				isHand := func(v ssa.Value) bool { return core.OriginParam(v) == prm["linearHandoffBlock"] }
				for idx := 0; idx < 2; idx++ {
					e := core.Edge{From: ifi.Block(), Idx: idx}
					q := core.PathQuery{Fn: fn, CutEdge: func(x core.Edge) bool { return x == e }}
					first := pred.Instrs[0]
					if _, reach := q.CanReach(nil, func(x ssa.Instruction) bool { return x == first }); reach {
						continue // not a mandatory edge
					}
					if onT, onF, ok := core.CondRelation(ifi.Cond, isEnd, isHand); ok {
						set := onT
						if idx == 1 {
							set = onF
						}
						if set == core.OrdLT {
							lt = true
						}
					}
					if onT, onF, ok := core.CondRelation(ifi.Cond, isEnd, isZeroConst); ok {
						set := onT
						if idx == 1 {
							set = onF
						}
						if set&core.OrdEQ == 0 {
							nz = true
						}
					}
				}
			})
			okClip = lt && nz
		}
		r.Check(okClip, "C12.R2", "plan.ReadExecOut/clip", "cached outputs are read up to the stop block only when it is set (≠ 0) and below the hand-off, else up to the hand-off", "clip guard differs", p.Pos(c.Pos()))
	}
}

func checkImpossibleRequests(p *core.Prog, r *core.Report) {
	// BuildTier1RequestPlan: start < lowestInit → error
	fn := p.Func(pkgPlan, "BuildTier1RequestPlan")
	prm := map[string]*ssa.Parameter{}
	for _, x := range fn.Params {
		prm[x.Name()] = x
	}
	errEdge := func(fn *ssa.Function, isA, isB func(ssa.Value) bool, want int) bool {
		found := false
		core.InstrsDeep(fn, func(in ssa.Instruction) {
			ifi, ok := in.(*ssa.If)
			if !ok {
				return
			}
			onT, onF, ok := core.CondRelation(ifi.Cond, isA, isB)
			if !ok {
				return
			}
			for idx, set := range []int{onT, onF} {
				if set != want {
					continue
				}
				// every return reachable from that edge (before rejoining) returns a non-nil error
				b := ifi.Block().Succs[idx]
				if last, ok := b.Instrs[len(b.Instrs)-1].(*ssa.Return); ok && core.ReturnsNonNilError(last) && !core.ReturnsNilError(last) {
					found = true
				}
			}
		})
		return found
	}
	isP := func(q *ssa.Parameter) func(ssa.Value) bool {
		return func(v ssa.Value) bool { return q != nil && core.OriginParam(v) == q }
	}
	r.Check(errEdge(fn, isP(prm["resolvedStartBlock"]), isP(prm["lowestInitialBlock"]), core.OrdLT), "C12.R3", "plan/start-below-init",
		"a start block below the lowest initial block of the module graph is an error, not a plan", "no `resolvedStartBlock < lowestInitialBlock → error`", p.Pos(fn.Pos()))
	// nil range from the segmenter → error
	okNil := false
	core.InstrsDeep(fn, func(in ssa.Instruction) {
		ifi, ok := in.(*ssa.If)
		if !ok {
			return
		}
		bo, ok := ifi.Cond.(*ssa.BinOp)
		if !ok || bo.Op != token.EQL {
			return
		}
		if c, ok := bo.X.(*ssa.Call); ok && core.CommonCallee(c.Common()) == p.FuncObj(pkgBlock, "Segmenter.Range") {
			if k, ok := bo.Y.(*ssa.Const); ok && k.IsNil() {
				b := ifi.Block().Succs[0]
				if last, ok := b.Instrs[len(b.Instrs)-1].(*ssa.Return); ok && !core.ReturnsNilError(last) {
					okNil = true
				}
			}
		}
	})
	r.Check(okNil, "C12.R3", "plan/nil-segment", "a segment lookup that yields no range is an error, never dereferenced", "no nil check on Segmenter.Range(...)", p.Pos(fn.Pos()))

	// resolveStartBlockNum
	rs := p.Func(pkgPipe, "resolveStartBlockNum")
	r.Touch(core.FuncName(rs))
	isCallNamed := func(names ...string) func(ssa.Value) bool {
		return func(v ssa.Value) bool {
			c, ok := core.SkipConv(v).(*ssa.Call)
			if !ok {
				return false
			}
			cl := core.CommonCallee(c.Common())
			if cl == nil {
				return false
			}
			// receiver chain: cursor.Block.Num() vs cursor.LIB.Num()
			for _, n := range names {
				if cl.Name() == "Num" {
					src := core.Trace(c.Call.Value, 0)
					if hasFieldNamed(src, n) {
						return true
					}
					for _, a := range c.Call.Args {
						if hasFieldNamed(core.Trace(a, 0), n) {
							return true
						}
					}
				}
			}
			return false
		}
	}
	isStop := func(v ssa.Value) bool {
		f, _ := core.LoadedField(core.SkipConv(v))
		return f != nil && f.Name() == "StopBlockNum"
	}
	// invalid-argument classification: the error returned is built by connect.NewError(connect.CodeInvalidArgument, …)
	r.Check(errEdge(rs, isStop, isCallNamed("Block"), core.OrdLT), "C12.R3", "resolve/cursor-after-stop", "a cursor beyond the stop block is rejected", "no `StopBlockNum < cursor.Block.Num() → error`", p.Pos(rs.Pos()))
	r.Check(errEdge(rs, isCallNamed("LIB"), isCallNamed("Block"), core.OrdGT), "C12.R3", "resolve/lib-above-block", "a cursor whose LIB is above its block is rejected", "no `LIB.Num() > Block.Num() → error`", p.Pos(rs.Pos()))
	// errors of CursorFromOpaque and resolveCursor are returned as invalid argument
	nInv := 0
	core.Instrs(rs, func(in ssa.Instruction) {
		c, ok := in.(*ssa.Call)
		if !ok {
			return
		}
		if cl := core.CommonCallee(c.Common()); cl != nil && calleeKey(cl) == "connectrpc.com/connect.NewError" {
			if k, ok := c.Call.Args[0].(*ssa.Const); ok && k.Value != nil && k.Value.ExactString() == "3" {
				nInv++
			}
		}
	})
	r.Check(nInv >= 4, "C12.R3", "resolve/invalid-argument", "cursor problems (unparsable, after stop, LIB above block, unresolvable) are answered with invalid-argument errors", fmt.Sprintf("%d invalid-argument errors built", nInv), p.Pos(rs.Pos()))
	for _, name := range []string{"CursorFromOpaque"} {
		okT := false
		core.Instrs(rs, func(in ssa.Instruction) {
			if c, ok := in.(*ssa.Call); ok {
				if cl := core.CommonCallee(c.Common()); cl != nil && cl.Name() == name && core.ErrorTested(in) {
					okT = true
				}
			}
		})
		r.Check(okT, "C12.R3", "resolve/"+name+"-error", "the error of "+name+" is tested", "error ignored", p.Pos(rs.Pos()))
	}
	// start == stop != 0 in tier1.blocks
	tb := p.Func(pkgSvc, "Tier1Service.blocks")
	// (in blocks or in the helper that validates the two numbers, whose parameters stand for the fields handed to it)
	named := func(v ssa.Value, field string) bool {
		f, _ := core.LoadedField(core.SkipConv(v))
		if f != nil && f.Name() == field {
			return true
		}
		if cv := core.CallerValue(tb, v); cv != v {
			f, _ := core.LoadedField(core.SkipConv(cv))
			return f != nil && f.Name() == field
		}
		return false
	}
	isStart := func(v ssa.Value) bool { return named(v, "ResolvedStartBlockNum") }
	isStopT := func(v ssa.Value) bool { return named(v, "StopBlockNum") }
	okSame := false
	core.InstrsDeep(tb, func(in ssa.Instruction) {
		ifi, ok := in.(*ssa.If)
		if !ok {
			return
		}
		if onT, onF, ok := core.CondRelation(ifi.Cond, isStart, isStopT); ok && (onT == core.OrdEQ || onF == core.OrdEQ) {
			okSame = true
		}
	})
	r.Check(okSame, "C12.R3", "tier1/start-equals-stop", "a request whose resolved start equals its non-zero stop block is rejected", "comparison not found", p.Pos(tb.Pos()))
}

// checkCursorResolution (C12.R4, also C04.R6).
func checkCursorResolution(p *core.Prog, r *core.Report, rule string) {
	fn := p.Func(pkgPipe, "resolveStartBlockNum")
	r.Touch(core.FuncName(fn))
	sig := p.Named("pb/sf/substreams/rpc/v2", "BlockUndoSignal")
	cur := p.ExtNamed("github.com/streamingfast/bstream", "Cursor")
	// the junction value: first result of the resolveCursor call (parameter of func type)
	var junction ssa.Value
	core.Instrs(fn, func(in ssa.Instruction) {
		c, ok := in.(*ssa.Call)
		if !ok {
			return
		}
		if prm, ok := c.Call.Value.(*ssa.Parameter); ok && strings.Contains(prm.Type().String(), "CursorResolver") {
			for _, ref := range *c.Referrers() {
				if ex, ok := ref.(*ssa.Extract); ok && ex.Index == 0 {
					junction = ex
				}
			}
		}
	})
	if junction == nil {
		core.Undecide("resolveStartBlockNum: call of the cursor resolver not found")
	}
	for _, chk := range []struct {
		typ   *types.Named
		field string
		desc  string
	}{
		{sig, "LastValidBlock", "the undo signal's last valid block is the reorg junction block"},
		{cur, "Block", "the resolved cursor designates the junction block"},
	} {
		fv := core.FieldOf(chk.typ, chk.field)
		ws := core.FindInstrs(fn, core.IsStoreToField(fv))
		if len(ws) == 0 {
			r.Fail(rule, "resolve/"+chk.field, chk.desc, "field never assigned", p.Pos(fn.Pos()))
			continue
		}
		for _, w := range ws {
			val := w.(*ssa.Store).Val
			fromJunction := core.SliceReaches(val, junction, 2)
			if !fromJunction {
				// built in a helper that is handed the junction
				for prm := range core.Trace(val, 2).Params {
					if cv := core.CallerValue(fn, prm); cv != ssa.Value(prm) && (cv == junction || core.SliceReaches(cv, junction, 2)) {
						fromJunction = true
					}
				}
			}
			r.Check(fromJunction, rule, "resolve/"+chk.field, chk.desc, "value does not derive from the junction returned by the cursor resolver", p.Pos(w.Pos()))
		}
	}
	// the undo signal is only built when the junction differs from the cursor's block
	// restart points: results[0] per path
	paths := core.Summarize(&core.SymConfig{Fn: fn})
	sawFinal, sawNew, sawUndo := false, false, false
	var bad []string
	for _, ps := range paths {
		if ps.End != "return" || len(ps.Results) != 4 || ps.Results[3] != "nil" {
			continue
		}
		res := ps.Results[0]
		for _, c := range ps.Conds {
			if c.Op != "true" || c.Neg {
				continue
			}
			switch {
			case strings.HasPrefix(c.X, "IsOnFinalBlock("):
				sawFinal = true
				if !strings.Contains(res, "Num(") || !strings.HasSuffix(strings.TrimSuffix(res, ")"), "+1") {
					bad = append(bad, "final cursor resumes at "+res)
				}
			case strings.HasPrefix(c.X, "Matches(") && strings.Contains(c.X, ",1)"): // StepNew == 1
				sawNew = true
				if !strings.HasSuffix(strings.TrimSuffix(res, ")"), "+1") {
					bad = append(bad, "step-new cursor resumes at "+res)
				}
			case strings.HasPrefix(c.X, "Matches(") && strings.Contains(c.X, ",2)"): // StepUndo == 2
				sawUndo = true
				if strings.Contains(res, "+1") {
					bad = append(bad, "step-undo cursor resumes at "+res)
				}
			}
		}
	}
	r.Check(sawFinal && len(bad) == 0, rule, "resolve/final-cursor", "a cursor on a final block resumes at that block + 1; a step-new cursor at its (junction) block + 1; a step-undo cursor at its block",
		fmt.Sprintf("final=%v new=%v undo=%v %s", sawFinal, sawNew, sawUndo, strings.Join(bad, "; ")), p.Pos(fn.Pos()))
	// a step that is neither resolves nothing: the function must not fall through to a success return with the zero start
	okDefault := true
	for _, ps := range paths {
		if ps.End != "return" || len(ps.Results) != 4 || ps.Results[3] != "nil" {
			continue
		}
		if ps.Results[0] == "0" {
			okDefault = false
		}
	}
	r.Check(okDefault, rule, "resolve/unknown-step-refused", "a cursor whose step is neither new nor undo (e.g. a forged `irreversible` step on a block that is not final) is refused: no success path returns the zero start block", "a success return yields the constant start block 0", p.Pos(fn.Pos()))
	r.Check(sawNew && sawUndo, rule, "resolve/steps", "both cursor steps (new, undo) are resolved", fmt.Sprintf("new=%v undo=%v", sawNew, sawUndo), p.Pos(fn.Pos()))
}

// foldDirection: orientation of the comparison between the candidate and the
// accumulator on the edges that lead to the replacement.  "min" when the
// replacement happens only under candidate < (or <=) accumulator, "max" for
// the opposite, "unknown" when no such comparison is found.
func foldDirection(l *core.Loop, cand ssa.Value, from *ssa.BasicBlock, isAcc func(ssa.Value) bool) string {
	isCand := func(v ssa.Value) bool {
		v = core.SkipConv(v)
		if sameExpr(v, cand, 3) {
			return true
		}
		// candidate is the address of a field: the comparison reads that field
		if fa, ok := cand.(*ssa.FieldAddr); ok {
			if u, ok := v.(*ssa.UnOp); ok && u.Op == token.MUL {
				if fb, ok := u.X.(*ssa.FieldAddr); ok && fb.Field == fa.Field && sameExpr(fa.X, fb.X, 3) {
					return true
				}
			}
		}
		return false
	}
	dir := "unknown"
	for gb := range l.Body {
		if gb == l.Header {
			continue
		}
		ifi, ok := gb.Instrs[len(gb.Instrs)-1].(*ssa.If)
		if !ok {
			continue
		}
		onT, onF, ok := core.CondRelation(ifi.Cond, isCand, isAcc)
		if !ok {
			continue
		}
		// which edge leads to the replacement block?
		set := 0
		tReach := reachWithin(l, gb.Succs[0], from)
		fReach := reachWithin(l, gb.Succs[1], from)
		switch {
		case tReach && !fReach:
			set = onT
		case fReach && !tReach:
			set = onF
		default:
			continue
		}
		switch {
		case set&core.OrdGT == 0 && set&core.OrdLT != 0:
			dir = "min"
		case set&core.OrdLT == 0 && set&core.OrdGT != 0:
			return "max"
		}
	}
	return dir
}

// reachWithin: is `to` reachable from `b` inside the loop body without passing the loop header?
func reachWithin(l *core.Loop, b, to *ssa.BasicBlock) bool {
	seen := map[*ssa.BasicBlock]bool{}
	stack := []*ssa.BasicBlock{b}
	for len(stack) > 0 {
		x := stack[len(stack)-1]
		stack = stack[:len(stack)-1]
		if seen[x] || x == l.Header || !l.Body[x] {
			continue
		}
		seen[x] = true
		if x == to {
			return true
		}
		stack = append(stack, x.Succs...)
	}
	return false
}

// checkTier1StreamBounds (C12.R2, C04.R6): tier1 starts the linear stream at the hand-off, stops it at the stop block and
// builds the plan (hence the range served from cached outputs) from the same resolved numbers — in particular from
// the cursor-resolved start block, not the request's raw start block.
func checkTier1StreamBounds(p *core.Prog, r *core.Report, rule string) {
	r.Guard(rule, "tier1.blocks", "stream bounds", func() {
		fn := p.Func(pkgSvc, "Tier1Service.blocks")
		r.Touch(core.FuncName(fn))
		rd := p.Named(pkgReqctx, "RequestDetails")
		hand, start, stop := core.FieldOf(rd, "LinearHandoffBlockNum"), core.FieldOf(rd, "ResolvedStartBlockNum"), core.FieldOf(rd, "StopBlockNum")
		sff := p.Field(pkgSvc, "Tier1Service", "streamFactoryFunc")
		n := 0
		core.Instrs(fn, func(in ssa.Instruction) {
			c, ok := in.(*ssa.Call)
			if !ok {
				return
			}
			if f, _ := core.LoadedField(c.Call.Value); f == sff {
				n++
				a2 := core.Trace(c.Call.Args[2], 0)
				a3 := core.Trace(c.Call.Args[3], 0)
				r.Check(a2.Fields[hand] && !a2.Fields[start], rule, "tier1.blocks/stream-start", "the linear block stream starts at the hand-off block", "start argument does not come from LinearHandoffBlockNum", p.Pos(c.Pos()))
				r.Check(hasFieldNamed(a3, "StopBlockNum"), rule, "tier1.blocks/stream-stop", "the linear block stream stops at the request's stop block", "stop argument does not come from StopBlockNum", p.Pos(c.Pos()))
			}
		})
		if n != 1 {
			core.Undecide("tier1.blocks: %d stream factory calls", n)
		}
		for _, c := range core.FindInstrs(fn, core.IsCallTo(p.FuncObj(pkgPlan, "BuildTier1RequestPlan"))) {
			args := c.(ssa.CallInstruction).Common().Args
			want := []*types.Var{nil, nil, nil, nil, start, hand, stop, nil}
			ok := true
			for i, w := range want {
				if w != nil && !core.Trace(args[i], 0).Fields[w] {
					ok = false
				}
			}
			okInit := core.Trace(args[2], 0).HasCall(p.FuncObj(pkgExec, "Graph.LowestInitBlock")) && core.Trace(args[3], 0).HasCall(p.FuncObj(pkgExec, "Graph.LowestStoresInitBlock"))
			r.Check(ok && okInit, rule, "tier1.blocks/plan-args", "the plan is built from the same resolved start, hand-off and stop as the stream, and from the graph's lowest (store) initial blocks", "argument provenance differs", p.Pos(c.Pos()))
		}
	})
	r.Guard(rule, "raw-start", "the request's raw start block is not used for planning", func() {
		req := p.Named("pb/sf/substreams/rpc/v2", "Request")
		rawF := core.FieldOf(req, "StartBlockNum")
		forbidden := map[*types.Func]string{}
		for _, n := range []struct{ pkg, fn string }{{pkgPlan, "BuildTier1RequestPlan"}, {pkgPipe, "reprocStateRequired"}, {pkgPipe, "computeLinearHandoffBlockNum"}, {pkgBlock, "NewSegmenter"}, {pkgBlock, "NewRange"}} {
			forbidden[p.FuncObj(n.pkg, n.fn)] = n.fn
		}
		nLoads := 0
		bad := ""
		for _, fname := range []struct{ pkg, fn string }{{pkgSvc, "Tier1Service.blocks"}, {pkgPipe, "BuildRequestDetails"}} {
			fn := p.Func(fname.pkg, fname.fn)
			core.Instrs(fn, func(in ssa.Instruction) {
				v, ok := in.(ssa.Value)
				if !ok {
					return
				}
				if f, _ := core.LoadedField(v); f != rawF {
					return
				}
				nLoads++
				for _, sk := range core.ForwardSinks(v, 6) {
					if sk.Callee != nil {
						if n, isF := forbidden[sk.Callee]; isF {
							bad = fname.fn + " hands request.StartBlockNum to " + n + " at " + p.Pos(sk.Instr.Pos())
						}
					}
				}
			})
		}
		r.Check(bad == "", rule, "raw-start-not-planned", "once the start block has been resolved (cursor, negative offsets), the request's raw start_block_num is only logged, validated or part of the request id: it never reaches the plan, the hand-off computation or a segmenter", bad, "")
		_ = nLoads
	})
}

// checkBackprocessSegmenter (C12.R2): the scheduler iterates over BackprocessSegmenter(); when both the stores and the
// cached outputs have a planned range, it must span both — from the lower of the two start blocks to the higher of the
// two end blocks.  A segmenter derived from one range only leaves the leading (or trailing) segments of the other
// without a job while the plan still promises them.
func checkBackprocessSegmenter(p *core.Prog, r *core.Report) {
	fn := p.Func(pkgPlan, "RequestPlan.BackprocessSegmenter")
	r.Touch(core.FuncName(fn))
	// loads <plan>.<range field>.<bound field> of this function
	type pair struct{ rng, bound string }
	loadOf := func(v ssa.Value) (pair, bool) {
		f, base := core.LoadedField(v)
		if f == nil || base == nil {
			return pair{}, false
		}
		bf, _ := core.LoadedField(base)
		if bf == nil {
			return pair{}, false
		}
		return pair{bf.Name(), f.Name()}, true
	}
	want := []pair{{"BuildStores", "StartBlock"}, {"WriteExecOut", "StartBlock"}, {"BuildStores", "ExclusiveEndBlock"}, {"WriteExecOut", "ExclusiveEndBlock"}}
	// edges on which one of the two ranges is known to be nil
	var nilEdges []core.Edge
	core.InstrsDeep(fn, func(in ssa.Instruction) {
		ifi, ok := in.(*ssa.If)
		if !ok {
			return
		}
		c, neg := core.StripNot(ifi.Cond)
		bo, ok := c.(*ssa.BinOp)
		if !ok || (bo.Op != token.EQL && bo.Op != token.NEQ) {
			return
		}
		if k, ok := bo.Y.(*ssa.Const); !ok || !k.IsNil() {
			return
		}
		f, _ := core.LoadedField(bo.X)
		if f == nil || (f.Name() != "BuildStores" && f.Name() != "WriteExecOut") {
			return
		}
		idx := 0
		if (bo.Op == token.NEQ) != neg {
			idx = 1
		}
		nilEdges = append(nilEdges, core.Edge{From: ifi.Block(), Idx: idx})
	})
	q := core.PathQuery{Fn: fn, CutEdge: func(e core.Edge) bool { return containsEdge(nilEdges, e) }}
	n := 0
	var missing []string
	core.Instrs(fn, func(in ssa.Instruction) {
		rt, ok := in.(*ssa.Return)
		if !ok || len(rt.Results) != 1 {
			return
		}
		if _, reach := q.CanReach(nil, func(x ssa.Instruction) bool { return x == in }); !reach {
			return // a return taken only when one of the two ranges is absent
		}
		n++
		have := map[pair]bool{}
		for v := range core.OperandSlice(rt.Results[0]) {
			if pr, ok := loadOf(v); ok {
				have[pr] = true
			}
		}
		for _, w := range want {
			if !have[w] {
				missing = append(missing, w.rng+"."+w.bound)
			}
		}
	})
	r.Check(len(nilEdges) >= 2 && n > 0 && len(missing) == 0, "C12.R2", "BackprocessSegmenter/spans-both", "when both the stores and the cached outputs are planned, the segmenter the scheduler iterates over is computed from both start blocks and both end blocks", fmt.Sprintf("%d returns with both ranges present; bounds not used: %v", n, missing), p.Pos(fn.Pos()))
	// and it takes the lower start and the higher end
	okMin, okMax := false, false
	core.Instrs(fn, func(in ssa.Instruction) {
		c, ok := in.(*ssa.Call)
		if !ok {
			return
		}
		b, ok := c.Call.Value.(*ssa.Builtin)
		if !ok || len(c.Call.Args) != 2 {
			return
		}
		p0, ok0 := loadOf(core.SkipConv(c.Call.Args[0]))
		p1, ok1 := loadOf(core.SkipConv(c.Call.Args[1]))
		if !ok0 || !ok1 || p0.rng == p1.rng || p0.bound != p1.bound {
			return
		}
		if b.Name() == "min" && p0.bound == "StartBlock" {
			okMin = true
		}
		if b.Name() == "max" && p0.bound == "ExclusiveEndBlock" {
			okMax = true
		}
	})
	if okMin || okMax || len(missing) > 0 {
		// the builtin form is what the code uses; another way of choosing (an if/else) is not judged here
		r.Check(okMin && okMax, "C12.R2", "BackprocessSegmenter/min-start-max-end", "the span starts at the LOWER start block and ends at the HIGHER end block", fmt.Sprintf("min over the starts: %v, max over the ends: %v", okMin, okMax), p.Pos(fn.Pos()))
	}
}
