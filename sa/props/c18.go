package props

import (
	"fmt"
	"go/ast"
	"go/constant"
	"go/token"
	"go/types"
	"reflect"
	"sort"
	"strconv"
	"strings"

	"golang.org/x/tools/go/packages"
	"golang.org/x/tools/go/ssa"

	"verif/sa/core"
)

func init() {
	register("C18", &Def{
		Title:     "Hand-written cache file codecs are wire-compatible with their protobuf schemas",
		Run:       runC18,
		Technique: "static analysis: writer/reader/schema table agreement — field-number/wire-type tables extracted from the hand-written decoders and tag constants compared with the generated struct tags; size-accounting pairing; encoder size/write component agreement",
		Explanation: "(R1) each hand-written decoder (Array.UnmarshalVTNoAlloc, Item.UnmarshalVTNoAlloc, marshaller.unmarshalVT incl. its map-entry sub-decoder) dispatches on exactly the field numbers of the generated message, checks the wire type the schema implies and assigns the matching struct field, and the key/value of a map entry come from that entry alone (no decoding state carried from one entry to the next); " +
			"(R2) the tag constants of the hand-written store encoder equal (field<<3)|wiretype of the schema, are written in the role they are named for, and the byte-size precomputation accounts exactly the components the writer emits; " +
			"(R3) in unmarshalVT every map insertion is paired with dataSize += len(key)+len(value), the default marshaller returns that count, and the default marshaller is not one that reports a constant size; " +
			"(R4) MarshalFast/UnmarshalFast use the Array message on both sides (standard MarshalVT ↔ no-alloc decoder) and rebuild the map keyed by BlockId. Also (R1) every varint accumulator of the decoders enters its loop as 0. Also (R2) store marshallers keep no state between calls. Also (R4) a retried download adds nothing to a captured buffer. Also (R1) a varint of the hand-written decoders ends exactly at the first byte below 0x80.",
		NotCovered:  "The varint/length arithmetic inside the copied decoder loops and byte-exact agreement on generated data (the generated protobuf/vtproto code is trusted).",
		Assumptions: []string{"generated struct tags are the schema", "protobuf wire types: varint=0, fixed64=1, bytes=2, fixed32=5"},
	})
}

type schemaField struct {
	Name     string
	Num      int
	Wire     int
	KeyNum   int // map entry key field number (0 if not a map)
	ValNum   int
	KeyWire  int
	ValWire  int
	TypeName string
}

func wireOf(kind string) int {
	switch kind {
	case "varint", "zigzag32", "zigzag64":
		return 0
	case "fixed64":
		return 1
	case "bytes", "group":
		return 2
	case "fixed32":
		return 5
	}
	return -1
}

// schemaOf reads the generated struct tags of a message type.
func schemaOf(n *types.Named) []schemaField {
	st, ok := n.Underlying().(*types.Struct)
	if !ok {
		core.Undecide("%s is not a struct", n)
	}
	var out []schemaField
	for i := 0; i < st.NumFields(); i++ {
		tag := reflect.StructTag(st.Tag(i))
		pb := tag.Get("protobuf")
		if pb == "" {
			continue
		}
		parts := strings.Split(pb, ",")
		if len(parts) < 2 {
			continue
		}
		num, _ := strconv.Atoi(parts[1])
		f := schemaField{Name: st.Field(i).Name(), Num: num, Wire: wireOf(parts[0]), TypeName: st.Field(i).Type().String()}
		if k := tag.Get("protobuf_key"); k != "" {
			kp := strings.Split(k, ",")
			vp := strings.Split(tag.Get("protobuf_val"), ",")
			if len(kp) >= 2 && len(vp) >= 2 {
				f.KeyNum, _ = strconv.Atoi(kp[1])
				f.ValNum, _ = strconv.Atoi(vp[1])
				f.KeyWire, f.ValWire = wireOf(kp[0]), wireOf(vp[0])
			}
		}
		out = append(out, f)
	}
	sort.Slice(out, func(i, j int) bool { return out[i].Num < out[j].Num })
	return out
}

type decCase struct {
	Num    int
	Wire   int      // wire type required (-1 if no check)
	Fields []string // message fields assigned in the case
	Pos    token.Pos
	Clause *ast.CaseClause
}

// decoderTable extracts `switch fieldNum { case k: if wireType != w ...; m.F = ... }`.
func decoderTable(pk *packages.Package, fd *ast.FuncDecl, recv string) ([]decCase, bool, token.Pos) {
	var sw *ast.SwitchStmt
	ast.Inspect(fd.Body, func(n ast.Node) bool {
		if s, ok := n.(*ast.SwitchStmt); ok && sw == nil {
			if id, ok := s.Tag.(*ast.Ident); ok && strings.EqualFold(id.Name, "fieldNum") {
				sw = s
				return false
			}
		}
		return true
	})
	if sw == nil {
		core.Undecide("%s: no switch on fieldNum", fd.Name.Name)
	}
	var out []decCase
	hasDefault := false
	for _, st := range sw.Body.List {
		cc := st.(*ast.CaseClause)
		if cc.List == nil {
			hasDefault = true
			continue
		}
		for _, e := range cc.List {
			tv, ok := pk.TypesInfo.Types[e]
			if !ok || tv.Value == nil {
				core.Undecide("%s: non-constant case label", fd.Name.Name)
			}
			n, _ := constant.Int64Val(tv.Value)
			dc := decCase{Num: int(n), Wire: -1, Pos: cc.Pos(), Clause: cc}
			fields := map[string]bool{}
			for _, s := range cc.Body {
				ast.Inspect(s, func(x ast.Node) bool {
					switch y := x.(type) {
					case *ast.IfStmt:
						// if wireType != W { return error }
						if be, ok := y.Cond.(*ast.BinaryExpr); ok && be.Op == token.NEQ {
							if id, ok := be.X.(*ast.Ident); ok && id.Name == "wireType" {
								if tv, ok := pk.TypesInfo.Types[be.Y]; ok && tv.Value != nil {
									w, _ := constant.Int64Val(tv.Value)
									if dc.Wire == -1 {
										dc.Wire = int(w)
									}
								}
							}
						}
					case *ast.AssignStmt:
						for _, l := range y.Lhs {
							if f := recvField(l, recv); f != "" {
								fields[f] = true
							}
						}
					}
					return true
				})
			}
			for f := range fields {
				dc.Fields = append(dc.Fields, f)
			}
			sort.Strings(dc.Fields)
			out = append(out, dc)
		}
	}
	return out, hasDefault, sw.Pos()
}

// recvField: expression m.F, m.F[k] (assignment target) → F.
func recvField(e ast.Expr, recv string) string {
	switch x := e.(type) {
	case *ast.SelectorExpr:
		if id, ok := x.X.(*ast.Ident); ok && id.Name == recv {
			return x.Sel.Name
		}
	case *ast.IndexExpr:
		return recvField(x.X, recv)
	}
	return ""
}

func checkDecoder(p *core.Prog, r *core.Report, rel, fnName string, msg *types.Named, ignoreFields map[string]bool) {
	fd, pk := p.FuncDecl(rel, fnName)
	r.Touch(rel + "." + fnName)
	recv := ""
	if fd.Recv != nil && len(fd.Recv.List) == 1 && len(fd.Recv.List[0].Names) == 1 {
		recv = fd.Recv.List[0].Names[0].Name
	} else if len(fd.Type.Params.List) > 0 && len(fd.Type.Params.List[0].Names) > 0 {
		recv = fd.Type.Params.List[0].Names[0].Name
	}
	table, hasDefault, pos := decoderTable(pk, fd, recv)
	schema := schemaOf(msg)
	byNum := map[int]decCase{}
	for _, dc := range table {
		if _, dup := byNum[dc.Num]; dup {
			r.Fail("C18.R1", fmt.Sprintf("%s/case%d/dup", fnName, dc.Num), "each field number has one case", "duplicate case", p.Pos(dc.Pos))
		}
		byNum[dc.Num] = dc
	}
	for _, sf := range schema {
		construct := fmt.Sprintf("%s/%s", fnName, sf.Name)
		dc, ok := byNum[sf.Num]
		desc := fmt.Sprintf("field %s (number %d, wire type %d in the generated schema) is decoded by case %d, which requires wire type %d and assigns m.%s", sf.Name, sf.Num, sf.Wire, sf.Num, sf.Wire, sf.Name)
		if !ok {
			r.Fail("C18.R1", construct, desc, "no case for this field number (the field would be skipped as unknown)", p.Pos(pos))
			continue
		}
		var assigned []string
		for _, f := range dc.Fields {
			if !ignoreFields[f] {
				assigned = append(assigned, f)
			}
		}
		bad := ""
		if dc.Wire != sf.Wire {
			bad = fmt.Sprintf("requires wire type %d", dc.Wire)
		}
		if len(assigned) != 1 || assigned[0] != sf.Name {
			bad += fmt.Sprintf(" assigns %v", assigned)
		}
		r.Check(bad == "", "C18.R1", construct, desc, bad, p.Pos(dc.Pos))
		delete(byNum, sf.Num)
	}
	// a field's case decodes the field whenever its tag is met: no `continue` (of the decoding loop) inside a case — a
	// conditional skip (e.g. "empty message, nothing to decode") drops the PRESENCE of the field, which the standard
	// decoder keeps (an empty sub-message decodes to a non-nil empty message)
	for _, dc := range table {
		var skips []token.Pos
		var visit func(n ast.Node, inLoop bool)
		visit = func(n ast.Node, inLoop bool) {
			ast.Inspect(n, func(x ast.Node) bool {
				switch y := x.(type) {
				case *ast.ForStmt:
					if y != n {
						visit(y.Body, true)
						return false
					}
				case *ast.RangeStmt:
					if y != n {
						visit(y.Body, true)
						return false
					}
				case *ast.FuncLit:
					return false
				case *ast.BranchStmt:
					if (y.Tok == token.CONTINUE && (!inLoop || y.Label != nil)) || y.Tok == token.GOTO {
						skips = append(skips, y.Pos())
					}
				}
				return true
			})
		}
		for _, st := range dc.Clause.Body {
			visit(st, false)
		}
		d := ""
		if len(skips) > 0 {
			d = "the case can skip to the next field at " + p.Pos(skips[0])
		}
		r.Check(len(skips) == 0, "C18.R1", fmt.Sprintf("%s/case%d/no-skip", fnName, dc.Num), "the case decodes and assigns its field on every input that carries the tag (no `continue` out of the case: presence of an empty value is kept)", d, p.Pos(dc.Pos))
	}
	for n, dc := range byNum {
		r.Fail("C18.R1", fmt.Sprintf("%s/case%d/extra", fnName, n), "the decoder has no case for a field number absent from the schema", fmt.Sprintf("case %d assigns %v", n, dc.Fields), p.Pos(dc.Pos))
	}
	r.Check(hasDefault, "C18.R1", fnName+"/default", "unknown field numbers are skipped (default case), as the standard decoder does", "no default case", p.Pos(pos))
}

func runC18(p *core.Prog, r *core.Report) {
	// ------------------------------------------------------------------ R1
	r.Guard("C18.R1", "Item.UnmarshalVTNoAlloc", "decoder table", func() {
		checkDecoder(p, r, pkgPBOut, "Item.UnmarshalVTNoAlloc", p.Named(pkgPBOut, "Item"), map[string]bool{"unknownFields": true})
	})
	r.Guard("C18.R1", "Array.UnmarshalVTNoAlloc", "decoder table", func() {
		checkDecoder(p, r, pkgPBOut, "Array.UnmarshalVTNoAlloc", p.Named(pkgPBOut, "Array"), map[string]bool{"unknownFields": true})
		// the nested decoder is the no-alloc one of Item
		fn := p.Func(pkgPBOut, "Array.UnmarshalVTNoAlloc")
		ok := len(core.FindInstrs(fn, core.IsCallTo(p.FuncObj(pkgPBOut, "Item.UnmarshalVTNoAlloc")))) == 1
		r.Check(ok, "C18.R1", "Array.UnmarshalVTNoAlloc/nested", "each element of Items is decoded by Item.UnmarshalVTNoAlloc", "nested decoder call not found", p.Pos(fn.Pos()))
	})
	r.Guard("C18.R1", "unmarshalVT", "decoder table", func() {
		msg := p.Named(pkgMarsh+"/pb", "StoreData")
		checkDecoder(p, r, pkgMarsh, "unmarshalVT", msg, nil)
		// map entry sub-decoder: fieldNum == keyNum → mapkey, fieldNum == valNum → mapvalue; m.Kv[mapkey] = mapvalue
		var kvField schemaField
		for _, sf := range schemaOf(msg) {
			if sf.KeyNum != 0 {
				kvField = sf
			}
		}
		fd, pk := p.FuncDecl(pkgMarsh, "unmarshalVT")
		// the two entry variables, by role: m.Kv[<key var>] = <value var>
		keyVar, valVar := "", ""
		ast.Inspect(fd.Body, func(n ast.Node) bool {
			as, ok := n.(*ast.AssignStmt)
			if !ok || len(as.Lhs) != 1 || len(as.Rhs) != 1 {
				return true
			}
			ix, ok := as.Lhs[0].(*ast.IndexExpr)
			if !ok {
				return true
			}
			if sel, ok := ix.X.(*ast.SelectorExpr); !ok || sel.Sel.Name != "Kv" {
				return true
			}
			if k, ok := ix.Index.(*ast.Ident); ok {
				keyVar = k.Name
			}
			if v, ok := as.Rhs[0].(*ast.Ident); ok {
				valVar = v.Name
			}
			return true
		})
		if keyVar == "" || valVar == "" {
			core.Undecide("unmarshalVT: assignment m.Kv[key] = value not found")
		}
		got := map[int]string{}
		assigned := func(body []ast.Stmt) map[string]bool {
			out := map[string]bool{}
			for _, s := range body {
				ast.Inspect(s, func(x ast.Node) bool {
					if as, ok := x.(*ast.AssignStmt); ok {
						for _, l := range as.Lhs {
							if lid, ok := l.(*ast.Ident); ok && (lid.Name == keyVar || lid.Name == valVar) {
								out[lid.Name] = true
							}
						}
					}
					return true
				})
			}
			return out
		}
		record := func(numExpr ast.Expr, body []ast.Stmt) {
			tv, ok := pk.TypesInfo.Types[numExpr]
			if !ok || tv.Value == nil {
				return
			}
			num, _ := constant.Int64Val(tv.Value)
			a := assigned(body)
			// the innermost dispatch: its branch fills exactly one of the two variables
			if len(a) != 1 {
				return
			}
			for name := range a {
				role := "mapvalue"
				if name == keyVar {
					role = "mapkey"
				}
				got[int(num)] = role
			}
		}
		ast.Inspect(fd.Body, func(n ast.Node) bool {
			switch x := n.(type) {
			case *ast.IfStmt:
				if be, ok := x.Cond.(*ast.BinaryExpr); ok && be.Op == token.EQL {
					if _, isIdent := be.X.(*ast.Ident); isIdent {
						record(be.Y, x.Body.List)
					}
				}
			case *ast.SwitchStmt:
				if _, isIdent := x.Tag.(*ast.Ident); isIdent {
					for _, st := range x.Body.List {
						if cc, ok := st.(*ast.CaseClause); ok {
							for _, e := range cc.List {
								record(e, cc.Body)
							}
						}
					}
				}
			}
			return true
		})
		okEntry := got[kvField.KeyNum] == "mapkey" && got[kvField.ValNum] == "mapvalue" && len(got) == 2
		r.Check(okEntry, "C18.R1", "unmarshalVT/map-entry", fmt.Sprintf("inside a Kv entry, field %d is the key and field %d the value (protobuf_key/protobuf_val tags)", kvField.KeyNum, kvField.ValNum), fmt.Sprintf("entry sub-decoder maps %v", got), p.Pos(fd.Pos()))
	})

	// ------------------------------------------------------------------ R2
	r.Guard("C18.R2", "tag-constants", "encoder constants", func() {
		msg := p.Named(pkgMarsh+"/pb", "StoreData")
		var kv, dp schemaField
		for _, sf := range schemaOf(msg) {
			switch sf.Name {
			case "Kv":
				kv = sf
			case "DeletePrefixes":
				dp = sf
			}
		}
		want := map[string]int{
			"KVEntryProtoTag":           kv.Num<<3 | kv.Wire,
			"KVEntryKeyProtoTag":        kv.KeyNum<<3 | kv.KeyWire,
			"KVEntryValueProtoTag":      kv.ValNum<<3 | kv.ValWire,
			"DeletePrefixEntryProtoTag": dp.Num<<3 | dp.Wire,
		}
		for name, w := range want {
			c := p.Const(pkgMarsh, name)
			v, _ := constant.Int64Val(c.Val())
			r.Check(int(v) == w, "C18.R2", name, fmt.Sprintf("%s = (field number << 3) | wire type of the schema = %#x", name, w), fmt.Sprintf("constant is %#x", v), p.Pos(c.Pos()))
		}
		// roles: order of tag constants written by writeKV and writeDeletePrefix
		for _, wr := range []struct {
			fn   string
			want []string
		}{{"ProtoingFast.writeKV", []string{"KVEntryProtoTag", "KVEntryKeyProtoTag", "KVEntryValueProtoTag"}}, {"ProtoingFast.writeDeletePrefix", []string{"DeletePrefixEntryProtoTag"}}} {
			fd, pk := p.FuncDecl(pkgMarsh, wr.fn)
			r.Touch(pkgMarsh + "." + wr.fn)
			var seq []string
			ast.Inspect(fd.Body, func(n ast.Node) bool {
				if id, ok := n.(*ast.Ident); ok {
					if c, ok := pk.TypesInfo.Uses[id].(*types.Const); ok && strings.HasSuffix(c.Name(), "ProtoTag") {
						seq = append(seq, c.Name())
					}
				}
				return true
			})
			r.Check(strings.Join(seq, ",") == strings.Join(wr.want, ","), "C18.R2", wr.fn+"/tag-order", fmt.Sprintf("%s writes the tags %v in this order (entry, key, value)", wr.fn, wr.want), fmt.Sprintf("writes %v", seq), p.Pos(fd.Pos()))
		}
	})
	r.Guard("C18.R2", "size-vs-write", "size precomputation equals bytes written", func() { checkSizeVsWrite(p, r) })

	// ------------------------------------------------------------------ R3
	r.Guard("C18.R3", "unmarshalVT/recount", "size recount pairing", func() {
		fn := p.Func(pkgMarsh, "unmarshalVT")
		r.Touch(core.FuncName(fn))
		msg := p.Named(pkgMarsh+"/pb", "StoreData")
		kvF := core.FieldOf(msg, "Kv")
		// named result dataSize: with a bare `return` and named results, go/ssa keeps the result in a cell or phi; find the adds
		var updates []*ssa.MapUpdate
		core.Instrs(fn, func(in ssa.Instruction) {
			if mu, ok := in.(*ssa.MapUpdate); ok {
				if f, _ := core.LoadedField(mu.Map); f == kvF {
					updates = append(updates, mu)
				}
			}
		})
		if len(updates) == 0 {
			core.Undecide("unmarshalVT: no insertion into m.Kv")
		}
		for i, mu := range updates {
			// in the same block, after the update (or before), an addition dataSize + uint64(len(key)+len(value)) whose operands are the inserted key and value
			ok := false
			for _, in := range mu.Block().Instrs {
				bo, isBo := in.(*ssa.BinOp)
				if !isBo || bo.Op != token.ADD {
					continue
				}
				bt, isBasic := bo.Type().Underlying().(*types.Basic)
				if !isBasic || bt.Kind() != types.Uint64 {
					continue
				}
				add := core.SkipConv(bo.Y)
				inner, isInner := add.(*ssa.BinOp)
				if !isInner || inner.Op != token.ADD {
					continue
				}
				lk, lv := lenArg(inner.X), lenArg(inner.Y)
				if (lk == mu.Key && lv == mu.Value) || (lk == mu.Value && lv == mu.Key) {
					// the sum flows to the returned dataSize
					for _, s := range core.ForwardSinks(bo, 6) {
						if s.IsRet && s.Ret == 0 {
							ok = true
						}
					}
				}
			}
			r.Check(ok, "C18.R3", fmt.Sprintf("unmarshalVT/insert#%d", i+1), "each insertion m.Kv[k] = v is paired with dataSize += len(k)+len(v) in the same block, and dataSize is the returned size", "no matching size update for this insertion", p.Pos(mu.Pos()))
		}
		// and conversely: nothing else is counted.  Every uint64 addition that flows to the returned size sits in the
		// block of an insertion into m.Kv (the other marshallers report keys + values only; a delete prefix, a tag or a
		// length prefix counted here makes the size of a loaded store depend on the marshaller)
		var stray []string
		nAdds := 0
		core.Instrs(fn, func(in ssa.Instruction) {
			bo, isBo := in.(*ssa.BinOp)
			if !isBo || bo.Op != token.ADD {
				return
			}
			bt, isBasic := bo.Type().Underlying().(*types.Basic)
			if !isBasic || bt.Kind() != types.Uint64 {
				return
			}
			toRet := false
			for _, s := range core.ForwardSinks(bo, 6) {
				if s.IsRet && s.Ret == 0 {
					toRet = true
				}
			}
			if !toRet {
				return
			}
			nAdds++
			paired := false
			for _, mu := range updates {
				if mu.Block() == bo.Block() {
					paired = true
				}
			}
			if !paired {
				stray = append(stray, p.Pos(bo.Pos()))
			}
		})
		r.Check(len(stray) == 0 && nAdds > 0, "C18.R3", "unmarshalVT/only-entries-counted", "the size reported on load is made of the key and value lengths of the inserted entries only: every addition that reaches the returned size is in the block of an insertion into m.Kv", fmt.Sprintf("%d additions reach the size; stray: %v", nAdds, stray), p.Pos(fn.Pos()))
	})
	r.Guard("C18.R1", "unmarshalVT/entry-state", "per-entry decoding state", func() {
		fn := p.Func(pkgMarsh, "unmarshalVT")
		msg := p.Named(pkgMarsh+"/pb", "StoreData")
		kvF := core.FieldOf(msg, "Kv")
		loops := core.Loops(fn)
		core.Instrs(fn, func(in ssa.Instruction) {
			mu, ok := in.(*ssa.MapUpdate)
			if !ok {
				return
			}
			if f, _ := core.LoadedField(mu.Map); f != kvF {
				return
			}
			// the loop over the message's fields: smallest loop containing the insertion
			var outer *core.Loop
			for _, l := range loops {
				if l.Body[mu.Block()] && (outer == nil || len(l.Body) < len(outer.Body)) {
					outer = l
				}
			}
			if outer == nil {
				core.Undecide("unmarshalVT: insertion into Kv is not inside the field loop")
			}
			carried := ""
			for role, v := range map[string]ssa.Value{"key": mu.Key, "value": mu.Value} {
				seen := map[ssa.Value]bool{}
				var walk func(v ssa.Value)
				walk = func(v ssa.Value) {
					if seen[v] {
						return
					}
					seen[v] = true
					switch x := v.(type) {
					case *ssa.Phi:
						if x.Block() == outer.Header {
							carried = role
							return
						}
						for _, e := range x.Edges {
							walk(e)
						}
					case *ssa.ChangeType:
						walk(x.X)
					case *ssa.Convert:
						walk(x.X)
					case *ssa.UnOp:
						if x.Op == token.MUL {
							// a spilled variable: every store to the cell
							for _, st := range core.StoresTo(x.X) {
								if !outer.Body[st.Block()] {
									carried = role
								}
								walk(st.Val)
							}
						}
					}
				}
				walk(v)
			}
			r.Check(carried == "", "C18.R1", "unmarshalVT/entry-state", "the key and the value of a Kv entry come from that entry alone: the decoding variables start empty for every entry (an entry that omits a field, or carries an empty one, must not inherit the previous entry's)", "the "+carried+" inserted into Kv can be carried over from the previous entry (variable live across iterations of the field loop)", p.Pos(mu.Pos()))
		})
	})
	r.Guard("C18.R1", "varint-accumulators", "every varint starts from zero", func() { checkVarintAccumulatorsFresh(p, r, "C18.R1") })
	r.GuardExact("C18.R1", "varint-terminators", "a varint ends at the first byte below 0x80", func() { checkVarintTerminator(p, r, "C18.R1") })
	r.Guard("C18.R3", "marshaller-contracts", "every marshaller: size and both parts", func() { checkMarshallerContracts(p, r, nil) })
	r.Guard("C18.R3", "default-marshaller", "default marshaller recounts", func() {
		def := p.Func(pkgMarsh, "Default")
		r.Touch(core.FuncName(def))
		// concrete type returned
		var concrete *types.Named
		core.Instrs(def, func(in ssa.Instruction) {
			ret, ok := in.(*ssa.Return)
			if !ok || len(ret.Results) != 1 {
				return
			}
			if mi, ok := ret.Results[0].(*ssa.MakeInterface); ok {
				if pt, ok := mi.X.Type().(*types.Pointer); ok {
					concrete, _ = pt.Elem().(*types.Named)
				} else {
					concrete, _ = mi.X.Type().(*types.Named)
				}
			}
		})
		if concrete == nil {
			core.Undecide("marshaller.Default: concrete type not found")
		}
		um := p.Func(pkgMarsh, concrete.Obj().Name()+".Unmarshal")
		r.Touch(core.FuncName(um))
		okCount := true
		n := 0
		core.Instrs(um, func(in ssa.Instruction) {
			ret, ok := in.(*ssa.Return)
			if !ok || len(ret.Results) != 3 {
				return
			}
			rv := core.ReturnValues(ret)
			if c, isC := rv[2].(*ssa.Const); !isC || !c.IsNil() {
				return // error return
			}
			n++
			if _, isConst := rv[1].(*ssa.Const); isConst {
				okCount = false
				return
			}
			src := core.Trace(rv[1], 0)
			if !src.HasCall(p.FuncObj(pkgMarsh, "unmarshalVT")) {
				okCount = false
			}
		})
		r.Check(okCount && n > 0, "C18.R3", "Default/"+concrete.Obj().Name()+".Unmarshal", "the default marshaller's Unmarshal returns the size recounted while decoding (not a constant)", "size result is a constant or does not come from unmarshalVT", p.Pos(um.Pos()))
		// Kv / DeletePrefixes of the result come from the decoded message
		okFields := false
		sd := p.Named(pkgMarsh, "StoreData")
		for _, al := range core.AllocsOf(um, sd) {
			f := core.LiteralFields(al)
			if len(f["Kv"]) == 1 && len(f["DeletePrefixes"]) == 1 {
				a := core.Trace(f["Kv"][0], 1)
				b := core.Trace(f["DeletePrefixes"][0], 1)
				if hasFieldNamed(a, "Kv") && hasFieldNamed(b, "DeletePrefixes") {
					okFields = true
				}
			}
		}
		r.Check(okFields, "C18.R3", "Default/"+concrete.Obj().Name()+".Unmarshal/fields", "the decoded Kv and DeletePrefixes are returned in the fields of the same name", "field mapping not found", p.Pos(um.Pos()))
	})

	// ------------------------------------------------------------------ R4
	r.Guard("C18.R4", "Map.MarshalFast", "fast codec pair", func() {
		mf := p.Func(pkgPBOut, "Map.MarshalFast")
		uf := p.Func(pkgPBOut, "Map.UnmarshalFast")
		r.Touch(core.FuncName(mf), core.FuncName(uf))
		arr := p.Named(pkgPBOut, "Array")
		item := p.Named(pkgPBOut, "Item")
		mapT := p.Named(pkgPBOut, "Map")
		// MarshalFast: Array{Items: all values of m.Kv}.MarshalVT()
		okM := len(core.AllocsOf(mf, arr)) == 1 && len(core.FindInstrs(mf, core.IsCallTo(p.FuncObj(pkgPBOut, "Array.MarshalVT")))) == 1
		// every element stored into Items comes from ranging m.Kv
		kvF := core.FieldOf(mapT, "Kv")
		okElems := false
		core.Instrs(mf, func(in ssa.Instruction) {
			st, ok := in.(*ssa.Store)
			if !ok {
				return
			}
			if _, ok := st.Addr.(*ssa.IndexAddr); !ok {
				return
			}
			if ex, ok := st.Val.(*ssa.Extract); ok && ex.Index == 2 {
				if nx, ok := ex.Tuple.(*ssa.Next); ok {
					if rg, ok := nx.Iter.(*ssa.Range); ok {
						if f, _ := core.LoadedField(rg.X); f == kvF {
							okElems = true
						}
					}
				}
			}
		})
		// length of Items is len(m.Kv)
		okLen := false
		core.Instrs(mf, func(in ssa.Instruction) {
			if ms, ok := in.(*ssa.MakeSlice); ok {
				if c, ok := core.SkipConv(ms.Len).(*ssa.Call); ok {
					if b, ok := c.Call.Value.(*ssa.Builtin); ok && b.Name() == "len" {
						if f, _ := core.LoadedField(c.Call.Args[0]); f == kvF {
							okLen = true
						}
					}
				}
			}
		})
		// the same array built by appending: from an empty slice, one append of the range value per item of m.Kv
		if ap := appendedRangeValues(mf, kvF); ap != nil && (!okElems || !okLen) {
			for _, al := range core.AllocsOf(mf, arr) {
				for _, v := range core.LiteralFields(al)["Items"] {
					if v == ssa.Value(ap) {
						okElems, okLen = true, true
					}
				}
			}
		}
		r.Check(okM && okElems && okLen, "C18.R4", "Map.MarshalFast", "MarshalFast encodes an Array holding exactly the values of m.Kv (len(m.Kv) items) with the generated MarshalVT", fmt.Sprintf("array+MarshalVT=%v elements-from-Kv=%v len=%v", okM, okElems, okLen), p.Pos(mf.Pos()))
		// UnmarshalFast: Array.UnmarshalVTNoAlloc, then m.Kv[item.BlockId] = item
		okU := len(core.FindInstrs(uf, core.IsCallTo(p.FuncObj(pkgPBOut, "Array.UnmarshalVTNoAlloc")))) == 1
		okKey := false
		blockID := core.FieldOf(item, "BlockId")
		for _, w := range core.FieldWritesIn(uf, kvF) {
			if w.Kind == core.WMapSet {
				f, base := core.LoadedField(w.Key)
				if f == blockID && base == w.Value {
					okKey = true
				}
			}
		}
		r.Check(okU && okKey, "C18.R4", "Map.UnmarshalFast", "UnmarshalFast decodes an Array with the no-alloc decoder and rebuilds the map keyed by each item's own BlockId", fmt.Sprintf("decoder=%v keyed-by-BlockId=%v", okU, okKey), p.Pos(uf.Pos()))
		// File.Save / File.Load use the pair
		for _, pr := range [][2]string{{"File.Save", "MarshalFast"}, {"File.Load", "UnmarshalFast"}} {
			fn := p.Func(pkgExecout, pr[0])
			found := false
			for _, f := range core.Family(fn, 2) {
				if len(core.FindInstrs(f, core.IsCallTo(p.FuncObj(pkgPBOut, "Map."+pr[1])))) > 0 {
					found = true
				}
			}
			r.Check(found, "C18.R4", pr[0], "cached-output files are written with MarshalFast and read with UnmarshalFast (the matching pair)", pr[1]+" not used", p.Pos(fn.Pos()))
		}
	})
	r.MinInstances("C18.R1", 13)
	r.MinInstances("C18.R2", 6)
	r.MinInstances("C18.R3", 3)
	r.Guard("C18.R4", "fast-codec/elements", "every item exactly once", func() {
		// MarshalFast: the i-th slot receives the range value and i advances by one per item
		mf := p.Func(pkgPBOut, "Map.MarshalFast")
		okSlot := false
		core.Instrs(mf, func(in ssa.Instruction) {
			st, ok := in.(*ssa.Store)
			if !ok {
				return
			}
			ia, ok := st.Addr.(*ssa.IndexAddr)
			if !ok {
				return
			}
			ph, ok := ia.Index.(*ssa.Phi)
			if !ok {
				return
			}
			// back edge = phi + 1
			inc := false
			for _, e := range ph.Edges {
				if bo, ok := e.(*ssa.BinOp); ok && bo.Op == token.ADD && bo.X == ssa.Value(ph) {
					if k, ok := bo.Y.(*ssa.Const); ok && k.Int64() == 1 {
						inc = true
					}
				}
			}
			// the value is the map range's value
			fromRange := false
			if ex, ok := st.Val.(*ssa.Extract); ok && ex.Index == 2 {
				if _, ok := ex.Tuple.(*ssa.Next); ok {
					fromRange = true
				}
			}
			if inc && fromRange {
				okSlot = true
			}
		})
		if appendedRangeValues(mf, core.FieldOf(p.Named(pkgPBOut, "Map"), "Kv")) != nil {
			okSlot = true // appended: each item takes the next slot
		}
		r.Check(okSlot, "C18.R4", "Map.MarshalFast/slots", "each value of m.Kv is stored into its own slot of the array (slot index advancing by one per item)", "slot index is not a counter incremented once per item, or the stored value is not the range value", p.Pos(mf.Pos()))
		// Array decoder: each element is decoded into an Item allocated for it
		af := p.Func(pkgPBOut, "Array.UnmarshalVTNoAlloc")
		itemT := p.Named(pkgPBOut, "Item")
		okFresh := false
		core.Instrs(af, func(in ssa.Instruction) {
			c, ok := in.(*ssa.Call)
			if !ok {
				return
			}
			b, ok := c.Call.Value.(*ssa.Builtin)
			if !ok || b.Name() != "append" {
				return
			}
			if core.SliceReachesPred(c.Call.Args[1], func(v ssa.Value) bool {
				al, ok := v.(*ssa.Alloc)
				if !ok || !al.Heap {
					return false
				}
				pt, ok := al.Type().Underlying().(*types.Pointer)
				return ok && types.Identical(pt.Elem(), itemT) && al.Block() == c.Block()
			}, 2) {
				okFresh = true
			}
		})
		r.Check(okFresh, "C18.R4", "Array.UnmarshalVTNoAlloc/fresh-item", "every element of the array is decoded into an Item allocated for that element (no reuse of the previous one)", "the appended element is not a new Item of that iteration", p.Pos(af.Pos()))
		checkNoSilentTruncation(p, r, "C18.R4", []loopSite{{pkgPBOut, "Map.MarshalFast", nil}, {pkgPBOut, "Map.UnmarshalFast", nil}})
		checkNoElementSkipped(p, r, "C18.R2", pkgMarsh, "ProtoingFast.kvByteSize", "ProtoingFast.listByteSize", "ProtoingFast.writeKV", "ProtoingFast.writeDeletePrefix")
		checkNoElementSkipped(p, r, "C18.R4", pkgPBOut, "Map.MarshalFast")
	})
	r.Guard("C18.R4", "fresh-reader", "upload reader per attempt", func() { checkFreshReaderPerAttempt(p, r, "C18.R4") })
	r.Guard("C18.R2", "marshallers", "stateless marshallers", func() { checkMarshallersStateless(p, r, "C18.R2") })
	r.Guard("C18.R4", "download", "a retried download starts from nothing", func() { checkRetryAccumulatesNothing(p, r, "C18.R4") })
	r.MinInstances("C18.R4", 4)
}

func hasFieldNamed(s *core.Sources, name string) bool {
	for f := range s.Fields {
		if f.Name() == name {
			return true
		}
	}
	for c := range s.Calls {
		if c.Name() == "Get"+name {
			return true
		}
	}
	return false
}

func lenArg(v ssa.Value) ssa.Value {
	c, ok := core.SkipConv(v).(*ssa.Call)
	if !ok {
		return nil
	}
	b, ok := c.Call.Value.(*ssa.Builtin)
	if !ok || b.Name() != "len" {
		return nil
	}
	return c.Call.Args[0]
}

// checkSizeVsWrite: per entry, the components summed by the size functions are
// exactly the components the writer advances its cursor by.
func checkSizeVsWrite(p *core.Prog, r *core.Report) {
	type comp = map[string]int
	// size side: kvEntryByteSize returns Σ components; kvByteSize adds 1 + uvarint(entry) + entry per entry
	sizeComps := func(fn *ssa.Function, perIter bool) comp {
		out := comp{}
		// arithmetic helpers of the package (single block, integers in, integer out) are read through: their parameters
		// stand for the arguments of the call being expanded
		subst := map[ssa.Value]ssa.Value{}
		resolve := func(v ssa.Value) ssa.Value {
			for i := 0; i < 4; i++ {
				w, ok := subst[core.SkipConv(v)]
				if !ok {
					break
				}
				v = w
			}
			return v
		}
		var collect func(v ssa.Value, sign int)
		collect = func(v ssa.Value, sign int) {
			v = core.SkipConv(resolve(v))
			switch x := v.(type) {
			case *ssa.BinOp:
				if x.Op == token.ADD {
					collect(x.X, sign)
					collect(x.Y, sign)
					return
				}
			case *ssa.Const:
				if x.Value != nil {
					i, _ := constant.Int64Val(x.Value)
					out["const"] += int(i) * sign
					return
				}
			case *ssa.Call:
				if b, ok := x.Call.Value.(*ssa.Builtin); ok && b.Name() == "len" {
					out["len("+valName(resolve(x.Call.Args[0]))+")"] += sign
					return
				}
				if cl := core.CommonCallee(x.Common()); cl != nil {
					switch cl.Name() {
					case "uvarintByteCount":
						out["uv("+sizeArg(resolve(core.SkipConv(x.Call.Args[0])))+")"] += sign
						return
					case "kvEntryByteSize":
						out["entry"] += sign
						return
					}
					if h := core.StaticFn(x.Common()); h != nil && h.Pkg == fn.Pkg && len(h.Blocks) == 1 && isIntType(x.Type()) && len(subst) < 8 {
						if rt, ok := h.Blocks[0].Instrs[len(h.Blocks[0].Instrs)-1].(*ssa.Return); ok && len(rt.Results) == 1 {
							for i, hp := range h.Params {
								if i < len(x.Call.Args) {
									subst[hp] = resolve(x.Call.Args[i])
								}
							}
							collect(rt.Results[0], sign)
							for _, hp := range h.Params {
								delete(subst, hp)
							}
							return
						}
					}
				}
			case *ssa.Phi:
				// loop accumulator: ignore the phi itself
				return
			}
			out["?"+v.Name()] += sign
		}
		if perIter {
			// the accumulator update inside the range loop: find phi of int in a loop header and its in-loop edge
			for _, l := range core.Loops(fn) {
				for _, in := range l.Header.Instrs {
					ph, ok := in.(*ssa.Phi)
					if !ok {
						break
					}
					if !isIntType(ph.Type()) {
						continue
					}
					// only the accumulator that becomes the function's result (not the range index)
					toRet := false
					for _, snk := range core.ForwardSinks(ph, 6) {
						if snk.IsRet {
							toRet = true
						}
					}
					if !toRet {
						continue
					}
					for i, pred := range l.Header.Preds {
						if l.Body[pred] {
							collect(ph.Edges[i], 1)
						}
					}
				}
			}
		} else {
			core.Instrs(fn, func(in ssa.Instruction) {
				if ret, ok := in.(*ssa.Return); ok && len(ret.Results) == 1 {
					collect(ret.Results[0], 1)
				}
			})
		}
		return out
	}
	// write side: per loop iteration, cursor advances (Slice with Low) and the tag/len writes
	var advances func(blocks []*ssa.BasicBlock, depth int) comp
	advances = func(blocks []*ssa.BasicBlock, depth int) comp {
		out := comp{}
		for _, b := range blocks {
			for _, in := range b.Instrs {
				// a helper of the package the cursor is threaded through ([]byte in, []byte out, no loop): its own
				// advances, its parameters named after the arguments
				if c, ok := in.(*ssa.Call); ok && depth > 0 {
					callee := core.StaticFn(c.Common())
					if callee != nil && callee.Blocks != nil && callee.Pkg == b.Parent().Pkg && len(core.Loops(callee)) == 0 && isByteSlice(c.Type()) {
						threaded := false
						for _, a := range c.Call.Args {
							if isByteSlice(a.Type()) {
								threaded = true
							}
						}
						if threaded && callee.Name() != "unsafeGetBytes" {
							sub := advances(callee.Blocks, depth-1)
							for k, v := range sub {
								for i, prm := range callee.Params {
									if i < len(c.Call.Args) {
										k = strings.ReplaceAll(k, "("+prm.Name()+")", "("+valName(c.Call.Args[i])+")")
									}
								}
								out[k] += v
							}
						}
					}
				}
				sl, ok := in.(*ssa.Slice)
				if !ok || sl.Low == nil || sl.High != nil {
					continue
				}
				low := core.SkipConv(sl.Low)
				switch x := low.(type) {
				case *ssa.Const:
					i, _ := constant.Int64Val(x.Value)
					out["const"] += int(i)
				case *ssa.Call:
					if bi, ok := x.Call.Value.(*ssa.Builtin); ok && bi.Name() == "len" {
						out["len("+valName(x.Call.Args[0])+")"]++
					} else if cl := core.CommonCallee(x.Common()); cl != nil && cl.Name() == "PutUvarint" {
						out["uv("+sizeArg(x.Call.Args[1])+")"]++
					} else {
						out["?"]++
					}
				default:
					out["?"]++
				}
			}
		}
		return out
	}
	writeComps := func(fn *ssa.Function) comp {
		loops := core.Loops(fn)
		if len(loops) != 1 {
			core.Undecide("%s: expected one loop", core.FuncName(fn))
		}
		var blocks []*ssa.BasicBlock
		for b := range loops[0].Body {
			blocks = append(blocks, b)
		}
		return advances(blocks, 1)
	}
	entry := sizeComps(p.Func(pkgMarsh, "kvEntryByteSize"), false)
	kvIter := sizeComps(p.Func(pkgMarsh, "ProtoingFast.kvByteSize"), true)
	wr := writeComps(p.Func(pkgMarsh, "ProtoingFast.writeKV"))
	r.Touch("storage/store/marshaller.kvEntryByteSize", "(*storage/store/marshaller.ProtoingFast).kvByteSize", "(*storage/store/marshaller.ProtoingFast).writeKV")
	// expand "entry" in kvIter: total per entry = kvIter (with entry replaced by the entry components)
	total := comp{}
	for k, v := range kvIter {
		if k == "entry" {
			for ek, ev := range entry {
				total[rename(ek, map[string]string{"key": "key", "value": "value"})] += ev * v
			}
		} else {
			total[k] += v
		}
	}
	// normalise names: size side uses (key,value)/(k,v); write side uses (key,value); uv(entry) naming
	norm := func(c comp) comp {
		o := comp{}
		for k, v := range c {
			k = strings.NewReplacer("len(k)", "len(key)", "len(v)", "len(value)", "uv(len(k))", "uv(len(key))", "uv(len(v))", "uv(len(value))").Replace(k)
			if v != 0 {
				o[k] += v
			}
		}
		return o
	}
	a, b := norm(total), norm(wr)
	r.Check(reflect.DeepEqual(a, b), "C18.R2", "kvByteSize≍writeKV", "per map entry, the size precomputation (kvByteSize + kvEntryByteSize) sums exactly the components writeKV advances its cursor by (tags, varint lengths, key and value bytes)",
		fmt.Sprintf("size components %v vs written components %v", a, b), p.Pos(p.Func(pkgMarsh, "ProtoingFast.writeKV").Pos()))
	ls := norm(sizeComps(p.Func(pkgMarsh, "ProtoingFast.listByteSize"), true))
	lw := norm(writeComps(p.Func(pkgMarsh, "ProtoingFast.writeDeletePrefix")))
	// unify the element variable names
	ren := func(c comp) comp {
		o := comp{}
		for k, v := range c {
			k = strings.NewReplacer("len(l)", "len(elem)", "len(value)", "len(elem)").Replace(k)
			o[k] += v
		}
		return o
	}
	r.Check(reflect.DeepEqual(ren(ls), ren(lw)), "C18.R2", "listByteSize≍writeDeletePrefix", "per deleted prefix, listByteSize sums exactly the components writeDeletePrefix writes", fmt.Sprintf("size %v vs written %v", ren(ls), ren(lw)), p.Pos(p.Func(pkgMarsh, "ProtoingFast.writeDeletePrefix").Pos()))
}

func rename(s string, _ map[string]string) string { return s }

func isIntType(t types.Type) bool {
	b, ok := t.Underlying().(*types.Basic)
	return ok && b.Info()&types.IsInteger != 0
}

// valName: readable name of a value: parameter name, range key/value role.
func valName(v ssa.Value) string {
	v = core.SkipConv(v)
	switch x := v.(type) {
	case *ssa.Parameter:
		return x.Name()
	case *ssa.Extract:
		if _, ok := x.Tuple.(*ssa.Next); ok {
			if x.Index == 1 {
				return "key"
			}
			return "value"
		}
	case *ssa.Call:
		// unsafeGetBytes(key)
		if len(x.Call.Args) == 1 {
			return valName(x.Call.Args[0])
		}
	case *ssa.UnOp:
		// range over slice: element load
		return "value"
	}
	return v.Name()
}

// sizeArg names the argument of a uvarint size/put: len(x) or the entry size.
func sizeArg(v ssa.Value) string {
	v = core.SkipConv(v)
	if c, ok := v.(*ssa.Call); ok {
		if b, ok := c.Call.Value.(*ssa.Builtin); ok && b.Name() == "len" {
			return "len(" + valName(c.Call.Args[0]) + ")"
		}
		if cl := core.CommonCallee(c.Common()); cl != nil && cl.Name() == "kvEntryByteSize" {
			return "entry"
		}
	}
	if ph, ok := v.(*ssa.Phi); ok {
		return core.PhiName(ph)
	}
	// a local holding kvEntryByteSize(...)
	return "entry"
}

// appendedRangeValues: fn builds a slice by appending, once per iteration of a range over the map field
// kv, that iteration's value to an accumulator that starts empty (make(_, 0, _) or nil).  The accumulator
// (the loop-header phi, which is the value after the loop) is returned; nil when the shape is not found.
func appendedRangeValues(fn *ssa.Function, kv *types.Var) *ssa.Phi {
	var res *ssa.Phi
	for _, l := range core.Loops(fn) {
		for _, hin := range l.Header.Instrs {
			ph, ok := hin.(*ssa.Phi)
			if !ok {
				continue
			}
			if _, isSlice := ph.Type().Underlying().(*types.Slice); !isSlice || len(ph.Edges) != 2 {
				continue
			}
			okInit, okStep := false, false
			for _, e := range ph.Edges {
				switch x := e.(type) {
				case *ssa.MakeSlice:
					if k, ok := x.Len.(*ssa.Const); ok && k.Value != nil && k.Int64() == 0 {
						okInit = true
					}
				case *ssa.Const:
					okInit = x.IsNil()
				case *ssa.Call:
					b, ok := x.Call.Value.(*ssa.Builtin)
					if !ok || b.Name() != "append" || x.Call.Args[0] != ssa.Value(ph) || !l.Body[x.Block()] {
						continue
					}
					// exactly one element: the variadic slice is a one-element array holding the range value of kv
					okStep = core.SliceReachesPred(x.Call.Args[1], func(v ssa.Value) bool {
						ex, ok := v.(*ssa.Extract)
						if !ok || ex.Index != 2 {
							return false
						}
						nx, ok := ex.Tuple.(*ssa.Next)
						if !ok {
							return false
						}
						rg, ok := nx.Iter.(*ssa.Range)
						if !ok {
							return false
						}
						f, _ := core.LoadedField(rg.X)
						return f == kv
					}, 2)
					if sl, ok := x.Call.Args[1].(*ssa.Slice); ok {
						if al, ok := sl.X.(*ssa.Alloc); ok {
							if at, ok := al.Type().Underlying().(*types.Pointer).Elem().Underlying().(*types.Array); !ok || at.Len() != 1 {
								okStep = false
							}
						}
					} else {
						okStep = false
					}
				}
			}
			if okInit && okStep {
				res = ph
			}
		}
	}
	return res
}

func isByteSlice(t types.Type) bool {
	sl, ok := t.Underlying().(*types.Slice)
	if !ok {
		return false
	}
	b, ok := sl.Elem().Underlying().(*types.Basic)
	return ok && b.Kind() == types.Uint8
}
