package props

import (
	"fmt"
	"go/token"
	"go/types"
	"strings"

	"golang.org/x/tools/go/ssa"

	"verif/sa/core"
)

func init() {
	register("C13", &Def{
		Title:     "Segments tile every block range exactly",
		Run:       runC13,
		Technique: "static analysis (narrow): sibling agreement of the index formulas by parameter substitution, operand classification of every division by the interval (start class vs exclusive-end-minus-one), clip/guard normal forms, alignment-idiom rule on remainders, loop-carried-value rules on Range.Split (contiguity, clip, exit) and edge-cut rules on Ranges.Merged (merge only over a successful adjacency test)",
		Explanation: "The tiling theorem itself is integer arithmetic over runtime values and is NOT decided. Decided are the index/bound disciplines the formulas rely on, each a necessary condition: " +
			"(R1) LastIndex() is IndexForEndBlock applied to the exclusive end, FirstIndex() is IndexForStartBlock applied to the initial block (same expression after substituting the operand), and both range builders bound a segment by floor+interval; " +
			"(R2) every division by the interval takes a start-class operand as is and an exclusive-end-class operand minus one; " +
			"(R3) both range builders clip with min(_, exclusiveEndBlock), Range(idx) yields nil below FirstIndex and followingRange yields nil above LastIndex, the first range starts at the initial block and a following range at idx*interval; " +
			"(R4) remainders by the interval/chunk size are only compared with zero or subtracted from their own dividend; " +
			"(R5) Range.Split: the first chunk starts at the range's start, every following chunk starts exactly where the previous ended, a chunk end is the previous end plus the chunk size clipped to the range's end, chunks are produced until that end is reached and all of them are returned, a range fitting one chunk is returned as is; " +
			"(R6) Ranges.Merged: a merged range runs from the start of the first to the end of the last range of a chain whose every link was compared end == next start, nothing is merged or extended without that comparison having succeeded, and every other input range is kept unchanged. R1 also pins Count() = LastIndex − FirstIndex + 1 and the argument roles of NewSegmenter / With*. Also (R6) in the squash loops of Merged/MergedBuckets the input index and the chain's last element advance together on every back edge and exit. Also (R5) inside package block the bounds of a Range are written only while it is being built (no operation moves its receiver). Also (R1) WithInitialBlock rebuilds the segmenter from the same interval and end whatever the new initial block.",
		NotCovered:  "Contiguity, disjointness and union of the segments over all (size, initial, end) triples; the bucket-size bound of MergedBuckets; that Split's first chunk end (an alignment formula) lies inside the range. These are arithmetic theorems out of reach of this family.",
		Assumptions: []string{"interval > 0 (validated at configuration time)"},
	})
}

// exprOf renders the single returned expression of a small function, with the
// receiver fields written s.<field> and parameters by name.
func exprOf(p *core.Prog, fn *ssa.Function) string {
	paths := core.Summarize(&core.SymConfig{Fn: fn, Inline: 2, Root: func(v ssa.Value) (string, bool) {
		if prm, ok := v.(*ssa.Parameter); ok && len(fn.Params) > 0 && prm == fn.Params[0] && fn.Signature.Recv() != nil {
			return "s", true
		}
		return "", false
	}})
	if len(paths) != 1 || paths[0].End != "return" || len(paths[0].Results) != 1 {
		core.Undecide("%s: expected a single straight-line return", core.FuncName(fn))
	}
	return paths[0].Results[0]
}

func runC13(p *core.Prog, r *core.Report) {
	segT := func() *types.Named { return p.Named(pkgBlock, "Segmenter") }
	// ---- R1 sibling agreement
	r.Guard("C13.R1", "index-siblings", "sibling agreement", func() {
		first := exprOf(p, p.Func(pkgBlock, "Segmenter.FirstIndex"))
		last := exprOf(p, p.Func(pkgBlock, "Segmenter.LastIndex"))
		fs := p.Func(pkgBlock, "Segmenter.IndexForStartBlock")
		fe := p.Func(pkgBlock, "Segmenter.IndexForEndBlock")
		r.Touch(core.FuncName(fs), core.FuncName(fe), "(*block.Segmenter).FirstIndex", "(*block.Segmenter).LastIndex")
		forStart := strings.ReplaceAll(exprOf(p, fs), fs.Params[1].Name(), "s.initialBlock")
		forEnd := strings.ReplaceAll(exprOf(p, fe), fe.Params[1].Name(), "s.exclusiveEndBlock")
		r.Check(first == forStart, "C13.R1", "FirstIndex≍IndexForStartBlock", "FirstIndex() is IndexForStartBlock(initialBlock): the same expression of its operand", fmt.Sprintf("%s vs %s", first, forStart), p.Pos(fs.Pos()))
		r.Check(last == forEnd, "C13.R1", "LastIndex≍IndexForEndBlock", "LastIndex() is IndexForEndBlock(exclusiveEndBlock): the same expression of its operand", fmt.Sprintf("%s vs %s", last, forEnd), p.Pos(fe.Pos()))
	})

	// ---- R2 division operand classes
	r.Guard("C13.R2", "divisions", "division operand classes", func() {
		st := segT()
		interval := core.FieldOf(st, "interval")
		initial := core.FieldOf(st, "initialBlock")
		end := core.FieldOf(st, "exclusiveEndBlock")
		n := 0
		for i := 0; i < st.NumMethods(); i++ {
			fn := p.SSA.FuncValue(st.Method(i))
			if fn == nil || fn.Blocks == nil {
				continue
			}
			cnt := 0
			core.Instrs(fn, func(in ssa.Instruction) {
				div, ok := in.(*ssa.BinOp)
				if !ok || div.Op != token.QUO {
					return
				}
				if f, _ := core.LoadedField(div.Y); f != interval {
					return
				}
				n++
				cnt++
				r.Touch(core.FuncName(fn))
				construct := fmt.Sprintf("%s/div#%d", core.FuncName(fn), cnt)
				x := core.SkipConv(div.X)
				class := "?"
				classify := func(v ssa.Value) string {
					v = core.SkipConv(v)
					if f, _ := core.LoadedField(v); f == initial {
						return "start"
					} else if f == end {
						return "end"
					}
					if prm, ok := v.(*ssa.Parameter); ok {
						switch fn.Name() {
						case "IndexForStartBlock":
							return "start"
						case "IndexForEndBlock":
							return "end"
						}
						_ = prm
					}
					return "?"
				}
				if bo, ok := x.(*ssa.BinOp); ok && bo.Op == token.SUB && isConstInt(bo.Y, 1) {
					class = classify(bo.X) + "-1"
				} else {
					class = classify(x)
				}
				r.Check(class == "start" || class == "end-1", "C13.R2", construct, "a division by the interval takes a start-class operand as is, or an exclusive-end operand minus one (an exclusive end on a boundary belongs to the previous segment)",
					"operand class is "+class, p.Pos(div.Pos()))
			})
		}
		// a method may delegate to IndexForStartBlock / IndexForEndBlock instead of dividing itself: the operand it passes
		// must be of the class the callee expects (a start for the former, an exclusive end for the latter)
		ifs, ife := p.FuncObj(pkgBlock, "Segmenter.IndexForStartBlock"), p.FuncObj(pkgBlock, "Segmenter.IndexForEndBlock")
		for i := 0; i < st.NumMethods(); i++ {
			fn := p.SSA.FuncValue(st.Method(i))
			if fn == nil || fn.Blocks == nil {
				continue
			}
			cnt := 0
			core.Instrs(fn, func(in ssa.Instruction) {
				c := core.CalleeOf(in)
				if c != ifs && c != ife {
					return
				}
				args := in.(ssa.CallInstruction).Common().Args
				f, _ := core.LoadedField(core.SkipConv(args[len(args)-1]))
				if f != initial && f != end {
					return // a block number given by the caller of the method
				}
				n++
				cnt++
				want := initial
				cls := "start"
				if c == ife {
					want, cls = end, "exclusive end"
				}
				r.Check(f == want, "C13.R2", fmt.Sprintf("%s/index-call#%d", core.FuncName(fn), cnt), "the segmenter's own bound handed to "+c.Name()+" is of the class that function divides correctly (the "+cls+")", "receives the other bound", p.Pos(in.Pos()))
			})
		}
		if n < 4 {
			core.Undecide("only %d divisions by Segmenter.interval found", n)
		}
	})

	// ---- R3 clipping and guards
	r.Guard("C13.R3", "builders", "range builders", func() {
		st := segT()
		interval := core.FieldOf(st, "interval")
		initial := core.FieldOf(st, "initialBlock")
		end := core.FieldOf(st, "exclusiveEndBlock")
		newRange := p.FuncObj(pkgBlock, "NewRange")
		for _, name := range []string{"Segmenter.firstRange", "Segmenter.followingRange"} {
			fn := p.Func(pkgBlock, name)
			r.Touch(core.FuncName(fn))
			calls := core.FindInstrsIn(fn, core.IsCallTo(newRange))
			// the range may be built by a helper method of the segmenter (the common tail of both builders): the helper's
			// parameters are then read as the arguments of the call in this builder
			deparam := func(v ssa.Value) ssa.Value { return v }
			if len(calls) == 0 {
				core.Instrs(fn, func(in ssa.Instruction) {
					ci, ok := in.(ssa.CallInstruction)
					if !ok {
						return
					}
					h := core.StaticFn(ci.Common())
					if h == nil || h.Blocks == nil || h.Pkg != fn.Pkg || h.Parent() != nil {
						return
					}
					hc := core.FindInstrs(h, core.IsCallTo(newRange))
					if len(hc) == 0 {
						return
					}
					calls = hc
					site := ci
					deparam = func(v ssa.Value) ssa.Value {
						if prm, ok := core.SkipConv(v).(*ssa.Parameter); ok {
							for i, hp := range h.Params {
								if hp == prm && i < len(site.Common().Args) {
									return site.Common().Args[i]
								}
							}
						}
						return v
					}
					r.Touch(core.FuncName(h))
				})
			}
			if len(calls) == 0 {
				core.Undecide("%s: no NewRange call", name)
			}
			// every range the builder can return obeys the three rules (a shortcut path building its own range is not exempt)
			for ci, call := range calls {
				c := call.(*ssa.Call)
				name := name
				if ci > 0 {
					name = fmt.Sprintf("%s#%d", name, ci+1)
				}
				base := strings.SplitN(name, "#", 2)[0]
				lo, hi := deparam(c.Call.Args[0]), deparam(c.Call.Args[1])
				// upper bound = min(floor + interval, exclusiveEndBlock)
				okClip, okUpper, okLower := false, false, false
				var floor ssa.Value
				if mc, ok := hi.(*ssa.Call); ok {
					if b, ok := mc.Call.Value.(*ssa.Builtin); ok && b.Name() == "min" && len(mc.Call.Args) == 2 {
						var other ssa.Value
						for i, a := range mc.Call.Args {
							if f, _ := core.LoadedField(a); f == end {
								okClip = true
								other = mc.Call.Args[1-i]
							}
						}
						if bo, ok := other.(*ssa.BinOp); ok && bo.Op == token.ADD {
							if f, _ := core.LoadedField(bo.Y); f == interval {
								floor = deparam(bo.X)
							} else if f, _ := core.LoadedField(bo.X); f == interval {
								floor = deparam(bo.Y)
							}
						}
					}
				}
				// the same clip written as a comparison: two ranges built on the two sides of `exclusiveEndBlock < U`
				// (or an equivalent test) — NewRange(_, exclusiveEndBlock) only where the end lies below U (or at it),
				// NewRange(_, U) only where it does not
				if !okClip {
					isEnd := func(v ssa.Value) bool { f, _ := core.LoadedField(core.SkipConv(v)); return f == end }
					holder := c.Parent()
					core.InstrsDeep(holder, func(in ssa.Instruction) {
						ifi, ok := in.(*ssa.If)
						if !ok || okClip {
							return
						}
						var u ssa.Value
						onT, onF, ok := core.CondRelation(ifi.Cond, isEnd, func(v ssa.Value) bool {
							if isEnd(v) {
								return false
							}
							u = v
							return true
						})
						if !ok || u == nil {
							return
						}
						for idx, rel := range []int{onT, onF} {
							e := core.Edge{From: ifi.Block(), Idx: idx}
							_, only := core.OnlyViaEdge(holder, e, func(x ssa.Instruction) bool { return x == ssa.Instruction(c) })
							if !only {
								continue
							}
							endBelow := rel&core.OrdGT == 0 // end <= U on this edge
							endAbove := rel&core.OrdLT == 0 // end >= U on this edge
							if (isEnd(hi) && endBelow) || (sameExpr(hi, u, 4) && endAbove) {
								okClip = true
								if bo, ok := u.(*ssa.BinOp); ok && bo.Op == token.ADD {
									if f, _ := core.LoadedField(bo.Y); f == interval {
										floor = deparam(bo.X)
									} else if f, _ := core.LoadedField(bo.X); f == interval {
										floor = deparam(bo.Y)
									}
								}
							}
						}
					})
				}
				if floor != nil {
					switch base {
					case "Segmenter.firstRange":
						// floor = initial - initial % interval
						if bo, ok := floor.(*ssa.BinOp); ok && bo.Op == token.SUB {
							fx, _ := core.LoadedField(bo.X)
							if rem, ok := bo.Y.(*ssa.BinOp); ok && rem.Op == token.REM && fx == initial {
								f1, _ := core.LoadedField(rem.X)
								f2, _ := core.LoadedField(rem.Y)
								okUpper = f1 == initial && f2 == interval
							}
						}
						fl, _ := core.LoadedField(lo)
						okLower = fl == initial
					case "Segmenter.followingRange":
						// floor = uint64(idx) * interval, and the lower bound is that same floor
						if bo, ok := core.SkipConv(floor).(*ssa.BinOp); ok && bo.Op == token.MUL {
							fy, _ := core.LoadedField(bo.Y)
							_, isPrm := core.SkipConv(bo.X).(*ssa.Parameter)
							okUpper = fy == interval && isPrm
						}
						okLower = sameExpr(lo, floor, 3)
					}
				}
				r.Check(okClip, "C13.R3", name+"/clip", "the segment's upper bound is clipped with min(_, exclusiveEndBlock)", "no min(…, s.exclusiveEndBlock) on the upper bound", p.Pos(c.Pos()))
				r.Check(okUpper, "C13.R3", name+"/upper", "the unclipped upper bound is the segment's floor plus the interval (floor = initial − initial%interval, resp. idx×interval)", "upper bound has another shape", p.Pos(c.Pos()))
				r.Check(okLower, "C13.R3", name+"/lower", "the first segment starts at the initial block, a following segment at its floor idx×interval", "lower bound has another shape", p.Pos(c.Pos()))
			}
		}
		// guards
		rg := p.Func(pkgBlock, "Segmenter.Range")
		r.Touch(core.FuncName(rg))
		firstIdx := p.FuncObj(pkgBlock, "Segmenter.FirstIndex")
		lastIdx := p.FuncObj(pkgBlock, "Segmenter.LastIndex")
		isCallOf := func(obj *types.Func) func(ssa.Value) bool {
			return func(v ssa.Value) bool {
				c, ok := core.SkipConv(v).(*ssa.Call)
				return ok && core.CommonCallee(c.Common()) == obj
			}
		}
		isIdx := func(fn *ssa.Function) func(ssa.Value) bool {
			return func(v ssa.Value) bool { return core.SkipConv(v) == ssa.Value(fn.Params[1]) }
		}
		okBelow, okFirst := false, false
		core.InstrsDeep(rg, func(in ssa.Instruction) {
			ifi, ok := in.(*ssa.If)
			if !ok {
				return
			}
			onT, _, ok := core.CondRelation(ifi.Cond, isIdx(rg), isCallOf(firstIdx))
			if !ok {
				return
			}
			tb := ifi.Block().Succs[0]
			if onT == core.OrdLT {
				if ret, ok := tb.Instrs[len(tb.Instrs)-1].(*ssa.Return); ok {
					if k, ok := ret.Results[0].(*ssa.Const); ok && k.IsNil() {
						okBelow = true
					}
				}
			}
			if onT == core.OrdEQ {
				if len(core.FindInstrs(rg, func(x ssa.Instruction) bool {
					return x.Block() == tb && core.IsCallTo(p.FuncObj(pkgBlock, "Segmenter.firstRange"))(x)
				})) > 0 {
					okFirst = true
				}
			}
		})
		r.Check(okBelow, "C13.R3", "Range/below-first", "Range(idx) yields no segment for idx < FirstIndex()", "guard not found", p.Pos(rg.Pos()))
		r.Check(okFirst, "C13.R3", "Range/first", "Range(FirstIndex()) is the clipped first range", "dispatch to firstRange on idx == FirstIndex() not found", p.Pos(rg.Pos()))
		fr := p.Func(pkgBlock, "Segmenter.followingRange")
		okAbove := false
		core.InstrsDeep(fr, func(in ssa.Instruction) {
			ifi, ok := in.(*ssa.If)
			if !ok {
				return
			}
			onT, onF, ok := core.CondRelation(ifi.Cond, isIdx(fr), isCallOf(lastIdx))
			if !ok {
				return
			}
			// whichever way the test is written: on the edge where idx > LastIndex() no range is built and nil is returned
			for idx, rel := range []int{onT, onF} {
				if rel != core.OrdGT {
					continue
				}
				sb := ifi.Block().Succs[idx]
				q := core.PathQuery{Fn: fr}
				builds := func(x ssa.Instruction) bool { return core.IsCallTo(p.FuncObj(pkgBlock, "NewRange"))(x) }
				if builds(sb.Instrs[0]) {
					continue
				}
				if _, reach := q.CanReach(sb.Instrs[0], builds); reach {
					continue
				}
				nilRet := func(x ssa.Instruction) bool {
					ret, ok := x.(*ssa.Return)
					if !ok || len(ret.Results) != 1 {
						return false
					}
					k, ok := core.ReturnValues(ret)[0].(*ssa.Const)
					return ok && k.IsNil()
				}
				if _, reach := q.CanReach(sb.Instrs[0], nilRet); reach || nilRet(sb.Instrs[0]) {
					okAbove = true
				}
			}
		})
		if !okAbove {
			// equivalent form on block numbers: no segment unless the segment's lower bound is strictly below the exclusive end
			// (`end <= idx*interval → nil`, possibly under `end != 0`)
			endF := core.FieldOf(p.Named(pkgBlock, "Segmenter"), "exclusiveEndBlock")
			var lows []ssa.Value
			for _, c := range core.FindInstrs(fr, core.IsCallTo(p.FuncObj(pkgBlock, "NewRange"))) {
				lows = append(lows, c.(ssa.CallInstruction).Common().Args[0])
			}
			isLow := func(v ssa.Value) bool {
				for _, l := range lows {
					if sameExpr(core.SkipConv(v), core.SkipConv(l), 3) {
						return true
					}
				}
				return false
			}
			isEnd := func(v ssa.Value) bool { f, _ := core.LoadedField(v); return f == endF }
			core.InstrsDeep(fr, func(in ssa.Instruction) {
				ifi, ok := in.(*ssa.If)
				if !ok {
					return
				}
				_, onF, ok := core.CondRelation(ifi.Cond, isLow, isEnd)
				if !ok || onF != core.OrdLT {
					return
				}
				tb := ifi.Block().Succs[0]
				if ret, ok := tb.Instrs[len(tb.Instrs)-1].(*ssa.Return); ok {
					if k, ok := ret.Results[0].(*ssa.Const); ok && k.IsNil() {
						okAbove = true
					}
				}
			})
		}
		r.Check(okAbove, "C13.R3", "followingRange/above-last", "indexes above LastIndex() yield no segment (guard idx > LastIndex() → nil, or equivalently lower bound >= exclusive end → nil)", "no guard returning nil for every index whose segment would start at or after the exclusive end", p.Pos(fr.Pos()))
	})

	r.Guard("C13.R1", "derived", "Count and derived segmenters", func() { checkSegmenterDerived(p, r) })
	r.Guard("C13.R5", "Range.Split", "chunks are contiguous and cover the range", func() { checkRangeSplit(p, r) })
	r.Guard("C13.R6", "Ranges.Merged", "merging only adjacent ranges", func() { checkRangesMerged(p, r) })
	r.GuardExact("C13.R6", "Ranges.Merged/zero", "block 0 is not a sentinel", func() { checkMergedNoZeroSentinel(p, r, "C13.R6") })
	r.Guard("C13.R5", "range-immutable", "derived ranges never move the receiver", func() { checkRangeReceiverUntouched(p, r, "C13.R5") })
	r.Guard("C13.R1", "with-initial-block", "re-basing rebuilds the segmenter", func() { checkWithInitialBlock(p, r, "C13.R1") })

	// ---- R4 alignment idiom in the block package
	r.Guard("C13.R4", "block/remainders", "alignment idiom", func() {
		var fns []*ssa.Function
		for _, fn := range p.RepoFunctions() {
			if fn.Pkg != nil && fn.Pkg.Pkg.Path() == core.ModPath+"/"+pkgBlock {
				fns = append(fns, fn)
			}
		}
		if n := checkAlignIdiom(p, r, "C13.R4", fns); n < 3 {
			core.Undecide("only %d remainder sites in package block (expected 3)", n)
		}
	})
	r.MinInstances("C13.R1", 2)
	r.MinInstances("C13.R2", 4)
	r.MinInstances("C13.R3", 9)
}

func isConstInt(v ssa.Value, k int64) bool {
	c, ok := v.(*ssa.Const)
	if !ok || c.Value == nil {
		return false
	}
	return c.Value.ExactString() == fmt.Sprint(k)
}
