package props

// Reasons for properties not claimed yet / at all.  Entries of properties that
// get a registered rule set are ignored when the manifest is generated.
func init() {
	pending := "rule set not implemented yet in this revision (planned in DESIGN.md §3); nothing is claimed until its rules run on the real tree"
	for _, id := range []string{"C01", "C02", "C04", "C05", "C06", "C07", "C08", "C09", "C10", "C11", "C12", "C13", "C14", "C15", "C16", "C17", "C18"} {
		NotApplicable[id] = pending
	}
}
