package props

import (
	"fmt"
	"go/constant"
	"go/token"
	"go/types"
	"sort"
	"strings"

	"golang.org/x/tools/go/ssa"

	"verif/sa/core"
)

func init() {
	register("C06", &Def{
		Title:     "A module's cache identity changes exactly when its computation can change",
		Run:       runC06,
		Technique: "static analysis: field-sensitive read-set of the hash function (value-uses vs key/index-uses, implicit flows through type switches), write-sets of the identity-preserving transforms (disjointness), provenance of every cache location, global-writer ownership, map-order determinism",
		Explanation: "A hash function's behaviour under field edits is its read-set. (R1) everything written into the hashed buffer derives, as a value, from: Module.InitialBlock, the dynamic Kind, Binary.Type and Binary.Content of the module's binary, for each input in slice order its dynamic kind plus Source.Type / Params.Value, the block filter (recursive hash of the resolved filter module and its query), the recursive hash of every ancestor, and Module.BinaryEntrypoint; module names (Module.Name, Input.Map/Store.ModuleName, BlockFilter.Module) and Module.BinaryIndex are used only as lookup keys / indexes, never as hashed values; " +
			"(R2) no map iteration, time or randomness reaches the hash; ancestors are iterated in the order AncestorsOf returns; " +
			"(R3) the import transforms (prefixModules, reindexAndMergePackage) write only fields outside the hash's value read-set; " +
			"(R4) the simplified test hash can only be switched on by the CLI decode commands; " +
			"(R5) every cache location (states/outputs/index sub-store) is derived from that hash through ModuleHashes.Get of the module's own name; " +
			"(R6) the one dropped error on the hash path (AncestorsOf) is on a key already validated. Also (R1) the block-filter query hashed for a module is asked of that module itself, and helpers between a field and the buffer are accepted only when transparent (getters, carriers, distinct constants, no string arithmetic). Also (R1) the hashed buffer is created in hashModule or emptied before the first write on every path. Also (R1) the three module kinds are hashed under three different tags.",
		NotCovered:  "Collision resistance; that descendants and nothing else change (follows from R1's recursion plus R3 but is not separately proven). Open known finding D11: two inputs of the same kind swapped keep the identifier (rule hashModule/input-order, listed in known_findings.json). Store update policy/value type are not hashed (not listed by the statement).",
		Assumptions: []string{"sha1 and bytes.Buffer are deterministic", "generated getters are field loads"},
	})
}

func runC06(p *core.Prog, r *core.Report) {
	modT := func() *types.Named { return p.Named(pkgPBV1, "Module") }
	resolvers := func() map[*types.Func]bool {
		return map[*types.Func]bool{
			p.FuncObj(pkgMani, "ModuleGraph.Module"):      true,
			p.FuncObj(pkgMani, "ModuleGraph.AncestorsOf"): true,
		}
	}
	var valueUse, keyUse map[*types.Var]bool
	dyn := map[string]bool{}

	// ------------------------------------------------------------------ R1
	r.Guard("C06.R1", "hashModule/read-set", "read-set of the hash", func() {
		fn := p.Func(pkgMani, "ModuleHashes.hashModule")
		r.Touch(core.FuncName(fn))
		res := resolvers()
		valueUse, keyUse = map[*types.Var]bool{}, map[*types.Var]bool{}
		calls := map[string]bool{}
		callObjs := map[*types.Func]bool{}
		nWrites := 0
		var bufAlloc ssa.Value
		// the functions that write into the hashed buffer: hashModule and the helpers of its family that receive the buffer
		// (a part of the signature extracted into a method)
		writers := []*ssa.Function{fn}
		for _, m := range core.Family(fn, 1) {
			if m == fn || m.Parent() != nil {
				continue
			}
			for _, prm := range m.Params {
				if strings.HasSuffix(prm.Type().String(), "bytes.Buffer") {
					writers = append(writers, m)
					r.Touch(core.FuncName(m))
				}
			}
		}
		for _, wfn := range writers {
			core.Instrs(wfn, func(in ssa.Instruction) {
				c, ok := in.(*ssa.Call)
				if !ok {
					return
				}
				cl := core.CommonCallee(c.Common())
				if cl == nil {
					return
				}
				k := calleeKey(cl)
				isBufWrite := (k == "bytes.Write" || k == "bytes.WriteString" || k == "bytes.WriteByte") && strings.Contains(cl.Type().(*types.Signature).Recv().Type().String(), "bytes.Buffer")
				isHashWrite := c.Call.IsInvoke() && cl.Name() == "Write" && strings.Contains(c.Call.Value.Type().String(), "hash.Hash")
				if !isBufWrite && !isHashWrite {
					return
				}
				nWrites++
				r.CallSites++
				arg := c.Call.Args[len(c.Call.Args)-1]
				if isBufWrite {
					bufAlloc = c.Call.Args[0]
				}
				if isHashWrite {
					// must be the buffer's bytes
					s := core.Trace(arg, 0)
					okB := false
					for cc := range s.Calls {
						if calleeKey(cc) == "bytes.Bytes" {
							okB = true
						}
					}
					r.Check(okB, "C06.R1", "hashModule/digest-input", "the digest is computed over the buffer's bytes (everything written, nothing else)", "hash input does not come from buf.Bytes()", p.Pos(c.Pos()))
					return
				}
				if _, isConst := arg.(*ssa.Const); isConst {
					return
				}
				s := core.TraceWithResolvers(arg, 3, res, map[*types.Func]bool{p.FuncObj(pkgMani, "ModuleHashes.hashModuleSimple"): true})
				for f := range s.Fields {
					valueUse[f] = true
				}
				for f := range s.KeyFields {
					keyUse[f] = true
				}
				for cc := range s.Calls {
					calls[core.ObjName(cc)] = true
					callObjs[cc] = true
				}
			})
		}
		if nWrites < 10 {
			core.Undecide("hashModule: only %d writes into the hashed buffer found", nWrites)
		}
		_ = bufAlloc
		// implicit flows: type switches in hashModule and in the static callees whose results are written
		helpers := c06InputHelpers(p, callObjs)
		for cc := range callObjs {
			if h := c06TransparentCarrier(p, cc, 2); h != nil {
				helpers = append(helpers, h)
			}
		}
		for _, f := range append(append([]*ssa.Function{}, writers...), helpers...) {
			core.Instrs(f, func(in ssa.Instruction) {
				if ta, ok := in.(*ssa.TypeAssert); ok {
					for fl := range core.Trace(ta.X, 1).Fields {
						dyn[fieldKey(fl)] = true
					}
				}
			})
		}
		// carriers: the hashed values reach the buffer as they are — through getters, the two input helpers, the recursive
		// hash, the filter query and plain conversions — never through a function that could map two different values to
		// the same bytes (trimming, lower-casing, pretty-printing, truncation)
		carriers := map[string]bool{}
		for _, n := range c06Carriers {
			carriers[n] = true
		}
		var foreign []string
		for cc := range callObjs {
			n := core.ObjName(cc)
			if carriers[n] || strings.Contains(n, ".Get") {
				continue
			}
			// a helper of the package that only selects among its parameter's fields and distinct constants (a type switch
			// returning a tag, the fused per-input helper) carries values as they are
			if c06TransparentCarrier(p, cc, 2) != nil {
				continue
			}
			foreign = append(foreign, n)
		}
		sort.Strings(foreign)
		r.Check(len(foreign) == 0, "C06.R1", "hashModule/raw-values", "hashed field values reach the buffer unmodified (only getters, the input helpers, the recursive hash, the filter query string and byte/string conversions lie between a field and the buffer)", fmt.Sprintf("values pass through %v before being hashed", foreign), p.Pos(fn.Pos()))
		// inputName / inputValue results must be written
		r.Check(len(c06InputHelpers(p, callObjs)) > 0, "C06.R1", "hashModule/inputs-written", "for every input its kind tag and its value are written into the hash", fmt.Sprintf("written call results: %v", keysOf(calls)), p.Pos(fn.Pos()))
		// recursion: a written value is the direct result of hashing (a) the module resolved from BlockFilter.Module, (b) each element of AncestorsOf(module.Name)
		hm, hM := p.FuncObj(pkgMani, "ModuleHashes.hashModule"), p.FuncObj(pkgMani, "ModuleHashes.HashModule")
		bfT := p.Named(pkgPBV1, "Module_BlockFilter")
		okFilter, okAnc, cacheUse := false, false, ""
		cacheF := p.Field(pkgMani, "ModuleHashes", "cache")
		for _, wfn := range writers {
			core.Instrs(wfn, func(in ssa.Instruction) {
				c, ok := in.(*ssa.Call)
				if !ok {
					return
				}
				cl := core.CommonCallee(c.Common())
				if cl == nil {
					return
				}
				k := calleeKey(cl)
				if !((k == "bytes.Write" || k == "bytes.WriteString") && strings.Contains(cl.Type().(*types.Signature).Recv().Type().String(), "bytes.Buffer")) {
					return
				}
				arg := c.Call.Args[len(c.Call.Args)-1]
				if _, isConst := arg.(*ssa.Const); isConst {
					return
				}
				// the value written, traced without entering callees
				var rec *ssa.Call
				seenV := map[ssa.Value]bool{}
				var find func(v ssa.Value, d int)
				find = func(v ssa.Value, d int) {
					if v == nil || seenV[v] || d > 6 {
						return
					}
					seenV[v] = true
					switch x := v.(type) {
					case *ssa.Call:
						if cc := core.CommonCallee(x.Common()); cc == hm || cc == hM {
							rec = x
							return
						}
					case *ssa.Extract:
						find(x.Tuple, d+1)
					case *ssa.Convert:
						find(x.X, d+1)
					case *ssa.ChangeType:
						find(x.X, d+1)
					case *ssa.Phi:
						for _, e := range x.Edges {
							find(e, d+1)
						}
					}
				}
				find(arg, 0)
				if rec != nil {
					mod := rec.Call.Args[2]
					src := core.TraceWithResolvers(mod, 0, res, nil)
					if src.HasCall(p.FuncObj(pkgMani, "ModuleGraph.Module")) && src.KeyFields[core.FieldOf(bfT, "Module")] {
						okFilter = true
					}
					if src.HasCall(p.FuncObj(pkgMani, "ModuleGraph.AncestorsOf")) && src.KeyFields[core.FieldOf(mt0(p), "Name")] {
						okAnc = true
					}
				}
				if core.Trace(arg, 0).Fields[cacheF] {
					cacheUse = p.Pos(c.Pos())
				}
			})
		}
		r.Check(okFilter, "C06.R1", "hashModule/recursion-filter", "the hash of the block-filter module — computed by hashing the module resolved from BlockFilter.Module — is written into the hash", "no written value is the direct result of hashing the resolved filter module", p.Pos(fn.Pos()))
		r.Check(okAnc, "C06.R1", "hashModule/recursion-ancestors", "the hash of every module returned by AncestorsOf(module.Name) is written into the hash", "no written value is the direct result of hashing the ancestors", p.Pos(fn.Pos()))
		r.Check(cacheUse == "", "C06.R1", "hashModule/no-cache-read", "nothing hashed is read back from the per-request hash cache (a cache entry exists only if someone hashed that module before: the identifier would depend on call order)", "a value read from ModuleHashes.cache is written into the hash at "+cacheUse, p.Pos(fn.Pos()))
		r.Check(calls["pb/sf/substreams/v1.Module.BlockFilterQueryString"], "C06.R1", "hashModule/filter-query", "the block filter's query string is part of the hash", "BlockFilterQueryString result not written", p.Pos(fn.Pos()))

		mt := modT()
		bin := p.Named(pkgPBV1, "Binary")
		src := p.Named(pkgPBV1, "Module_Input_Source")
		prm := p.Named(pkgPBV1, "Module_Input_Params")
		required := []*types.Var{
			core.FieldOf(mt, "InitialBlock"), core.FieldOf(mt, "BinaryEntrypoint"),
			core.FieldOf(bin, "Type"), core.FieldOf(bin, "Content"),
			core.FieldOf(src, "Type"), core.FieldOf(prm, "Value"),
		}
		for _, f := range required {
			r.Check(valueUse[f], "C06.R1", "value-use/"+fieldKey(f), "the field's value is written into the hash (editing it changes the identifier)", "field value never reaches the hashed buffer", p.Pos(fn.Pos()))
		}
		for _, d := range []string{"Module.Kind", "Module_Input.Input"} {
			r.Check(dyn[d], "C06.R1", "dynamic-kind/"+d, "the dynamic kind of the field selects what is written into the hash", "no type switch on this field in the hash path", p.Pos(fn.Pos()))
		}
		inMap := p.Named(pkgPBV1, "Module_Input_Map")
		inStore := p.Named(pkgPBV1, "Module_Input_Store")
		bf := p.Named(pkgPBV1, "Module_BlockFilter")
		forbidden := []*types.Var{
			core.FieldOf(mt, "Name"), core.FieldOf(inMap, "ModuleName"), core.FieldOf(inStore, "ModuleName"),
			core.FieldOf(bf, "Module"), core.FieldOf(mt, "BinaryIndex"),
		}
		for _, f := range forbidden {
			r.Check(!valueUse[f], "C06.R1", "no-value-use/"+fieldKey(f), "the field is used only as a lookup key / index and its value is never hashed (renaming or re-indexing keeps every identifier)", "field value flows into the hashed buffer", p.Pos(fn.Pos()))
		}
		// BinaryIndex and names are used as keys where needed
		r.Check(keyUse[core.FieldOf(mt, "BinaryIndex")], "C06.R1", "key-use/Module.BinaryIndex", "the binary is selected by the module's BinaryIndex", "BinaryIndex not used as an index", p.Pos(fn.Pos()))
		r.Check(keyUse[core.FieldOf(mt, "Name")] && keyUse[core.FieldOf(bf, "Module")], "C06.R1", "key-use/names", "ancestors and the filter module are resolved by name through the module graph", "names not used as resolver keys", p.Pos(fn.Pos()))
		// meta messages never read
		for f := range valueUse {
			if named := ownerOf(f); named == "ModuleMeta" || named == "PackageMeta" || named == "Package" {
				r.Fail("C06.R1", "no-value-use/"+fieldKey(f), "package/module metadata is not hashed", "metadata field flows into the hash", p.Pos(fn.Pos()))
			}
		}
		// inputs are hashed in slice order: the loop over module.Inputs is an ascending range
		inputs := core.FieldOf(mt, "Inputs")
		asc := false
		// (in hashModule, or in the helper of its family that is handed module.Inputs)
		for _, member := range core.Family(fn, 1) {
			for _, l := range core.LoopIndexing(member, func(v ssa.Value) bool {
				f, _ := core.LoadedField(core.CallerValue(fn, v))
				return f == inputs
			}) {
				if d, _ := l.InductionDir(); d == 1 {
					asc = true
				}
			}
		}
		r.Check(asc, "C06.R1", "hashModule/inputs-order", "inputs are hashed in their declared order", "loop over Module.Inputs is not an ascending range", p.Pos(fn.Pos()))
	})

	// ------------------------------------------------------------------ R2
	r.Guard("C06.R2", "HashModule/determinism", "determinism", func() {
		checkMapOrder(p, r, "C06.R2", []*ssa.Function{p.Func(pkgMani, "ModuleHashes.HashModule")}, mapOrderAllow)
		// AncestorsOf iterates in index order: its result is built by ranging a slice/by index, not a map
		fn := p.Func(pkgMani, "ModuleGraph.AncestorsOf")
		r.Touch(core.FuncName(fn))
		hasMapRange := false
		core.Instrs(fn, func(in ssa.Instruction) {
			if rg, ok := in.(*ssa.Range); ok {
				if _, isMap := rg.X.Type().Underlying().(*types.Map); isMap {
					hasMapRange = true
				}
			}
		})
		r.Check(!hasMapRange, "C06.R2", "AncestorsOf/order", "the ancestor list is built without ranging over a map (the same list always gives the same order; that this order also depends on the position of the modules in the list is the separate rule hashModule/ancestor-order-independent)", "AncestorsOf ranges over a map", p.Pos(fn.Pos()))
	})

	r.Guard("C06.R2", "ancestor-order", "ancestors hashed in a list-independent order", func() { checkAncestorOrderIndependent(p, r) })

	// ------------------------------------------------------------------ R3
	r.Guard("C06.R3", "import-transforms", "write-sets disjoint from the hash read-set", func() {
		if valueUse == nil {
			core.Undecide("read-set not available")
		}
		for _, name := range []string{"prefixModules", "reindexAndMergePackage"} {
			fn := p.Func(pkgMani, name)
			r.Touch(core.FuncName(fn))
			written := map[*types.Var]bool{}
			core.Instrs(fn, func(in ssa.Instruction) {
				if st, ok := in.(*ssa.Store); ok {
					if fa, ok := st.Addr.(*ssa.FieldAddr); ok {
						written[core.FieldOfAddr(fa)] = true
					}
				}
			})
			var ws, clash []string
			for f := range written {
				ws = append(ws, fieldKey(f))
				// appends to the package's module/binary lists extend the package without changing existing elements
				if valueUse[f] && !isAppendOnly(fn, f) {
					clash = append(clash, fieldKey(f))
				}
			}
			sort.Strings(ws)
			sort.Strings(clash)
			r.Check(len(clash) == 0 && len(ws) > 0, "C06.R3", name+"/write-set", "the import transform writes only fields whose values are not hashed (names, indexes, list extensions)", fmt.Sprintf("writes hashed fields %v (write-set %v)", clash, ws), p.Pos(fn.Pos()))
		}
	})

	// ------------------------------------------------------------------ R4
	r.Guard("C06.R4", "TestUseSimpleHash", "test hash not enabled on the server path", func() {
		v := p.PkgVar(pkgMani, "TestUseSimpleHash")
		ws := core.GlobalWrites(p.RepoFunctions(), v)
		var where []string
		bad := ""
		for _, w := range ws {
			name := core.FuncName(core.RootFn(w.Fn))
			where = append(where, name)
			pkg := ""
			if w.Fn.Pkg != nil {
				pkg = w.Fn.Pkg.Pkg.Path()
			} else if w.Fn.Parent() != nil && core.RootFn(w.Fn).Pkg != nil {
				pkg = core.RootFn(w.Fn).Pkg.Pkg.Path()
			}
			if name == "manifest.init" {
				continue
			}
			if !strings.HasSuffix(pkg, "/tools") {
				bad = name
			}
		}
		r.Check(bad == "", "C06.R4", "TestUseSimpleHash/writers", "the name-based test hash is only switched on by CLI decode commands (package tools)", "written by "+bad, where...)
		// and none of those writers is reachable from the service entry points
		cg := p.CallGraph(false)
		reach := core.Reachable(cg, p.Func(pkgSvc, "Tier1Service.Blocks"), p.Func(pkgSvc, "Tier2Service.ProcessRange"))
		hit := ""
		for _, w := range ws {
			if reach[w.Fn] || reach[core.RootFn(w.Fn)] {
				hit = core.FuncName(w.Fn)
			}
		}
		r.Check(hit == "", "C06.R4", "TestUseSimpleHash/unreachable", "no writer of the switch is reachable from the tier1/tier2 request handlers", "reachable writer "+hit)
	})

	// ------------------------------------------------------------------ R5
	r.Guard("C06.R5", "cache-paths", "cache locations derive from the hash", func() { checkCachePaths(p, r, "C06.R5") })

	// ------------------------------------------------------------------ R6
	r.Guard("C06.R6", "hash-errors", "no swallowed error on the hash path", func() {
		fns := []*ssa.Function{p.Func(pkgMani, "ModuleHashes.hashModule"), p.Func(pkgMani, "ModuleHashes.HashModule")}
		// plus whoever, in the execution graph package, asks for the hashes (Graph.hashModules, or its caller when inlined)
		fns = append(fns, callersInPkg(p, pkgExec, p.FuncObj(pkgMani, "ModuleHashes.HashModule"))...)
		allowed := map[string]string{
			"(*manifest.ModuleHashes).hashModule→AncestorsOf": "the key module.Name was inserted in the graph's index by NewModuleGraph, AncestorsOf can only fail on an unknown name",
		}
		n := 0
		for _, fn := range fns {
			r.Touch(core.FuncName(fn))
			core.Instrs(fn, func(in ssa.Instruction) {
				c, ok := in.(*ssa.Call)
				if !ok {
					return
				}
				cl := core.CommonCallee(c.Common())
				if cl == nil {
					return
				}
				sig := cl.Type().(*types.Signature)
				if sig.Results().Len() == 0 || !isErrorTyped(sig.Results().At(sig.Results().Len()-1).Type()) {
					return
				}
				if cl.Pkg() == nil || !strings.HasPrefix(cl.Pkg().Path(), core.ModPath) {
					return
				}
				n++
				key := core.FuncName(fn) + "→" + cl.Name()
				if core.ErrorTested(in) {
					return
				}
				_, ok = allowed[key]
				r.Check(ok, "C06.R6", key, "errors of repository calls on the hash path are propagated", "error result dropped", p.Pos(c.Pos()))
			})
		}
		r.Pass("C06.R6", "hash-path/errors", fmt.Sprintf("%d error-returning repository calls on the hash path inspected", n))
	})
	r.Guard("C06.R1", "closure/AncestorsOf", "ancestor closure", func() { checkClosureFn(p, r, "C06.R1", "ModuleGraph.AncestorsOf", 1, false) })
	r.Guard("C06.R3", "module-fields/writers", "the request's modules are not rewritten on the server", func() {
		// the server hashes the modules it received; the tools (info, decode) hash the package as built.  Both give the same
		// identifier only if nothing between the request and the hash rewrites a hashed field of a module: the hashed
		// fields of pbsubstreams.Module are written only while a package is BUILT (package manifest), never in the server
		// packages.
		if valueUse == nil {
			core.Undecide("read-set not available")
		}
		mod := p.Named(pkgPBV1, "Module")
		st := mod.Underlying().(*types.Struct)
		n := 0
		seenW := map[string]bool{}
		for i := 0; i < st.NumFields(); i++ {
			f := st.Field(i)
			if !valueUse[f] || !f.Exported() {
				continue
			}
			for _, w := range core.FieldWrites(p.RepoFunctions(), f) {
				root := core.RootFn(w.Fn)
				if p.IsTestFunc(root) || isGenerated(p, root) {
					continue
				}
				if w.Kind == core.WAddrTake {
					// &m.f handed out for reading (e.g. the lowest initial block returned as *uint64): a write through the
					// escaped pointer would be a Store whose address is that pointer, in the function that receives it —
					// the fields concerned are scalars read through the pointer only; not counted as a rewrite
					continue
				}
				key := "Module." + f.Name() + "←" + core.FuncName(root)
				if seenW[key] {
					continue
				}
				seenW[key] = true
				n++
				pkg := ""
				if root.Pkg != nil {
					pkg = root.Pkg.Pkg.Path()
				}
				okPkg := strings.HasSuffix(pkg, "/"+pkgMani) || strings.Contains(pkg, "/pb/")
				// literal construction of a fresh Module (Alloc in the same function) is not a rewrite
				fresh := false
				if st, ok := w.Instr.(*ssa.Store); ok {
					if fa, ok := st.Addr.(*ssa.FieldAddr); ok {
						if _, ok := fa.X.(*ssa.Alloc); ok {
							fresh = true
						}
					}
				}
				r.Check(okPkg || fresh, "C06.R3", key, "a hashed field of a module is written only while a package is built (package manifest) or in a freshly constructed module, never rewritten on the server path between the request and the hash", fmt.Sprintf("%s of Module.%s in %s", w.Kind, f.Name(), core.FuncName(root)), p.Pos(core.InstrPos(w.Instr)))
			}
		}
		if n == 0 {
			core.Undecide("no writer of a hashed Module field found")
		}
	})
	r.Guard("C06.R1", "unconditional", "hashed fields are hashed for every module", func() {
		// the scalar fields of the identity are written as they are on EVERY path: no path substitutes a constant or another
		// value for one kind of module (all leaves of the phi graph of the written value are loads of that field)
		fn := p.Func(pkgMani, "ModuleHashes.hashModule")
		allLeavesAre := func(v ssa.Value, field string) (bool, string) {
			seen := map[ssa.Value]bool{}
			ok, why := true, ""
			var walk func(v ssa.Value)
			walk = func(v ssa.Value) {
				v = core.SkipConv(core.ResolveCell(v))
				if seen[v] {
					return
				}
				seen[v] = true
				if ph, isPhi := v.(*ssa.Phi); isPhi {
					for _, e := range ph.Edges {
						walk(e)
					}
					return
				}
				if f, _ := core.LoadedField(v); f != nil && f.Name() == field {
					return
				}
				ok, why = false, v.String()
			}
			walk(v)
			return ok, why
		}
		type sink struct {
			field string
			arg   ssa.Value
		}
		var sinks []sink
		var narrow []string
		core.Instrs(fn, func(in ssa.Instruction) {
			c, ok := in.(*ssa.Call)
			if !ok {
				return
			}
			cl := core.CommonCallee(c.Common())
			if cl == nil {
				return
			}
			switch {
			case cl.Name() == "PutUint64" && len(c.Call.Args) >= 2:
				sinks = append(sinks, sink{"InitialBlock", c.Call.Args[len(c.Call.Args)-1]})
			case (cl.Name() == "PutUint32" || cl.Name() == "PutUint16") && len(c.Call.Args) >= 2 && hasFieldNamed(core.Trace(c.Call.Args[len(c.Call.Args)-1], 0), "InitialBlock"):
				// a 64-bit field written through a narrower carrier: its upper bits do not reach the hash
				narrow = append(narrow, cl.Name()+" at "+p.Pos(c.Pos()))
			case cl.Name() == "WriteString" || cl.Name() == "Write":
				arg := c.Call.Args[len(c.Call.Args)-1]
				for _, f := range []string{"BinaryEntrypoint", "Type", "Content"} {
					if hasFieldNamed(core.Trace(arg, 0), f) && !hasFieldNamed(core.Trace(arg, 0), "InitialBlock") {
						// only sinks whose value is that field (possibly through phis), not composite ones
						if _, isCall := core.SkipConv(core.ResolveCell(arg)).(*ssa.Call); !isCall {
							sinks = append(sinks, sink{f, arg})
						}
					}
				}
			}
		})
		seenF := map[string]bool{}
		for _, sk := range sinks {
			ok, why := allLeavesAre(sk.arg, sk.field)
			seenF[sk.field] = true
			r.Check(ok, "C06.R1", "hashModule/unconditional/"+sk.field, "the field "+sk.field+" is hashed as it is for every module: no path writes a constant or another value in its place", "on some path the value written instead of the field is "+why, p.Pos(fn.Pos()))
		}
		if len(narrow) > 0 {
			seenF["InitialBlock"] = true
			r.Check(false, "C06.R1", "hashModule/unconditional/InitialBlock", "the field InitialBlock is hashed as it is for every module: all 64 bits, no path writes a constant or another value in its place", "the initial block is written through a narrower carrier ("+strings.Join(narrow, ", ")+"): initial blocks that differ by a multiple of 2^32 get the same identifier", p.Pos(fn.Pos()))
		}
		if !seenF["InitialBlock"] || !seenF["BinaryEntrypoint"] {
			core.Undecide("hashModule: the writes of InitialBlock / BinaryEntrypoint were not found")
		}
	})
	r.Guard("C06.R1", "filter-query-receiver", "the module's own filter query", func() { checkFilterQueryReceiver(p, r, "C06.R1") })
	r.Guard("C06.R1", "buffer-fresh", "hashed buffer holds this module only", func() { checkHashBufferFresh(p, r, "C06.R1") })
	r.GuardExact("C06.R1", "kind-tags", "three kinds, three tags", func() { checkKindTagsDistinct(p, r, "C06.R1") })
	r.GuardExact("C06.R1", "engine/package-graph", "the engine hashes over the package graph", func() { checkEngineHashesOverPackageGraph(p, r, "C06.R1") })
	r.Guard("C06.R1", "input-order", "the order of the inputs is part of the identity", func() {
		// "ordered inputs": for each input, in slice order, the hash receives something that tells WHICH module a map or
		// store input refers to (its identifier), not only its kind; otherwise two inputs of the same kind can be swapped
		// — the entrypoint then receives its arguments in the other order — without the identifier changing.
		// the per-input helpers are found by role: the functions of the package that take a *Module_Input and whose results
		// hashModule writes (inputName / inputValue today)
		hmFn := p.Func(pkgMani, "ModuleHashes.hashModule")
		called := map[*types.Func]bool{}
		for _, m := range core.Family(hmFn, 1) {
			core.Instrs(m, func(in ssa.Instruction) {
				if cl := core.CalleeOf(in); cl != nil {
					called[cl] = true
				}
			})
		}
		ivs := c06InputHelpers(p, called)
		if len(ivs) == 0 {
			core.Undecide("hashModule: no helper taking a *Module_Input found")
		}
		iv := ivs[0]
		for _, h := range ivs {
			r.Touch(core.FuncName(h))
		}
		for _, kind := range []string{"Module_Input_Map_", "Module_Input_Store_"} {
			found, constant := false, true
			for _, iv := range ivs {
				anyVar, nCase := false, 0
				core.Instrs(iv, func(in ssa.Instruction) {
					ta, ok := in.(*ssa.TypeAssert)
					if !ok || !ta.CommaOk || typeName(ta.AssertedType) != "*"+kind {
						return
					}
					found = true
					nCase++
					// the return reached on the success edge of this assertion: one of its string results is not a constant
					for _, ref := range *ta.Referrers() {
						ex, ok := ref.(*ssa.Extract)
						if !ok || ex.Index != 1 {
							continue
						}
						for _, rr := range *ex.Referrers() {
							ifi, ok := rr.(*ssa.If)
							if !ok {
								continue
							}
							b := ifi.Block().Succs[0]
							if rt, ok := b.Instrs[len(b.Instrs)-1].(*ssa.Return); ok {
								for _, rv := range core.ReturnValues(rt) {
									if bt, isB := rv.Type().Underlying().(*types.Basic); !isB || bt.Kind() != types.String {
										continue
									}
									if _, isK := rv.(*ssa.Const); !isK {
										anyVar = true
									}
								}
							}
						}
					}
				})
				if nCase > 0 && anyVar {
					constant = false
				}
			}
			if !found {
				core.Undecide("inputValue: no case for %s", kind)
			}
			r.Check(!constant, "C06.R1", "hashModule/input-order/"+kind, "the value hashed for a "+strings.TrimSuffix(strings.TrimPrefix(kind, "Module_Input_"), "_")+" input identifies the module it refers to (e.g. that module's identifier), so that swapping two inputs of the same kind changes the identifier", "a constant is hashed for every input of this kind: out(a, b) and out(b, a) get the same identifier", p.Pos(iv.Pos()))
		}
	})
	r.Guard("C06.R3", "reindex/offsets", "index fields follow their lists", func() {
		fn := p.Func(pkgMani, "reindexAndMergePackage")
		dest := fn.Params[1]
		for _, w := range []struct{ idx, list string }{{"BinaryIndex", "Binaries"}, {"PackageIndex", "PackageMeta"}} {
			n, ok := 0, true
			core.InstrsDeep(fn, func(in ssa.Instruction) { // (the shifting loops may sit in a helper that is handed the two offsets)
				st, isSt := in.(*ssa.Store)
				if !isSt {
					return
				}
				fa, isFa := st.Addr.(*ssa.FieldAddr)
				if !isFa || core.FieldOfAddr(fa).Name() != w.idx {
					return
				}
				n++
				// value = old + len(dest.<list>)
				bo, isBo := core.SkipConv(st.Val).(*ssa.BinOp)
				if !isBo || bo.Op != token.ADD {
					ok = false
					return
				}
				good := false
				for _, op := range []ssa.Value{bo.X, bo.Y} {
					c, isC := core.SkipConv(core.CallerValue(fn, core.SkipConv(op))).(*ssa.Call)
					if !isC {
						continue
					}
					if b, isB := c.Call.Value.(*ssa.Builtin); isB && b.Name() == "len" {
						f, base := core.LoadedField(c.Call.Args[0])
						if f != nil && f.Name() == w.list && derivesFromParam(base, dest) {
							good = true
						}
					}
				}
				if !good {
					ok = false
				}
			})
			r.Check(n > 0 && ok, "C06.R3", "reindexAndMergePackage/"+w.idx, "on import, "+w.idx+" is shifted by the number of entries already in the importing package's "+w.list+" list — the list the imported entries are appended to — so every imported module keeps designating its own binary / package", "the shift is not len(dest."+w.list+")", p.Pos(fn.Pos()))
		}
	})
	r.MinInstances("C06.R1", 18)
}

func fieldKey(f *types.Var) string {
	return ownerOf(f) + "." + f.Name()
}

// ownerOf finds the named struct declaring the field (by scanning its package).
func ownerOf(f *types.Var) string {
	if f.Pkg() == nil {
		return "?"
	}
	sc := f.Pkg().Scope()
	for _, n := range sc.Names() {
		tn, ok := sc.Lookup(n).(*types.TypeName)
		if !ok {
			continue
		}
		st, ok := tn.Type().Underlying().(*types.Struct)
		if !ok {
			continue
		}
		for i := 0; i < st.NumFields(); i++ {
			if st.Field(i) == f {
				return n
			}
		}
	}
	return "?"
}

func keysOf(m map[string]bool) []string {
	var out []string
	for k := range m {
		out = append(out, k)
	}
	sort.Strings(out)
	return out
}

// isAppendOnly: every store to the field in fn assigns append(load of the same field, ...).
func isAppendOnly(fn *ssa.Function, f *types.Var) bool {
	ok := true
	n := 0
	core.Instrs(fn, func(in ssa.Instruction) {
		st, isSt := in.(*ssa.Store)
		if !isSt {
			return
		}
		fa, isFA := st.Addr.(*ssa.FieldAddr)
		if !isFA || core.FieldOfAddr(fa) != f {
			return
		}
		n++
		c, isC := st.Val.(*ssa.Call)
		if !isC {
			ok = false
			return
		}
		b, isB := c.Call.Value.(*ssa.Builtin)
		if !isB || b.Name() != "append" {
			ok = false
			return
		}
		if lf, _ := core.LoadedField(c.Call.Args[0]); lf != f {
			ok = false
		}
	})
	return ok && n > 0
}

// checkCachePaths (C06.R5 / C01.R2): every SubStore call of the storage
// packages takes "<hash>/<kind>" where <hash> is the constructor's moduleHash
// parameter, and every server-side caller passes ModuleHashes.Get(module name).
func checkCachePaths(p *core.Prog, r *core.Report, rule string) {
	get := p.FuncObj(pkgMani, "ModuleHashes.Get")
	type ctor struct {
		rel, fn string
		kinds   []string
	}
	ctors := []ctor{
		{pkgStore, "NewConfig", []string{"states", "outputs"}},
		{pkgExecout, "NewConfig", []string{"outputs", "index"}},
		{pkgIndex, "NewConfig", []string{"index"}},
		{pkgIndex, "NewFile", []string{"index"}},
	}
	for _, c := range ctors {
		fn := p.Func(c.rel, c.fn)
		r.Touch(core.FuncName(fn))
		var hashPrm *ssa.Parameter
		for _, prm := range fn.Params {
			if prm.Name() == "moduleHash" {
				hashPrm = prm
			}
		}
		if hashPrm == nil {
			core.Undecide("%s.%s: no moduleHash parameter", c.rel, c.fn)
		}
		// SubStore argument: Sprintf("%s/<kind>", moduleHash)
		n := 0
		okAll := true
		var kinds []string
		// derives from the constructor's moduleHash parameter, directly or as the argument of the helper that opens the folder
		fromHash := func(v ssa.Value) bool {
			if core.Trace(v, 0).Params[hashPrm] {
				return true
			}
			cvs := core.CallerValues(fn, v)
			if len(cvs) == 0 {
				return false
			}
			for _, cv := range cvs {
				if !core.Trace(cv, 0).Params[hashPrm] {
					return false
				}
			}
			return true
		}
		core.InstrsDeep(fn, func(in ssa.Instruction) {
			call, ok := in.(*ssa.Call)
			if !ok || !call.Call.IsInvoke() || call.Call.Method.Name() != "SubStore" {
				return
			}
			n++
			// collect Sprintf calls feeding the argument (possibly through a phi)
			var sprintfs []*ssa.Call
			var collect func(v ssa.Value, d int)
			collect = func(v ssa.Value, d int) {
				if d > 3 {
					return
				}
				switch x := v.(type) {
				case *ssa.Phi:
					for _, e := range x.Edges {
						collect(e, d+1)
					}
				case *ssa.Call:
					if cl := core.CommonCallee(x.Common()); cl != nil && calleeKey(cl) == "fmt.Sprintf" {
						sprintfs = append(sprintfs, x)
					}
				}
			}
			collect(call.Call.Args[0], 0)
			if len(sprintfs) == 0 {
				okAll = false
			}
			for _, sp := range sprintfs {
				format, ok := constString(sp.Call.Args[0])
				if !ok || !strings.HasPrefix(format, "%s/") {
					okAll = false
					continue
				}
				if format == "%s/%s" {
					// "<hash>/<folder>" with the folder chosen among constants
					va := errorfArgs(sp)
					if len(va) != 2 || va[0] == nil || va[1] == nil || !fromHash(va[0]) {
						okAll = false
						continue
					}
					var leaves func(v ssa.Value, d int)
					leaves = func(v ssa.Value, d int) {
						switch x := v.(type) {
						case *ssa.Phi:
							if d < 4 {
								for _, e := range x.Edges {
									leaves(e, d+1)
								}
							}
						case *ssa.Const:
							if cs, ok := constString(x); ok {
								kinds = append(kinds, cs)
							} else {
								okAll = false
							}
						case *ssa.Parameter:
							// the folder is a parameter of the helper: the constants passed at its call sites
							cvs := core.CallerValues(fn, x)
							if len(cvs) == 0 || d >= 4 {
								okAll = false
							}
							for _, cv := range cvs {
								leaves(cv, d+1)
							}
						default:
							okAll = false
						}
					}
					leaves(va[1], 0)
					continue
				}
				kinds = append(kinds, strings.TrimPrefix(format, "%s/"))
				if !fromHash(sp.Call.Args[1]) {
					okAll = false
				}
			}
		})
		sort.Strings(kinds)
		want := append([]string(nil), c.kinds...)
		sort.Strings(want)
		r.Check(n > 0 && okAll && strings.Join(kinds, ",") == strings.Join(want, ","), rule, c.rel+"."+c.fn+"/substore",
			fmt.Sprintf("%s.%s opens the sub-store \"<moduleHash>/%s\" built from its moduleHash parameter", c.rel, c.fn, strings.Join(c.kinds, "|")), fmt.Sprintf("sub-store formats %v, derived from moduleHash: %v", kinds, okAll), p.Pos(fn.Pos()))
		// callers: the moduleHash argument is ModuleHashes.Get(<something>.Name)
		idx := -1
		for i, prm := range fn.Params {
			if prm == hashPrm {
				idx = i
			}
		}
		for _, caller := range p.RepoFunctions() {
			if caller.Pkg == nil {
				continue
			}
			pk := caller.Pkg.Pkg.Path()
			if strings.HasSuffix(pk, "/tools") || strings.Contains(pk, "/wasm/bench") || strings.HasSuffix(pk, "/cmd/substreams") {
				continue // CLI / bench callers pass literals: out of scope
			}
			core.Instrs(caller, func(in ssa.Instruction) {
				call, ok := in.(ssa.CallInstruction)
				if !ok || core.StaticFn(call.Common()) != fn {
					return
				}
				r.CallSites++
				arg := call.Common().Args[idx]
				src := core.Trace(arg, 1)
				ok = src.HasCall(get)
				if !ok {
					// forwarding the caller's own moduleHash parameter is fine (checked at its callers)
					for q := range src.Params {
						if q.Name() == "moduleHash" {
							ok = true
						}
					}
				}
				// and the name given to Get is a module's Name
				if ok && src.HasCall(get) && !hasFieldNamed(src, "Name") {
					ok = false
				}
				r.Check(ok, rule, core.FuncName(caller)+"→"+c.rel+"."+c.fn, "the cache location is keyed by ModuleHashes.Get(module.Name) — the real module hash, never the module name", "moduleHash argument does not derive from ModuleHashes.Get(…Name)", p.Pos(call.Pos()))
			})
		}
	}
}

func mt0(p *core.Prog) *types.Named { return p.Named(pkgPBV1, "Module") }

// c06Carriers: functions allowed between a hashed field and the hashed buffer (each is injective on what it carries).
var c06Carriers = []string{
	"bytes.NewBuffer", "crypto/sha1.New", "hash.Hash.Sum", // the buffer and the digest themselves
	"manifest.ModuleGraph.AncestorsOf", "manifest.ModuleGraph.Module", // resolvers: name → module (key-use)
	"manifest.ModuleHashes.HashModule", "manifest.ModuleHashes.hashModule", "manifest.ModuleHashes.hashModuleSimple", // recursive hash
	"manifest.inputName", "manifest.inputValue", // per-input kind tag and raw value
	"pb/sf/substreams/v1.Module.BlockFilterQueryString", // the filter's query (literal, or the raw params value it names)
}

// callersInPkg: the functions of the package rel that call obj statically (test helpers excluded).
func callersInPkg(p *core.Prog, rel string, obj *types.Func) []*ssa.Function {
	var out []*ssa.Function
	for _, fn := range p.RepoFunctions() {
		if fn.Pkg == nil || !strings.HasSuffix(fn.Pkg.Pkg.Path(), "/"+rel) || p.IsTestFunc(fn) {
			continue
		}
		if len(core.FindInstrsIn(fn, core.IsCallTo(obj))) > 0 {
			out = append(out, fn)
		}
	}
	sort.Slice(out, func(i, j int) bool { return out[i].String() < out[j].String() })
	return out
}

// c06InputHelpers: among the given callees, the functions of package manifest that take a *Module_Input (the helpers
// that turn one input into what is hashed for it).
func c06InputHelpers(p *core.Prog, callees map[*types.Func]bool) []*ssa.Function {
	var out []*ssa.Function
	for cc := range callees {
		if cc.Pkg() == nil || !strings.HasSuffix(cc.Pkg().Path(), "/"+pkgMani) {
			continue
		}
		sig := cc.Type().(*types.Signature)
		takes := false
		for i := 0; i < sig.Params().Len(); i++ {
			if pt, ok := sig.Params().At(i).Type().(*types.Pointer); ok {
				if n, ok := pt.Elem().(*types.Named); ok && n.Obj().Name() == "Module_Input" {
					takes = true
				}
			}
		}
		if !takes {
			continue
		}
		if fn := p.SSA.FuncValue(cc); fn != nil && fn.Blocks != nil {
			out = append(out, fn)
		}
	}
	sort.Slice(out, func(i, j int) bool { return out[i].String() < out[j].String() })
	return out
}

// c06TransparentCarrier: cc is an unexported function of package manifest that cannot map two different inputs to the
// same bytes by itself: it calls nothing but getters, the frozen carriers, error constructors and (to the given depth)
// other such helpers; it does no string arithmetic (no concatenation, no slicing); and the string constants it returns
// are pairwise distinct.  Its SSA function is returned, nil otherwise.
func c06TransparentCarrier(p *core.Prog, cc *types.Func, depth int) *ssa.Function {
	if cc.Pkg() == nil || !strings.HasSuffix(cc.Pkg().Path(), "/"+pkgMani) || cc.Exported() {
		return nil
	}
	for _, n := range c06Carriers {
		if core.ObjName(cc) == n {
			return nil // already a carrier
		}
	}
	fn := p.SSA.FuncValue(cc)
	if fn == nil || fn.Blocks == nil {
		return nil
	}
	carriers := map[string]bool{}
	for _, n := range c06Carriers {
		carriers[n] = true
	}
	ok := true
	consts := map[string]int{}
	core.Instrs(fn, func(in ssa.Instruction) {
		switch x := in.(type) {
		case ssa.CallInstruction:
			cl := core.CalleeOf(in)
			if cl == nil {
				if _, isB := x.Common().Value.(*ssa.Builtin); !isB {
					ok = false
				}
				return
			}
			n := core.ObjName(cl)
			switch {
			case carriers[n], strings.Contains(n, ".Get"), n == "fmt.Errorf", n == "errors.New", strings.HasPrefix(n, "sync."):
			case depth > 0 && c06TransparentCarrier(p, cl, depth-1) != nil:
			default:
				ok = false
			}
		case *ssa.BinOp:
			if bt, isB := x.Type().Underlying().(*types.Basic); isB && bt.Kind() == types.String && x.Op == token.ADD {
				ok = false
			}
		case *ssa.Slice:
			if bt, isB := x.X.Type().Underlying().(*types.Basic); isB && bt.Kind() == types.String {
				ok = false // a substring
			}
		case *ssa.Return:
			for _, rv := range core.ReturnValues(x) {
				if k, isK := rv.(*ssa.Const); isK && k.Value != nil && k.Value.Kind() == constant.String && constant.StringVal(k.Value) != "" {
					consts[constant.StringVal(k.Value)]++
				}
			}
		}
	})
	if !ok {
		return nil
	}
	return fn
}
