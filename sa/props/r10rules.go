package props

import (
	"fmt"
	"go/constant"
	"go/token"
	"go/types"
	"sort"
	"strings"

	"golang.org/x/tools/go/ssa"

	"verif/sa/core"
)

// Rules added after mutation round 10 (boundaries, comparisons, widths).

// checkVarintTerminator (C18.R1): in the hand-written decoders a varint ends at the first byte below 0x80: the edge
// that leaves a varint loop on the comparison of the byte with 0x80 carries exactly `b < 0x80` (with `<=` a length byte
// equal to 0x80 ends the varint one byte early: lengths that are multiples of 128 are truncated).
func checkVarintTerminator(p *core.Prog, r *core.Report, rule string) {
	n := 0
	for _, a := range []struct{ rel, fn string }{
		{pkgMarsh, "unmarshalVT"}, {pkgPBOut, "Array.UnmarshalVTNoAlloc"}, {pkgPBOut, "Item.UnmarshalVTNoAlloc"},
	} {
		fn := p.Func(a.rel, a.fn)
		r.Touch(core.FuncName(fn))
		var bad []string
		m := 0
		for _, member := range core.Family(fn, 1) {
			for _, l := range core.Loops(member) {
				for b := range l.Body {
					ifi, ok := b.Instrs[len(b.Instrs)-1].(*ssa.If)
					if !ok {
						continue
					}
					is80 := func(v ssa.Value) bool {
						k, isK := core.SkipConv(v).(*ssa.Const)
						if !isK || k.Value == nil || k.Value.Kind() != constant.Int {
							return false
						}
						x, exact := constant.Int64Val(k.Value)
						return exact && x == 0x80
					}
					isByte := func(v ssa.Value) bool {
						if is80(v) {
							return false
						}
						bt, isB := v.Type().Underlying().(*types.Basic)
						return isB && (bt.Kind() == types.Uint8 || bt.Kind() == types.Byte)
					}
					onTrue, onFalse, okRel := core.CondRelation(ifi.Cond, isByte, is80)
					if !okRel {
						continue
					}
					// only the innermost loop of the test
					inner := true
					for _, l2 := range core.Loops(member) {
						if l2 != l && l2.Body[b] && len(l2.Body) < len(l.Body) {
							inner = false
						}
					}
					if !inner {
						continue
					}
					m++
					for i, s := range b.Succs {
						rel := onTrue
						if i == 1 {
							rel = onFalse
						}
						if !l.Body[s] && rel != core.OrdLT {
							bad = append(bad, p.Pos(core.InstrPos(ifi)))
						}
						if l.Body[s] && rel == core.OrdLT {
							bad = append(bad, p.Pos(core.InstrPos(ifi)))
						}
					}
				}
			}
		}
		n += m
		sort.Strings(bad)
		r.Check(m > 0 && len(bad) == 0, rule, a.fn+"/varint-terminator", "a varint of the decoder ends exactly at the first byte below 0x80 (the loop is left on `b < 0x80`, and only then)", fmt.Sprintf("%d terminator tests; not `< 0x80` on the exit edge: %v", m, bad), p.Pos(fn.Pos()))
	}
	if n < 8 {
		core.Undecide("varint terminators: only %d tests recognised", n)
	}
}

// checkSegmentIndexBounds (C05.R4 / C13.R1): a segment index is bounded by LastIndex(), never by Count(): Count is a
// number of segments, and the first index of a segmenter is not 0 when its initial block lies beyond the first
// interval.  No comparison in the scheduler, the planner or package block has a Segmenter.Count() result on one side.
func checkSegmentIndexBounds(p *core.Prog, r *core.Report, rule string) {
	count := p.FuncObj(pkgBlock, "Segmenter.Count")
	n := 0
	var bad []string
	for _, fn := range p.RepoFunctions() {
		root := core.RootFn(fn)
		if root.Pkg == nil || p.IsTestFunc(root) {
			continue
		}
		pp := strings.TrimPrefix(root.Pkg.Pkg.Path(), core.ModPath+"/")
		if !(strings.HasPrefix(pp, "orchestrator") || pp == "block" || pp == "pipeline" || pp == "service") {
			continue
		}
		n++
		core.Instrs(fn, func(in ssa.Instruction) {
			bo, ok := in.(*ssa.BinOp)
			if !ok {
				return
			}
			switch bo.Op {
			case token.LSS, token.LEQ, token.GTR, token.GEQ, token.EQL, token.NEQ:
			default:
				return
			}
			for _, side := range []ssa.Value{bo.X, bo.Y} {
				if c, isCall := core.ResolveCell(core.SkipConv(side)).(*ssa.Call); isCall && core.CommonCallee(c.Common()) == count {
					bad = append(bad, core.FuncName(fn)+" at "+p.Pos(bo.Pos()))
				}
			}
		})
	}
	if n < 300 {
		core.Undecide("segment index bounds: only %d functions", n)
	}
	sort.Strings(bad)
	r.Check(len(bad) == 0, rule, "segment-index/not-compared-with-count", "no comparison has Segmenter.Count() on one side: segment indexes run from FirstIndex() to LastIndex(), Count() is not an index bound", strings.Join(bad, "; "), "")
}

// checkParseWidth (C02.R1): every numeric value of a store is parsed at 64 bits, in the sequential handlers and in the
// merge alike (a narrower parse in one of them fails on large values, and the merge helpers turn a failed parse into 0).
func checkParseWidth(p *core.Prog, r *core.Report, rule string) {
	n := 0
	var bad []string
	for _, fn := range p.RepoFunctions() {
		root := core.RootFn(fn)
		if root.Pkg == nil || p.IsTestFunc(root) {
			continue
		}
		pp := strings.TrimPrefix(root.Pkg.Pkg.Path(), core.ModPath+"/")
		if pp != pkgStore && pp != pkgWasm {
			continue
		}
		core.Instrs(fn, func(in ssa.Instruction) {
			c, ok := in.(*ssa.Call)
			if !ok {
				return
			}
			cl := core.CommonCallee(c.Common())
			if cl == nil || cl.Pkg() == nil || cl.Pkg().Path() != "strconv" {
				return
			}
			var bits ssa.Value
			switch cl.Name() {
			case "ParseInt", "ParseUint":
				bits = c.Call.Args[2]
			case "ParseFloat":
				bits = c.Call.Args[1]
			default:
				return
			}
			n++
			k, isK := bits.(*ssa.Const)
			if !isK || k.Value == nil || k.Int64() != 64 {
				bad = append(bad, core.FuncName(fn)+" at "+p.Pos(c.Pos()))
			}
		})
	}
	if n < 10 {
		core.Undecide("parse width: only %d strconv.Parse* calls in the store and wasm packages", n)
	}
	sort.Strings(bad)
	r.Check(len(bad) == 0, rule, "store-values/parse-width", fmt.Sprintf("every strconv.ParseInt/ParseUint/ParseFloat of a store value asks for 64 bits (%d calls)", n), strings.Join(bad, "; "), "")
}

// checkSkipAllLeaves (C15.R4): every value BlockIndex.Skip can return is `false` or the negation of
// bitmap.Contains(block): no other verdict (a bounds shortcut, a cached flag) decides that a block is skipped.
func checkSkipAllLeaves(p *core.Prog, r *core.Report, rule string) {
	fn := p.Func(pkgIndex, "BlockIndex.Skip")
	r.Touch(core.FuncName(fn))
	var bad []string
	n := 0
	core.Instrs(fn, func(in ssa.Instruction) {
		ret, ok := in.(*ssa.Return)
		if !ok {
			return
		}
		vals := core.ReturnValues(ret)
		if len(vals) != 1 {
			return
		}
		seen := map[ssa.Value]bool{}
		var walk func(v ssa.Value)
		walk = func(v ssa.Value) {
			if seen[v] {
				return
			}
			seen[v] = true
			n++
			switch x := v.(type) {
			case *ssa.Phi:
				for _, e := range x.Edges {
					walk(e)
				}
			case *ssa.Const:
				if x.Value == nil || x.Value.Kind() != constant.Bool || constant.BoolVal(x.Value) {
					bad = append(bad, "the constant "+x.String()+" at "+p.Pos(core.InstrPos(ret)))
				}
			case *ssa.UnOp:
				if x.Op == token.NOT {
					if c, isCall := x.X.(*ssa.Call); isCall {
						if cl := core.CommonCallee(c.Common()); cl != nil && cl.Name() == "Contains" && len(c.Call.Args) == 2 && core.SkipConv(c.Call.Args[1]) == ssa.Value(fn.Params[1]) {
							return
						}
					}
				}
				bad = append(bad, "a value that is not !Contains(block) at "+p.Pos(core.InstrPos(ret)))
			default:
				bad = append(bad, fmt.Sprintf("a %T at %s", v, p.Pos(core.InstrPos(ret))))
			}
		}
		walk(vals[0])
	})
	if n == 0 {
		core.Undecide("BlockIndex.Skip: no return value")
	}
	sort.Strings(bad)
	r.Check(len(bad) == 0, rule, "BlockIndex.Skip/all-leaves", "whatever path Skip takes, its answer is `false` (no bitmap) or !bitmap.Contains(block)", "Skip can also return "+strings.Join(bad, "; "), p.Pos(fn.Pos()))
}

// checkOperationLogOnlyGrows (C09.R1): between two resets the operation log of a block only grows: the Operations
// list of a store's log is written by appending to itself (Operations.Add) and nowhere else in the store package —
// an operation filtered out of the log (because it changed nothing here) is missing when the log is replayed on a
// partial store, whose side state (deleted prefixes) is rebuilt from it.
func checkOperationLogOnlyGrows(p *core.Prog, r *core.Report, rule string) {
	opsT := p.Named(pkgPBInt, "Operations")
	f := core.FieldOf(opsT, "Operations")
	n := 0
	var bad []string
	for _, fn := range p.RepoFunctions() {
		root := core.RootFn(fn)
		if root.Pkg == nil || p.IsTestFunc(root) {
			continue
		}
		pp := strings.TrimPrefix(root.Pkg.Pkg.Path(), core.ModPath+"/")
		if pp != pkgStore && pp != pkgPBInt {
			continue
		}
		if strings.HasSuffix(p.Pos(fn.Pos()), ".pb.go") || strings.Contains(p.Pos(fn.Pos()), ".pb.go:") || strings.Contains(p.Pos(fn.Pos()), "_vtproto.pb.go") {
			continue // generated decoders fill the message they are given
		}
		for _, w := range core.FieldWritesIn(fn, f) {
			n++
			ok := false
			if w.Kind == core.WAssign && w.Value != nil {
				if c, isCall := w.Value.(*ssa.Call); isCall {
					if b, isB := c.Call.Value.(*ssa.Builtin); isB && b.Name() == "append" {
						if fld, _ := core.LoadedField(c.Call.Args[0]); fld != nil && (fld == f || fld.Origin() == f) {
							ok = true
						}
					}
				}
			}
			if !ok {
				bad = append(bad, fmt.Sprintf("%s (%s) at %s", core.FuncName(fn), w.Kind, p.Pos(core.InstrPos(w.Instr))))
			}
		}
	}
	if n < 1 {
		core.Undecide("operation log: no write of Operations.Operations found")
	}
	sort.Strings(bad)
	r.Check(len(bad) == 0, rule, "operation-log/only-grows", "the Operations list of a block's log is only ever appended to (Operations.Add); nothing in the store package replaces, filters or truncates it", strings.Join(bad, "; "), "")
}

// checkPlanRangesStrictlyGuarded (C12.R3): the plan gets cached-output ranges only when something lies between the
// start and the hand-off (`start < handoff`, strictly), and a store range only when the hand-off lies beyond the lowest
// store initial block: the comparison that dominates each assignment carries exactly `<` on the edge taken.
func checkPlanRangesStrictlyGuarded(p *core.Prog, r *core.Report, rule string) {
	fn := p.Func(pkgPlan, "BuildTier1RequestPlan")
	r.Touch(core.FuncName(fn))
	planT := p.Named(pkgPlan, "RequestPlan")
	param := func(name string) func(ssa.Value) bool {
		return func(v ssa.Value) bool {
			prm, ok := core.SkipConv(v).(*ssa.Parameter)
			return ok && prm.Name() == name
		}
	}
	for _, g := range []struct{ field, lo, hi string }{
		{"WriteExecOut", "resolvedStartBlock", "linearHandoffBlock"},
		{"ReadExecOut", "resolvedStartBlock", "linearHandoffBlock"},
		{"BuildStores", "lowestStoreInitialBlock", "linearHandoffBlock"},
	} {
		f := core.FieldOf(planT, g.field)
		ws := core.FieldWritesIn(fn, f)
		if len(ws) == 0 {
			core.Undecide("BuildTier1RequestPlan: no assignment of %s", g.field)
		}
		for _, w := range ws {
			if w.Kind != core.WAssign {
				continue
			}
			if k, isK := w.Value.(*ssa.Const); isK && k.IsNil() {
				continue
			}
			rel, found := 0, false
			b := w.Instr.Block()
			for _, blk := range fn.Blocks {
				ifi, ok := blk.Instrs[len(blk.Instrs)-1].(*ssa.If)
				if !ok {
					continue
				}
				onTrue, onFalse, okRel := core.CondRelation(ifi.Cond, param(g.lo), param(g.hi))
				if !okRel {
					continue
				}
				switch {
				case blk.Succs[0] != blk.Succs[1] && len(blk.Succs[0].Preds) == 1 && blk.Succs[0].Dominates(b):
					rel, found = onTrue, true
				case blk.Succs[0] != blk.Succs[1] && len(blk.Succs[1].Preds) == 1 && blk.Succs[1].Dominates(b):
					rel, found = onFalse, true
				}
			}
			if !found {
				core.Undecide("BuildTier1RequestPlan: no comparison of %s with %s dominates the assignment of %s", g.lo, g.hi, g.field)
			}
			r.Check(rel == core.OrdLT, rule, "BuildTier1RequestPlan/"+g.field+"/strict-guard", "the range is planned only when "+g.lo+" < "+g.hi+" strictly (no empty range, no back-fill when the start is the hand-off)", "the dominating comparison lets equality (or more) through", p.Pos(core.InstrPos(w.Instr)))
		}
	}
}

// checkWalkerCompletion (C04.R1): the walk of the cached outputs is completed exactly when the file walker is done:
// every value Walker.IsCompleted can return is the answer of FileWalker.IsDone() (no shortcut flag ends the back-filled
// part of the stream before the last file was sent: the stream would jump to the hand-off over a gap).
func checkWalkerCompletion(p *core.Prog, r *core.Report, rule string) {
	fn := p.Func(pkgOExec, "Walker.IsCompleted")
	r.Touch(core.FuncName(fn))
	var bad []string
	n := 0
	core.Instrs(fn, func(in ssa.Instruction) {
		ret, ok := in.(*ssa.Return)
		if !ok {
			return
		}
		vals := core.ReturnValues(ret)
		if len(vals) != 1 {
			return
		}
		seen := map[ssa.Value]bool{}
		var walk func(v ssa.Value)
		walk = func(v ssa.Value) {
			if seen[v] {
				return
			}
			seen[v] = true
			n++
			switch x := v.(type) {
			case *ssa.Phi:
				for _, e := range x.Edges {
					walk(e)
				}
			case *ssa.Call:
				if cl := core.CommonCallee(x.Common()); cl != nil && cl.Name() == "IsDone" {
					return
				}
				bad = append(bad, "the result of another call")
			case *ssa.Const:
				bad = append(bad, "the constant "+x.String())
			default:
				bad = append(bad, fmt.Sprintf("a %T", v))
			}
		}
		walk(vals[0])
	})
	if n == 0 {
		core.Undecide("Walker.IsCompleted: no return value")
	}
	sort.Strings(bad)
	r.Check(len(bad) == 0, rule, "Walker.IsCompleted/all-leaves", "the cached-output walk reports completion only with the file walker's own IsDone()", "IsCompleted can also return "+strings.Join(bad, ", "), p.Pos(fn.Pos()))
}
