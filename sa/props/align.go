package props

import (
	"fmt"
	"go/token"
	"go/types"

	"golang.org/x/tools/go/ssa"

	"verif/sa/core"
)

// sameExpr: structural equality of two SSA values (go/ssa performs no CSE, so
// `a+b` written twice yields two instructions).
func sameExpr(a, b ssa.Value, depth int) bool { return sameExprSubst(a, b, depth, nil) }

// sameExprSubst is sameExpr with the values of a first replaced through subst (a helper's
// parameters standing for the arguments of the call that reaches it).
func sameExprSubst(a, b ssa.Value, depth int, subst map[ssa.Value]ssa.Value) bool {
	a, b = core.SkipConv(a), core.SkipConv(b)
	if t, ok := subst[a]; ok {
		a = core.SkipConv(t)
	}
	if a == b {
		return true
	}
	if depth == 0 {
		return false
	}
	switch x := a.(type) {
	case *ssa.Const:
		y, ok := b.(*ssa.Const)
		return ok && x.Value != nil && y.Value != nil && x.Value.ExactString() == y.Value.ExactString()
	case *ssa.BinOp:
		y, ok := b.(*ssa.BinOp)
		if !ok || x.Op != y.Op {
			return false
		}
		if sameExprSubst(x.X, y.X, depth-1, subst) && sameExprSubst(x.Y, y.Y, depth-1, subst) {
			return true
		}
		if x.Op == token.ADD || x.Op == token.MUL {
			return sameExprSubst(x.X, y.Y, depth-1, subst) && sameExprSubst(x.Y, y.X, depth-1, subst)
		}
	case *ssa.UnOp:
		y, ok := b.(*ssa.UnOp)
		if !ok || x.Op != y.Op {
			return false
		}
		if x.Op == token.MUL {
			fa, ok1 := x.X.(*ssa.FieldAddr)
			fb, ok2 := y.X.(*ssa.FieldAddr)
			if ok1 && ok2 {
				return fa.Field == fb.Field && sameExprSubst(fa.X, fb.X, depth-1, subst)
			}
			return false
		}
		return sameExprSubst(x.X, y.X, depth-1, subst)
	case *ssa.Field:
		y, ok := b.(*ssa.Field)
		return ok && x.Field == y.Field && sameExprSubst(x.X, y.X, depth-1, subst)
	case *ssa.Call:
		// pure accessor calls with identical callee and arguments (e.g. r.Num())
		y, ok := b.(*ssa.Call)
		if !ok || core.CommonCallee(x.Common()) == nil || core.CommonCallee(x.Common()) != core.CommonCallee(y.Common()) || len(x.Call.Args) != len(y.Call.Args) {
			return false
		}
		for i := range x.Call.Args {
			if !sameExprSubst(x.Call.Args[i], y.Call.Args[i], depth-1, subst) {
				return false
			}
		}
		return x.Call.IsInvoke() == y.Call.IsInvoke() && (!x.Call.IsInvoke() || sameExprSubst(x.Call.Value, y.Call.Value, depth-1, subst))
	}
	return false
}

// checkAlignIdiom (engine E18): every remainder `x % k` over unsigned integers
// with a non-constant-one divisor is only (i) compared with zero or (ii)
// subtracted from its own dividend (floor to a multiple of k).  A remainder of
// y subtracted from a different x, or added, cannot produce a multiple of k.
func checkAlignIdiom(p *core.Prog, r *core.Report, rule string, fns []*ssa.Function) int {
	n := 0
	for _, fn := range fns {
		count := 0
		core.Instrs(fn, func(in ssa.Instruction) {
			rem, ok := in.(*ssa.BinOp)
			if !ok || rem.Op != token.REM {
				return
			}
			bt, ok := rem.Type().Underlying().(*types.Basic)
			if !ok || bt.Info()&types.IsInteger == 0 {
				return
			}
			count++
			n++
			r.Touch(core.FuncName(fn))
			construct := fmt.Sprintf("%s/rem#%d", core.FuncName(fn), count)
			bad := ""
			uses := 0
			var visit func(v ssa.Value, depth int)
			visit = func(v ssa.Value, depth int) {
				for _, ref := range *v.Referrers() {
					switch u := ref.(type) {
					case *ssa.DebugRef:
					case *ssa.Convert:
						visit(u, depth+1)
					case *ssa.Phi:
						// `if rem := x%k; rem != 0 { … - rem … }` keeps the value itself; a phi merging remainders is not an idiom
						bad = "remainder merged through a phi"
					case *ssa.BinOp:
						uses++
						switch u.Op {
						case token.EQL, token.NEQ, token.GTR, token.LSS, token.GEQ, token.LEQ:
							other := u.X
							if core.SkipConv(u.X) == v || u.X == v {
								other = u.Y
							}
							if !isZeroConst(other) {
								bad = "remainder compared with something other than zero at " + p.Pos(u.Pos())
							}
						case token.SUB:
							if u.Y != v {
								bad = "dividend subtracted from its remainder at " + p.Pos(u.Pos())
							} else if !sameExpr(u.X, rem.X, 4) {
								bad = "remainder of one value subtracted from a different value at " + p.Pos(u.Pos())
							}
						default:
							bad = fmt.Sprintf("remainder used in a %s expression at %s", u.Op, p.Pos(u.Pos()))
						}
					default:
						uses++
						bad = fmt.Sprintf("remainder escapes into %T at %s", ref, p.Pos(core.InstrPos(ref)))
					}
				}
			}
			visit(rem, 0)
			if uses == 0 && bad == "" {
				bad = "remainder unused"
			}
			r.Check(bad == "", rule, construct, "a remainder by a segment/bundle size is only compared with zero or subtracted from its own dividend (well-formed boundary rounding)", bad, p.Pos(rem.Pos()))
		})
	}
	return n
}
