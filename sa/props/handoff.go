package props

import (
	"fmt"
	"go/token"

	"golang.org/x/tools/go/ssa"

	"verif/sa/core"
)

// checkHandoffValues (C12.R5): "the hand-off is a segment boundary whenever something must be back-filled up to it".
// Every value computeLinearHandoffBlockNum can return with a nil error is
//   - a boundary expression: x − x%segmentSize (floor), or the ceiling form (x when x%seg == 0, else x − x%seg + seg);
//   - or the start block itself, only on paths where no store needs history (nothing is back-filled);
//   - or the initial block of the lowest store needing history, only where it lies above the start block's floor
//     (the stores are then built from their first block: nothing precedes the hand-off).
func checkHandoffValues(p *core.Prog, r *core.Report) {
	fn := p.Func(pkgPipe, "computeLinearHandoffBlockNum")
	r.Touch(core.FuncName(fn))
	var startP, segP, reqP *ssa.Parameter
	for _, prm := range fn.Params {
		switch prm.Name() {
		case "startBlock":
			startP = prm
		case "segmentSize":
			segP = prm
		case "stateRequiredAt":
			reqP = prm
		}
	}
	if startP == nil || segP == nil || reqP == nil {
		core.Undecide("computeLinearHandoffBlockNum: parameters startBlock/segmentSize/stateRequiredAt not found")
	}
	isRem := func(v, of ssa.Value) bool {
		bo, ok := v.(*ssa.BinOp)
		return ok && bo.Op == token.REM && bo.Y == ssa.Value(segP) && (of == nil || sameExpr(bo.X, of, 3))
	}
	isFloor := func(v ssa.Value) (ssa.Value, bool) {
		bo, ok := v.(*ssa.BinOp)
		if !ok || bo.Op != token.SUB || !isRem(bo.Y, bo.X) {
			return nil, false
		}
		return bo.X, true
	}
	isCeilOf := func(v, x ssa.Value) bool {
		// (x − x%seg) + seg
		bo, ok := v.(*ssa.BinOp)
		if !ok || bo.Op != token.ADD || bo.Y != ssa.Value(segP) {
			return false
		}
		base, ok := isFloor(bo.X)
		return ok && sameExpr(base, x, 3)
	}
	isReqLoad := func(v ssa.Value) bool {
		u, ok := v.(*ssa.UnOp)
		return ok && u.Op == token.MUL && u.X == ssa.Value(reqP)
	}
	// edges on which "state is required" is false
	var noStateEdges []core.Edge
	// stateRequired := stateRequiredAt != nil && *stateRequiredAt <= startBlock : a bool phi
	var stateReq ssa.Value
	core.Instrs(fn, func(in ssa.Instruction) {
		ph, ok := in.(*ssa.Phi)
		if !ok || stateReq != nil {
			return
		}
		for _, e := range ph.Edges {
			if onT, _, ok := core.CondRelation(e, isReqLoad, func(v ssa.Value) bool { return v == ssa.Value(startP) }); ok && onT == core.OrdLT|core.OrdEQ {
				stateReq = ph
			}
		}
	})
	if stateReq == nil {
		core.Undecide("computeLinearHandoffBlockNum: the `state required` condition (stateRequiredAt != nil && *stateRequiredAt <= startBlock) was not found")
	}
	core.InstrsDeep(fn, func(in ssa.Instruction) {
		ifi, ok := in.(*ssa.If)
		if !ok {
			return
		}
		c, neg := core.StripNot(ifi.Cond)
		if c != stateReq {
			return
		}
		idx := 1
		if neg {
			idx = 0
		}
		noStateEdges = append(noStateEdges, core.Edge{From: ifi.Block(), Idx: idx})
	})
	// edges on which *stateRequiredAt > floor(startBlock)
	var aboveFloorEdges []core.Edge
	core.InstrsDeep(fn, func(in ssa.Instruction) {
		ifi, ok := in.(*ssa.If)
		if !ok {
			return
		}
		onT, onF, ok := core.CondRelation(ifi.Cond, isReqLoad, func(v ssa.Value) bool {
			base, ok := isFloor(v)
			return ok && base == ssa.Value(startP)
		})
		if !ok {
			return
		}
		// strictly above, or at the floor itself (then the value is a boundary anyway)
		if onT == core.OrdGT || onT == core.OrdGT|core.OrdEQ {
			aboveFloorEdges = append(aboveFloorEdges, core.Edge{From: ifi.Block(), Idx: 0})
		}
		if onF == core.OrdGT || onF == core.OrdGT|core.OrdEQ {
			aboveFloorEdges = append(aboveFloorEdges, core.Edge{From: ifi.Block(), Idx: 1})
		}
	})
	// a helper of the package that rounds to a boundary: every success return of h yields a floor / ceiling of one of its
	// parameters by the parameter that receives the segment size
	helperBoundary := func(call *ssa.Call) bool {
		h := core.StaticFn(call.Common())
		if h == nil || h.Blocks == nil || h.Pkg != fn.Pkg {
			return false
		}
		var hSeg *ssa.Parameter
		for i, a := range call.Call.Args {
			if a == ssa.Value(segP) && i < len(h.Params) {
				hSeg = h.Params[i]
			}
		}
		if hSeg == nil {
			return false
		}
		hRem := func(v, of ssa.Value) bool {
			bo, ok := v.(*ssa.BinOp)
			return ok && bo.Op == token.REM && bo.Y == ssa.Value(hSeg) && (of == nil || sameExpr(bo.X, of, 3))
		}
		hFloor := func(v ssa.Value) (ssa.Value, bool) {
			bo, ok := v.(*ssa.BinOp)
			if !ok || bo.Op != token.SUB || !hRem(bo.Y, bo.X) {
				return nil, false
			}
			return bo.X, true
		}
		var hClass func(v ssa.Value, depth int) bool
		hClass = func(v ssa.Value, depth int) bool {
			v = core.ResolveCell(v)
			if _, ok := hFloor(v); ok {
				return true
			}
			ph, ok := v.(*ssa.Phi)
			if !ok || depth == 0 {
				return false
			}
			if len(ph.Edges) == 2 {
				for i := 0; i < 2; i++ {
					x, other := ph.Edges[i], ph.Edges[1-i]
					add, ok := other.(*ssa.BinOp)
					if !ok || add.Op != token.ADD || add.Y != ssa.Value(hSeg) {
						continue
					}
					base, ok := hFloor(add.X)
					if !ok || !sameExpr(base, x, 3) {
						continue
					}
					// x arrives with a zero remainder: walk back from the phi's predecessor to the remainder test
					for b := ph.Block().Preds[i]; b != nil; {
						ifi, isIf := b.Instrs[len(b.Instrs)-1].(*ssa.If)
						if isIf {
							c, neg := core.StripNot(ifi.Cond)
							if bo, ok := c.(*ssa.BinOp); ok && (bo.Op == token.NEQ || bo.Op == token.EQL) && hRem(bo.X, x) && isZeroConst(bo.Y) {
								zeroIdx := 1
								if (bo.Op == token.EQL) != neg {
									zeroIdx = 0
								}
								if b.Succs[zeroIdx] == ph.Block() {
									return true
								}
							}
						}
						break
					}
				}
			}
			for _, e := range ph.Edges {
				if !hClass(e, depth-1) {
					return false
				}
			}
			return true
		}
		// written with separate returns: `floor + size` (a multiple of the size whatever the remainder), or the value itself
		// returned where its remainder was found zero
		hRet := func(rt *ssa.Return) bool {
			v := core.ResolveCell(core.ReturnValues(rt)[0])
			if hClass(v, 3) {
				return true
			}
			if add, ok := v.(*ssa.BinOp); ok && add.Op == token.ADD {
				if _, isFl := hFloor(add.X); isFl && add.Y == ssa.Value(hSeg) {
					return true
				}
				if _, isFl := hFloor(add.Y); isFl && add.X == ssa.Value(hSeg) {
					return true
				}
			}
			for d := rt.Block(); d != nil; d = d.Idom() {
				idom := d.Idom()
				if idom == nil || len(d.Preds) != 1 || d.Preds[0] != idom {
					continue
				}
				ifi, isIf := idom.Instrs[len(idom.Instrs)-1].(*ssa.If)
				if !isIf {
					continue
				}
				c, neg := core.StripNot(ifi.Cond)
				if bo, ok := c.(*ssa.BinOp); ok && (bo.Op == token.NEQ || bo.Op == token.EQL) && hRem(bo.X, v) && isZeroConst(bo.Y) {
					zeroIdx := 1
					if (bo.Op == token.EQL) != neg {
						zeroIdx = 0
					}
					if idom.Succs[zeroIdx] == d {
						return true
					}
				}
			}
			return false
		}
		nRet, okAll := 0, true
		core.Instrs(h, func(in ssa.Instruction) {
			rt, ok := in.(*ssa.Return)
			if !ok || !core.ReturnsNilError(rt) {
				return
			}
			nRet++
			if !hRet(rt) {
				okAll = false
			}
		})
		return nRet > 0 && okAll
	}
	n := 0
	core.Instrs(fn, func(in ssa.Instruction) {
		rt, ok := in.(*ssa.Return)
		if !ok || !core.ReturnsNilError(rt) {
			return
		}
		n++
		onlyVia := func(edges []core.Edge) bool {
			if len(edges) == 0 {
				return false
			}
			q := core.PathQuery{Fn: fn, CutEdge: func(e core.Edge) bool { return containsEdge(edges, e) }}
			_, reach := q.CanReach(nil, func(x ssa.Instruction) bool { return x == ssa.Instruction(rt) })
			return !reach
		}
		var classify func(v ssa.Value, depth int) string
		classify = func(v ssa.Value, depth int) string {
			v = core.ResolveCell(v)
			if _, ok := isFloor(v); ok {
				return "boundary"
			}
			if ex, ok := v.(*ssa.Extract); ok && ex.Index == 0 {
				if hc, ok := ex.Tuple.(*ssa.Call); ok && helperBoundary(hc) {
					return "boundary"
				}
			}
			if hc, ok := v.(*ssa.Call); ok && helperBoundary(hc) {
				return "boundary"
			}
			if v == ssa.Value(startP) {
				if onlyVia(noStateEdges) {
					return "start(no back-fill)"
				}
				return "the start block although a store may need history"
			}
			if isReqLoad(v) {
				if onlyVia(aboveFloorEdges) {
					return "store-init(above floor)"
				}
				return "the store's initial block without the test that it lies above the start block's floor"
			}
			if ph, ok := v.(*ssa.Phi); ok && depth > 0 {
				// ceiling: x on the edge where x%seg == 0, (x − x%seg) + seg otherwise
				if len(ph.Edges) == 2 {
					for i := 0; i < 2; i++ {
						x, other := ph.Edges[i], ph.Edges[1-i]
						if isCeilOf(other, x) {
							// x comes over the edge on which its remainder is zero
							pred := ph.Block().Preds[i]
							if ifi, ok := pred.Instrs[len(pred.Instrs)-1].(*ssa.If); ok {
								c, neg := core.StripNot(ifi.Cond)
								if bo, ok := c.(*ssa.BinOp); ok && (bo.Op == token.NEQ || bo.Op == token.EQL) && isRem(bo.X, x) && isZeroConst(bo.Y) {
									zeroIdx := 1
									if (bo.Op == token.EQL) != neg {
										zeroIdx = 0
									}
									if pred.Succs[zeroIdx] == ph.Block() {
										return "boundary"
									}
								}
							}
						}
					}
				}
				out := "boundary"
				for _, e := range ph.Edges {
					if c := classify(e, depth-1); c != "boundary" {
						out = c
					}
				}
				return out
			}
			return fmt.Sprintf("a value that is not a segment boundary (%s)", v)
		}
		c := classify(rt.Results[0], 3)
		ok = c == "boundary" || c == "start(no back-fill)" || c == "store-init(above floor)"
		r.Check(ok, "C12.R5", fmt.Sprintf("computeLinearHandoffBlockNum/return#%d", n), "the hand-off returned is a segment boundary (floor or ceiling idiom), or the start block where no store needs history, or the lowest store's initial block where it lies above the start block's floor: whenever something is back-filled up to the hand-off it is made of whole segments", "returns "+c, p.Pos(rt.Pos()))
	})
	if n < 6 {
		core.Undecide("computeLinearHandoffBlockNum: only %d success returns found", n)
	}
}
