package props

import (
	"fmt"
	"strings"

	"golang.org/x/tools/go/ssa"

	"verif/sa/core"
)

// checkHostArgs (C08.R5, C02.R2): the store intrinsics of the WASM host interface hand their ordinal, key (or prefix)
// and — for reads — store index to the store unchanged, and reads return the store's answer unchanged.  The read
// semantics of C08 are stated on the store; a module only gets them if `get_at(ord, key)` really is
// inputStores[index].GetAt(ord, key).
func checkHostArgs(p *core.Prog, r *core.Report, rule string) {
	callT := p.Named(pkgWasm, "Call")
	outF, inF := core.FieldOf(callT, "outputStore"), core.FieldOf(callT, "inputStores")
	n := 0
	for _, fn := range p.RepoFunctions() {
		if fn.Pkg == nil || fn.Pkg.Pkg.Path() != core.ModPath+"/"+pkgWasm || fn.Signature.Recv() == nil || !strings.HasPrefix(fn.Name(), "Do") || fn.Parent() != nil {
			continue
		}
		if typeName(fn.Signature.Recv().Type()) != "*Call" {
			continue
		}
		params := map[string]*ssa.Parameter{}
		for _, prm := range fn.Params {
			params[prm.Name()] = prm
		}
		var storeCalls []*ssa.Call
		readIdx := map[*ssa.Call]ssa.Value{} // for a read: the index into inputStores
		// inputStoreIndex: v is inputStores[i] — directly, or as the result of a helper of the package whose every return is
		// inputStores[<its parameter>] — and i is returned (mapped back to the caller's argument)
		inputStoreIndex := func(v ssa.Value) (ssa.Value, bool) {
			if u, ok := v.(*ssa.UnOp); ok {
				if ia, ok := u.X.(*ssa.IndexAddr); ok {
					if f, _ := core.LoadedField(ia.X); f == inF {
						return ia.Index, true
					}
				}
				return nil, false
			}
			hc, ok := v.(*ssa.Call)
			if !ok {
				return nil, false
			}
			h := core.StaticFn(hc.Common())
			if h == nil || h.Blocks == nil || h.Pkg != fn.Pkg {
				return nil, false
			}
			var arg ssa.Value
			okAll, nRet := true, 0
			core.Instrs(h, func(x ssa.Instruction) {
				rt, isRet := x.(*ssa.Return)
				if !isRet || len(rt.Results) != 1 || rt.Block() == h.Recover {
					return
				}
				nRet++
				u, ok := core.SkipConv(rt.Results[0]).(*ssa.UnOp)
				if mi, isMI := rt.Results[0].(*ssa.MakeInterface); isMI {
					u, ok = mi.X.(*ssa.UnOp)
				}
				if !ok {
					okAll = false
					return
				}
				ia, ok := u.X.(*ssa.IndexAddr)
				if !ok {
					okAll = false
					return
				}
				if f, _ := core.LoadedField(ia.X); f != inF {
					okAll = false
					return
				}
				for j, prm := range h.Params {
					if core.SkipConv(ia.Index) == ssa.Value(prm) && j < len(hc.Call.Args) {
						arg = hc.Call.Args[j]
					}
				}
			})
			if okAll && nRet > 0 && arg != nil {
				return arg, true
			}
			return nil, false
		}
		core.Instrs(fn, func(in ssa.Instruction) {
			c, ok := in.(*ssa.Call)
			if !ok || !c.Call.IsInvoke() {
				return
			}
			if idx, ok := inputStoreIndex(c.Call.Value); ok {
				if _, direct := c.Call.Value.(*ssa.UnOp); !direct {
					storeCalls = append(storeCalls, c)
					readIdx[c] = idx
					return
				}
			}
			switch v := c.Call.Value.(type) {
			case *ssa.UnOp:
				if f, _ := core.LoadedField(v); f == outF {
					// SizeBytes() is only read for statistics
					if c.Call.Method.Name() != "SizeBytes" {
						storeCalls = append(storeCalls, c)
					}
					return
				}
				// element of inputStores
				if ia, ok := v.X.(*ssa.IndexAddr); ok {
					if f, _ := core.LoadedField(ia.X); f == inF {
						storeCalls = append(storeCalls, c)
					}
				}
			}
		})
		if len(storeCalls) == 0 {
			continue
		}
		n++
		r.Touch(core.FuncName(fn))
		bad := ""
		if len(storeCalls) != 1 {
			bad = fmt.Sprintf("%d store calls", len(storeCalls))
		} else {
			c := storeCalls[0]
			args := c.Call.Args
			isRead := false
			if u, ok := c.Call.Value.(*ssa.UnOp); ok {
				if ia, ok := u.X.(*ssa.IndexAddr); ok {
					isRead = true
					if params["storeIndex"] == nil || core.SkipConv(ia.Index) != ssa.Value(params["storeIndex"]) {
						bad += "the store read is not inputStores[storeIndex]; "
					}
				}
			}
			if idx, viaHelper := readIdx[c]; viaHelper {
				isRead = true
				if params["storeIndex"] == nil || core.SkipConv(idx) != ssa.Value(params["storeIndex"]) {
					bad += "the store read is not inputStores[storeIndex]; "
				}
			}
			// positional forwarding: (ord)?, key|prefix, then for writes the value
			pos := 0
			if params["ord"] != nil {
				if len(args) == 0 || core.SkipConv(args[0]) != ssa.Value(params["ord"]) {
					bad += "the ordinal handed to the store is not the intrinsic's ord parameter; "
				}
				pos = 1
			}
			kp := params["key"]
			if kp == nil {
				kp = params["prefix"]
			}
			if kp == nil || len(args) <= pos || core.SkipConv(args[pos]) != ssa.Value(kp) {
				bad += "the key handed to the store is not the intrinsic's key parameter; "
			}
			if isRead {
				// the six read methods share their signatures pairwise: the one called is the one the intrinsic is named after
				if want := strings.TrimPrefix(fn.Name(), "Do"); c.Call.Method.Name() != want {
					bad += "the intrinsic answers with " + c.Call.Method.Name() + " instead of " + want + "; "
				}
				// results returned as they are
				okRet := false
				core.Instrs(fn, func(in ssa.Instruction) {
					rt, ok := in.(*ssa.Return)
					if !ok || rt.Block() == fn.Recover {
						return
					}
					okRet = true
					for _, res := range core.ReturnValues(rt) {
						v := core.ResolveCell(res)
						if ex, ok := v.(*ssa.Extract); ok && ex.Tuple == ssa.Value(c) {
							continue
						}
						if v == ssa.Value(c) {
							continue
						}
						okRet = false
					}
				})
				if !okRet {
					bad += "the store's answer is not returned unchanged; "
				}
			}
		}
		r.Check(bad == "", rule, "wasm.Call."+fn.Name()+"/forward", "the intrinsic hands its own ordinal, key and store index to the store and returns the store's answer unchanged", bad, p.Pos(fn.Pos()))
	}
	if n < 24 {
		core.Undecide("only %d store intrinsics found in wasm.Call (expected 26)", n)
	}
}
