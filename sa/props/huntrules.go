package props

import (
	"fmt"
	"go/token"
	"go/types"
	"sort"
	"strings"

	"golang.org/x/tools/go/ssa"

	"verif/sa/core"
)

// Rules written after the defect hunts D22..D28 (DESIGN §6).

// checkRollResetsSegmentState (C02.R5): a partial store that is rolled to the next segment starts that segment with
// nothing of the previous one: every field of PartialKV that the write path accumulates into (appends to, sets entries
// of) is re-assigned in Roll.  The deleted prefixes kept across a roll were saved again with the next segment's file,
// and merging it deleted keys written after that deletion (D22).
func checkRollResetsSegmentState(p *core.Prog, r *core.Report, rule string) {
	pk := p.Named(pkgStore, "PartialKV")
	st := pk.Underlying().(*types.Struct)
	roll := p.Func(pkgStore, "PartialKV.Roll")
	r.Touch(core.FuncName(roll))
	n := 0
	for i := 0; i < st.NumFields(); i++ {
		f := st.Field(i)
		if f.Embedded() {
			continue
		}
		// accumulated: map-set, or assigned a value that is an append to itself, outside Roll / Load / constructors
		acc := false
		var where string
		for _, w := range core.FieldWrites(p.RepoFunctions(), f) {
			root := core.RootFn(w.Fn)
			if p.IsTestFunc(root) || root == roll {
				continue
			}
			switch w.Kind {
			case core.WMapSet, core.WElemSet:
				acc, where = true, core.FuncName(root)
			case core.WAssign:
				if c, ok := w.Value.(*ssa.Call); ok {
					if b, ok := c.Call.Value.(*ssa.Builtin); ok && b.Name() == "append" {
						if lf, _ := core.LoadedField(c.Call.Args[0]); lf == f {
							acc, where = true, core.FuncName(root)
						}
					}
				}
			}
		}
		if !acc {
			continue
		}
		n++
		reset := false
		for _, w := range core.FieldWritesIn(roll, f) {
			if w.Kind != core.WAssign {
				continue
			}
			switch v := w.Value.(type) {
			case *ssa.Const:
				reset = v.IsNil()
			case *ssa.MakeMap:
				reset = true
			case *ssa.MakeSlice:
				reset = true
			}
		}
		_, every := core.MustReachAfter(roll, roll.Blocks[0].Instrs[0], func(x ssa.Instruction) bool {
			for _, w := range core.FieldWritesIn(roll, f) {
				if w.Instr == x {
					return true
				}
			}
			return false
		}, nil)
		r.Check(reset && every, rule, "PartialKV.Roll/resets-"+f.Name(), "a rolled partial store starts the next segment without the per-segment state of the previous one: "+f.Name()+" (accumulated by "+where+") is re-assigned empty in Roll on every path", fmt.Sprintf("assigned empty: %v, on every path: %v", reset, every), p.Pos(roll.Pos()))
	}
	if n < 2 {
		core.Undecide("PartialKV: only %d accumulated per-segment fields found (expected DeletedPrefixes and seen)", n)
	}
}

// checkMergeFloatCodecTotal (C02.R1): the float64 branches of Merge read and write values through functions that are
// total on float64 — math/big has no NaN (big.NewFloat panics on it, big.ParseFloat rejects it), while the sequential
// execution stores NaN and the infinities with strconv (D24).
func checkMergeFloatCodecTotal(p *core.Prog, r *core.Report, rule string) {
	fn := p.Func(pkgStore, "baseStore.Merge")
	// helpers called from the float64 cases
	helpers := map[*ssa.Function]bool{}
	core.Instrs(fn, func(in ssa.Instruction) {
		ci, ok := in.(ssa.CallInstruction)
		if !ok {
			return
		}
		isF64 := false
		for _, l := range p.CaseLabels(in.Pos()) {
			if strings.HasSuffix(l, "OutputValueTypeFloat64") {
				isF64 = true
			}
		}
		if !isF64 {
			return
		}
		if c := core.StaticFn(ci.Common()); c != nil && c.Pkg == fn.Pkg && c.Blocks != nil {
			helpers[c] = true
		}
	})
	// one level deeper (floatToBytes → floatToStr)
	for h := range helpers {
		core.Instrs(h, func(in ssa.Instruction) {
			if ci, ok := in.(ssa.CallInstruction); ok {
				if c := core.StaticFn(ci.Common()); c != nil && c.Pkg == fn.Pkg && c.Blocks != nil {
					helpers[c] = true
				}
			}
		})
	}
	if len(helpers) < 2 {
		core.Undecide("Merge: only %d helper functions found under the float64 cases", len(helpers))
	}
	var names []string
	var bad []string
	for h := range helpers {
		if h.Parent() != nil {
			continue // the min/max closures
		}
		names = append(names, h.Name())
		core.Instrs(h, func(in ssa.Instruction) {
			if c := core.CalleeOf(in); c != nil && c.Pkg() != nil && c.Pkg().Path() == "math/big" {
				switch c.Name() {
				case "NewFloat", "ParseFloat", "SetFloat64":
					bad = append(bad, h.Name()+" calls big."+c.Name()+" at "+p.Pos(in.Pos()))
				}
			}
		})
	}
	sort.Strings(names)
	r.Check(len(bad) == 0, rule, "Merge/float64-codec-total", "the float64 cases of Merge decode and encode values with functions defined on every float64 (strconv, like the sequential execution), not through math/big, which panics on NaN", strings.Join(bad, "; ")+fmt.Sprintf(" [helpers: %v]", names), p.Pos(fn.Pos()))
}

// checkDecimalTruncationAgreement (C02.R1): where Merge normalises a bigdecimal operand (Truncate(n)) the sequential
// execution normalises the operand of the same policy the same way, at the host call; otherwise a value with more
// decimals sums differently in a squashed store (D25: set_sum truncated on merge only).
func checkDecimalTruncationAgreement(p *core.Prog, r *core.Report, rule string) {
	truncates := func(fn *ssa.Function) (bool, string) {
		found, scale := false, ""
		core.Instrs(fn, func(in ssa.Instruction) {
			c := core.CalleeOf(in)
			if c == nil || c.Name() != "Truncate" || c.Pkg() == nil || !strings.HasSuffix(c.Pkg().Path(), "shopspring/decimal") {
				return
			}
			// only a truncation whose result is used counts (Decimal is a value type: `prev.Truncate(34)` alone is a no-op)
			v, ok := in.(ssa.Value)
			if !ok || v.Referrers() == nil || len(*v.Referrers()) == 0 {
				return
			}
			found = true
			args := in.(ssa.CallInstruction).Common().Args
			if k, ok := args[len(args)-1].(*ssa.Const); ok {
				scale = k.Value.ExactString()
			}
		})
		return found, scale
	}
	pairs := []struct{ policy, mergeHelper, host string }{
		{"ADD", "foundOrZeroBigDecimal", "Call.DoAddBigDecimal"},
		{"MIN", "foundOrZeroBigDecimal", "Call.DoSetMinBigDecimal"},
		{"MAX", "foundOrZeroBigDecimal", "Call.DoSetMaxBigDecimal"},
		{"SET_SUM", "foundOrZeroPrefixedBigDecimal", "Call.DoSetSumBigDecimal"},
	}
	for _, pr := range pairs {
		mh := p.Func(pkgStore, pr.mergeHelper)
		hc := p.Func("wasm", pr.host)
		r.Touch(core.FuncName(mh))
		r.Touch(core.FuncName(hc))
		mt, ms := truncates(mh)
		ht, hs := truncates(hc)
		r.Check(mt == ht && ms == hs, rule, "bigdecimal-truncation/"+pr.policy, "the bigdecimal operand of policy "+pr.policy+" is normalised the same way when it is merged ("+pr.mergeHelper+") and when it is written by the module ("+pr.host+")", fmt.Sprintf("merge truncates: %v (scale %s); host call truncates: %v (scale %s)", mt, ms, ht, hs), p.Pos(mh.Pos()))
	}
}

// checkMergeLimit (C11.R5): Merge writes through setKV/setNewKV, which keep the size exact but never compare it with
// the limit; the success return of Merge therefore lies behind a comparison of the size with the limit whose exceeding
// branch returns an error (D26).
func checkMergeLimit(p *core.Prog, r *core.Report, rule string) {
	fn := p.Func(pkgStore, "baseStore.Merge")
	r.Touch(core.FuncName(fn))
	size := p.Field(pkgStore, "baseStore", "totalSizeBytes")
	// the comparison edges of a function: size > limit (exceed), its complement (within), and `limit == 0` (no limit)
	type cmpEdges struct {
		within, exceed []core.Edge
		noLimit        func(core.Edge) bool
	}
	edgesOf := func(f *ssa.Function) cmpEdges {
		var ce cmpEdges
		isLimit := func(v ssa.Value) bool {
			fl, _ := core.LoadedField(core.SkipConv(v))
			return fl != nil && fl.Name() == "totalSizeLimit"
		}
		core.InstrsDeep(f, func(in ssa.Instruction) {
			ifi, ok := in.(*ssa.If)
			if !ok {
				return
			}
			isSize := func(v ssa.Value) bool { fl, _ := core.LoadedField(core.SkipConv(v)); return fl == size }
			onT, onF, ok := core.CondRelation(ifi.Cond, isSize, isLimit)
			if !ok {
				return
			}
			if onT == core.OrdGT {
				ce.exceed = append(ce.exceed, core.Edge{From: ifi.Block(), Idx: 0})
				ce.within = append(ce.within, core.Edge{From: ifi.Block(), Idx: 1})
			}
			if onF == core.OrdGT {
				ce.exceed = append(ce.exceed, core.Edge{From: ifi.Block(), Idx: 1})
				ce.within = append(ce.within, core.Edge{From: ifi.Block(), Idx: 0})
			}
		})
		ce.noLimit = func(e core.Edge) bool {
			ifi, ok := e.From.Instrs[len(e.From.Instrs)-1].(*ssa.If)
			if !ok {
				return false
			}
			onT, onF, ok := core.CondRelation(ifi.Cond, isLimit, func(v ssa.Value) bool {
				k, ok := v.(*ssa.Const)
				return ok && k.Value != nil && k.Value.ExactString() == "0"
			})
			if !ok {
				return false
			}
			if e.Idx == 0 {
				return onT&core.OrdGT == 0
			}
			return onF&core.OrdGT == 0
		}
		return ce
	}
	// a function "tests the limit" when it has the comparison, the exceeding branch only returns errors, and no success
	// return is reachable without a comparison
	testsLimit := func(f *ssa.Function) bool {
		ce := edgesOf(f)
		if len(ce.exceed) == 0 {
			return false
		}
		for _, e := range ce.exceed {
			if !core.OnlyErrorReturnsFrom(e.From.Succs[e.Idx]) {
				return false
			}
		}
		q := core.PathQuery{Fn: f, CutEdge: func(e core.Edge) bool { return containsEdge(ce.within, e) || ce.noLimit(e) }}
		_, reach := q.CanReach(nil, func(x ssa.Instruction) bool { return core.ReturnsConstNilError(x) })
		return !reach
	}
	ce := edgesOf(fn)
	// a return of Merge that hands back the verdict of a helper which tests the limit counts as a tested return
	isTestedReturn := func(x ssa.Instruction) bool {
		rt, ok := x.(*ssa.Return)
		if !ok || len(rt.Results) == 0 {
			return false
		}
		c, ok := rt.Results[len(rt.Results)-1].(*ssa.Call)
		if !ok {
			return false
		}
		h := core.StaticFn(c.Common())
		return h != nil && h.Blocks != nil && h.Pkg == fn.Pkg && testsLimit(h)
	}
	okErr := true
	for _, e := range ce.exceed {
		if !core.OnlyErrorReturnsFrom(e.From.Succs[e.Idx]) {
			okErr = false
		}
	}
	q := core.PathQuery{Fn: fn, CutEdge: func(e core.Edge) bool { return containsEdge(ce.within, e) || ce.noLimit(e) }}
	untested := func(x ssa.Instruction) bool {
		rt, ok := x.(*ssa.Return)
		if !ok {
			return false
		}
		if core.ReturnsConstNilError(rt) {
			return true
		}
		// a non-constant result that is not a tested helper verdict and may be nil (e.g. a nil-able error variable)
		if len(rt.Results) > 0 {
			// `return helper()`: the helper's verdict is returned unexamined (a call whose only use is this return)
			if cv, isCall := rt.Results[len(rt.Results)-1].(*ssa.Call); isCall && cv.Referrers() != nil && len(*cv.Referrers()) == 1 && !isTestedReturn(x) && !core.OnlyErrorValue(cv) {
				return true
			}
		}
		return false
	}
	_, reach := q.CanReach(nil, untested)
	nW, nTested := 0, 0
	core.Instrs(fn, func(in ssa.Instruction) {
		if isTestedReturn(in) {
			nTested++
		}
		c := core.CalleeOf(in)
		if c == nil || (c.Name() != "setKV" && c.Name() != "setNewKV" && c.Name() != "deletePrefix" && c.Name() != "DeletePrefix") {
			return
		}
		nW++
		if _, r2 := q.CanReach(in, untested); r2 {
			reach = true
		}
	})
	if nW < 10 {
		// the per-policy loops may have been extracted: count the writes of the family
		for _, m := range core.Family(fn, 1) {
			if m == fn {
				continue
			}
			core.Instrs(m, func(in ssa.Instruction) {
				if c := core.CalleeOf(in); c != nil && (c.Name() == "setKV" || c.Name() == "setNewKV") {
					nW++
				}
			})
		}
	}
	if nW < 10 {
		core.Undecide("Merge: only %d write calls found", nW)
	}
	r.Check((len(ce.exceed) > 0 || nTested > 0) && okErr && !reach, rule, "Merge/limit-after", "Merge succeeds only after the merged size was compared with the store's limit, and a size above the limit is an error (the writes of Merge bypass ApplyDelta, where the limit is tested)", fmt.Sprintf("%d comparisons of the size with the limit in Merge, %d returns of a limit-testing helper; success reachable without a test: %v", len(ce.exceed), nTested, reach), p.Pos(fn.Pos()))
}

// checkSkipFromIndexAbsentOutput (C15.R4): when no index file exists the filter is evaluated on the keys the index
// module produced for the block.  An index module that produced nothing on a block (no input, or filtered out itself)
// has no entry in the block's buffer: that must be "no key", as in a pre-computed index — not a panic (D23).
func checkSkipFromIndexAbsentOutput(p *core.Prog, r *core.Report, rule string) {
	fn := p.Func(pkgExec, "skipFromIndex")
	r.Touch(core.FuncName(fn))
	var get ssa.Instruction
	core.InstrsDeep(fn, func(in ssa.Instruction) { // (fetching the index module's output may be a helper)
		if c := core.CalleeOf(in); c != nil && c.Name() == "Get" {
			get = in
		}
	})
	if get == nil {
		core.Undecide("skipFromIndex: no Get call on the block's outputs")
	}
	var notFound []core.Edge
	core.InstrsDeep(fn, func(in ssa.Instruction) {
		ifi, ok := in.(*ssa.If)
		if !ok {
			return
		}
		c, neg := core.StripNot(ifi.Cond)
		call, ok := c.(*ssa.Call)
		if !ok {
			return
		}
		if cl := core.CommonCallee(call.Common()); cl == nil || calleeKey(cl) != "errors.Is" {
			return
		}
		tgt := call.Call.Args[1]
		isNF := false
		for v := range core.OperandSlice(tgt) {
			if g, ok := v.(*ssa.Global); ok && g.Name() == "ErrNotFound" {
				isNF = true
			}
		}
		if !isNF {
			return
		}
		idx := 0
		if neg {
			idx = 1
		}
		notFound = append(notFound, core.Edge{From: ifi.Block(), Idx: idx})
	})
	skipKeys := func(in ssa.Instruction) bool { c := core.CalleeOf(in); return c != nil && c.Name() == "SkipFromKeys" }
	ok := len(notFound) > 0
	for _, e := range notFound {
		e := e
		// from the test, over the not-found edge only (the edge may lead straight to a return of the helper that fetches)
		q := core.PathQuery{Fn: fn, CutEdge: func(x core.Edge) bool { return x.From == e.From && x.Idx != e.Idx }}
		from := e.From.Instrs[len(e.From.Instrs)-1]
		if _, reach := q.CanReach(from, func(x ssa.Instruction) bool { _, isP := x.(*ssa.Panic); return isP }); reach {
			ok = false
		}
		if _, reach := q.CanReach(from, skipKeys); !reach {
			ok = false
		}
	}
	// a panic on the error of Get is only reachable when the error is NOT ErrNotFound
	for _, e := range errNonNilEdges(get.Parent(), get) {
		q := core.PathQuery{Fn: fn, CutEdge: func(x core.Edge) bool {
			for _, nf := range notFound {
				if x.From == nf.From && x.Idx == 1-nf.Idx {
					return true
				}
			}
			return false
		}}
		if _, reach := q.CanReach(e.From.Succs[e.Idx].Instrs[0], func(x ssa.Instruction) bool { _, isP := x.(*ssa.Panic); return isP }); reach {
			ok = false
		}
		if _, isP := e.From.Succs[e.Idx].Instrs[0].(*ssa.Panic); isP {
			ok = false
		}
	}
	r.Check(ok, rule, "skipFromIndex/absent-index-output", "a block on which the index module produced no output is evaluated as a block without keys (SkipFromKeys on the empty set), exactly as a pre-computed index does — the missing buffer entry never panics", fmt.Sprintf("%d tests for ErrNotFound on the error of Get", len(notFound)), p.Pos(fn.Pos()))
}

// checkMarshallerContracts (C18.R3, C18.R5): every implementation of marshaller.Marshaller (a) reports, on success, a
// size computed from the content, never the constant 0 (D27), and (b) carries both parts of StoreData — the key/value
// map and the deleted prefixes — in both directions (D28).
func checkMarshallerContracts(p *core.Prog, r *core.Report, known func(rule, construct string) bool) {
	iface := p.Named(pkgMarsh, "Marshaller").Underlying().(*types.Interface)
	sd := p.Named(pkgMarsh, "StoreData")
	kvF := core.FieldOf(sd, "Kv")
	dpF := core.FieldOf(sd, "DeletePrefixes")
	pkg := p.Pkg(pkgMarsh)
	n := 0
	sc := pkg.Types.Scope()
	for _, name := range sc.Names() {
		tn, ok := sc.Lookup(name).(*types.TypeName)
		if !ok {
			continue
		}
		if _, isStruct := tn.Type().Underlying().(*types.Struct); !isStruct {
			continue
		}
		if !types.Implements(types.NewPointer(tn.Type()), iface) {
			continue
		}
		n++
		un := p.Func(pkgMarsh, name+".Unmarshal")
		ma := p.Func(pkgMarsh, name+".Marshal")
		r.Touch(core.FuncName(un))
		r.Touch(core.FuncName(ma))
		// (a) size
		okSize, nRet := true, 0
		core.Instrs(un, func(in ssa.Instruction) {
			rt, ok := in.(*ssa.Return)
			if !ok || len(rt.Results) != 3 || !core.ReturnsNilError(rt) {
				return
			}
			nRet++
			if _, isConst := core.SkipConv(rt.Results[1]).(*ssa.Const); isConst {
				okSize = false
			}
		})
		r.Check(okSize && nRet > 0, "C18.R3", name+".Unmarshal/size", "the size reported with the unmarshalled content is computed from it (total length of keys and values), never a constant", fmt.Sprintf("%d success returns; constant size: %v", nRet, !okSize), p.Pos(un.Pos()))
		// (b) both parts, both ways: fields read (Marshal) / set (Unmarshal), looking one call level down
		reads := func(fn *ssa.Function, f *types.Var) bool {
			found := false
			var visit func(fn *ssa.Function, depth int)
			visit = func(fn *ssa.Function, depth int) {
				core.Instrs(fn, func(in ssa.Instruction) {
					switch x := in.(type) {
					case *ssa.FieldAddr:
						if core.FieldOfAddr(x) == f {
							found = true
						}
					case *ssa.Field:
						if core.FieldOfValue(x) == f {
							found = true
						}
					case ssa.CallInstruction:
						if c := core.StaticFn(x.Common()); c != nil && c.Blocks != nil && depth < 2 && c.Pkg == fn.Pkg {
							visit(c, depth+1)
						}
					}
				})
			}
			visit(fn, 0)
			return found
		}
		for _, part := range []struct {
			f    *types.Var
			what string
		}{{kvF, "Kv"}, {dpF, "DeletePrefixes"}} {
			okM := reads(ma, part.f)
			okU := reads(un, part.f)
			r.Check(okM && okU, "C18.R5", name+"/carries-"+part.what, "the marshaller writes StoreData."+part.what+" and restores it when reading (every store marshaller reads back what it wrote)", fmt.Sprintf("Marshal uses the field: %v; Unmarshal sets it: %v", okM, okU), p.Pos(ma.Pos()))
		}
	}
	if n < 4 {
		core.Undecide("only %d implementations of marshaller.Marshaller found (expected Binary, Proto, ProtoingFast, VTproto)", n)
	}
	_ = token.ADD
}

// checkAncestorOrderIndependent (C06.R2): the identifier is a function of the identifiers of the ancestors, not of
// where they stand in the module list: the ancestors' signatures are written in an order that does not come from module
// indexes (sorted, or AncestorsOf itself sorts by something list-independent).  Index order makes the identifier of a
// module change when the list is reordered — e.g. when two imported packages are merged in the other order (D30).
func checkAncestorOrderIndependent(p *core.Prog, r *core.Report) {
	fn := p.Func(pkgMani, "ModuleHashes.hashModule")
	anc := p.FuncObj(pkgMani, "ModuleGraph.AncestorsOf")
	hm := p.FuncObj(pkgMani, "ModuleHashes.HashModule")
	r.Touch(core.FuncName(fn))
	sorted := func(f *ssa.Function) bool {
		found := false
		core.Instrs(f, func(in ssa.Instruction) {
			if c := core.CalleeOf(in); c != nil && c.Pkg() != nil && (c.Pkg().Path() == "sort" || c.Pkg().Path() == "slices") {
				switch c.Name() {
				case "Slice", "SliceStable", "Strings", "Sort", "SortFunc", "SortStableFunc", "Stable":
					found = true
				}
			}
		})
		return found
	}
	// the loop that hashes the ancestors: ranges over the result of AncestorsOf and writes HashModule(ancestor) straight
	// into the buffer
	direct := false
	for _, l := range core.Loops(fn) {
		overAnc, writes := false, false
		for b := range l.Body {
			for _, in := range b.Instrs {
				if c := core.CalleeOf(in); c == hm {
					writes = true
				}
				for _, op := range in.Operands(nil) {
					if *op == nil {
						continue
					}
					if core.Trace(*op, 0).HasCall(anc) {
						overAnc = true
					}
				}
			}
		}
		if overAnc && writes {
			direct = true
		}
	}
	if !direct {
		core.Undecide("hashModule: loop hashing the ancestors not found")
	}
	ok := sorted(fn) || sorted(p.Func(pkgMani, "ModuleGraph.AncestorsOf"))
	r.Check(ok, "C06.R2", "hashModule/ancestor-order-independent", "the signatures of the ancestors enter the hash in an order that does not depend on the position of the modules in the list (they are sorted before being written)", "the ancestors are hashed in the order AncestorsOf returns them, which is the order of the module list: reordering the list (or the imports) changes the identifier", p.Pos(fn.Pos()))
}

// checkGraphEdgesOnlyForModuleInputs (C14.R6): in the module graph an input makes an edge only when it designates a
// module — a map or a store input.  The text of a params value or of a source type is free: matching it against module
// names pulls unrelated modules (and their stores) into the execution and into the hash, and a value equal to the
// module's own name is refused as a cycle (D29).
func checkGraphEdgesOnlyForModuleInputs(p *core.Prog, r *core.Report, rule string) {
	fn := p.Func(pkgMani, "NewModuleGraph")
	r.Touch(core.FuncName(fn))
	// success edges of `input.GetMap() != nil` / `input.GetStore() != nil`
	// (in NewModuleGraph or in the helper of its family that resolves what an input refers to)
	var modEdges []core.Edge
	for _, member := range core.Family(fn, 1) {
		core.InstrsDeep(member, func(in ssa.Instruction) {
			ifi, ok := in.(*ssa.If)
			if !ok {
				return
			}
			c, neg := core.StripNot(ifi.Cond)
			// type-switch form: `case *Module_Input_Map_:` / `case *Module_Input_Store_:`
			if ex, isEx := c.(*ssa.Extract); isEx && ex.Index == 1 {
				if ta, isTA := ex.Tuple.(*ssa.TypeAssert); isTA && ta.CommaOk {
					tn := ta.AssertedType.String()
					if strings.HasSuffix(tn, ".Module_Input_Map_") || strings.HasSuffix(tn, ".Module_Input_Store_") {
						idx := 0
						if neg {
							idx = 1
						}
						modEdges = append(modEdges, core.Edge{From: ifi.Block(), Idx: idx})
					}
				}
				return
			}
			bo, ok := c.(*ssa.BinOp)
			if !ok || (bo.Op != token.EQL && bo.Op != token.NEQ) {
				return
			}
			if k, ok := bo.Y.(*ssa.Const); !ok || !k.IsNil() {
				return
			}
			call, ok := bo.X.(*ssa.Call)
			if !ok {
				return
			}
			cl := core.CommonCallee(call.Common())
			if cl == nil || (cl.Name() != "GetMap" && cl.Name() != "GetStore") {
				return
			}
			idx := 0
			if (bo.Op == token.EQL) != neg {
				idx = 1
			}
			modEdges = append(modEdges, core.Edge{From: ifi.Block(), Idx: idx})
		})
	}
	inputsF := core.FieldOf(p.Named(pkgPBV1, "Module"), "Inputs")
	var loop *core.Loop
	for _, l := range core.LoopIndexing(fn, func(v ssa.Value) bool { f, _ := core.LoadedField(v); return f == inputsF }) {
		loop = l
	}
	if loop == nil || len(modEdges) < 2 {
		core.Undecide("NewModuleGraph: loop over Module.Inputs (%v) or the GetMap/GetStore tests (%d) not found", loop != nil, len(modEdges))
	}
	n, bad := 0, 0
	for b := range loop.Body {
		for _, in := range b.Instrs {
			c := core.CalleeOf(in)
			if c == nil || c.Name() != "AddCost" {
				continue
			}
			n++
			// (1) directly: unreachable within the iteration once the map/store success edges are cut
			q := core.PathQuery{Fn: fn, CutEdge: func(e core.Edge) bool { return containsEdge(modEdges, e) }, CutInstr: func(x ssa.Instruction) bool { return x == loop.Header.Instrs[0] }}
			start := loop.Header
			_, reach := q.CanReach(firstBodyInstr(loop), func(x ssa.Instruction) bool { return x == in })
			_ = start
			if !reach {
				continue
			}
			// (2) through a flag: the call sits behind `if flag`, flag being a phi whose true-valued edges come only from blocks
			// that are themselves behind a map/store success edge
			okFlag := false
			for _, pred := range allDominatingIfs(in.Block()) {
				// (3) through a helper's verdict: the flag is a result of a helper of the package that returns it true
				// only behind its own map/store success edges
				if ex, isEx := pred.cond.(*ssa.Extract); isEx && pred.trueEdge {
					if hc, isCall := ex.Tuple.(*ssa.Call); isCall {
						if helper := core.StaticFn(hc.Common()); helper != nil && helper.Pkg == fn.Pkg && helper.Blocks != nil {
							good, nRet := true, 0
							core.Instrs(helper, func(x ssa.Instruction) {
								ret, isRet := x.(*ssa.Return)
								if !isRet {
									return
								}
								nRet++
								rv := core.ReturnValues(ret)[ex.Index]
								if k, isK := rv.(*ssa.Const); isK && k.Value != nil && k.Value.ExactString() == "false" {
									return
								}
								q3 := core.PathQuery{Fn: helper, CutEdge: func(e core.Edge) bool { return containsEdge(modEdges, e) }}
								if _, r3 := q3.CanReach(nil, func(y ssa.Instruction) bool { return y == x }); r3 {
									good = false
								}
							})
							if good && nRet > 0 {
								okFlag = true
							}
						}
					}
				}
				ph, ok := pred.cond.(*ssa.Phi)
				if !ok || !pred.trueEdge {
					continue
				}
				all := true
				nTrue := 0
				for i, e := range ph.Edges {
					k, isK := e.(*ssa.Const)
					if !isK {
						all = false
						continue
					}
					if k.Value != nil && k.Value.ExactString() == "true" {
						nTrue++
						from := ph.Block().Preds[i]
						q2 := core.PathQuery{Fn: fn, CutEdge: func(e core.Edge) bool { return containsEdge(modEdges, e) }, CutInstr: func(x ssa.Instruction) bool { return x == loop.Header.Instrs[0] }}
						if _, r2 := q2.CanReach(firstBodyInstr(loop), func(x ssa.Instruction) bool { return x.Block() == from }); r2 {
							all = false
						}
					}
				}
				if all && nTrue > 0 {
					okFlag = true
				}
			}
			if !okFlag {
				bad++
			}
		}
	}
	r.Check(n > 0 && bad == 0, rule, "NewModuleGraph/edges-only-for-module-inputs", "an input adds a dependency edge only when it is a map or a store input (the only kinds that designate a module); the text of a params value or of a source type is never looked up as a module name", fmt.Sprintf("%d edge insertions in the loop over the inputs, %d reachable for an input that is neither map nor store", n, bad), p.Pos(fn.Pos()))
}

func firstBodyInstr(l *core.Loop) ssa.Instruction {
	for _, s := range l.Header.Succs {
		if l.Body[s] && s != l.Header {
			return s.Instrs[0]
		}
	}
	return l.Header.Instrs[0]
}

type domIf struct {
	cond     ssa.Value
	trueEdge bool
}

// allDominatingIfs: the conditions of the Ifs whose true (or false) successor dominates b.
func allDominatingIfs(b *ssa.BasicBlock) []domIf {
	var out []domIf
	for _, blk := range b.Parent().Blocks {
		ifi, ok := blk.Instrs[len(blk.Instrs)-1].(*ssa.If)
		if !ok {
			continue
		}
		if blk.Succs[0].Dominates(b) && len(blk.Succs[0].Preds) == 1 {
			out = append(out, domIf{ifi.Cond, true})
		}
		if blk.Succs[1].Dominates(b) && len(blk.Succs[1].Preds) == 1 {
			out = append(out, domIf{ifi.Cond, false})
		}
	}
	return out
}

// checkPendingUndoSentOnce (C03.R5, C04.R2): the undo signal computed when a request resumes from a forked cursor is
// sent once: every send of Pipeline.pendingUndoMessage is followed, on every path that goes on, by the field being
// cleared.  Sent a second time in front of the first linear block, it makes the client drop the blocks streamed from the
// cached outputs in between (D31).
func checkPendingUndoSentOnce(p *core.Prog, r *core.Report, rule string) {
	f := p.Field(pkgPipe, "Pipeline", "pendingUndoMessage")
	n := 0
	for _, fn := range p.RepoFunctions() {
		if p.IsTestFunc(fn) || fn.Pkg == nil || !strings.HasSuffix(fn.Pkg.Pkg.Path(), "/"+pkgPipe) {
			continue
		}
		core.Instrs(fn, func(in ssa.Instruction) {
			ci, ok := in.(ssa.CallInstruction)
			if !ok {
				return
			}
			sends := false
			for _, a := range ci.Common().Args {
				if mi, ok := a.(*ssa.MakeInterface); ok {
					a = mi.X
				}
				if lf, _ := core.LoadedField(core.SkipConv(a)); lf == f {
					sends = true
				}
			}
			if !sends {
				return
			}
			n++
			r.Touch(core.FuncName(fn))
			isClear := func(x ssa.Instruction) bool {
				for _, w := range core.FieldWritesIn(fn, f) {
					if w.Instr == x && w.Kind == core.WAssign {
						if k, ok := w.Value.(*ssa.Const); ok && k.IsNil() {
							return true
						}
					}
				}
				return false
			}
			// exits that matter: success returns (an error return ends the request)
			hit, ok2 := core.MustReachAfter(fn, in, isClear, func(x ssa.Instruction) bool {
				rt, isRet := x.(*ssa.Return)
				if !isRet {
					return false
				}
				if len(rt.Results) == 0 {
					return true
				}
				return core.ReturnsNilError(rt)
			})
			d := ""
			if !ok2 {
				d = "a success return is reachable after the send without clearing the field: " + p.Pos(core.InstrPos(hit))
			}
			r.Check(ok2, rule, "pendingUndoMessage/cleared-after-send@"+core.FuncName(fn), "the pending undo signal of a forked cursor reaches the client once: after it is sent the field is cleared on every path that goes on", d, p.Pos(in.Pos()))
		})
	}
	if n < 2 {
		core.Undecide("only %d sends of Pipeline.pendingUndoMessage found (expected runParallelProcess and handleStepNew)", n)
	}
}

// checkGateAndUndo (C04.R2, C03.R5): nothing reaches a client that came without cursor before its start block: an undo
// step opens the output gate only for a request resumed from a cursor (blockTriggersGate answers its flag parameter, which
// newGate derives from RequestDetails.ResolvedCursor), and handleStepUndo sends no signal while the gate is closed (D32);
// the engine's buffer of the undone block is dropped (D33).
func checkGateAndUndo(p *core.Prog, r *core.Report, rule string) {
	btg := p.Func(pkgPipe, "blockTriggersGate")
	r.Touch(core.FuncName(btg))
	// returns reachable behind `step.Matches(StepUndo)`: none is the constant true
	var undoEdges []core.Edge
	core.InstrsDeep(btg, func(in ssa.Instruction) {
		ifi, ok := in.(*ssa.If)
		if !ok {
			return
		}
		c, neg := core.StripNot(ifi.Cond)
		call, ok := c.(*ssa.Call)
		if !ok {
			return
		}
		if cl := core.CommonCallee(call.Common()); cl == nil || cl.Name() != "Matches" {
			return
		}
		k, ok := call.Call.Args[len(call.Call.Args)-1].(*ssa.Const)
		if !ok || k.Value == nil || k.Value.ExactString() != "2" { // bstream.StepUndo
			return
		}
		idx := 0
		if neg {
			idx = 1
		}
		undoEdges = append(undoEdges, core.Edge{From: ifi.Block(), Idx: idx})
	})
	okUndo := len(undoEdges) > 0
	detail := ""
	for _, e := range undoEdges {
		b := e.From.Succs[e.Idx]
		core.Instrs(btg, func(in ssa.Instruction) {
			rt, ok := in.(*ssa.Return)
			if !ok || !reachFromBlock(btg, b, in) {
				return
			}
			// only returns that are decided by the undo branch itself: the block's own return
			if in.Block() != b {
				return
			}
			if k, ok := rt.Results[0].(*ssa.Const); ok && k.Value != nil && k.Value.ExactString() == "true" {
				okUndo = false
				detail = "an undo step opens the gate unconditionally"
			}
			if prm, ok := rt.Results[0].(*ssa.Parameter); ok {
				// the flag: its value at the call site must come from the gate's cursor flag
				_ = prm
			}
		})
	}
	r.Check(okUndo, rule, "blockTriggersGate/undo-needs-cursor", "an undo step opens the output gate only when the request was resumed from a cursor (the client then holds blocks); for a request without cursor an undo below the start block leaves the gate closed", detail, p.Pos(btg.Pos()))
	// the flag comes from the resolved cursor
	ng := p.Func(pkgPipe, "newGate")
	r.Touch(core.FuncName(ng))
	okFlag := false
	gt := p.Named(pkgPipe, "gate")
	for _, al := range core.AllocsOf(ng, gt) {
		for name, vals := range core.LiteralFields(al) {
			for _, v := range vals {
				if hasFieldNamed(core.Trace(v, 0), "ResolvedCursor") && name != "startBlockNum" {
					okFlag = true
				}
			}
		}
	}
	r.Check(okFlag, rule, "newGate/undo-flag-from-cursor", "whether an undo may open the gate is derived from the request's resolved cursor", "no field of the gate is computed from RequestDetails.ResolvedCursor", p.Pos(ng.Pos()))
	// handleStepUndo: the signal is sent only when the gate is open; the stores are reverted and the buffer dropped regardless
	hu := p.Func(pkgPipe, "Pipeline.handleStepUndo")
	r.Touch(core.FuncName(hu))
	sso := p.FuncObj(pkgPipe, "gate.shouldSendOutputs")
	var open []core.Edge
	core.InstrsDeep(hu, func(in ssa.Instruction) {
		ifi, ok := in.(*ssa.If)
		if !ok {
			return
		}
		c, neg := core.StripNot(ifi.Cond)
		call, ok := c.(*ssa.Call)
		if !ok || core.CommonCallee(call.Common()) != sso {
			return
		}
		idx := 0
		if neg {
			idx = 1
		}
		open = append(open, core.Edge{From: ifi.Block(), Idx: idx})
	})
	isSend := func(in ssa.Instruction) bool {
		c, ok := in.(*ssa.Call)
		if !ok {
			return false
		}
		if f, _ := core.LoadedField(c.Call.Value); f != nil && f.Name() == "respFunc" {
			return true
		}
		return false
	}
	q := core.PathQuery{Fn: hu, CutEdge: func(e core.Edge) bool { return containsEdge(open, e) }}
	_, reach := q.CanReach(nil, isSend)
	nSend := len(core.FindInstrs(hu, isSend))
	r.Check(len(open) > 0 && nSend > 0 && !reach, rule, "handleStepUndo/signal-behind-gate", "an undo signal is sent only once the output gate is open (a client that received nothing holds no block an undo could invalidate)", fmt.Sprintf("%d sends; reachable with the gate closed: %v", nSend, reach), p.Pos(hu.Pos()))
	// the revert of the stores does not depend on the gate
	hUndo := p.FuncObj(pkgPipe, "ForkHandler.handleUndo")
	engUndo := p.FuncObj(pkgCache, "Engine.HandleUndo")
	for _, w := range []struct {
		name string
		obj  *types.Func
	}{{"stores-reverted", hUndo}, {"buffer-dropped", engUndo}} {
		calls := core.FindInstrs(hu, core.LiftThroughCalls(core.IsCallTo(w.obj), 1))
		okAll := len(calls) > 0
		for _, c := range calls {

			// reached on every path from entry: not behind the gate test
			if _, must := core.MustPassBefore(hu, func(x ssa.Instruction) bool { return x == c }, func(x ssa.Instruction) bool {
				_, isIf := x.(*ssa.If)
				return isIf && containsEdgeFrom(open, x.Block())
			}); !must {
				okAll = false
			}
		}
		desc := "every undo step reverts the stores, whatever the state of the gate"
		if w.name == "buffer-dropped" {
			desc = "every undo step drops the engine's output buffer of the undone block (Engine.HandleUndo), whatever the state of the gate"
		}
		r.Check(okAll, rule, "handleStepUndo/"+w.name, desc, fmt.Sprintf("%d calls; before the gate test on every path: %v", len(calls), okAll), p.Pos(hu.Pos()))
	}
}

func containsEdgeFrom(es []core.Edge, b *ssa.BasicBlock) bool {
	for _, e := range es {
		if e.From == b {
			return true
		}
	}
	return false
}
