package props

import (
	"fmt"
	"go/token"
	"go/types"
	"sort"
	"strings"

	"golang.org/x/tools/go/ssa"

	"verif/sa/core"
)

// Rules written after the defect hunts D22..D28 (DESIGN §6).

// checkRollResetsSegmentState (C02.R5): a partial store that is rolled to the next segment starts that segment with
// nothing of the previous one: every field of PartialKV that the write path accumulates into (appends to, sets entries
// of) is re-assigned in Roll.  The deleted prefixes kept across a roll were saved again with the next segment's file,
// and merging it deleted keys written after that deletion (D22).
func checkRollResetsSegmentState(p *core.Prog, r *core.Report, rule string) {
	pk := p.Named(pkgStore, "PartialKV")
	st := pk.Underlying().(*types.Struct)
	roll := p.Func(pkgStore, "PartialKV.Roll")
	r.Touch(core.FuncName(roll))
	n := 0
	for i := 0; i < st.NumFields(); i++ {
		f := st.Field(i)
		if f.Embedded() {
			continue
		}
		// accumulated: map-set, or assigned a value that is an append to itself, outside Roll / Load / constructors
		acc := false
		var where string
		for _, w := range core.FieldWrites(p.RepoFunctions(), f) {
			root := core.RootFn(w.Fn)
			if p.IsTestFunc(root) || root == roll {
				continue
			}
			switch w.Kind {
			case core.WMapSet, core.WElemSet:
				acc, where = true, core.FuncName(root)
			case core.WAssign:
				if c, ok := w.Value.(*ssa.Call); ok {
					if b, ok := c.Call.Value.(*ssa.Builtin); ok && b.Name() == "append" {
						if lf, _ := core.LoadedField(c.Call.Args[0]); lf == f {
							acc, where = true, core.FuncName(root)
						}
					}
				}
			}
		}
		if !acc {
			continue
		}
		n++
		reset := false
		for _, w := range core.FieldWritesIn(roll, f) {
			if w.Kind != core.WAssign {
				continue
			}
			switch v := w.Value.(type) {
			case *ssa.Const:
				reset = v.IsNil()
			case *ssa.MakeMap:
				reset = true
			case *ssa.MakeSlice:
				reset = true
			}
		}
		_, every := core.MustReachAfter(roll, roll.Blocks[0].Instrs[0], func(x ssa.Instruction) bool {
			for _, w := range core.FieldWritesIn(roll, f) {
				if w.Instr == x {
					return true
				}
			}
			return false
		}, nil)
		r.Check(reset && every, rule, "PartialKV.Roll/resets-"+f.Name(), "a rolled partial store starts the next segment without the per-segment state of the previous one: "+f.Name()+" (accumulated by "+where+") is re-assigned empty in Roll on every path", fmt.Sprintf("assigned empty: %v, on every path: %v", reset, every), p.Pos(roll.Pos()))
	}
	if n < 2 {
		core.Undecide("PartialKV: only %d accumulated per-segment fields found (expected DeletedPrefixes and seen)", n)
	}
}

// checkMergeFloatCodecTotal (C02.R1): the float64 branches of Merge read and write values through functions that are
// total on float64 — math/big has no NaN (big.NewFloat panics on it, big.ParseFloat rejects it), while the sequential
// execution stores NaN and the infinities with strconv (D24).
func checkMergeFloatCodecTotal(p *core.Prog, r *core.Report, rule string) {
	fn := p.Func(pkgStore, "baseStore.Merge")
	// helpers called from the float64 cases
	helpers := map[*ssa.Function]bool{}
	core.Instrs(fn, func(in ssa.Instruction) {
		ci, ok := in.(ssa.CallInstruction)
		if !ok {
			return
		}
		isF64 := false
		for _, l := range p.CaseLabels(in.Pos()) {
			if strings.HasSuffix(l, "OutputValueTypeFloat64") {
				isF64 = true
			}
		}
		if !isF64 {
			return
		}
		if c := core.StaticFn(ci.Common()); c != nil && c.Pkg == fn.Pkg && c.Blocks != nil {
			helpers[c] = true
		}
	})
	// one level deeper (floatToBytes → floatToStr)
	for h := range helpers {
		core.Instrs(h, func(in ssa.Instruction) {
			if ci, ok := in.(ssa.CallInstruction); ok {
				if c := core.StaticFn(ci.Common()); c != nil && c.Pkg == fn.Pkg && c.Blocks != nil {
					helpers[c] = true
				}
			}
		})
	}
	if len(helpers) < 2 {
		core.Undecide("Merge: only %d helper functions found under the float64 cases", len(helpers))
	}
	var names []string
	var bad []string
	for h := range helpers {
		if h.Parent() != nil {
			continue // the min/max closures
		}
		names = append(names, h.Name())
		core.Instrs(h, func(in ssa.Instruction) {
			if c := core.CalleeOf(in); c != nil && c.Pkg() != nil && c.Pkg().Path() == "math/big" {
				switch c.Name() {
				case "NewFloat", "ParseFloat", "SetFloat64":
					bad = append(bad, h.Name()+" calls big."+c.Name()+" at "+p.Pos(in.Pos()))
				}
			}
		})
	}
	sort.Strings(names)
	r.Check(len(bad) == 0, rule, "Merge/float64-codec-total", "the float64 cases of Merge decode and encode values with functions defined on every float64 (strconv, like the sequential execution), not through math/big, which panics on NaN", strings.Join(bad, "; ")+fmt.Sprintf(" [helpers: %v]", names), p.Pos(fn.Pos()))
}

// checkDecimalTruncationAgreement (C02.R1): where Merge normalises a bigdecimal operand (Truncate(n)) the sequential
// execution normalises the operand of the same policy the same way, at the host call; otherwise a value with more
// decimals sums differently in a squashed store (D25: set_sum truncated on merge only).
func checkDecimalTruncationAgreement(p *core.Prog, r *core.Report, rule string) {
	truncates := func(fn *ssa.Function) (bool, string) {
		found, scale := false, ""
		core.Instrs(fn, func(in ssa.Instruction) {
			c := core.CalleeOf(in)
			if c == nil || c.Name() != "Truncate" || c.Pkg() == nil || !strings.HasSuffix(c.Pkg().Path(), "shopspring/decimal") {
				return
			}
			// only a truncation whose result is used counts (Decimal is a value type: `prev.Truncate(34)` alone is a no-op)
			v, ok := in.(ssa.Value)
			if !ok || v.Referrers() == nil || len(*v.Referrers()) == 0 {
				return
			}
			found = true
			args := in.(ssa.CallInstruction).Common().Args
			if k, ok := args[len(args)-1].(*ssa.Const); ok {
				scale = k.Value.ExactString()
			}
		})
		return found, scale
	}
	pairs := []struct{ policy, mergeHelper, host string }{
		{"ADD", "foundOrZeroBigDecimal", "Call.DoAddBigDecimal"},
		{"MIN", "foundOrZeroBigDecimal", "Call.DoSetMinBigDecimal"},
		{"MAX", "foundOrZeroBigDecimal", "Call.DoSetMaxBigDecimal"},
		{"SET_SUM", "foundOrZeroPrefixedBigDecimal", "Call.DoSetSumBigDecimal"},
	}
	for _, pr := range pairs {
		mh := p.Func(pkgStore, pr.mergeHelper)
		hc := p.Func("wasm", pr.host)
		r.Touch(core.FuncName(mh))
		r.Touch(core.FuncName(hc))
		mt, ms := truncates(mh)
		ht, hs := truncates(hc)
		r.Check(mt == ht && ms == hs, rule, "bigdecimal-truncation/"+pr.policy, "the bigdecimal operand of policy "+pr.policy+" is normalised the same way when it is merged ("+pr.mergeHelper+") and when it is written by the module ("+pr.host+")", fmt.Sprintf("merge truncates: %v (scale %s); host call truncates: %v (scale %s)", mt, ms, ht, hs), p.Pos(mh.Pos()))
	}
}

// checkMergeLimit (C11.R5): Merge writes through setKV/setNewKV, which keep the size exact but never compare it with
// the limit; the success return of Merge therefore lies behind a comparison of the size with the limit whose exceeding
// branch returns an error (D26).
func checkMergeLimit(p *core.Prog, r *core.Report, rule string) {
	fn := p.Func(pkgStore, "baseStore.Merge")
	r.Touch(core.FuncName(fn))
	size := p.Field(pkgStore, "baseStore", "totalSizeBytes")
	var within []core.Edge
	var exceed []core.Edge
	core.Instrs(fn, func(in ssa.Instruction) {
		ifi, ok := in.(*ssa.If)
		if !ok {
			return
		}
		isSize := func(v ssa.Value) bool { f, _ := core.LoadedField(core.SkipConv(v)); return f == size }
		isLimit := func(v ssa.Value) bool {
			f, _ := core.LoadedField(core.SkipConv(v))
			return f != nil && f.Name() == "totalSizeLimit"
		}
		onT, onF, ok := core.CondRelation(ifi.Cond, isSize, isLimit)
		if !ok {
			return
		}
		if onT == core.OrdGT {
			exceed = append(exceed, core.Edge{From: ifi.Block(), Idx: 0})
			within = append(within, core.Edge{From: ifi.Block(), Idx: 1})
		}
		if onF == core.OrdGT {
			exceed = append(exceed, core.Edge{From: ifi.Block(), Idx: 1})
			within = append(within, core.Edge{From: ifi.Block(), Idx: 0})
		}
	})
	// `limit > 0 &&`: a store without limit (tests) has nothing to compare with
	noLimit := func(e core.Edge) bool {
		ifi, ok := e.From.Instrs[len(e.From.Instrs)-1].(*ssa.If)
		if !ok {
			return false
		}
		onT, onF, ok := core.CondRelation(ifi.Cond, func(v ssa.Value) bool {
			f, _ := core.LoadedField(core.SkipConv(v))
			return f != nil && f.Name() == "totalSizeLimit"
		}, func(v ssa.Value) bool {
			k, ok := v.(*ssa.Const)
			return ok && k.Value != nil && k.Value.ExactString() == "0"
		})
		if !ok {
			return false
		}
		// the edge on which the limit is known not to be positive (unsigned: zero)
		if e.Idx == 0 {
			return onT&core.OrdGT == 0
		}
		return onF&core.OrdGT == 0
	}
	okErr := len(exceed) > 0
	for _, e := range exceed {
		if !core.OnlyErrorReturnsFrom(e.From.Succs[e.Idx]) {
			okErr = false
		}
	}
	q := core.PathQuery{Fn: fn, CutEdge: func(e core.Edge) bool { return containsEdge(within, e) || noLimit(e) }}
	_, reach := q.CanReach(nil, func(x ssa.Instruction) bool { return core.ReturnsConstNilError(x) })
	// …and the comparison sees the size AFTER the merge: from every write of Merge (setKV, setNewKV, deletePrefix) success is
	// still only reachable through a comparison
	nW := 0
	core.Instrs(fn, func(in ssa.Instruction) {
		c := core.CalleeOf(in)
		if c == nil || (c.Name() != "setKV" && c.Name() != "setNewKV" && c.Name() != "deletePrefix" && c.Name() != "DeletePrefix") {
			return
		}
		nW++
		if _, r2 := q.CanReach(in, func(x ssa.Instruction) bool { return core.ReturnsConstNilError(x) }); r2 {
			reach = true
		}
	})
	if nW < 10 {
		core.Undecide("Merge: only %d write calls found", nW)
	}
	r.Check(okErr && !reach, rule, "Merge/limit-after", "Merge succeeds only after the merged size was compared with the store's limit, and a size above the limit is an error (the writes of Merge bypass ApplyDelta, where the limit is tested)", fmt.Sprintf("%d comparisons of the size with the limit; success reachable without one: %v", len(exceed), reach), p.Pos(fn.Pos()))
}

// checkSkipFromIndexAbsentOutput (C15.R4): when no index file exists the filter is evaluated on the keys the index
// module produced for the block.  An index module that produced nothing on a block (no input, or filtered out itself)
// has no entry in the block's buffer: that must be "no key", as in a pre-computed index — not a panic (D23).
func checkSkipFromIndexAbsentOutput(p *core.Prog, r *core.Report, rule string) {
	fn := p.Func(pkgExec, "skipFromIndex")
	r.Touch(core.FuncName(fn))
	var get ssa.Instruction
	core.Instrs(fn, func(in ssa.Instruction) {
		if c := core.CalleeOf(in); c != nil && c.Name() == "Get" {
			get = in
		}
	})
	if get == nil {
		core.Undecide("skipFromIndex: no Get call on the block's outputs")
	}
	var notFound []core.Edge
	core.Instrs(fn, func(in ssa.Instruction) {
		ifi, ok := in.(*ssa.If)
		if !ok {
			return
		}
		c, neg := core.StripNot(ifi.Cond)
		call, ok := c.(*ssa.Call)
		if !ok {
			return
		}
		if cl := core.CommonCallee(call.Common()); cl == nil || calleeKey(cl) != "errors.Is" {
			return
		}
		tgt := call.Call.Args[1]
		isNF := false
		for v := range core.OperandSlice(tgt) {
			if g, ok := v.(*ssa.Global); ok && g.Name() == "ErrNotFound" {
				isNF = true
			}
		}
		if !isNF {
			return
		}
		idx := 0
		if neg {
			idx = 1
		}
		notFound = append(notFound, core.Edge{From: ifi.Block(), Idx: idx})
	})
	skipKeys := func(in ssa.Instruction) bool { c := core.CalleeOf(in); return c != nil && c.Name() == "SkipFromKeys" }
	ok := len(notFound) > 0
	for _, e := range notFound {
		b := e.From.Succs[e.Idx]
		q := core.PathQuery{Fn: fn}
		if _, reach := q.CanReach(b.Instrs[0], func(x ssa.Instruction) bool { _, isP := x.(*ssa.Panic); return isP }); reach {
			ok = false
		}
		if _, reach := q.CanReach(b.Instrs[0], skipKeys); !reach && !skipKeys(b.Instrs[0]) {
			ok = false
		}
	}
	// a panic on the error of Get is only reachable when the error is NOT ErrNotFound
	for _, e := range errNonNilEdges(fn, get) {
		q := core.PathQuery{Fn: fn, CutEdge: func(x core.Edge) bool {
			for _, nf := range notFound {
				if x.From == nf.From && x.Idx == 1-nf.Idx {
					return true
				}
			}
			return false
		}}
		if _, reach := q.CanReach(e.From.Succs[e.Idx].Instrs[0], func(x ssa.Instruction) bool { _, isP := x.(*ssa.Panic); return isP }); reach {
			ok = false
		}
		if _, isP := e.From.Succs[e.Idx].Instrs[0].(*ssa.Panic); isP {
			ok = false
		}
	}
	r.Check(ok, rule, "skipFromIndex/absent-index-output", "a block on which the index module produced no output is evaluated as a block without keys (SkipFromKeys on the empty set), exactly as a pre-computed index does — the missing buffer entry never panics", fmt.Sprintf("%d tests for ErrNotFound on the error of Get", len(notFound)), p.Pos(fn.Pos()))
}

// checkMarshallerContracts (C18.R3, C18.R5): every implementation of marshaller.Marshaller (a) reports, on success, a
// size computed from the content, never the constant 0 (D27), and (b) carries both parts of StoreData — the key/value
// map and the deleted prefixes — in both directions (D28).
func checkMarshallerContracts(p *core.Prog, r *core.Report, known func(rule, construct string) bool) {
	iface := p.Named(pkgMarsh, "Marshaller").Underlying().(*types.Interface)
	sd := p.Named(pkgMarsh, "StoreData")
	kvF := core.FieldOf(sd, "Kv")
	dpF := core.FieldOf(sd, "DeletePrefixes")
	pkg := p.Pkg(pkgMarsh)
	n := 0
	sc := pkg.Types.Scope()
	for _, name := range sc.Names() {
		tn, ok := sc.Lookup(name).(*types.TypeName)
		if !ok {
			continue
		}
		if _, isStruct := tn.Type().Underlying().(*types.Struct); !isStruct {
			continue
		}
		if !types.Implements(types.NewPointer(tn.Type()), iface) {
			continue
		}
		n++
		un := p.Func(pkgMarsh, name+".Unmarshal")
		ma := p.Func(pkgMarsh, name+".Marshal")
		r.Touch(core.FuncName(un))
		r.Touch(core.FuncName(ma))
		// (a) size
		okSize, nRet := true, 0
		core.Instrs(un, func(in ssa.Instruction) {
			rt, ok := in.(*ssa.Return)
			if !ok || len(rt.Results) != 3 || !core.ReturnsNilError(rt) {
				return
			}
			nRet++
			if _, isConst := core.SkipConv(rt.Results[1]).(*ssa.Const); isConst {
				okSize = false
			}
		})
		r.Check(okSize && nRet > 0, "C18.R3", name+".Unmarshal/size", "the size reported with the unmarshalled content is computed from it (total length of keys and values), never a constant", fmt.Sprintf("%d success returns; constant size: %v", nRet, !okSize), p.Pos(un.Pos()))
		// (b) both parts, both ways: fields read (Marshal) / set (Unmarshal), looking one call level down
		reads := func(fn *ssa.Function, f *types.Var) bool {
			found := false
			var visit func(fn *ssa.Function, depth int)
			visit = func(fn *ssa.Function, depth int) {
				core.Instrs(fn, func(in ssa.Instruction) {
					switch x := in.(type) {
					case *ssa.FieldAddr:
						if core.FieldOfAddr(x) == f {
							found = true
						}
					case *ssa.Field:
						if core.FieldOfValue(x) == f {
							found = true
						}
					case ssa.CallInstruction:
						if c := core.StaticFn(x.Common()); c != nil && c.Blocks != nil && depth < 2 && c.Pkg == fn.Pkg {
							visit(c, depth+1)
						}
					}
				})
			}
			visit(fn, 0)
			return found
		}
		for _, part := range []struct {
			f    *types.Var
			what string
		}{{kvF, "Kv"}, {dpF, "DeletePrefixes"}} {
			okM := reads(ma, part.f)
			okU := reads(un, part.f)
			r.Check(okM && okU, "C18.R5", name+"/carries-"+part.what, "the marshaller writes StoreData."+part.what+" and restores it when reading (every store marshaller reads back what it wrote)", fmt.Sprintf("Marshal uses the field: %v; Unmarshal sets it: %v", okM, okU), p.Pos(ma.Pos()))
		}
	}
	if n < 4 {
		core.Undecide("only %d implementations of marshaller.Marshaller found (expected Binary, Proto, ProtoingFast, VTproto)", n)
	}
	_ = token.ADD
}
