package props

import (
	"go/types"

	"golang.org/x/tools/go/ssa"

	"verif/sa/core"
)

// Delete-prefix bookkeeping of partial stores (C02.R5 / C09.R3, strengthened
// after the seeded change "reversed coverage test in trackDeletedPrefix").
//
// A prefix deleted during a segment must end up in PartialKV.DeletedPrefixes.
// The only admissible reasons to skip the append are
//   (a) that exact prefix was recorded before (lookup in the `seen` set), or
//   (b) the new prefix is covered by a recorded one: strings.HasPrefix(new, recorded).
// Any other way around the append loses a delete at merge time.

type prefixRec struct {
	p       *core.Prog
	delPref *types.Var
	seen    *types.Var
	memo    map[*ssa.Function]int
}

// directRecord: x.DeletedPrefixes = append(x.DeletedPrefixes, v) with v satisfying isPrefix.
func (pr *prefixRec) directRecord(in ssa.Instruction, isPrefix func(ssa.Value) bool) bool {
	st, ok := in.(*ssa.Store)
	if !ok {
		return false
	}
	fa, ok := st.Addr.(*ssa.FieldAddr)
	if !ok || core.FieldOfAddr(fa) != pr.delPref {
		return false
	}
	c, ok := st.Val.(*ssa.Call)
	if !ok {
		return false
	}
	b, ok := c.Call.Value.(*ssa.Builtin)
	if !ok || b.Name() != "append" {
		return false
	}
	if f, _ := core.LoadedField(c.Call.Args[0]); f != pr.delPref {
		return false
	}
	return core.SliceReachesPred(c.Call.Args[1], isPrefix, 1)
}

// skipEdges: edges of fn on which skipping the record is admissible.
func (pr *prefixRec) skipEdges(fn *ssa.Function, isPrefix func(ssa.Value) bool) []core.Edge {
	var out []core.Edge
	core.InstrsDeep(fn, func(in ssa.Instruction) {
		ifi, ok := in.(*ssa.If)
		if !ok {
			return
		}
		c, neg := core.StripNot(ifi.Cond)
		idx := 0
		if neg {
			idx = 1
		}
		switch x := c.(type) {
		case *ssa.Lookup:
			if f, _ := core.LoadedField(x.X); f == pr.seen && isPrefix(core.SkipConv(x.Index)) {
				out = append(out, core.Edge{From: ifi.Block(), Idx: idx})
			}
		case *ssa.Call:
			if cl := core.CommonCallee(x.Common()); cl != nil && calleeKey(cl) == "strings.HasPrefix" {
				// HasPrefix(new, recorded): new is covered by an already recorded prefix
				a, b := x.Call.Args[0], x.Call.Args[1]
				if isPrefix(core.SkipConv(a)) && core.Trace(b, 0).Fields[pr.delPref] {
					out = append(out, core.Edge{From: ifi.Block(), Idx: idx})
				}
			}
		}
	})
	return out
}

// records: from `from` (nil = entry) every path to a normal return of fn passes
// a record of the prefix (direct, or a call to a recorder helper with the
// prefix as argument) or an admissible skip edge.
func (pr *prefixRec) records(fn *ssa.Function, from ssa.Instruction, isPrefix func(ssa.Value) bool, stopAt func(ssa.Instruction) bool, depth int) (bool, ssa.Instruction) {
	skips := pr.skipEdges(fn, isPrefix)
	isRec := func(in ssa.Instruction) bool {
		if pr.directRecord(in, isPrefix) {
			return true
		}
		if c, ok := in.(*ssa.Call); ok && depth > 0 {
			if callee := core.StaticFn(c.Common()); callee != nil && core.IsRepo(callee) && callee.Blocks != nil {
				for i, a := range c.Call.Args {
					if isPrefix(core.SkipConv(a)) && i < len(callee.Params) {
						prm := callee.Params[i]
						ok, _ := pr.records(callee, nil, func(v ssa.Value) bool { return v == ssa.Value(prm) }, nil, depth-1)
						if ok {
							return true
						}
					}
				}
			}
		}
		return false
	}
	q := core.PathQuery{Fn: fn, CutInstr: isRec, CutEdge: func(e core.Edge) bool { return containsEdge(skips, e) }}
	exit := func(in ssa.Instruction) bool {
		if stopAt != nil && stopAt(in) {
			return true
		}
		return core.IsNormalExit(in)
	}
	hit, reached := q.CanReach(from, func(in ssa.Instruction) bool { return exit(in) && !isRec(in) })
	return !reached, hit
}

// recordsFromBlock: like records but starting AT instruction `first` (inclusive).
func (pr *prefixRec) recordsFromBlock(fn *ssa.Function, first ssa.Instruction, isPrefix func(ssa.Value) bool, stopAt func(ssa.Instruction) bool) (bool, ssa.Instruction) {
	skips := pr.skipEdges(fn, isPrefix)
	isRec := func(in ssa.Instruction) bool {
		if pr.directRecord(in, isPrefix) {
			return true
		}
		if c, ok := in.(*ssa.Call); ok {
			if callee := core.StaticFn(c.Common()); callee != nil && core.IsRepo(callee) && callee.Blocks != nil {
				for i, a := range c.Call.Args {
					if isPrefix(core.SkipConv(a)) && i < len(callee.Params) {
						prm := callee.Params[i]
						ok, _ := pr.records(callee, nil, func(v ssa.Value) bool { return v == ssa.Value(prm) }, nil, 1)
						if ok {
							return true
						}
					}
				}
			}
		}
		return false
	}
	if isRec(first) {
		return true, nil
	}
	q := core.PathQuery{Fn: fn, CutInstr: isRec, CutEdge: func(e core.Edge) bool { return containsEdge(skips, e) }}
	exit := func(in ssa.Instruction) bool {
		if stopAt != nil && stopAt(in) {
			return true
		}
		return core.IsNormalExit(in)
	}
	if exit(first) {
		return false, first
	}
	hit, reached := q.CanReach(first, func(in ssa.Instruction) bool { return exit(in) && !isRec(in) })
	return !reached, hit
}
