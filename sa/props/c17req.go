package props

import (
	"fmt"
	"go/constant"
	"go/token"
	"go/types"
	"strings"

	"golang.org/x/tools/go/ssa"

	"verif/sa/core"
)

// handlerProtocol: "connect" for a handler whose parameters are connect request/stream types, "grpc" otherwise.
func handlerProtocol(fn *ssa.Function) string {
	for _, prm := range fn.Params {
		if strings.Contains(prm.Type().String(), "connectrpc.com/connect.") {
			return "connect"
		}
	}
	return "grpc"
}

// invalidArgKind classifies the invalid-argument error built in a block: "connect" (connect.NewError with
// CodeInvalidArgument), "grpc" (status.Error/Errorf with codes.InvalidArgument), "bsstream" (NewErrInvalidArg, which
// only becomes an invalid-argument code once it went through toConnectError / toGRPCError), or "".
func invalidArgKind(b *ssa.BasicBlock) string {
	for _, in := range b.Instrs {
		c, ok := in.(*ssa.Call)
		if !ok {
			continue
		}
		cl := core.CommonCallee(c.Common())
		if cl == nil {
			continue
		}
		is3 := func(v ssa.Value) bool {
			k, ok := v.(*ssa.Const)
			return ok && k.Value != nil && k.Value.Kind() == constant.Int && k.Value.ExactString() == "3"
		}
		switch calleeKey(cl) {
		case "connectrpc.com/connect.NewError":
			if is3(c.Call.Args[0]) {
				return "connect"
			}
		case "google.golang.org/grpc/status.Error", "google.golang.org/grpc/status.Errorf":
			if is3(c.Call.Args[0]) {
				return "grpc"
			}
		}
		if cl.Name() == "NewErrInvalidArg" {
			return "bsstream"
		}
	}
	return ""
}

// checkErrorCodeMapping (C17.R2): the errors of the inner tier-1 function (blocks) reach the client through
// toConnectError.  It must keep the code of a connect error found anywhere in the chain (BuildRequestDetails rejects a
// bad cursor with a connect invalid-argument error, which blocks() wraps with %w) and map the bsstream invalid-argument
// error; the wrapping in blocks() must use %w.
func checkErrorCodeMapping(p *core.Prog, r *core.Report) {
	fn := p.Func(pkgSvc, "toConnectError")
	r.Touch(core.FuncName(fn))
	var asConnect, asInvalid []core.Edge
	core.InstrsDeep(fn, func(in ssa.Instruction) {
		ifi, ok := in.(*ssa.If)
		if !ok {
			return
		}
		c, neg := core.StripNot(ifi.Cond)
		call, ok := c.(*ssa.Call)
		if !ok {
			return
		}
		cl := core.CommonCallee(call.Common())
		if cl == nil || calleeKey(cl) != "errors.As" {
			return
		}
		tgt := call.Call.Args[1]
		if mi, ok := tgt.(*ssa.MakeInterface); ok {
			tgt = mi.X
		}
		ts := tgt.Type().String()
		idx := 0
		if neg {
			idx = 1
		}
		switch {
		case strings.HasSuffix(ts, "connectrpc.com/connect.Error"):
			asConnect = append(asConnect, core.Edge{From: ifi.Block(), Idx: idx})
		case strings.HasSuffix(ts, "ErrInvalidArg"):
			asInvalid = append(asInvalid, core.Edge{From: ifi.Block(), Idx: idx})
		}
	})
	// the found connect error is returned as it is
	okC := false
	for _, e := range asConnect {
		b := e.From.Succs[e.Idx]
		if rt, ok := b.Instrs[len(b.Instrs)-1].(*ssa.Return); ok && len(rt.Results) == 1 {
			if strings.Contains(core.SkipConv(rt.Results[0]).Type().String(), "connect.Error") || func() bool {
				mi, ok := rt.Results[0].(*ssa.MakeInterface)
				return ok && strings.Contains(mi.X.Type().String(), "connect.Error")
			}() {
				okC = true
			}
		}
	}
	r.Check(okC, "C17.R2", "toConnectError/keeps-connect-code", "a connect error anywhere in the chain (e.g. the invalid-argument error of BuildRequestDetails for a bad cursor, wrapped by blocks) keeps its code", fmt.Sprintf("%d errors.As(err, **connect.Error) tests whose success edge returns the found error", len(asConnect)), p.Pos(fn.Pos()))
	okI := false
	for _, e := range asInvalid {
		if invalidArgKind(e.From.Succs[e.Idx]) == "connect" {
			okI = true
		}
	}
	r.Check(okI, "C17.R2", "toConnectError/maps-ErrInvalidArg", "the bsstream invalid-argument error is mapped to the connect code InvalidArgument", "no errors.As(err, **ErrInvalidArg) test leading to connect.NewError(CodeInvalidArgument, …)", p.Pos(fn.Pos()))
	// the mapping is not pre-empted: the internal fallback is only reachable when both tests failed
	var fallback []ssa.Instruction
	core.Instrs(fn, func(in ssa.Instruction) {
		if c, ok := in.(*ssa.Call); ok {
			if cl := core.CommonCallee(c.Common()); cl != nil && calleeKey(cl) == "connectrpc.com/connect.NewError" {
				if k, ok := c.Call.Args[0].(*ssa.Const); ok && k.Value.ExactString() == "13" {
					fallback = append(fallback, in)
				}
			}
		}
	})
	okF := len(fallback) > 0
	for _, fb := range fallback {
		for _, set := range [][]core.Edge{asConnect, asInvalid} {
			if len(set) == 0 {
				okF = false
				continue
			}
			// every path to the fallback passes the failing edge of one of the tests of this kind
			fail := []core.Edge{}
			for _, e := range set {
				fail = append(fail, core.Edge{From: e.From, Idx: 1 - e.Idx})
			}
			q := core.PathQuery{Fn: fn, CutEdge: func(e core.Edge) bool { return containsEdge(fail, e) }}
			if _, reach := q.CanReach(nil, func(x ssa.Instruction) bool { return x == fb }); reach {
				okF = false
			}
		}
	}
	r.Check(okF, "C17.R2", "toConnectError/internal-is-last", "the code Internal is only given to an error that holds neither a connect error nor a bsstream invalid-argument error", "the Internal fallback is reachable without both tests having failed", p.Pos(fn.Pos()))
	// blocks() wraps the error of BuildRequestDetails with %w
	bl := p.Func(pkgSvc, "Tier1Service.blocks")
	brd := p.FuncObj(pkgPipe, "BuildRequestDetails")
	okW := false
	for _, c := range core.FindInstrs(bl, core.IsCallTo(brd)) {
		for _, e := range errNonNilEdges(bl, c) {
			for _, in := range e.From.Succs[e.Idx].Instrs {
				cc, ok := in.(*ssa.Call)
				if !ok {
					continue
				}
				if cl := core.CommonCallee(cc.Common()); cl != nil && calleeKey(cl) == "fmt.Errorf" {
					if k, ok := cc.Call.Args[0].(*ssa.Const); ok && strings.Contains(constant.StringVal(k.Value), "%w") {
						okW = true
					}
				}
			}
			// or returned unwrapped
			b := e.From.Succs[e.Idx]
			if rt, ok := b.Instrs[len(b.Instrs)-1].(*ssa.Return); ok {
				for _, ev := range errValueOf(c) {
					for _, res := range rt.Results {
						if res == ev {
							okW = true
						}
					}
				}
			}
		}
	}
	r.Check(okW, "C17.R2", "blocks/BuildRequestDetails-error-wrapped", "the (invalid-argument) error of BuildRequestDetails is returned as it is or wrapped with %w, so that toConnectError finds it", "error branch neither returns the error nor wraps it with %w", p.Pos(bl.Pos()))
	// a stop block below the resolved start block is refused before planning
	start := p.Field("reqctx", "RequestDetails", "ResolvedStartBlockNum")
	plan := p.FuncObj(pkgPlan, "BuildTier1RequestPlan")
	var okEdges []core.Edge
	// (the tests may sit in a helper of the package that is handed the two numbers)
	fieldOfV := func(v ssa.Value) *types.Var {
		if f, _ := core.LoadedField(core.SkipConv(v)); f != nil {
			return f
		}
		if cv := core.CallerValue(bl, v); cv != v {
			f, _ := core.LoadedField(core.SkipConv(cv))
			return f
		}
		return nil
	}
	core.InstrsDeep(bl, func(in ssa.Instruction) {
		ifi, ok := in.(*ssa.If)
		if !ok {
			return
		}
		isStart := func(v ssa.Value) bool { return fieldOfV(v) == start }
		isStop := func(v ssa.Value) bool {
			f := fieldOfV(v)
			return f != nil && f.Name() == "StopBlockNum"
		}
		onT, onF, ok := core.CondRelation(ifi.Cond, isStart, isStop)
		if !ok {
			return
		}
		// the edge on which start <= stop is known
		if onT&core.OrdGT == 0 {
			okEdges = append(okEdges, core.Edge{From: ifi.Block(), Idx: 0})
		}
		if onF&core.OrdGT == 0 {
			okEdges = append(okEdges, core.Edge{From: ifi.Block(), Idx: 1})
		}
	})
	isZeroStop := func(e core.Edge) bool {
		// `stop != 0` false edge: an open-ended request has no stop block to compare with
		ifi, ok := e.From.Instrs[len(e.From.Instrs)-1].(*ssa.If)
		if !ok {
			return false
		}
		c, neg := core.StripNot(ifi.Cond)
		bo, ok := c.(*ssa.BinOp)
		if !ok || (bo.Op != token.NEQ && bo.Op != token.EQL) {
			return false
		}
		k, ok := bo.Y.(*ssa.Const)
		if !ok || k.Value == nil || k.Value.ExactString() != "0" {
			return false
		}
		f := fieldOfV(bo.X)
		if f == nil || f.Name() != "StopBlockNum" {
			return false
		}
		zeroIdx := 1
		if (bo.Op == token.EQL) != neg {
			zeroIdx = 0
		}
		return e.Idx == zeroIdx
	}
	okS := len(okEdges) > 0
	for _, c := range core.FindInstrs(bl, core.IsCallTo(plan)) {
		q := core.PathQuery{Fn: bl, CutEdge: func(e core.Edge) bool { return containsEdge(okEdges, e) || isZeroStop(e) }}
		// both the `==` and the `>` tests contribute: the plan is reachable only when start < stop or stop == 0
		if _, reach := q.CanReach(nil, func(x ssa.Instruction) bool { return x == c }); reach {
			okS = false
		}
	}
	r.Check(okS, "C17.R2", "blocks/stop-before-start-refused", "the request plan is only built when the stop block is above the resolved start block (or absent): a stop block below the start is refused as an invalid argument instead of failing in the planner", "BuildTier1RequestPlan is reachable with stop <= start", p.Pos(bl.Pos()))
}

var _ = types.Typ

// ---------------------------------------------------------------------------------------------------------------
// checkStageIndexBound (C17.R1): the staged module list is indexed by a stage number that comes from the (tier-2)
// request.  Every function that indexes the staged list with a value depending on one of its parameters passes the
// obligation to its callers; a caller whose argument comes from a request field must compare it with the number of
// stages first (the call is reachable only on the `stage < len(staged)` edge of such a comparison).
func checkStageIndexBound(p *core.Prog, r *core.Report) {
	stagesT := p.Named(pkgExec, "ExecutionStages")
	isStaged := func(v ssa.Value) bool {
		t := v.Type()
		if pt, ok := t.(*types.Pointer); ok {
			t = pt.Elem()
		}
		return core.IsNamed(t, stagesT)
	}
	type key struct {
		fn  *ssa.Function
		prm int
	}
	indexers := map[key]bool{}
	fns := p.RepoFunctions()
	paramDeps := func(fn *ssa.Function, vals ...ssa.Value) []int {
		var out []int
		for _, v := range vals {
			sl := core.OperandSlice(v)
			for i, prm := range fn.Params {
				// only a parameter that IS a number (the stage): a request passed as a whole is a source, not a conduit
				if b, ok := prm.Type().Underlying().(*types.Basic); ok && b.Info()&types.IsInteger != 0 && sl[prm] {
					out = append(out, i)
				}
			}
		}
		return out
	}
	// direct indexers
	for _, fn := range fns {
		if p.IsTestFunc(fn) || fn.Blocks == nil {
			continue
		}
		core.Instrs(fn, func(in ssa.Instruction) {
			var base, idx ssa.Value
			switch x := in.(type) {
			case *ssa.IndexAddr:
				base, idx = x.X, x.Index
			case *ssa.Index:
				base, idx = x.X, x.Index
			default:
				return
			}
			if !isStaged(base) {
				return
			}
			vals := []ssa.Value{idx}
			// the index may be a loop counter bounded by a parameter
			for _, l := range core.Loops(fn) {
				if !l.Body[in.Block()] {
					continue
				}
				for _, ex := range l.BoundExits {
					if ifi, ok := ex.From.Instrs[len(ex.From.Instrs)-1].(*ssa.If); ok {
						vals = append(vals, ifi.Cond)
					}
				}
			}
			for _, i := range paramDeps(fn, vals...) {
				indexers[key{fn, i}] = true
			}
		})
	}
	// propagate to callers whose argument depends on their own parameter; collect root call sites
	type site struct {
		caller *ssa.Function
		call   ssa.CallInstruction
		arg    ssa.Value
		callee *ssa.Function
	}
	var roots []site
	for changed := true; changed; {
		changed = false
		roots = roots[:0]
		for _, fn := range fns {
			if p.IsTestFunc(fn) || fn.Blocks == nil {
				continue
			}
			core.Instrs(fn, func(in ssa.Instruction) {
				ci, ok := in.(ssa.CallInstruction)
				if !ok {
					return
				}
				cal := core.StaticFn(ci.Common())
				if cal == nil {
					return
				}
				for i, a := range ci.Common().Args {
					if !indexers[key{cal, i}] {
						continue
					}
					deps := paramDeps(fn, a)
					if len(deps) > 0 {
						for _, d := range deps {
							if !indexers[key{fn, d}] {
								indexers[key{fn, d}] = true
								changed = true
							}
						}
						continue
					}
					roots = append(roots, site{fn, ci, a, cal})
				}
			})
		}
	}
	if len(indexers) < 3 {
		core.Undecide("stage-index: only %d stage-indexing (function, parameter) pairs found", len(indexers))
	}
	n := 0
	for _, s := range roots {
		src := core.Trace(s.arg, 0)
		fromRequest := ""
		for f := range src.Fields {
			if isRequestMessage(types.NewPointer(ownerNamed(f))) {
				fromRequest = fieldKey(f)
			}
		}
		if fromRequest == "" {
			continue // a stage number computed by the server itself (loop counters, unit of the scheduler)
		}
		n++
		fn := s.caller
		isStage := func(v ssa.Value) bool {
			for f := range core.Trace(v, 0).Fields {
				if fieldKey(f) == fromRequest {
					return true
				}
			}
			return false
		}
		isLen := func(v ssa.Value) bool {
			for x := range core.OperandSlice(v) {
				if c, ok := x.(*ssa.Call); ok {
					if b, ok := c.Call.Value.(*ssa.Builtin); ok && b.Name() == "len" && isStaged(c.Call.Args[0]) {
						return true
					}
				}
			}
			return false
		}
		var inRange []core.Edge
		core.InstrsDeep(fn, func(in ssa.Instruction) {
			ifi, ok := in.(*ssa.If)
			if !ok {
				return
			}
			onT, onF, ok := core.CondRelation(ifi.Cond, isStage, isLen)
			if !ok {
				return
			}
			if onT == core.OrdLT {
				inRange = append(inRange, core.Edge{From: ifi.Block(), Idx: 0})
			}
			if onF == core.OrdLT {
				inRange = append(inRange, core.Edge{From: ifi.Block(), Idx: 1})
			}
		})
		q := core.PathQuery{Fn: fn, CutEdge: func(e core.Edge) bool { return containsEdge(inRange, e) }}
		_, reach := q.CanReach(nil, func(x ssa.Instruction) bool { return x == s.call.(ssa.Instruction) })
		r.Check(len(inRange) > 0 && !reach, "C17.R1", fmt.Sprintf("stage-index/%s→%s", core.FuncName(fn), s.callee.Name()),
			"a stage number taken from the request ("+fromRequest+") indexes the staged module list only after it was compared with the number of stages (stage < len(StagedUsedModules()))",
			fmt.Sprintf("%d bound tests; call reachable without one: %v", len(inRange), reach), p.Pos(s.call.Pos()))
	}
	if n < 2 {
		core.Undecide("stage-index: only %d request-derived stage arguments found (expected the tier-2 handler's)", n)
	}
}

// ---------------------------------------------------------------------------------------------------------------
// checkOverflowGuards (C17.R1): the two places where validation/planning multiplies or rounds up request numbers are
// protected against wrap-around: (SegmentNumber+1)*SegmentSize in the tier-2 validation (a wrapped stop block gave a
// job whose stop is below its start and a nil dereference when its files were closed) and the segment boundary
// following the stop block in computeLinearHandoffBlockNum.
func checkOverflowGuards(p *core.Prog, r *core.Report) {
	// (a) every uint64 product of two request fields in the methods of ProcessRangeRequest is covered by a guard in
	// Validate: SegmentNumber >= MaxUint64/SegmentSize → error, placed before the first product
	val := p.Func("pb/sf/substreams/intern/v2", "ProcessRangeRequest.Validate")
	r.Touch(core.FuncName(val))
	isFld := func(name string) func(ssa.Value) bool {
		return func(v ssa.Value) bool {
			f, _ := core.LoadedField(core.SkipConv(v))
			return f != nil && f.Name() == name
		}
	}
	isQuo := func(v ssa.Value) bool {
		bo, ok := core.SkipConv(v).(*ssa.BinOp)
		if !ok || bo.Op != token.QUO {
			return false
		}
		k, ok := bo.X.(*ssa.Const)
		if !ok || k.Value == nil || k.Value.ExactString() != "18446744073709551615" {
			return false
		}
		return isFld("SegmentSize")(bo.Y)
	}
	var safe []core.Edge
	core.InstrsDeep(val, func(in ssa.Instruction) {
		ifi, ok := in.(*ssa.If)
		if !ok {
			return
		}
		onT, onF, ok := core.CondRelation(ifi.Cond, isFld("SegmentNumber"), isQuo)
		if !ok {
			return
		}
		if onT == core.OrdLT {
			safe = append(safe, core.Edge{From: ifi.Block(), Idx: 0})
		}
		if onF == core.OrdLT {
			safe = append(safe, core.Edge{From: ifi.Block(), Idx: 1})
		}
	})
	var muls []ssa.Instruction
	core.Instrs(val, func(in ssa.Instruction) {
		if bo, ok := in.(*ssa.BinOp); ok && bo.Op == token.MUL {
			if _, c := bo.X.(*ssa.Const); c {
				return
			}
			if _, c := bo.Y.(*ssa.Const); c {
				return
			}
			muls = append(muls, in)
		}
	})
	q := core.PathQuery{Fn: val, CutEdge: func(e core.Edge) bool { return containsEdge(safe, e) }}
	okMul := len(muls) > 0 && len(safe) > 0
	for _, m := range muls {
		if _, reach := q.CanReach(nil, func(x ssa.Instruction) bool { return x == m }); reach {
			okMul = false
		}
	}
	// …and a success return of Validate as well (StartBlock()/StopBlock() compute the same product after validation)
	if _, reach := q.CanReach(nil, func(x ssa.Instruction) bool { return core.ReturnsConstNilError(x) }); reach {
		okMul = false
	}
	r.Check(okMul, "C17.R1", "overflow/ProcessRangeRequest.Validate", "(SegmentNumber+1)*SegmentSize cannot wrap around: Validate only succeeds (and only computes the product) behind SegmentNumber < MaxUint64/SegmentSize", fmt.Sprintf("%d products, %d guard edges", len(muls), len(safe)), p.Pos(val.Pos()))
	// the guard needs SegmentSize != 0 first (division)
	var nonZero []core.Edge
	core.InstrsDeep(val, func(in ssa.Instruction) {
		ifi, ok := in.(*ssa.If)
		if !ok {
			return
		}
		c, neg := core.StripNot(ifi.Cond)
		bo, ok := c.(*ssa.BinOp)
		if !ok || (bo.Op != token.EQL && bo.Op != token.NEQ) || !isFld("SegmentSize")(bo.X) {
			return
		}
		if k, ok := bo.Y.(*ssa.Const); !ok || k.Value == nil || k.Value.ExactString() != "0" {
			return
		}
		idx := 0
		if (bo.Op == token.EQL) != neg {
			idx = 1
		}
		nonZero = append(nonZero, core.Edge{From: ifi.Block(), Idx: idx})
	})
	okDiv := len(nonZero) > 0
	qz := core.PathQuery{Fn: val, CutEdge: func(e core.Edge) bool { return containsEdge(nonZero, e) }}
	if _, reach := qz.CanReach(nil, func(x ssa.Instruction) bool {
		bo, ok := x.(*ssa.BinOp)
		return ok && (bo.Op == token.QUO || bo.Op == token.REM) && isFld("SegmentSize")(bo.Y)
	}); reach {
		okDiv = false
	}
	r.Check(okDiv, "C17.R1", "overflow/ProcessRangeRequest.Validate/nonzero-size", "the division by SegmentSize in the guard is only evaluated after SegmentSize == 0 was refused", "a division by SegmentSize is reachable without the zero test", p.Pos(val.Pos()))

	// (b) the boundary following the stop block
	h0 := p.Func(pkgPipe, "computeLinearHandoffBlockNum")
	r.Touch(core.FuncName(h0))
	// the function itself and the helpers of the package that receive the stop block (the rounding extracted)
	type target struct {
		fn   *ssa.Function
		stop *ssa.Parameter
	}
	targets := []target{{h0, h0.Params[2]}}
	okPropagated := true
	core.Instrs(h0, func(in ssa.Instruction) {
		ci, ok := in.(ssa.CallInstruction)
		if !ok {
			return
		}
		hh := core.StaticFn(ci.Common())
		if hh == nil || hh.Blocks == nil || hh.Pkg != h0.Pkg || hh.Parent() != nil {
			return
		}
		for i, a := range ci.Common().Args {
			if a == ssa.Value(h0.Params[2]) && i < len(hh.Params) {
				targets = append(targets, target{hh, hh.Params[i]})
				r.Touch(core.FuncName(hh))
				if !core.ErrorTested(in) {
					okPropagated = false
				}
			}
		}
	})
	n, bad := 0, 0
	for _, tg := range targets {
		h, stopP := tg.fn, tg.stop
		core.Instrs(h, func(in ssa.Instruction) {
			bo, ok := in.(*ssa.BinOp)
			if !ok || bo.Op != token.ADD {
				return
			}
			if _, c := bo.X.(*ssa.Const); c {
				return
			}
			if _, c := bo.Y.(*ssa.Const); c {
				return
			}
			if !core.OperandSlice(bo)[stopP] {
				return
			}
			n++
			// post-check: result < stopBlock → error return; every other use of the sum lies behind the not-wrapped edge
			var wrapped, fine []core.Edge
			core.InstrsDeep(h, func(x ssa.Instruction) {
				ifi, ok := x.(*ssa.If)
				if !ok {
					return
				}
				isSum := func(v ssa.Value) bool { return core.OperandSlice(v)[bo] && !hasOtherArith(v, bo) }
				isStop := func(v ssa.Value) bool { return core.SkipConv(v) == ssa.Value(stopP) }
				onT, onF, ok := core.CondRelation(ifi.Cond, isSum, isStop)
				if !ok {
					return
				}
				if onT == core.OrdLT {
					wrapped = append(wrapped, core.Edge{From: ifi.Block(), Idx: 0})
					fine = append(fine, core.Edge{From: ifi.Block(), Idx: 1})
				}
				if onF == core.OrdLT {
					wrapped = append(wrapped, core.Edge{From: ifi.Block(), Idx: 1})
					fine = append(fine, core.Edge{From: ifi.Block(), Idx: 0})
				}
			})
			ok2 := len(wrapped) > 0
			for _, e := range wrapped {
				b := e.From.Succs[e.Idx]
				if invalidArgKind(b) == "" || !core.OnlyErrorReturnsFrom(b) {
					ok2 = false
				}
			}
			// no return of the function is reachable from the sum without passing the wrap test
			q := core.PathQuery{Fn: h, CutEdge: func(e core.Edge) bool { return containsEdge(fine, e) || containsEdge(wrapped, e) }}
			if _, reach := q.CanReach(in, func(x ssa.Instruction) bool { _, isRet := x.(*ssa.Return); return isRet }); reach {
				ok2 = false
			}
			if !ok2 {
				bad++
			}
		})
	}
	if !okPropagated {
		bad++
	}
	h := h0
	r.Check(n > 0 && bad == 0, "C17.R1", "overflow/computeLinearHandoffBlockNum", "the segment boundary following the stop block is tested for wrap-around (boundary < stop → invalid argument) before anything is returned", fmt.Sprintf("%d sums derived from the stop block, %d without the wrap test", n, bad), p.Pos(h.Pos()))
}

func hasOtherArith(v ssa.Value, except *ssa.BinOp) bool {
	for x := range core.OperandSlice(v) {
		if b, ok := x.(*ssa.BinOp); ok && b != except && core.OperandSlice(b)[except] {
			switch b.Op {
			case token.ADD, token.SUB, token.MUL, token.QUO, token.REM:
				return true
			}
		}
	}
	return false
}

// ---------------------------------------------------------------------------------------------------------------
// checkOptionalMessageDerefs (C17.R1): singular message fields of the request messages (Module.Output,
// Module.BlockFilter, Request.Modules, …) are nil when the client left them out.  In every function reachable from the
// two handlers, such a field is dereferenced only behind a nil test of that field in the same function (the generated
// getters are nil-safe and are not concerned), or under a recorded, separately verified precondition.  Oneof wrappers
// are excluded: the decoder never produces a wrapper with a nil payload.
func checkOptionalMessageDerefs(p *core.Prog, r *core.Report) {
	cg := p.CallGraph(false)
	reach := core.Reachable(cg, p.Func(pkgSvc, "Tier1Service.Blocks"), p.Func(pkgSvc, "Tier2Service.ProcessRange"),
		p.Func(pkgSvc, "Tier1Service.blocks"), p.Func(pkgSvc, "Tier2Service.processRange"))
	allow := map[string]string{
		"service.ValidateTier1Request/Request.Modules":             "P-modules-non-nil: Blocks refuses a nil module list before validating (C17.R2 Tier1Service.Blocks/missing-modules)",
		"service.ValidateTier2Request/ProcessRangeRequest.Modules": "P-modules-non-nil: ProcessRange refuses a nil module list before validating (C17.R2 Tier2Service.ProcessRange/missing-modules)",
	}
	clientSent := requestMessageClosure(p)
	if len(clientSent) < 8 {
		core.Undecide("optional-message: only %d message types found in the closure of the two request messages", len(clientSent))
	}
	n, nFn := 0, 0
	seen := map[string]bool{}
	for fn := range reach {
		if !core.IsRepo(fn) || fn.Blocks == nil || p.IsTestFunc(fn) || isGenerated(p, fn) {
			continue
		}
		nFn++
		type dsite struct {
			in ssa.Instruction
			f  *types.Var
		}
		var sites []dsite
		type gsite struct {
			in   ssa.Instruction
			call *ssa.Call
			fn   *types.Func
		}
		var getterSites []gsite
		core.Instrs(fn, func(in ssa.Instruction) {
			fa, ok := in.(*ssa.FieldAddr)
			if !ok {
				return
			}
			f, _ := core.LoadedField(fa.X)
			if f == nil {
				// the result of a generated getter (GetParams(), GetBlockFilter(), …): nil when the field — or the oneof
				// alternative — is absent; dereferencing it needs a nil test of that very result
				if gc, ok := fa.X.(*ssa.Call); ok {
					if cl := core.CommonCallee(gc.Common()); cl != nil && strings.HasPrefix(cl.Name(), "Get") && cl.Pkg() != nil && strings.Contains(cl.Pkg().Path(), "/pb/sf/substreams") {
						if sig, ok := cl.Type().(*types.Signature); ok && sig.Recv() != nil && sig.Results().Len() == 1 {
							if pt, ok := sig.Results().At(0).Type().(*types.Pointer); ok {
								if _, isStruct := pt.Elem().Underlying().(*types.Struct); isStruct {
									recvT := sig.Recv().Type()
									if rp, ok := recvT.(*types.Pointer); ok {
										recvT = rp.Elem()
									}
									if clientSent[recvT.String()] {
										getterSites = append(getterSites, gsite{in, gc, cl})
									}
								}
							}
						}
					}
				}
				return
			}
			if f.Pkg() == nil || !strings.Contains(f.Pkg().Path(), "/pb/sf/substreams") {
				return
			}
			pt, isPtr := f.Type().(*types.Pointer)
			if !isPtr {
				return
			}
			if _, isStruct := pt.Elem().Underlying().(*types.Struct); !isStruct {
				return
			}
			owner := ownerNamed(f)
			if strings.HasSuffix(owner.String(), "_") || !clientSent[owner.String()] {
				return // oneof wrapper, or not (part of) a message a client sends
			}
			sites = append(sites, dsite{in, f})
		})
		for _, g := range getterSites {
			var nonNil []core.Edge
			for _, ref := range *g.call.Referrers() {
				bo, ok := ref.(*ssa.BinOp)
				if !ok || (bo.Op != token.EQL && bo.Op != token.NEQ) {
					continue
				}
				if k, ok := bo.Y.(*ssa.Const); !ok || !k.IsNil() {
					continue
				}
				for _, rr := range *bo.Referrers() {
					if ifi, ok := rr.(*ssa.If); ok {
						idx := 0
						if bo.Op == token.EQL {
							idx = 1
						}
						nonNil = append(nonNil, core.Edge{From: ifi.Block(), Idx: idx})
					}
				}
			}
			// the other idiom: the site lies in the case of a type switch (or behind a checked type assertion) on the oneof
			// wrapper that the getter unwraps — `case *Module_Input_Source_: … input.GetSource().Type`
			want := strings.TrimPrefix(g.fn.Name(), "Get")
			core.Instrs(fn, func(x ssa.Instruction) {
				ta, ok := x.(*ssa.TypeAssert)
				if !ok || !ta.CommaOk {
					return
				}
				pt, ok := ta.AssertedType.(*types.Pointer)
				if !ok {
					return
				}
				nt, ok := pt.Elem().(*types.Named)
				if !ok || !strings.HasSuffix(nt.Obj().Name(), "_"+want+"_") && !strings.HasSuffix(nt.Obj().Name(), "_"+want) {
					return
				}
				for _, ref := range *ta.Referrers() {
					ex, ok := ref.(*ssa.Extract)
					if !ok || ex.Index != 1 {
						continue
					}
					for _, rr := range *ex.Referrers() {
						if ifi, ok := rr.(*ssa.If); ok {
							nonNil = append(nonNil, core.Edge{From: ifi.Block(), Idx: 0})
						}
					}
				}
			})
			key := strings.NewReplacer("(", "", ")", "", "*", "").Replace(core.FuncName(fn)) + "/" + g.fn.Name() + "()"
			q := core.PathQuery{Fn: fn, CutEdge: func(e core.Edge) bool { return containsEdge(nonNil, e) }}
			_, unguarded := q.CanReach(nil, func(x ssa.Instruction) bool { return x == g.in })
			if len(nonNil) > 0 && !unguarded {
				if !seen[key] {
					n++
					seen[key] = true
					r.Pass("C17.R1", "optional-message/"+key, "the result of the getter is dereferenced only behind a nil test of that result")
				}
				continue
			}
			if key == "storage/store.NewConfigMap/GetKindStore()" {
				// P-stores-only: every caller passes Graph.Stores(), i.e. the result of ModuleGraph.StoresDownTo, which keeps the
				// modules of kind store only (its kind filter is decided under C14.R6)
				okPre := true
				stores := p.FuncObj(pkgExec, "Graph.Stores")
				if node := cg.Nodes[fn]; node == nil || len(node.In) == 0 {
					okPre = false
				} else {
					for _, in := range node.In {
						if in.Site == nil || !core.Trace(in.Site.Common().Args[1], 0).HasCall(stores) {
							okPre = false
						}
					}
				}
				sd := p.Func(pkgMani, "ModuleGraph.StoresDownTo")
				filtered := false
				core.Instrs(sd, func(x ssa.Instruction) {
					if c := core.CalleeOf(x); c != nil && c.Name() == "GetKindStore" {
						filtered = true
					}
				})
				if okPre && filtered {
					if !seen[key] {
						n++
						seen[key] = true
						r.Add(&core.Obligation{Rule: "C17.R1", Construct: "optional-message/" + key, Desc: "the getter result is dereferenced under a verified precondition [P-stores-only: both callers pass Graph.Stores() = StoresDownTo(…), which keeps modules whose GetKindStore() is non-nil]", Status: core.OK, Sites: []string{p.Pos(g.in.Pos())}})
					}
					continue
				}
			}
			seen[key] = true
			r.Fail("C17.R1", "optional-message/"+key, "the result of a generated getter of a request message (nil when the field or the oneof alternative is absent) is dereferenced only behind a nil test of that result", "dereference of the result of "+g.fn.Name()+"() without a nil test in "+core.FuncName(fn), p.Pos(g.in.Pos()))
		}
		for _, s := range sites {
			var nonNil []core.Edge
			core.InstrsDeep(fn, func(in ssa.Instruction) {
				ifi, ok := in.(*ssa.If)
				if !ok {
					return
				}
				c, neg := core.StripNot(ifi.Cond)
				bo, ok := c.(*ssa.BinOp)
				if !ok || (bo.Op != token.EQL && bo.Op != token.NEQ) {
					return
				}
				if k, ok := bo.Y.(*ssa.Const); !ok || !k.IsNil() {
					return
				}
				if f, _ := core.LoadedField(bo.X); f != s.f {
					return
				}
				idx := 0
				if (bo.Op == token.EQL) != neg {
					idx = 1
				}
				nonNil = append(nonNil, core.Edge{From: ifi.Block(), Idx: idx})
			})
			key := strings.TrimPrefix(core.FuncName(fn), "*") + "/" + fieldKey(s.f)
			key = strings.NewReplacer("(", "", ")", "", "*", "").Replace(key)
			q := core.PathQuery{Fn: fn, CutEdge: func(e core.Edge) bool { return containsEdge(nonNil, e) }}
			_, unguarded := q.CanReach(nil, func(x ssa.Instruction) bool { return x == s.in })
			if !unguarded && len(nonNil) > 0 {
				if !seen[key] {
					n++
					seen[key] = true
					r.Pass("C17.R1", "optional-message/"+key, "the optional message field is dereferenced only behind a nil test")
				}
				continue
			}
			// not guarded here: a helper extracted from a guarded block is fine when EVERY call site of the function lies
			// behind a nil test of that field in its caller
			if node := cg.Nodes[fn]; node != nil && len(node.In) > 0 {
				allGuarded := true
				for _, in := range node.In {
					caller := in.Caller.Func
					if in.Site == nil || caller == nil || caller.Blocks == nil {
						allGuarded = false
						break
					}
					var cNonNil []core.Edge
					core.InstrsDeep(caller, func(x ssa.Instruction) {
						ifi, ok := x.(*ssa.If)
						if !ok {
							return
						}
						c, neg := core.StripNot(ifi.Cond)
						bo, ok := c.(*ssa.BinOp)
						if !ok || (bo.Op != token.EQL && bo.Op != token.NEQ) {
							return
						}
						if k, ok := bo.Y.(*ssa.Const); !ok || !k.IsNil() {
							return
						}
						if f, _ := core.LoadedField(bo.X); f != s.f {
							return
						}
						idx := 0
						if (bo.Op == token.EQL) != neg {
							idx = 1
						}
						cNonNil = append(cNonNil, core.Edge{From: ifi.Block(), Idx: idx})
					})
					qc := core.PathQuery{Fn: caller, CutEdge: func(e core.Edge) bool { return containsEdge(cNonNil, e) }}
					if _, reach := qc.CanReach(nil, func(x ssa.Instruction) bool { return x == in.Site.(ssa.Instruction) }); reach || len(cNonNil) == 0 {
						allGuarded = false
						break
					}
				}
				if allGuarded {
					if !seen[key] {
						n++
						seen[key] = true
						r.Pass("C17.R1", "optional-message/"+key, "the optional message field is dereferenced in a helper whose every call site lies behind a nil test of that field")
					}
					continue
				}
			}
			if why, ok := allow[key]; ok {
				if !seen[key] {
					n++
					seen[key] = true
					r.Add(&core.Obligation{Rule: "C17.R1", Construct: "optional-message/" + key, Desc: "the optional message field is dereferenced under a verified precondition [" + why + "]", Status: core.OK, Sites: []string{p.Pos(s.in.Pos())}})
				}
				continue
			}
			seen[key] = true
			r.Fail("C17.R1", "optional-message/"+key, "a message field that the client may leave out is dereferenced only behind a nil test (or read through its nil-safe getter)", "dereference of "+fieldKey(s.f)+" reachable without a nil test of that field in "+core.FuncName(fn), p.Pos(s.in.Pos()))
		}
	}
	if nFn < 300 || n < 6 {
		core.Undecide("optional-message: %d functions reachable from the handlers, %d guarded dereference sites (expected >= 300, >= 6)", nFn, n)
	}
}

// requestMessageClosure: the message types a client can send — the two request messages and every message reachable
// from their fields (through pointers, slices, maps and oneof wrappers).
func requestMessageClosure(p *core.Prog) map[string]bool {
	out := map[string]bool{}
	var visit func(t types.Type)
	visit = func(t types.Type) {
		switch x := t.(type) {
		case *types.Pointer:
			visit(x.Elem())
		case *types.Slice:
			visit(x.Elem())
		case *types.Map:
			visit(x.Elem())
		case *types.Named:
			if x.Obj().Pkg() == nil || !strings.HasPrefix(x.Obj().Pkg().Path(), core.ModPath+"/pb/") {
				return
			}
			if out[x.String()] {
				return
			}
			switch u := x.Underlying().(type) {
			case *types.Struct:
				out[x.String()] = true
				for i := 0; i < u.NumFields(); i++ {
					visit(u.Field(i).Type())
				}
			case *types.Interface:
				// a oneof: every wrapper struct of the package implementing it
				out[x.String()] = true
				sc := x.Obj().Pkg().Scope()
				for _, nm := range sc.Names() {
					tn, ok := sc.Lookup(nm).(*types.TypeName)
					if !ok {
						continue
					}
					if _, isStruct := tn.Type().Underlying().(*types.Struct); !isStruct {
						continue
					}
					if types.Implements(types.NewPointer(tn.Type()), u) && u.NumMethods() > 0 {
						visit(tn.Type())
					}
				}
			}
		}
	}
	visit(p.Named("pb/sf/substreams/rpc/v2", "Request"))
	visit(p.Named("pb/sf/substreams/intern/v2", "ProcessRangeRequest"))
	return out
}
