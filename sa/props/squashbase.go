package props

import (
	"fmt"
	"go/token"

	"golang.org/x/tools/go/ssa"

	"verif/sa/core"
)

// checkSquashBase (C07.R5, C01.R6, C05.R4): a partial is merged into the full store that stands exactly at the
// partial's start block.  The squasher may skip segments whose full snapshot already exists, so "the store left by the
// previous merge" is not that store in general; getStore hands the in-memory store out only when it is at the
// requested block and otherwise reloads the snapshot of that block.
func checkSquashBase(p *core.Prog, r *core.Report, rule string) {
	fn := p.Func(pkgStage, "Stages.singleSquash")
	gs := p.Func(pkgStage, "StoreModuleState.getStore")
	r.Touch(core.FuncName(fn), core.FuncName(gs))
	sms := p.Named(pkgStage, "StoreModuleState")
	cachedF, lastF := core.FieldOf(sms, "cachedStore"), core.FieldOf(sms, "lastBlockInStore")
	rngT := p.Named(pkgBlock, "Range")
	startF, endF := core.FieldOf(rngT, "StartBlock"), core.FieldOf(rngT, "ExclusiveEndBlock")
	// the merge unit's range
	var rng ssa.Value
	for _, c := range core.FindInstrs(fn, core.IsCallTo(p.FuncObj(pkgBlock, "Segmenter.Range"))) {
		rng = c.(ssa.Value)
	}
	if rng == nil {
		core.Undecide("singleSquash: range of the merge unit not found")
	}
	isRngField := func(v ssa.Value, f interface{}) bool {
		g, base := core.LoadedField(core.SkipConv(v))
		return g != nil && g == f && base == rng
	}
	var merges []*ssa.Call
	core.Instrs(fn, func(in ssa.Instruction) {
		if c, ok := in.(*ssa.Call); ok {
			if cl := core.CommonCallee(c.Common()); cl != nil && cl.Name() == "Merge" && cl.Pkg() != nil && cl.Pkg().Path() == core.ModPath+"/"+pkgStore {
				merges = append(merges, c)
			}
		}
	})
	if len(merges) != 1 {
		core.Undecide("singleSquash: expected one Merge call, found %d", len(merges))
	}
	m := merges[0]
	// receiver: (embedded baseStore of) the FullKV returned by getStore(ctx, rng.StartBlock), and nothing else
	recv := m.Call.Args[0]
	for {
		if fa, ok := recv.(*ssa.FieldAddr); ok {
			recv = fa.X
			continue
		}
		if u, ok := recv.(*ssa.UnOp); ok && u.Op == token.MUL {
			if fa, ok := u.X.(*ssa.FieldAddr); ok {
				recv = fa.X
				continue
			}
		}
		break
	}
	okBase := false
	if ex, ok := recv.(*ssa.Extract); ok && ex.Index == 0 {
		if c, ok := ex.Tuple.(*ssa.Call); ok && core.CommonCallee(c.Common()) == p.FuncObj(pkgStage, "StoreModuleState.getStore") {
			okBase = isRngField(c.Call.Args[len(c.Call.Args)-1], startF)
		}
	}
	r.Check(okBase, rule, "singleSquash/merge-base", "the store a partial is merged into is getStore(range.StartBlock): the full store standing exactly at the partial's first block (never simply the store left by the previous merge, since completed segments are skipped)", "the receiver of Merge is not the result of getStore(rng.StartBlock)", p.Pos(m.Pos()))
	// the partial merged is the one of the same range
	okPart := false
	part := m.Call.Args[1]
	if u, ok := part.(*ssa.UnOp); ok && u.Op == token.MUL {
		// captured by the asynchronous delete closure, hence a cell: its single store
		if sts := core.StoresTo(u.X); len(sts) == 1 {
			part = sts[0].Val
		}
	}
	if ex, ok := part.(*ssa.Extract); ok {
		if c, ok := ex.Tuple.(*ssa.Call); ok && core.CommonCallee(c.Common()) == p.FuncObj(pkgStage, "getPartialOrFullKV") {
			okPart = c.Call.Args[len(c.Call.Args)-1] == rng
		}
	}
	r.Check(okPart, rule, "singleSquash/merge-partial", "the partial merged is the one loaded for the merge unit's own range", "the partial does not come from getPartialOrFullKV(…, rng)", p.Pos(m.Pos()))
	// position bookkeeping: after a merge (and after adopting a full snapshot) the store is recorded at the range's end
	isPosStore := func(in ssa.Instruction) bool {
		st, ok := in.(*ssa.Store)
		if !ok {
			return false
		}
		fa, ok := st.Addr.(*ssa.FieldAddr)
		return ok && core.FieldOfAddr(fa) == lastF && isRngField(st.Val, endF)
	}
	_, okPos := core.MustReachAfter(fn, m, isPosStore, func(in ssa.Instruction) bool {
		rt, ok := in.(*ssa.Return)
		return ok && core.ReturnsNilError(rt)
	})
	r.Check(okPos, rule, "singleSquash/position-after-merge", "after a successful merge the store is recorded as standing at the range's exclusive end", "a success path after Merge does not set lastBlockInStore to rng.ExclusiveEndBlock", p.Pos(m.Pos()))
	okAdopt := true
	nAdopt := 0
	for _, w := range core.FieldWritesIn(fn, cachedF) {
		nAdopt++
		if _, ok := core.MustReachAfter(fn, w.Instr, isPosStore, func(in ssa.Instruction) bool {
			rt, ok := in.(*ssa.Return)
			return ok && core.ReturnsNilError(rt)
		}); !ok {
			okAdopt = false
		}
	}
	r.Check(nAdopt > 0 && okAdopt, rule, "singleSquash/position-after-adopt", "when an existing full snapshot of the range's end is adopted instead of merging, the position is set to that end as well", "cachedStore replaced without recording its position", p.Pos(fn.Pos()))
	// getStore: cache hit only at the requested block
	prm := gs.Params[len(gs.Params)-1]
	var hitEdges []core.Edge
	core.InstrsDeep(gs, func(in ssa.Instruction) {
		ifi, ok := in.(*ssa.If)
		if !ok {
			return
		}
		onT, onF, ok := core.CondRelation(ifi.Cond, func(v ssa.Value) bool { f, _ := core.LoadedField(v); return f == lastF }, func(v ssa.Value) bool { return core.SkipConv(v) == ssa.Value(prm) })
		if !ok {
			return
		}
		if onT == core.OrdEQ {
			hitEdges = append(hitEdges, core.Edge{From: ifi.Block(), Idx: 0})
		}
		if onF == core.OrdEQ {
			hitEdges = append(hitEdges, core.Edge{From: ifi.Block(), Idx: 1})
		}
	})
	okHit := len(hitEdges) > 0
	nRet := 0
	core.Instrs(gs, func(in ssa.Instruction) {
		rt, ok := in.(*ssa.Return)
		if !ok || !core.ReturnsNilError(rt) {
			return
		}
		nRet++
		v := core.ResolveCell(rt.Results[0])
		if f, _ := core.LoadedField(v); f == cachedF {
			q := core.PathQuery{Fn: gs, CutEdge: func(e core.Edge) bool { return containsEdge(hitEdges, e) }}
			if _, reach := q.CanReach(nil, func(x ssa.Instruction) bool { return x == ssa.Instruction(rt) }); reach {
				okHit = false
			}
			return
		}
		// a freshly loaded store: the state must be updated to it, at the requested block
		okState := false
		for _, w := range core.FieldWritesIn(gs, lastF) {
			if core.SkipConv(w.Value) == ssa.Value(prm) {
				okState = true
			}
		}
		okCache := false
		for _, w := range core.FieldWritesIn(gs, cachedF) {
			if w.Value == v {
				okCache = true
			}
		}
		if !okState || !okCache {
			okHit = false
		}
	})
	r.Check(okHit && nRet >= 2, rule, "getStore/cache-hit-at-position", "getStore returns the in-memory store only when it stands at the requested block; otherwise it loads the snapshot of that block and records both the store and its position", "the cached store can be returned for another block, or the loaded store / its position is not recorded", p.Pos(gs.Pos()))
	// the snapshot loaded is the one ending at the requested block
	okFile := false
	for _, c := range core.FindInstrs(gs, core.IsCallTo(p.FuncObj(pkgStore, "NewCompleteFileInfo"))) {
		args := c.(ssa.CallInstruction).Common().Args
		if core.SkipConv(args[len(args)-1]) == ssa.Value(prm) {
			okFile = true
		}
	}
	r.Check(okFile, rule, "getStore/snapshot-of-position", "the snapshot loaded is the full store whose exclusive end is the requested block", "NewCompleteFileInfo is not called with the requested block as end", p.Pos(gs.Pos()))
}

// checkSubrequestStores (C01.R6, C07.R1): a tier-2 job starts from stores standing exactly at its first block: the
// stores of earlier stages are full stores loaded from the snapshot [module initial block, job start) — only when the
// module starts before the job — and the stores of the stage being produced are partial stores starting at
// max(job start, module initial block).
func checkSubrequestStores(p *core.Prog, r *core.Report, rule string) {
	fn := p.Func(pkgPipe, "Pipeline.setupSubrequestStores")
	r.Touch(core.FuncName(fn))
	isStart := func(v ssa.Value) bool { return hasFieldNamed(core.Trace(v, 0), "ResolvedStartBlockNum") }
	// full stores
	nci := core.FindInstrs(fn, core.IsCallTo(p.FuncObj(pkgStore, "NewCompleteFileInfo")))
	okFile := len(nci) == 1
	var fileV ssa.Value
	if okFile {
		args := nci[0].(ssa.CallInstruction).Common().Args
		okFile = core.Trace(args[1], 0).HasCallNamed("InitialBlock") && isStart(args[2]) && !core.Trace(args[2], 0).HasCallNamed("InitialBlock")
		fileV = nci[0].(ssa.Value)
	}
	r.Check(okFile, rule, "setupSubrequestStores/snapshot", "a store of an earlier stage is loaded from the full snapshot [module initial block, job start block)", "NewCompleteFileInfo arguments are not (name, store's initial block, resolved start block)", p.Pos(fn.Pos()))
	loads := core.FindInstrs(fn, core.IsCallTo(p.FuncObj(pkgStore, "FullKV.Load")))
	okLoad := len(loads) == 1
	if okLoad {
		args := loads[0].(ssa.CallInstruction).Common().Args
		okLoad = args[len(args)-1] == fileV && core.ErrorTested(loads[0])
		if okLoad {
			nilE := errNilEdges(fn, loads[0])
			q := core.PathQuery{Fn: fn, CutEdge: func(e core.Edge) bool { return containsEdge(nilE, e) }}
			_, reach := q.CanReach(loads[0], func(x ssa.Instruction) bool {
				rt, ok := x.(*ssa.Return)
				return ok && core.ReturnsNilError(rt)
			})
			okLoad = len(nilE) > 0 && !reach
		}
	}
	r.Check(okLoad, rule, "setupSubrequestStores/load", "that snapshot is loaded and a failed load fails the job set-up (a job never runs on an empty store in place of a missing snapshot)", "Load does not receive the snapshot descriptor, or its error does not end the set-up", p.Pos(fn.Pos()))
	// the load is skipped only for a store that starts at or after the job's first block
	okSkip := false
	if len(loads) == 1 {
		core.InstrsDeep(fn, func(in ssa.Instruction) {
			ifi, ok := in.(*ssa.If)
			if !ok {
				return
			}
			onT, onF, ok := core.CondRelation(ifi.Cond, func(v ssa.Value) bool { return core.Trace(v, 0).HasCallNamed("InitialBlock") && !isStart(v) }, isStart)
			if !ok {
				return
			}
			for idx, rel := range []int{onT, onF} {
				if rel == core.OrdLT {
					if _, only := core.OnlyViaEdge(fn, core.Edge{From: ifi.Block(), Idx: idx}, func(x ssa.Instruction) bool { return x == loads[0] }); only {
						// and the other edge still sets the store
						okSkip = true
					}
				}
			}
		})
	}
	r.Check(okSkip, rule, "setupSubrequestStores/load-iff-history", "the snapshot is loaded exactly when the store's module starts before the job's first block", "Load is not guarded by `initial block < job start`", p.Pos(fn.Pos()))
	// partial stores of the produced stage
	np := core.FindInstrs(fn, core.IsCallTo(p.FuncObj(pkgStore, "Config.NewPartialKV")))
	okPart := len(np) == 1
	if okPart {
		a := np[0].(ssa.CallInstruction).Common().Args[1]
		ph, isPhi := a.(*ssa.Phi)
		okPart = isPhi
		if isPhi {
			sawStart, sawInit := false, false
			for _, e := range ph.Edges {
				if isStart(e) {
					sawStart = true
				}
				if core.Trace(e, 0).HasCallNamed("ModuleInitialBlock") {
					sawInit = true
				}
			}
			okPart = sawStart && sawInit
		}
	}
	r.Check(okPart, rule, "setupSubrequestStores/partial-start", "the partial store produced by the job starts at the later of the job's first block and the module's initial block", "NewPartialKV is not given max(resolved start, module initial block)", p.Pos(fn.Pos()))
	// every store considered is registered
	sets := core.FindInstrs(fn, func(in ssa.Instruction) bool {
		c := core.CalleeOf(in)
		return c != nil && c.Name() == "Set" && c.Pkg() != nil && c.Pkg().Path() == core.ModPath+"/"+pkgStore
	})
	r.Check(len(sets) >= 2, rule, "setupSubrequestStores/registered", "both kinds of store are registered in the job's store map", fmt.Sprintf("%d Set calls", len(sets)), p.Pos(fn.Pos()))
	checkNoSilentTruncation(p, r, rule, []loopSite{{pkgPipe, "Pipeline.setupSubrequestStores", map[string]string{"1/nil-return": "stages above the highest stage being run are not set up (the loop is ascending, so everything needed was visited)"}}})
}
