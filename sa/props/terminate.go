package props

import (
	"fmt"
	"go/constant"
	"go/token"
	"go/types"
	"strings"

	"golang.org/x/tools/go/ssa"

	"verif/sa/core"
)

// checkOnStreamTerminated (C16.R4, C07.R3): cache files and store snapshots are written, and success is reported,
// only when the block stream ended gracefully (stop block reached, or EOF).  A stream that ended with any other error —
// or without an error before the stop block — is reported as a failure and nothing is flushed, so a truncated segment
// never reaches the caches and a failed request is never answered as complete.
func checkOnStreamTerminated(p *core.Prog, r *core.Report, rule string) {
	fn := p.Func(pkgPipe, "Pipeline.OnStreamTerminated")
	r.Touch(core.FuncName(fn))
	errP := fn.Params[len(fn.Params)-1]
	var graceful []core.Edge
	nTests := map[string]bool{}
	core.InstrsDeep(fn, func(in ssa.Instruction) {
		ifi, ok := in.(*ssa.If)
		if !ok {
			return
		}
		c, neg := core.StripNot(ifi.Cond)
		call, ok := c.(*ssa.Call)
		if !ok {
			return
		}
		cl := core.CommonCallee(call.Common())
		if cl == nil || cl.Name() != "Is" || cl.Pkg() == nil || cl.Pkg().Path() != "errors" {
			return
		}
		if core.ResolveCell(call.Call.Args[0]) != ssa.Value(errP) && !core.SliceReaches(call.Call.Args[0], errP, 2) {
			return
		}
		tgt := ""
		if u, ok := call.Call.Args[1].(*ssa.UnOp); ok {
			if g, ok := u.X.(*ssa.Global); ok {
				tgt = g.Name()
			}
		}
		if tgt != "ErrStopBlockReached" && tgt != "EOF" {
			return
		}
		nTests[tgt] = true
		idx := 0
		if neg {
			idx = 1
		}
		graceful = append(graceful, core.Edge{From: ifi.Block(), Idx: idx})
	})
	if !nTests["ErrStopBlockReached"] || !nTests["EOF"] {
		core.Undecide("OnStreamTerminated: tests of the stream error against ErrStopBlockReached and io.EOF not found")
	}
	q := core.PathQuery{Fn: fn, CutEdge: func(e core.Edge) bool { return containsEdge(graceful, e) }}
	for _, w := range []struct {
		name string
		is   func(ssa.Instruction) bool
	}{
		{"EndOfStream", func(in ssa.Instruction) bool { c := core.CalleeOf(in); return c != nil && c.Name() == "EndOfStream" }},
		{"flushStores", core.IsCallTo(p.FuncObj(pkgPipe, "Stores.flushStores"))},
		{"success", func(in ssa.Instruction) bool {
			rt, ok := in.(*ssa.Return)
			return ok && core.ReturnsConstNilError(rt)
		}},
	} {
		n := len(core.FindInstrs(fn, w.is))
		_, reach := q.CanReach(nil, w.is)
		desc := "the cache files are closed and the store snapshots flushed only when the stream ended gracefully (stop block reached or EOF)"
		if w.name == "success" {
			desc = "success is reported only when the stream ended gracefully: any other stream error (and a stream that ended early without error) is returned as a failure"
		}
		r.Check(n > 0 && !reach, rule, "OnStreamTerminated/"+w.name, desc, fmt.Sprintf("%d sites; reachable although the stream error is neither ErrStopBlockReached nor EOF: %v", n, reach), p.Pos(fn.Pos()))
	}
	// failures of the two writes are failures of the job
	for _, w := range []struct {
		name string
		is   func(ssa.Instruction) bool
	}{
		{"EndOfStream", func(in ssa.Instruction) bool { c := core.CalleeOf(in); return c != nil && c.Name() == "EndOfStream" }},
		{"flushStores", core.IsCallTo(p.FuncObj(pkgPipe, "Stores.flushStores"))},
	} {
		for _, c := range core.FindInstrs(fn, w.is) {
			r.Check(core.ErrorTested(c), rule, "OnStreamTerminated/"+w.name+"-error", "a failure to write the cache files / snapshots fails the job", "error ignored", p.Pos(c.Pos()))
		}
	}
}

// checkWasmCallClassification (C16.R1): where the deterministic-failure marker is attached.
//   - the module panicked (call.Err() != nil)            → the returned error wraps ErrWasmDeterministicExec with %w;
//   - the execution failed and the context is cancelled   → NOT marked deterministic, the context error is wrapped with %w
//     (a cancelled job must stay retryable / be reported as cancelled, not as an invalid module);
//   - the execution failed for another reason              → marked deterministic with %w.
func checkWasmCallClassification(p *core.Prog, r *core.Report, rule string) {
	fn := p.Func(pkgExec, "BaseExecutor.wasmCall")
	r.Touch(core.FuncName(fn))
	isSentinel := func(v ssa.Value) bool {
		u, ok := v.(*ssa.UnOp)
		if !ok {
			return false
		}
		g, ok := u.X.(*ssa.Global)
		return ok && g.Name() == "ErrWasmDeterministicExec"
	}
	isCtxErr := func(v ssa.Value) bool {
		c, ok := v.(*ssa.Call)
		return ok && c.Call.IsInvoke() && c.Call.Method.Name() == "Err" && len(c.Call.Args) == 0 && c.Call.Value.Type().String() == "context.Context"
	}
	// classify each error return by the nil tests on its way
	type site struct {
		call        *ssa.Call
		wrapsMarker bool
		hasMarker   bool
		wrapsCtx    bool
	}
	// the error of a failed execution may be built by a helper of the same package whose result wasmCall
	// returns: the tests and the errors are then looked for in both, the helper's parameters standing for
	// the arguments of the call
	members := []*ssa.Function{fn}
	subst := map[ssa.Value]ssa.Value{}
	core.Instrs(fn, func(in ssa.Instruction) {
		c, ok := in.(*ssa.Call)
		if !ok {
			return
		}
		callee := core.StaticFn(c.Common())
		if callee == nil || callee.Pkg != fn.Pkg || callee.Blocks == nil || !isErrorTyped(c.Type()) {
			return
		}
		returned := false
		core.Instrs(fn, func(x ssa.Instruction) {
			if ret, ok := x.(*ssa.Return); ok {
				for _, rv := range core.ReturnValues(ret) {
					if rv == ssa.Value(c) {
						returned = true
					}
				}
			}
		})
		if !returned {
			return
		}
		members = append(members, callee)
		for i, prm := range callee.Params {
			if i < len(c.Call.Args) {
				subst[prm] = c.Call.Args[i]
			}
		}
	})
	var sites []site
	for _, member := range members {
		core.Instrs(member, func(in ssa.Instruction) {
			c, ok := in.(*ssa.Call)
			if !ok {
				return
			}
			cl := core.CommonCallee(c.Common())
			if cl == nil || cl.Name() != "Errorf" || cl.Pkg() == nil || cl.Pkg().Path() != "fmt" {
				return
			}
			k, ok := c.Call.Args[0].(*ssa.Const)
			if !ok {
				return
			}
			verbs := fmtVerbs(constant.StringVal(k.Value))
			st := site{call: c}
			for i, a := range errorfArgs(c) {
				if i >= len(verbs) || a == nil {
					continue
				}
				if isSentinel(a) {
					st.hasMarker = true
					if verbs[i] == 'w' {
						st.wrapsMarker = true
					}
				}
				if isCtxErr(a) && verbs[i] == 'w' {
					st.wrapsCtx = true
				}
			}
			sites = append(sites, st)
		})
	}
	// the three situations, recognised by the conditions they sit under
	var panicEdge, ctxEdge, noCtxEdge []core.Edge
	for _, member := range members {
		core.InstrsDeep(member, func(in ssa.Instruction) {
			ifi, ok := in.(*ssa.If)
			if !ok {
				return
			}
			c, neg := core.StripNot(ifi.Cond)
			bo, ok := c.(*ssa.BinOp)
			if !ok || (bo.Op != token.NEQ && bo.Op != token.EQL) {
				return
			}
			k, isK := bo.Y.(*ssa.Const)
			if !isK || !k.IsNil() {
				return
			}
			nonNil := 0
			if (bo.Op == token.EQL) != neg {
				nonNil = 1
			}
			if call, ok := bo.X.(*ssa.Call); ok {
				if cl := core.CommonCallee(call.Common()); cl != nil && cl.Name() == "Err" {
					if isCtxErr(call) {
						ctxEdge = append(ctxEdge, core.Edge{From: ifi.Block(), Idx: nonNil})
						noCtxEdge = append(noCtxEdge, core.Edge{From: ifi.Block(), Idx: 1 - nonNil})
					} else if cl.Pkg() != nil && cl.Pkg().Path() == core.ModPath+"/"+pkgWasm {
						panicEdge = append(panicEdge, core.Edge{From: ifi.Block(), Idx: nonNil})
					}
				}
			}
		})
	}
	via := func(edges []core.Edge, c *ssa.Call) bool {
		if len(edges) == 0 {
			return false
		}
		// from wasmCall's entry (the query follows the call into the helper that builds the error)
		q := core.PathQuery{Fn: fn, CutEdge: func(e core.Edge) bool { return containsEdge(edges, e) }}
		_, reach := q.CanReach(nil, func(x ssa.Instruction) bool { return x == ssa.Instruction(c) })
		return !reach
	}
	okPanic, okCtx, okOther := false, false, false
	for _, st := range sites {
		switch {
		case via(panicEdge, st.call):
			okPanic = st.wrapsMarker
		case via(ctxEdge, st.call):
			okCtx = !st.hasMarker && st.wrapsCtx
		case via(noCtxEdge, st.call):
			okOther = st.wrapsMarker
		}
	}
	r.Check(okPanic, rule, "wasmCall/panic→deterministic", "a module that panicked yields an error wrapping ErrWasmDeterministicExec with %w", "the error built on the call.Err() != nil branch does not wrap the marker", p.Pos(fn.Pos()))
	// the context whose state decides the classification is the very context the module was executed under (the
	// per-block context, which carries the execution deadline) — not one captured earlier
	var execCtx ssa.Value
	core.Instrs(fn, func(in ssa.Instruction) {
		if c, ok := in.(*ssa.Call); ok && c.Call.IsInvoke() && c.Call.Method.Name() == "ExecuteNewCall" {
			execCtx = c.Call.Args[0]
		}
	})
	okSame := execCtx != nil
	nErr := 0
	for _, member := range members {
		core.Instrs(member, func(in ssa.Instruction) {
			c, ok := in.(*ssa.Call)
			if !ok || !isCtxErr(c) {
				return
			}
			nErr++
			if execCtx == nil || !(c.Call.Value == execCtx || sameExprSubst(c.Call.Value, execCtx, 3, subst)) {
				okSame = false
			}
		})
	}
	r.Check(okSame && nErr > 0, rule, "wasmCall/same-context", "the context consulted to classify a failed execution is the context the module was executed under (ExecuteNewCall's), so an expired per-block deadline is seen", fmt.Sprintf("%d ctx.Err() tests; all on the execution context: %v", nErr, okSame), p.Pos(fn.Pos()))
	// when that context is a field of the executor, every run() stores the per-call context into it before wasmCall
	if f, _ := core.LoadedField(execCtx); f != nil {
		nRun := 0
		for _, caller := range p.RepoFunctions() {
			if p.IsTestFunc(caller) {
				continue
			}
			calls := core.FindInstrsIn(caller, core.IsCallTo(p.FuncObj(pkgExec, "BaseExecutor.wasmCall")))
			for _, cs := range calls {
				nRun++
				stored := false
				var ctxParam *ssa.Parameter
				for _, prm := range caller.Params {
					if prm.Type().String() == "context.Context" {
						ctxParam = prm
					}
				}
				isStore := func(x ssa.Instruction) bool {
					for _, w := range core.FieldWritesIn(caller, f) {
						if w.Instr == x && w.Kind == core.WAssign && ctxParam != nil && core.SkipConv(w.Value) == ssa.Value(ctxParam) {
							return true
						}
					}
					return false
				}
				if _, ok := core.MustPassBefore(caller, isStore, func(x ssa.Instruction) bool { return x == cs }); ok {
					stored = true
				}
				r.Check(stored, rule, "wasmCall/context-set@"+core.FuncName(caller), "the executor's context field is set to the per-call context on every path before the wasm call", "wasmCall reachable without `e.ctx = ctx`", p.Pos(cs.Pos()))
			}
		}
		if nRun < 3 {
			core.Undecide("wasmCall: only %d callers found", nRun)
		}
	}
	r.Check(okCtx, rule, "wasmCall/cancelled→not-deterministic", "an execution failure under a cancelled context is not marked deterministic and wraps the context error with %w", "the error built on the ctx.Err() != nil branch carries the marker or drops the context error", p.Pos(fn.Pos()))
	r.Check(okOther, rule, "wasmCall/failure→deterministic", "any other execution failure is marked deterministic with %w", "the error built on the remaining failure branch does not wrap the marker", p.Pos(fn.Pos()))
	// no success after a failure: once call.Err() or err is non-nil, every return carries a non-nil error
	var failEdges []core.Edge
	failEdges = append(failEdges, panicEdge...)
	okNoSuccess := len(panicEdge) > 0
	for _, e := range failEdges {
		start := e.From.Succs[e.Idx]
		q := core.PathQuery{Fn: fn}
		if _, reach := q.CanReach(start.Instrs[0], func(x ssa.Instruction) bool {
			rt, ok := x.(*ssa.Return)
			return ok && core.ReturnsConstNilError(rt)
		}); reach {
			okNoSuccess = false
		}
	}
	r.Check(okNoSuccess, rule, "wasmCall/failure-never-succeeds", "after a module panic no success return is reachable", "a nil-error return is reachable after call.Err() != nil", p.Pos(fn.Pos()))
}

// checkStreamEndClassification (C16.R4, C07.R3): OnStreamTerminated treats io.EOF as "the segment was processed to
// its end" and then publishes the cache files.  In the functions that call it (tier-1 blocks, tier-2 processRange) a
// step that failed must therefore never lead to the stream being classified as EOF: from the failure edge of every
// error-tested call, neither a store of io.EOF nor an OnStreamTerminated(io.EOF) call is reachable.
func checkStreamEndClassification(p *core.Prog, r *core.Report, rule string) {
	ost := p.FuncObj(pkgPipe, "Pipeline.OnStreamTerminated")
	isEOF := func(v ssa.Value) bool {
		u, ok := v.(*ssa.UnOp)
		if !ok || u.Op != token.MUL {
			return false
		}
		g, ok := u.X.(*ssa.Global)
		return ok && g.Name() == "EOF" && g.Pkg != nil && g.Pkg.Pkg.Path() == "io"
	}
	classifiesEOF := func(in ssa.Instruction) bool {
		switch x := in.(type) {
		case *ssa.Store:
			return isEOF(x.Val) || isEOFIface(x.Val, isEOF)
		case ssa.CallInstruction:
			if core.CalleeOf(in) == ost {
				a := x.Common().Args
				return isEOF(a[len(a)-1])
			}
		}
		return false
	}
	nFn, nCalls := 0, 0
	pipeNamed := p.Named(pkgPipe, "Pipeline")
	for _, fn := range p.RepoFunctions() {
		if len(core.FindInstrsIn(fn, core.IsCallTo(ost))) == 0 || fn.Pkg == nil || !strings.HasSuffix(fn.Pkg.Pkg.Path(), "/"+pkgSvc) {
			continue
		}
		nFn++
		r.Touch(core.FuncName(fn))
		core.Instrs(fn, func(c ssa.Instruction) {
			if _, ok := c.(ssa.CallInstruction); !ok {
				return
			}
			// the processing steps: methods of the pipeline (best-effort steps of the request set-up, whose failure
			// is logged and ignored, are not concerned)
			cl := core.CalleeOf(c)
			if cl == nil || cl.Type().(*types.Signature).Recv() == nil || !core.IsNamed(cl.Type().(*types.Signature).Recv().Type(), pipeNamed) {
				return
			}
			edges := errNonNilEdges(fn, c)
			if len(edges) == 0 {
				return
			}
			nCalls++
			q := core.PathQuery{Fn: fn}
			var hit ssa.Instruction
			for _, e := range edges {
				tgt := e.From.Succs[e.Idx]
				if h, reach := q.CanReach(tgt.Instrs[0], classifiesEOF); reach {
					hit = h
				}
				if classifiesEOF(tgt.Instrs[0]) {
					hit = tgt.Instrs[0]
				}
			}
			name := "?"
			if cl := core.CalleeOf(c); cl != nil {
				name = cl.Name()
			} else if cc := c.(ssa.CallInstruction).Common(); cc.Value != nil {
				name = cc.Value.Name()
			}
			detail := ""
			if hit != nil {
				detail = "after the failure the stream end is classified as io.EOF at " + p.Pos(core.InstrPos(hit))
			}
			r.Check(hit == nil, rule, fmt.Sprintf("%s/failed-%s-never-EOF", core.FuncName(fn), name), "a failed step is never reported to OnStreamTerminated as a graceful end of stream (io.EOF): the files of a partly processed segment are not published", detail, p.Pos(c.Pos()))
		})
	}
	if nFn < 2 || nCalls < 5 {
		core.Undecide("stream-end classification: %d callers of OnStreamTerminated, %d error-tested calls (expected >= 2, >= 5)", nFn, nCalls)
	}
}

func isEOFIface(v ssa.Value, isEOF func(ssa.Value) bool) bool {
	switch x := v.(type) {
	case *ssa.MakeInterface:
		return isEOF(x.X)
	case *ssa.ChangeInterface:
		return isEOF(x.X)
	}
	return false
}
