package props

import (
	"fmt"
	"go/types"
	"os"
	"strings"

	"golang.org/x/tools/go/ssa"

	"verif/sa/core"
)

func init() {
	register("C03", &Def{
		Title:     "Reorgs: undo restores every store; clients converge on the canonical chain",
		Run:       runC03,
		Technique: "static analysis: SSA loop-shape and must-pass-through path rules, path-sensitive effect summaries (inverse check), field-writer ownership, provenance slices, VTA call-graph reachability",
		Explanation: "Static rules over the undo machinery: (R1) the reverse-application loop visits every delta of the block, last to first, with no exit other than its bound; " +
			"(R2) per delta kind, ApplyDeltasReverse's effect on kv and totalSizeBytes is the exact inverse of ApplyDelta's (path-sensitive effect summaries compared with a spec table derived from size = Σ len(k)+len(v)); " +
			"(R3) every terminal step handler (undo, stalled, final) forgets the block's reversible outputs on every normal path, and for undo only after the undo handlers ran; " +
			"(R4) the undo chain handleStepUndo → registered handler → ApplyDeltasReverse and applyExecutionResult → addReversibleOutput exists in the call graph; " +
			"(R5) the undo signal's last valid block and cursor block derive from the reorg junction parameter, LIB/head from the incoming cursor, and insideReorgUpTo has exactly the documented writers; " +
			"(R6) PartialKV cannot be reverted (its delta methods panic).",
		NotCovered:  "Convergence of a client over arbitrary fork trees; that the external fork resolver emits consistent steps; store content equality after a reorg for all histories (only the per-delta inverse and the bookkeeping discipline are decided).",
		Assumptions: []string{"bstream fork resolver (external) emits steps with a correct reorg junction block", "go/ssa models the functions faithfully"},
	})
}

func runC03(p *core.Prog, r *core.Report) {
	// ---- R1: reverse loop shape
	r.Guard("C03.R1", "ApplyDeltasReverse/loop", "reverse loop shape", func() {
		fn := p.Func(pkgStore, "baseStore.ApplyDeltasReverse")
		r.Touch(core.FuncName(fn))
		loops := core.LoopIndexing(fn, func(v ssa.Value) bool {
			s, ok := v.Type().Underlying().(*types.Slice)
			return ok && isStoreDeltaPtr(p, s.Elem())
		})
		if len(loops) != 1 {
			core.Undecide("expected exactly one loop over the deltas slice in ApplyDeltasReverse, found %d", len(loops))
		}
		l := loops[0]
		dir := l.IndexDir(func(v ssa.Value) bool {
			s, ok := v.Type().Underlying().(*types.Slice)
			return ok && isStoreDeltaPtr(p, s.Elem())
		})
		r.Check(dir == -1, "C03.R1", "ApplyDeltasReverse/direction", "the deltas of an undone block are reversed last to first (descending index)",
			fmt.Sprintf("the deltas are walked in direction %+d", dir), p.Pos(l.Header.Instrs[0].Pos()))
		var bad []string
		for _, e := range l.EarlyExits {
			if l.ExitIsPanic(e) {
				continue
			}
			kind := "break"
			if l.ExitTargetsReturn(e) {
				kind = "return"
			}
			t := e.From.Succs[e.Idx]
			d := fmt.Sprintf("%s at %s", kind, p.Pos(core.InstrPos(t.Instrs[len(t.Instrs)-1])))
			if len(bad) == 0 || bad[len(bad)-1] != d {
				bad = append(bad, d)
			}
		}
		r.Check(len(bad) == 0, "C03.R1", "ApplyDeltasReverse/early-exit", "the reverse loop has no exit other than its bound (every delta of the block is reverted)",
			"early exit(s): "+strings.Join(bad, ", "), bad...)
	})

	// ---- R2: inverse effects
	r.Guard("C03.R2", "ApplyDelta", "forward delta effects", func() {
		checkDeltaEffects(p, r, "C03.R2", "baseStore.ApplyDelta", false, deltaSpecApply)
	})
	r.Guard("C03.R2", "ApplyDeltasReverse", "reverse delta effects", func() {
		checkDeltaEffects(p, r, "C03.R2", "baseStore.ApplyDeltasReverse", true, deltaSpecReverse)
	})

	// ---- R3: reversible outputs forgotten at every terminal step
	checkReversibleForgotten(p, r, "C03.R3")

	// ---- R3b: a block is (re)processed from an empty output buffer
	r.Guard("C03.R3", "NewBuffer/fresh", "no stale outputs after a flip-back", func() {
		fn := p.Func(pkgCache, "Engine.NewBuffer")
		r.Touch(core.FuncName(fn))
		mk := p.FuncObj(pkgExecout, "NewBuffer")
		ok, n := true, 0
		core.Instrs(fn, func(in ssa.Instruction) {
			rt, isRet := in.(*ssa.Return)
			if !isRet || !core.ReturnsNilError(rt) {
				return
			}
			n++
			seen := map[ssa.Value]bool{}
			var walk func(v ssa.Value)
			walk = func(v ssa.Value) {
				v = core.ResolveCell(v)
				if seen[v] {
					return
				}
				seen[v] = true
				switch x := v.(type) {
				case *ssa.Phi:
					for _, e := range x.Edges {
						walk(e)
					}
				case *ssa.MakeInterface:
					walk(x.X)
				case *ssa.ChangeInterface:
					walk(x.X)
				case *ssa.Extract:
					if c, isC := x.Tuple.(*ssa.Call); !isC || core.CommonCallee(c.Common()) != mk {
						ok = false
					}
				default:
					ok = false
				}
			}
			walk(rt.Results[0])
		})
		r.Check(n > 0 && ok, "C03.R3", "Engine.NewBuffer/fresh", "every processing of a block starts from the buffer just created for it (pre-filled only from cache files): the buffer recorded when the same block was executed before an undo is never handed out again — its store entries are delta bytes, which the cached branch would replay as an operation log", "a success return hands out something else than the buffer created by execout.NewBuffer in this call", p.Pos(fn.Pos()))
	})

	// ---- R4: undo chain in the call graph
	r.Guard("C03.R3", "handleStepNew/reset", "per-block deltas dropped after every processed block", func() {
		// the store readers look at the current block's deltas first: a block that executed modules and returned without
		// resetting the stores leaves its deltas behind, and an undo (which repairs kv and size only) cannot remove them
		fn := p.Func(pkgPipe, "Pipeline.handleStepNew")
		r.Touch(core.FuncName(fn))
		exec := p.FuncObj(pkgPipe, "Pipeline.executeModules")
		reset := core.LiftThroughCalls(core.IsCallTo(p.FuncObj(pkgPipe, "Stores.resetStores")), 1)
		calls := core.FindInstrs(fn, core.IsCallTo(exec))
		if len(calls) == 0 {
			core.Undecide("handleStepNew: no executeModules call")
		}
		for _, c := range calls {
			// from the success edge of executeModules, every nil-error return passes resetStores
			nilE := errNilEdges(fn, c)
			ok := len(nilE) > 0
			var hit ssa.Instruction
			for _, e := range nilE {
				start := e.From.Succs[e.Idx].Instrs[0]
				q := core.PathQuery{Fn: fn, CutInstr: reset}
				if h, reach := q.CanReach(start, func(x ssa.Instruction) bool { return core.ReturnsNilError(x) && !reset(x) }); reach && !reset(start) {
					ok, hit = false, h
				}
			}
			d := ""
			if hit != nil {
				d = "a success return is reachable after executeModules without resetStores: " + p.Pos(core.InstrPos(hit))
			}
			r.Check(ok, "C03.R3", "handleStepNew/reset-stores", "every block whose modules were executed ends, on success, with the stores' per-block deltas reset (whether or not its outputs were sent)", d, p.Pos(c.Pos()))
		}
	})
	r.Guard("C03.R4", "undo-chain", "call-graph reachability", func() {
		cg := p.CallGraph(false)
		from := p.Func(pkgPipe, "Pipeline.handleStepUndo")
		to := p.Func(pkgStore, "baseStore.ApplyDeltasReverse")
		path := core.CGPath(cg, from, func(f *ssa.Function) bool { return f == to })
		if os.Getenv("SSCHECK_DEBUG") != "" && path == nil {
			for _, name := range []string{"ForkHandler.handleUndo", "Stores.storesHandleUndo", "Stores.undoModuleOutputs"} {
				if obj := p.FuncObjOpt(pkgPipe, name); obj != nil {
					if n := cg.Nodes[p.SSA.FuncValue(obj)]; n != nil {
						for _, e := range n.Out {
							fmt.Fprintf(os.Stderr, "CG %s -> %s\n", name, e.Callee.Func)
						}
						for _, e := range n.In {
							fmt.Fprintf(os.Stderr, "CG %s <- %s\n", name, e.Caller.Func)
						}
					}
				}
			}
		}
		r.Check(path != nil, "C03.R4", "handleStepUndo→ApplyDeltasReverse", "handleStepUndo reaches baseStore.ApplyDeltasReverse through the registered undo handler",
			"no call-graph path", core.CGPathString(path))
		// every recorded output of the undone block, and every registered handler, is visited: the loops over the block's
		// module outputs and over the undo handlers, anywhere on that chain, have no exit other than their bound
		isOutputsOrHandlers := func(v ssa.Value) bool {
			sl, ok := v.Type().Underlying().(*types.Slice)
			if !ok {
				return false
			}
			switch e := sl.Elem().(type) {
			case *types.Pointer:
				if n, ok := e.Elem().(*types.Named); ok && n.Obj().Name() == "ModuleOutput" {
					return true
				}
			case *types.Named:
				if _, ok := e.Underlying().(*types.Signature); ok && e.Obj().Name() == "UndoHandler" {
					return true
				}
			case *types.Signature:
				return true
			}
			return false
		}
		chain := map[*ssa.Function]bool{p.Func(pkgPipe, "ForkHandler.handleUndo"): true}
		for _, f := range path {
			chain[f] = true
		}
		nLoops := 0
		badLoop := ""
		for f := range chain {
			if f == to || f.Pkg == nil || !strings.HasPrefix(f.Pkg.Pkg.Path(), core.ModPath+"/"+pkgPipe) {
				continue
			}
			for _, l := range core.LoopIndexing(f, isOutputsOrHandlers) {
				nLoops++
				for _, e := range l.EarlyExits {
					if !l.ExitIsPanic(e) {
						badLoop = core.FuncName(f) + " leaves the loop early at " + p.Pos(e.From.Instrs[len(e.From.Instrs)-1].Pos())
					}
				}
				for _, rt := range l.ReturnsInside() {
					badLoop = core.FuncName(f) + " returns inside the loop at " + p.Pos(rt.Pos())
				}
			}
		}
		r.Check(nLoops >= 2 && badLoop == "", "C03.R4", "undo-chain/every-output", "on an undo every registered handler runs and every module output recorded for the block is handed to the store undo: the loops over handlers and outputs have no exit other than their bound (an output of a non-store module is skipped, not a reason to stop)", fmt.Sprintf("%d loops on the chain; %s", nLoops, badLoop), p.Pos(from.Pos()))
		from2 := p.Func(pkgPipe, "Pipeline.applyExecutionResult")
		addSite := core.FindInstrs(from2, core.IsCallTo(p.FuncObj(pkgPipe, "ForkHandler.addReversibleOutput")))
		ok := len(addSite) > 0
		if ok {
			add := p.Func(pkgPipe, "ForkHandler.addReversibleOutput")
			ws := core.FieldWritesIn(add, p.Field(pkgPipe, "ForkHandler", "reversibleOutputs"))
			ok = len(ws) > 0
		}
		r.Check(ok, "C03.R4", "applyExecutionResult→addReversibleOutput", "applyExecutionResult records the module output as reversible (write to ForkHandler.reversibleOutputs)", "no recording call", p.Pos(from2.Pos()))
	})

	// ---- R5: undo signal designates the junction; writers of insideReorgUpTo
	r.Guard("C03.R5", "handleStepUndo/signal", "provenance of the undo signal", func() {
		fn := p.Func(pkgPipe, "Pipeline.handleStepUndo")
		var junction, cursor *ssa.Parameter
		for _, prm := range fn.Params {
			switch prm.Name() {
			case "reorgJunctionBlock":
				junction = prm
			case "cursor":
				cursor = prm
			}
		}
		if junction == nil || cursor == nil {
			// fall back on types: the bstream.BlockRef parameter and the *bstream.Cursor parameter
			for _, prm := range fn.Params {
				ts := prm.Type().String()
				if strings.HasSuffix(ts, "bstream.BlockRef") {
					junction = prm
				}
				if strings.HasSuffix(ts, "bstream.Cursor") {
					cursor = prm
				}
			}
		}
		if junction == nil || cursor == nil {
			core.Undecide("handleStepUndo: junction/cursor parameters not found")
		}
		sigT := p.Named("pb/sf/substreams/rpc/v2", "BlockUndoSignal")
		checkField := func(st *types.Named, field string, want *ssa.Parameter, forbid []*ssa.Parameter, construct, desc string) {
			fv := core.FieldOf(st, field)
			stores := core.FindInstrs(fn, core.IsStoreToField(fv))
			// the message may be built by a helper of the family: its parameters are then mapped back to the arguments of
			// the call in handleStepUndo
			var helper *ssa.Function
			var helperCall ssa.CallInstruction
			if len(stores) == 0 {
				for _, m := range core.Family(fn, 1) {
					if m == fn || m.Parent() != nil {
						continue
					}
					if ss := core.FindInstrs(m, core.IsStoreToField(fv)); len(ss) > 0 {
						for _, c := range core.FindInstrs(fn, func(x ssa.Instruction) bool {
							ci, ok := x.(ssa.CallInstruction)
							return ok && core.StaticFn(ci.Common()) == m
						}) {
							helper, helperCall, stores = m, c.(ssa.CallInstruction), ss
						}
					}
				}
			}
			if len(stores) == 0 {
				core.Undecide("handleStepUndo: no assignment of %s.%s", st.Obj().Name(), field)
			}
			for _, s := range stores {
				src := core.ParamSources(s.(*ssa.Store).Val, 3)
				if helper != nil {
					mapped := map[*ssa.Parameter]bool{}
					for hp := range src {
						for i, prm := range helper.Params {
							if prm == hp && i < len(helperCall.Common().Args) {
								for op := range core.ParamSources(helperCall.Common().Args[i], 3) {
									mapped[op] = true
								}
							}
						}
					}
					src = mapped
				}
				ok := src[want]
				for _, f := range forbid {
					if src[f] {
						ok = false
					}
				}
				var names []string
				for k := range src {
					names = append(names, k.Name())
				}
				r.Check(ok, "C03.R5", construct, desc, fmt.Sprintf("value derives from parameters %v", names), p.Pos(s.Pos()))
			}
		}
		var clock *ssa.Parameter
		for _, prm := range fn.Params {
			if prm.Name() == "clock" || strings.HasSuffix(prm.Type().String(), "v1.Clock") {
				clock = prm
			}
		}
		checkField(sigT, "LastValidBlock", junction, []*ssa.Parameter{clock}, "BlockUndoSignal.LastValidBlock", "the undo signal's last valid block derives from the reorg junction block, not from the undone block")
		curT := p.ExtNamed("github.com/streamingfast/bstream", "Cursor")
		checkField(curT, "Block", junction, []*ssa.Parameter{clock}, "LastValidCursor.Block", "the undo signal's cursor designates the reorg junction block")
		checkField(curT, "LIB", cursor, nil, "LastValidCursor.LIB", "the undo cursor keeps the incoming cursor's LIB")
		checkField(curT, "HeadBlock", cursor, nil, "LastValidCursor.HeadBlock", "the undo cursor keeps the incoming cursor's head block")
		// the cursor sent is the one built here
		fvCur := core.FieldOf(sigT, "LastValidCursor")
		for _, s := range core.FindInstrs(fn, core.IsStoreToField(fvCur)) {
			src := core.ParamSources(s.(*ssa.Store).Val, 4)
			r.Check(src[junction], "C03.R5", "BlockUndoSignal.LastValidCursor", "the undo signal's cursor is built from the junction block", "does not derive from the junction parameter", p.Pos(s.Pos()))
		}
	})
	r.Guard("C03.R5", "pending-undo", "pending undo sent once", func() { checkPendingUndoSentOnce(p, r, "C03.R5") })
	r.Guard("C03.R5", "gate-and-undo", "undo below the start block", func() { checkGateAndUndo(p, r, "C03.R5") })
	r.GuardExact("C03.R5", "gate/undo-any-block", "undo answer independent of the block number", func() { checkUndoOpensRegardlessOfBlock(p, r, "C03.R5") })
	r.Guard("C03.R5", "insideReorgUpTo/writers", "writers of insideReorgUpTo", func() {
		f := p.Field(pkgPipe, "Pipeline", "insideReorgUpTo")
		allowed := map[string]string{
			"(*pipeline.Pipeline).handleStepUndo":  "set to the junction: one undo signal per reorg",
			"(*pipeline.Pipeline).handleStepNew":   "cleared: a new block ends the reorg",
			"(*pipeline.Pipeline).handleStepFinal": "cleared",
		}
		checkWriters(p, r, "C03.R5", "Pipeline.insideReorgUpTo", f, allowed)
		// in handleStepUndo it is assigned the junction parameter
		fn := p.Func(pkgPipe, "Pipeline.handleStepUndo")
		for _, w := range core.FieldWritesIn(fn, f) {
			src := core.ParamSources(w.Value, 2)
			ok := false
			for prm := range src {
				if strings.HasSuffix(prm.Type().String(), "bstream.BlockRef") {
					ok = true
				}
			}
			r.Check(ok, "C03.R5", "insideReorgUpTo=junction", "handleStepUndo remembers the junction block of the reorg being unwound", "assigned value does not derive from the junction parameter", p.Pos(w.Instr.Pos()))
		}
		for _, name := range []string{"Pipeline.handleStepNew", "Pipeline.handleStepFinal"} {
			fn := p.Func(pkgPipe, name)
			for _, w := range core.FieldWritesIn(fn, f) {
				c, isC := w.Value.(*ssa.Const)
				r.Check(isC && c.IsNil(), "C03.R5", "insideReorgUpTo=nil/"+name, name+" clears the reorg marker", "assigned value is not nil", p.Pos(w.Instr.Pos()))
			}
		}
	})

	// ---- R6: PartialKV cannot be reverted
	for _, m := range []string{"PartialKV.ApplyDeltasReverse", "PartialKV.ApplyDelta"} {
		m := m
		r.Guard("C03.R6", m, "PartialKV delta methods panic", func() {
			if !p.HasFunc(pkgStore, m) {
				// not overriding would silently inherit the baseStore implementation
				r.Fail("C03.R6", m, "a partial store can never apply or revert deltas (method panics)", "method is not declared on PartialKV (baseStore's implementation would be promoted)")
				return
			}
			fn := p.Func(pkgStore, m)
			r.Touch(core.FuncName(fn))
			rets := core.FindInstrs(fn, core.IsNormalExit)
			r.Check(len(rets) == 0, "C03.R6", m, "a partial store can never apply or revert deltas (method panics on every path)", "a normal return is reachable", p.Pos(fn.Pos()))
		})
	}
	r.MinInstances("C03.R1", 2)
	r.MinInstances("C03.R2", 8)
	r.MinInstances("C03.R3", 4)
	r.MinInstances("C03.R5", 6)
}

// checkWriters compares the writers of a field with an allow-table keyed by function name.
func checkWriters(p *core.Prog, r *core.Report, rule, what string, f *types.Var, allowed map[string]string) {
	ws := core.FieldWrites(p.RepoFunctions(), f)
	seen := map[string]bool{}
	for _, w := range ws {
		name := core.FuncName(core.RootFn(w.Fn))
		if w.Fn.Parent() != nil {
			// closures are attributed to their parent but keyed separately if listed
			if _, ok := allowed[core.FuncName(w.Fn)]; ok {
				name = core.FuncName(w.Fn)
			}
		}
		key := what + "←" + name
		if seen[key] {
			continue
		}
		seen[key] = true
		_, ok := allowed[name]
		if !ok {
			// a private helper all of whose callers are documented writers (the body of one of them, extracted) writes on
			// their behalf
			ok = onlyCalledByAllowed(p, core.RootFn(w.Fn), allowed, 2)
		}
		r.Check(ok, rule, key, fmt.Sprintf("only the documented functions write %s", what),
			fmt.Sprintf("%s of %s in %s, which is not an allowed writer", w.Kind, what, name), p.Pos(core.InstrPos(w.Instr)))
	}
	if len(ws) == 0 {
		core.Undecide("no writer of %s found (field renamed or moved?)", what)
	}
}

// checkReversibleForgotten (C03.R3 / C11.R6): every terminal step handler
// forgets the block's reversible outputs on every success path, and for undo
// only after the undo handlers ran.
func checkReversibleForgotten(p *core.Prog, r *core.Report, rule string) {
	revOut := func() *types.Var { return p.Field(pkgPipe, "ForkHandler", "reversibleOutputs") }
	for _, h := range []string{"handleStepUndo", "handleStepStalled", "handleStepFinal"} {
		h := h
		r.Guard(rule, h, "reversible outputs forgotten", func() {
			fn := p.Func(pkgPipe, "Pipeline."+h)
			r.Touch(core.FuncName(fn))
			del := core.LiftThroughCalls(core.IsMapDeleteOn(revOut()), 2)
			exit := func(in ssa.Instruction) bool { return core.ReturnsNilError(in) }
			hit, ok := core.MustReachAfter(fn, nil, del, exit)
			detail := ""
			if !ok {
				detail = "a success return is reachable without deleting the block's entry of ForkHandler.reversibleOutputs: " + p.Pos(core.InstrPos(hit))
			}
			r.Check(ok, rule, h+"/forget", "every success path of "+h+" removes the block's reversible outputs (delete on ForkHandler.reversibleOutputs, directly or through a callee)", detail, p.Pos(fn.Pos()))
		})
	}
	r.Guard(rule, "handleStepUndo/order", "forget after handlers", func() {
		fn := p.Func(pkgPipe, "Pipeline.handleStepUndo")
		f := revOut()
		reads := func(in ssa.Instruction) bool {
			if c, ok := in.(ssa.CallInstruction); ok {
				if callee := core.StaticFn(c.Common()); callee != nil {
					return core.MayDo(callee, func(x ssa.Instruction) bool {
						lk, ok := x.(*ssa.Lookup)
						if !ok {
							return false
						}
						fo, _ := core.LoadedField(lk.X)
						return fo == f
					}, 2)
				}
			}
			return false
		}
		del := core.LiftThroughCalls(core.IsMapDeleteOn(f), 2)
		nReads := len(core.FindInstrs(fn, reads))
		if nReads == 0 {
			core.Undecide("handleStepUndo no longer reads reversibleOutputs through a callee")
		}
		bad := ""
		for _, d := range core.FindInstrs(fn, del) {
			q := core.PathQuery{Fn: fn}
			if hit, ok := q.CanReach(d, reads); ok {
				bad = p.Pos(core.InstrPos(hit))
			}
		}
		r.Check(bad == "", rule, "handleStepUndo/order", "the undo handlers read the block's reversible outputs before they are removed", "reversibleOutputs read after removal at "+bad, p.Pos(fn.Pos()))
	})

}

// onlyCalledByAllowed: fn is unexported, has at least one caller, and every caller is an allowed writer (or is itself such
// a helper, up to depth).
func onlyCalledByAllowed(p *core.Prog, fn *ssa.Function, allowed map[string]string, depth int) bool {
	if fn == nil || depth < 0 {
		return false
	}
	if fn.Synthetic == "" && (fn.Object() == nil || fn.Object().Exported()) {
		return false
	}
	node := p.CallGraph(false).Nodes[fn]
	if node == nil || len(node.In) == 0 {
		return false
	}
	for _, in := range node.In {
		caller := core.RootFn(in.Caller.Func)
		if caller == fn {
			continue
		}
		if caller.Synthetic != "" {
			// a promoted-method wrapper (through struct embedding): transparent — what matters is who calls the wrapper
			if cn := p.CallGraph(false).Nodes[caller]; cn == nil || len(cn.In) == 0 {
				continue
			}
		}
		if _, ok := allowed[core.FuncName(caller)]; ok {
			continue
		}
		if !onlyCalledByAllowed(p, caller, allowed, depth-1) {
			return false
		}
	}
	return true
}
