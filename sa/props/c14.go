package props

import (
	"fmt"
	"go/token"
	"go/types"
	"sort"
	"strings"

	"golang.org/x/tools/go/ssa"

	"verif/sa/core"
)

func init() {
	register("C14", &Def{
		Title:     "Execution stages respect every module dependency",
		Run:       runC14,
		Technique: "static analysis: must-pass-through (edge-cut) rules on the layering loop — a module is appended to a layer only through the `dependency already placed` edges —, writer-scope rule on the placed-set, kind-switch exhaustiveness and parity guards, barrier ordering (Wait between spawn and result application), provenance of the staged module list",
		Explanation: "(R1) in computeStages a module is appended to the current layer only on paths where, for every map/store input, the placed-set lookup of that input's module succeeded, and, when it has a block filter, the lookup of the filter's module succeeded; " +
			"(R2) the placed-set is only extended after a layer is complete (never inside the per-module loop), so two modules of one concurrently executed layer cannot depend on each other; " +
			"(R3) the kind switch covers the three module kinds, maps and block indexes share one parity guard and stores the complementary one, and a stage is closed exactly on a store layer or the last layer; " +
			"(R4) a module with no input available at its initial block is an error; " +
			"(R5) executeModules waits for all goroutines of a layer before applying any of their results, goroutines write only their own result slot, and stages/layers are iterated in slice order; " +
			"(R6) only the ancestor closure of the output module (ModulesDownTo) is staged, with initial blocks taken from those same modules. Also (R6) nothing set while classifying one input in NewModuleGraph is read while classifying the next. Also (R5) the error-discipline contradiction rules are silent on pipeline/exec and manifest.",
		NotCovered:  "Termination of the layering loop (argued from acyclicity and validated references, see C17) and the invariant over all generated graphs; that ModulesDownTo computes the closure correctly (external graph library).",
		Assumptions: []string{"module graph acyclic and references valid (NewModuleGraph / ValidateModules succeeded)"},
	})
}

func runC14(p *core.Prog, r *core.Report) {
	fnOf := func() *ssa.Function { return p.Func(pkgExec, "computeStages") }

	// locate the pieces of computeStages once
	type pieces struct {
		fn       *ssa.Function
		seen     ssa.Value // the placed-set map
		appendIn ssa.Instruction
		modLoop  *core.Loop
		modNext  ssa.Value // the current module value (element of mods)
	}
	locate := func() *pieces {
		fn := fnOf()
		pc := &pieces{fn: fn}
		core.Instrs(fn, func(in ssa.Instruction) {
			if mm, ok := in.(*ssa.MakeMap); ok {
				if mt, ok := mm.Type().Underlying().(*types.Map); ok {
					if b, ok := mt.Elem().Underlying().(*types.Basic); ok && b.Kind() == types.Bool {
						pc.seen = mm
					}
				}
			}
		})
		if pc.seen == nil {
			core.Undecide("computeStages: placed-set map not found")
		}
		modT := p.Named(pkgPBV1, "Module")
		// the append of a *Module to a LayerModules value
		core.Instrs(fn, func(in ssa.Instruction) {
			cc, ok := core.IsBuiltinCall(in, "append")
			if !ok {
				return
			}
			v := in.(ssa.Value)
			if n, ok := v.Type().(*types.Named); ok && n.Obj().Name() == "LayerModules" {
				pc.appendIn = in
				_ = cc
			}
		})
		if pc.appendIn == nil {
			core.Undecide("computeStages: append to the layer not found")
		}
		// innermost loop containing the append whose header ranges over []*Module
		var best *core.Loop
		for _, l := range core.Loops(fn) {
			if l.Body[pc.appendIn.Block()] && (best == nil || len(l.Body) < len(best.Body)) {
				best = l
			}
		}
		if best == nil {
			core.Undecide("computeStages: per-module loop not found")
		}
		pc.modLoop = best
		_ = modT
		return pc
	}

	seenLookup := func(pc *pieces, in ssa.Instruction) (*ssa.Lookup, bool) {
		lk, ok := in.(*ssa.Lookup)
		if !ok || lk.X != pc.seen {
			return nil, false
		}
		return lk, true
	}
	// edges on which a lookup in the placed-set is known true
	trueEdges := func(pc *pieces, lk *ssa.Lookup) []core.Edge {
		var es []core.Edge
		var val ssa.Value = lk
		if lk.CommaOk {
			return nil
		}
		core.Instrs(pc.fn, func(in ssa.Instruction) {
			ifi, ok := in.(*ssa.If)
			if !ok {
				return
			}
			c, neg := core.StripNot(ifi.Cond)
			if c != val {
				return
			}
			idx := 0
			if neg {
				idx = 1
			}
			es = append(es, core.Edge{From: ifi.Block(), Idx: idx})
		})
		return es
	}

	// ------------------------------------------------------------------ R1
	r.Guard("C14.R1", "computeStages/deps", "dependencies placed before", func() {
		pc := locate()
		r.Touch(core.FuncName(pc.fn))
		inMap := p.Named(pkgPBV1, "Module_Input_Map")
		inStore := p.Named(pkgPBV1, "Module_Input_Store")
		bf := p.Named(pkgPBV1, "Module_BlockFilter")
		mapName, storeName, bfMod := core.FieldOf(inMap, "ModuleName"), core.FieldOf(inStore, "ModuleName"), core.FieldOf(bf, "Module")
		var depEdges, bfEdges []core.Edge
		depKeyOK, bfKeyOK := false, false
		core.Instrs(pc.fn, func(in ssa.Instruction) {
			lk, ok := seenLookup(pc, in)
			if !ok {
				return
			}
			src := core.Trace(lk.Index, 0)
			switch {
			case src.Fields[mapName] && src.Fields[storeName]:
				depKeyOK = true
				depEdges = append(depEdges, trueEdges(pc, lk)...)
			case src.Fields[bfMod]:
				bfKeyOK = true
				bfEdges = append(bfEdges, trueEdges(pc, lk)...)
			}
		})
		header := pc.modLoop.Header.Instrs[0]
		// (a) from the success edge of each map/store input type assertion, the append is reachable only through a dep-placed edge
		nTA := 0
		bad := ""
		core.Instrs(pc.fn, func(in ssa.Instruction) {
			ta, ok := in.(*ssa.TypeAssert)
			if !ok || !ta.CommaOk {
				return
			}
			name := ""
			if pt, ok := ta.AssertedType.(*types.Pointer); ok {
				if n, ok := pt.Elem().(*types.Named); ok {
					name = n.Obj().Name()
				}
			}
			if name != "Module_Input_Map_" && name != "Module_Input_Store_" {
				return
			}
			nTA++
			// ok component → If → true edge
			for _, ref := range *ta.Referrers() {
				ex, ok := ref.(*ssa.Extract)
				if !ok || ex.Index != 1 {
					continue
				}
				for _, rr := range *ex.Referrers() {
					ifi, ok := rr.(*ssa.If)
					if !ok {
						continue
					}
					start := ifi.Block().Succs[0].Instrs[0]
					q := core.PathQuery{Fn: pc.fn,
						CutEdge:  func(e core.Edge) bool { return containsEdge(depEdges, e) },
						CutInstr: func(x ssa.Instruction) bool { return x == header }}
					reach := start == pc.appendIn
					if !reach {
						_, reach = q.CanReach(start, func(x ssa.Instruction) bool { return x == pc.appendIn })
					}
					if reach {
						bad = name + " input at " + p.Pos(ta.Pos())
					}
				}
			}
		})
		if nTA < 2 {
			core.Undecide("computeStages: map/store input type assertions not found (%d)", nTA)
		}
		r.Check(depKeyOK && len(depEdges) > 0 && bad == "", "C14.R1", "computeStages/input-deps", "a module joins a layer only if, for each of its map and store inputs, the input's module was already placed in an earlier layer (lookup keyed by the input's ModuleName)",
			fmt.Sprintf("lookup keyed by input module name: %v; append reachable without it for: %s", depKeyOK, bad), p.Pos(pc.appendIn.Pos()))
		// (b) block filter
		// edge where mod.BlockFilter == nil
		var nilEdges []core.Edge
		modT := p.Named(pkgPBV1, "Module")
		bfField := core.FieldOf(modT, "BlockFilter")
		core.Instrs(pc.fn, func(in ssa.Instruction) {
			ifi, ok := in.(*ssa.If)
			if !ok {
				return
			}
			c, neg := core.StripNot(ifi.Cond)
			bo, ok := c.(*ssa.BinOp)
			if !ok || (bo.Op != token.EQL && bo.Op != token.NEQ) {
				return
			}
			f, _ := core.LoadedField(bo.X)
			k, isK := bo.Y.(*ssa.Const)
			if f != bfField || !isK || !k.IsNil() {
				return
			}
			nilIdx := 0
			if (bo.Op == token.NEQ) != neg {
				nilIdx = 1
			}
			nilEdges = append(nilEdges, core.Edge{From: ifi.Block(), Idx: nilIdx})
		})
		q := core.PathQuery{Fn: pc.fn,
			CutEdge:  func(e core.Edge) bool { return containsEdge(bfEdges, e) || containsEdge(nilEdges, e) },
			CutInstr: func(x ssa.Instruction) bool { return x == pc.appendIn }}
		// start right after the loop header's range step
		_, reach := q.CanReach(header, func(x ssa.Instruction) bool { return x == pc.appendIn })
		r.Check(bfKeyOK && len(bfEdges) > 0 && len(nilEdges) > 0 && !reach, "C14.R1", "computeStages/block-filter-dep", "a module with a block filter joins a layer only after the filter's index module was placed in an earlier layer",
			fmt.Sprintf("lookup keyed by BlockFilter.Module: %v, nil-test: %v, append reachable without them: %v", bfKeyOK, len(nilEdges) > 0, reach), p.Pos(pc.appendIn.Pos()))
	})

	// ------------------------------------------------------------------ R2
	r.Guard("C14.R2", "computeStages/seen-writes", "placed-set grows between layers", func() {
		pc := locate()
		var inside, outside []string
		core.Instrs(pc.fn, func(in ssa.Instruction) {
			mu, ok := in.(*ssa.MapUpdate)
			if !ok || mu.Map != pc.seen {
				return
			}
			if pc.modLoop.Body[mu.Block()] {
				inside = append(inside, p.Pos(mu.Pos()))
			} else {
				outside = append(outside, p.Pos(mu.Pos()))
			}
		})
		r.Check(len(inside) == 0 && len(outside) > 0, "C14.R2", "computeStages/seen-writes", "the placed-set is written only after the per-module loop of a layer (a module never sees a member of its own layer as placed)",
			fmt.Sprintf("writes inside the per-module loop: %v", inside), outside...)
		// and what is marked placed are exactly the members of the finished layer (key = Name of a ranged element of the layer)
		okKey := false
		modT := p.Named(pkgPBV1, "Module")
		nameF := core.FieldOf(modT, "Name")
		core.Instrs(pc.fn, func(in ssa.Instruction) {
			mu, ok := in.(*ssa.MapUpdate)
			if !ok || mu.Map != pc.seen {
				return
			}
			if f, _ := core.LoadedField(mu.Key); f == nameF {
				if k, ok := mu.Value.(*ssa.Const); ok && k.Value != nil && k.Value.ExactString() == "true" {
					okKey = true
				}
			}
		})
		r.Check(okKey, "C14.R2", "computeStages/seen-key", "modules are marked placed by their own Name", "placed-set key is not Module.Name", p.Pos(pc.fn.Pos()))
	})

	// ------------------------------------------------------------------ R3
	r.Guard("C14.R3", "computeStages/kinds", "homogeneous layers", func() {
		pc := locate()
		parity := map[string]string{}
		core.Instrs(pc.fn, func(in ssa.Instruction) {
			ta, ok := in.(*ssa.TypeAssert)
			if !ok || !ta.CommaOk {
				return
			}
			name := ""
			if pt, ok := ta.AssertedType.(*types.Pointer); ok {
				if n, ok := pt.Elem().(*types.Named); ok {
					name = n.Obj().Name()
				}
			}
			if !strings.HasPrefix(name, "Module_Kind") {
				return
			}
			for _, ref := range *ta.Referrers() {
				ex, ok := ref.(*ssa.Extract)
				if !ok || ex.Index != 1 {
					continue
				}
				for _, rr := range *ex.Referrers() {
					ifi, ok := rr.(*ssa.If)
					if !ok {
						continue
					}
					body := ifi.Block().Succs[0]
					// first If in body: (i % 2) == c → skip
					if bi, ok := body.Instrs[len(body.Instrs)-1].(*ssa.If); ok {
						// (i % 2) == c, possibly hoisted into a local and negated for the other kinds
						cnd, neg := core.StripNot(bi.Cond)
						if bo, ok := cnd.(*ssa.BinOp); ok && bo.Op == token.EQL {
							if rem, ok := bo.X.(*ssa.BinOp); ok && rem.Op == token.REM && isConstInt(rem.Y, 2) {
								if k, ok := bo.Y.(*ssa.Const); ok {
									// one edge must skip the module (back to the loop header without appending), the other admit it;
									// the builder folds a negated test into swapped edges, so either edge may be the skipping one
									q := core.PathQuery{Fn: pc.fn, CutInstr: func(x ssa.Instruction) bool { return x == pc.modLoop.Header.Instrs[0] }}
									admits := func(b *ssa.BasicBlock) bool {
										if b == pc.modLoop.Header {
											return false
										}
										_, reach := q.CanReach(b.Instrs[0], func(x ssa.Instruction) bool { return x == pc.appendIn })
										return reach
									}
									kv := k.Value.ExactString()
									if neg {
										kv = map[string]string{"0": "1", "1": "0"}[kv]
									}
									onTrue, onFalse := admits(bi.Block().Succs[0]), admits(bi.Block().Succs[1])
									switch {
									case !onTrue && onFalse:
										parity[name] = "skip-on-" + kv
									case onTrue && !onFalse:
										parity[name] = "skip-on-" + map[string]string{"0": "1", "1": "0"}[kv]
									default:
										parity[name] = "no-skip"
									}
								}
							}
						}
					}
				}
			}
		})
		// the same dispatch written as a predicate of the package (`fits := kindFitsLayer(mod, i)`): under each kind case the
		// predicate returns a parity test of its layer parameter, and computeStages skips the module where it answers false
		if len(parity) == 0 {
			core.Instrs(pc.fn, func(in ssa.Instruction) {
				hc, ok := in.(*ssa.Call)
				if !ok || len(parity) > 0 {
					return
				}
				h := core.StaticFn(hc.Common())
				if h == nil || h.Blocks == nil || h.Pkg != pc.fn.Pkg || h.Parent() != nil {
					return
				}
				if bt, ok := hc.Type().Underlying().(*types.Basic); !ok || bt.Kind() != types.Bool {
					return
				}
				// caller side: on the edge where the predicate is false the module is not appended in this iteration
				skipsOnFalse := false
				for _, ref := range *hc.Referrers() {
					var ifi *ssa.If
					falseIdx := 1
					switch x := ref.(type) {
					case *ssa.If:
						ifi = x
					case *ssa.UnOp:
						if x.Op == token.NOT {
							for _, r2 := range *x.Referrers() {
								if i2, ok := r2.(*ssa.If); ok {
									ifi, falseIdx = i2, 0
								}
							}
						}
					}
					if ifi == nil {
						continue
					}
					sb := ifi.Block().Succs[falseIdx]
					q := core.PathQuery{Fn: pc.fn, CutInstr: func(x ssa.Instruction) bool { return x == pc.modLoop.Header.Instrs[0] }}
					if _, reach := q.CanReach(sb.Instrs[0], func(x ssa.Instruction) bool { return x == pc.appendIn }); !reach && sb.Instrs[0] != pc.appendIn {
						skipsOnFalse = true
					}
					if sb == pc.modLoop.Header {
						skipsOnFalse = true
					}
				}
				if !skipsOnFalse {
					return
				}
				// predicate side: per kind case, the returned parity test
				local := map[string]string{}
				core.Instrs(h, func(x ssa.Instruction) {
					ta, ok := x.(*ssa.TypeAssert)
					if !ok || !ta.CommaOk {
						return
					}
					name := ""
					if pt, ok := ta.AssertedType.(*types.Pointer); ok {
						if n, ok := pt.Elem().(*types.Named); ok {
							name = n.Obj().Name()
						}
					}
					if !strings.HasPrefix(name, "Module_Kind") {
						return
					}
					for _, ref := range *ta.Referrers() {
						ex, ok := ref.(*ssa.Extract)
						if !ok || ex.Index != 1 {
							continue
						}
						for _, rr := range *ex.Referrers() {
							ifi, ok := rr.(*ssa.If)
							if !ok {
								continue
							}
							body := ifi.Block().Succs[0]
							ret, ok := body.Instrs[len(body.Instrs)-1].(*ssa.Return)
							if !ok || len(ret.Results) != 1 {
								continue
							}
							bo, ok := core.ReturnValues(ret)[0].(*ssa.BinOp)
							if !ok || (bo.Op != token.EQL && bo.Op != token.NEQ) {
								continue
							}
							rem, ok := bo.X.(*ssa.BinOp)
							k, isK := bo.Y.(*ssa.Const)
							if !ok || !isK || rem.Op != token.REM || !isConstInt(rem.Y, 2) {
								continue
							}
							// the layer counter is handed to the predicate
							if core.CallerValue(pc.fn, rem.X) == rem.X {
								continue
							}
							kv := k.Value.ExactString()
							if bo.Op == token.EQL { // fits iff rem == k: skipped on the other parity
								kv = map[string]string{"0": "1", "1": "0"}[kv]
							}
							local[name] = "skip-on-" + kv
						}
					}
				})
				for k, v := range local {
					parity[k] = v
				}
			})
		}
		var ks []string
		for k := range parity {
			ks = append(ks, k)
		}
		sort.Strings(ks)
		// all implementers of the Kind oneof
		var impl []string
		pk := p.Pkg(pkgPBV1)
		iface, _ := pk.Types.Scope().Lookup("isModule_Kind").Type().Underlying().(*types.Interface)
		if iface == nil {
			core.Undecide("isModule_Kind interface not found")
		}
		for _, n := range pk.Types.Scope().Names() {
			if tn, ok := pk.Types.Scope().Lookup(n).(*types.TypeName); ok {
				if _, isI := tn.Type().Underlying().(*types.Interface); isI {
					continue
				}
				if types.Implements(types.NewPointer(tn.Type()), iface) {
					impl = append(impl, n)
				}
			}
		}
		sort.Strings(impl)
		r.Check(strings.Join(ks, ",") == strings.Join(impl, ","), "C14.R3", "computeStages/kind-cases", "the layering dispatches on every module kind of the schema", fmt.Sprintf("cases %v, kinds %v", ks, impl), p.Pos(pc.fn.Pos()))
		okPar := parity["Module_KindMap_"] != "" && parity["Module_KindMap_"] == parity["Module_KindBlockIndex_"] &&
			parity["Module_KindStore_"] != "" && parity["Module_KindStore_"] != parity["Module_KindMap_"] &&
			strings.HasPrefix(parity["Module_KindStore_"], "skip-on-") && strings.HasPrefix(parity["Module_KindMap_"], "skip-on-")
		r.Check(okPar, "C14.R3", "computeStages/parity", "maps and block indexes are admitted on one parity of the layer counter and stores on the other (a layer holds only stores or only non-stores)", fmt.Sprintf("%v", parity), p.Pos(pc.fn.Pos()))
		// stage closing
		// (in computeStages or in the helper of its family that groups the layers into stages)
		var stagesAppend, flushAfterLoop ssa.Instruction
		closeFn := pc.fn
		for _, member := range core.Family(pc.fn, 1) {
			if member.Parent() != nil || stagesAppend != nil {
				continue
			}
			core.Instrs(member, func(in ssa.Instruction) {
				if _, ok := core.IsBuiltinCall(in, "append"); ok {
					if n, ok := in.(ssa.Value).Type().(*types.Named); ok && n.Obj().Name() == "ExecutionStages" {
						// the append inside the loop over the layers; one after the loop (the flush of a pending, non-store stage) is
						// the other way of closing on the last layer
						inLoop := false
						for _, l := range core.Loops(member) {
							if l.Body[in.Block()] {
								inLoop = true
							}
						}
						if inLoop || stagesAppend == nil {
							if !inLoop {
								flushAfterLoop = in
							} else {
								stagesAppend, closeFn = in, member
							}
						} else {
							flushAfterLoop = in
						}
					}
				}
			})
		}
		if stagesAppend == nil {
			core.Undecide("computeStages: append to the stages not found")
		}
		isStoreLayer := p.FuncObj(pkgExec, "LayerModules.IsStoreLayer")
		var closeEdges []core.Edge
		nStore, nLast := 0, 0
		core.InstrsDeep(closeFn, func(in ssa.Instruction) {
			ifi, ok := in.(*ssa.If)
			if !ok {
				return
			}
			c, neg := core.StripNot(ifi.Cond)
			idx := 0
			if neg {
				idx = 1
			}
			if call, ok := c.(*ssa.Call); ok && core.CommonCallee(call.Common()) == isStoreLayer {
				closeEdges = append(closeEdges, core.Edge{From: ifi.Block(), Idx: idx})
				nStore++
			}
			if bo, ok := c.(*ssa.BinOp); ok && bo.Op == token.EQL {
				// idx == len(layers)-1
				if sub, ok := bo.Y.(*ssa.BinOp); ok && sub.Op == token.SUB && isConstInt(sub.Y, 1) {
					if l, ok := sub.X.(*ssa.Call); ok {
						if b, ok := l.Call.Value.(*ssa.Builtin); ok && b.Name() == "len" {
							closeEdges = append(closeEdges, core.Edge{From: ifi.Block(), Idx: idx})
							nLast++
						}
					}
				}
			}
		})
		q := core.PathQuery{Fn: closeFn, CutEdge: func(e core.Edge) bool { return containsEdge(closeEdges, e) }}
		_, reach := q.CanReach(nil, func(x ssa.Instruction) bool { return x == stagesAppend })
		// the last layer closes its stage through the `idx == len-1` test, or through a flush of the pending stage after the loop
		okAll := nStore > 0 && (nLast > 0 || flushAfterLoop != nil) && !reach
		for _, e := range closeEdges {
			first := e.From.Succs[e.Idx].Instrs[0]
			if first != stagesAppend {
				if _, ok := core.MustReachAfter(closeFn, first, func(x ssa.Instruction) bool { return x == stagesAppend }, func(x ssa.Instruction) bool {
					_, isRet := x.(*ssa.Return)
					return isRet
				}); !ok {
					okAll = false
				}
			}
		}
		r.Check(okAll, "C14.R3", "computeStages/stage-close", "a stage is closed exactly when the layer is a store layer or the last layer", fmt.Sprintf("store-test=%d last-test=%d closable-otherwise=%v", nStore, nLast, reach), p.Pos(stagesAppend.Pos()))
		// IsStoreLayer looks at the kind of the layer's modules
		isl := p.Func(pkgExec, "LayerModules.IsStoreLayer")
		okISL := len(core.FindInstrs(isl, core.IsCallTo(p.FuncObj(pkgPBV1, "Module.GetKindStore")))) > 0
		r.Check(okISL, "C14.R3", "IsStoreLayer", "a layer is a store layer iff its modules are stores", "GetKindStore not consulted", p.Pos(isl.Pos()))
	})

	// ------------------------------------------------------------------ R4
	r.Guard("C14.R4", "computeStages/inputs-at-init", "no input at initial block is an error", func() {
		pc := locate()
		// the bool phi merged from constants true and tested before the append
		ok := false
		core.Instrs(pc.fn, func(in ssa.Instruction) {
			ifi, isIf := in.(*ssa.If)
			if !isIf || !pc.modLoop.Body[ifi.Block()] {
				return
			}
			c, neg := core.StripNot(ifi.Cond)
			ph, isPhi := c.(*ssa.Phi)
			if !isPhi {
				return
			}
			if b, isB := ph.Type().Underlying().(*types.Basic); !isB || b.Kind() != types.Bool {
				return
			}
			falseIdx := 1
			if neg {
				falseIdx = 0
			}
			fb := ifi.Block().Succs[falseIdx]
			if ret, isRet := fb.Instrs[len(fb.Instrs)-1].(*ssa.Return); isRet && !core.ReturnsNilError(ret) {
				// and the append is only reachable through the true edge
				e := core.Edge{From: ifi.Block(), Idx: 1 - falseIdx}
				q := core.PathQuery{Fn: pc.fn, CutEdge: func(x core.Edge) bool { return x == e }}
				if _, reach := q.CanReach(nil, func(x ssa.Instruction) bool { return x == pc.appendIn }); !reach {
					ok = true
				}
			}
		})
		r.Check(ok, "C14.R4", "computeStages/inputs-at-init", "a module none of whose inputs exists at its initial block is rejected with an error before it can be placed", "guard not found or append reachable without it", p.Pos(pc.fn.Pos()))
		// the flag is the module's own: nothing of it is carried from the previous module of the pass (no phi at the head of
		// the module loop, no cell written outside the module's iteration)
		carried := false
		nFlags := 0
		core.Instrs(pc.fn, func(in ssa.Instruction) {
			ifi, isIf := in.(*ssa.If)
			if !isIf || !pc.modLoop.Body[ifi.Block()] {
				return
			}
			c, _ := core.StripNot(ifi.Cond)
			ph, isPhi := c.(*ssa.Phi)
			if !isPhi {
				return
			}
			if b, isB := ph.Type().Underlying().(*types.Basic); !isB || b.Kind() != types.Bool {
				return
			}
			nFlags++
			seen := map[ssa.Value]bool{}
			var walk func(v ssa.Value)
			walk = func(v ssa.Value) {
				if seen[v] {
					return
				}
				seen[v] = true
				if x, ok := v.(*ssa.Phi); ok {
					if x.Block() == pc.modLoop.Header || !pc.modLoop.Body[x.Block()] {
						carried = true
						return
					}
					for _, e := range x.Edges {
						walk(e)
					}
				}
			}
			walk(ph)
		})
		r.Check(nFlags > 0 && !carried, "C14.R4", "computeStages/inputs-at-init/per-module", "the `has an input at its initial block` flag starts false for every module (it is not carried over from the previous module examined in the same pass)", "the flag tested for a module can hold the value computed for an earlier module", p.Pos(pc.fn.Pos()))
		// the initial-block comparison: mod init >= dep init
		// (one comparison per input kind, or one comparison after the kinds have put their module name into one variable)
		covered := map[string]bool{}
		core.Instrs(pc.fn, func(in ssa.Instruction) {
			bo, isBo := in.(*ssa.BinOp)
			if !isBo || bo.Op != token.GEQ {
				return
			}
			lx, okx := bo.X.(*ssa.Lookup)
			ly, oky := bo.Y.(*ssa.Lookup)
			if okx && oky && lx.X == ly.X {
				kx := core.Trace(lx.Index, 0)
				ky := core.Trace(ly.Index, 0)
				if hasFieldNamed(kx, "Name") {
					for f := range ky.Fields {
						if f.Name() == "ModuleName" {
							covered[ownerOf(f)] = true
						}
					}
				}
			}
		})
		okCmp := len(covered)
		r.Check(okCmp >= 2, "C14.R4", "computeStages/init-compare", "an input module counts as available when the module's initial block is >= the input's initial block (both map and store inputs)", fmt.Sprintf("input kinds compared: %v", keysOf(covered)), p.Pos(pc.fn.Pos()))
	})

	// ------------------------------------------------------------------ R5
	r.Guard("C14.R5", "executeModules/barrier", "barrier between spawn and apply", func() {
		fn := p.Func(pkgPipe, "Pipeline.executeModules")
		r.Touch(core.FuncName(fn))
		// the function that spawns the layer's goroutines: executeModules itself or a helper it calls (same package)
		var gos []ssa.Instruction
		for _, member := range core.Family(fn, 2) {
			if member.Parent() != nil {
				continue
			}
			var g []ssa.Instruction
			core.Instrs(member, func(in ssa.Instruction) {
				if _, ok := in.(*ssa.Go); ok {
					g = append(g, in)
				}
			})
			if len(g) > 0 {
				gos, fn = g, member
				r.Touch(core.FuncName(fn))
				break
			}
		}
		if len(gos) == 0 {
			core.Undecide("executeModules: no goroutine spawn")
		}
		isWait := func(in ssa.Instruction) bool {
			c := core.CalleeOf(in)
			return c != nil && calleeKey(c) == "sync.Wait" && strings.Contains(c.Type().(*types.Signature).Recv().Type().String(), "WaitGroup")
		}
		apply := core.IsCallTo(p.FuncObj(pkgPipe, "Pipeline.applyExecutionResult"))
		bad := ""
		for _, g := range gos {
			q := core.PathQuery{Fn: fn, CutInstr: isWait}
			if hit, reach := q.CanReach(g, func(x ssa.Instruction) bool { return apply(x) }); reach {
				bad = p.Pos(core.InstrPos(hit))
			}
			// results read (load from the results slice) before Wait
		}
		r.Check(bad == "" && len(core.FindInstrs(fn, isWait)) > 0, "C14.R5", "executeModules/wait", "all goroutines of a layer are awaited (WaitGroup.Wait) before any of their results is applied", "applyExecutionResult reachable after a spawn without passing Wait: "+bad, p.Pos(fn.Pos()))
		// goroutine body: writes only its own slot of results; Done deferred
		for _, g := range gos {
			cl, _ := g.(*ssa.Go).Call.Value.(*ssa.MakeClosure)
			if cl == nil {
				core.Undecide("executeModules: goroutine is not a closure")
			}
			body := cl.Fn.(*ssa.Function)
			writesOther := ""
			core.Instrs(body, func(in ssa.Instruction) {
				switch x := in.(type) {
				case *ssa.Store:
					switch a := x.Addr.(type) {
					case *ssa.IndexAddr:
						// results[i]
					case *ssa.Alloc:
						_ = a
					default:
						writesOther = p.Pos(x.Pos())
					}
				case *ssa.MapUpdate:
					writesOther = p.Pos(x.Pos())
				}
			})
			hasDone := false
			core.Instrs(body, func(in ssa.Instruction) {
				if d, ok := in.(*ssa.Defer); ok {
					if c := core.CommonCallee(&d.Call); c != nil && c.Name() == "Done" {
						hasDone = true
					}
				}
			})
			r.Check(writesOther == "" && hasDone, "C14.R5", "executeModules/goroutine", "a layer's goroutine writes only its own result slot and always signals Done (deferred)", "other write at "+writesOther+fmt.Sprintf(" done-deferred=%v", hasDone), p.Pos(body.Pos()))
		}
		// wg.Add before go
		isAdd := func(in ssa.Instruction) bool {
			c := core.CalleeOf(in)
			return c != nil && calleeKey(c) == "sync.Add"
		}
		okAdd := true
		for _, g := range gos {
			if _, ok := core.MustPassBefore(fn, isAdd, func(x ssa.Instruction) bool { return x == g }); !ok {
				okAdd = false
			}
		}
		r.Check(okAdd, "C14.R5", "executeModules/add", "WaitGroup.Add precedes every spawn", "go statement reachable without Add", p.Pos(fn.Pos()))
		// stages iterate in slice order: the outer loop over p.ModuleExecutors is an ascending range
		me := p.Field(pkgPipe, "Pipeline", "ModuleExecutors")
		asc := false
		for _, member := range core.Family(p.Func(pkgPipe, "Pipeline.executeModules"), 2) {
			for _, l := range core.LoopIndexing(member, func(v ssa.Value) bool { f, _ := core.LoadedField(v); return f == me }) {
				if d, _ := l.InductionDir(); d == 1 {
					asc = true
				}
			}
		}
		r.Check(asc, "C14.R5", "executeModules/order", "layers are executed in the order computed by the staging (ascending range over ModuleExecutors)", "loop over ModuleExecutors is not an ascending range", p.Pos(fn.Pos()))
	})

	// ------------------------------------------------------------------ R6
	r.Guard("C14.R6", "computeGraph/closure", "only needed modules are staged", func() {
		fn := p.Func(pkgExec, "Graph.computeGraph")
		r.Touch(core.FuncName(fn))
		cs := p.FuncObj(pkgExec, "computeStages")
		mdt := p.FuncObj(pkgMani, "ModuleGraph.ModulesDownTo")
		calls := core.FindInstrs(fn, core.IsCallTo(cs))
		if len(calls) != 1 {
			core.Undecide("computeGraph: expected one computeStages call")
		}
		used := p.Field(pkgExec, "Graph", "usedModules")
		arg := calls[0].(ssa.CallInstruction).Common().Args[0]
		okArg := false
		if f, _ := core.LoadedField(arg); f == used {
			// usedModules ← ModulesDownTo(output)
			for _, w := range core.FieldWritesIn(fn, used) {
				if core.Trace(w.Value, 0).HasCall(mdt) {
					okArg = true
				}
			}
		} else if core.Trace(arg, 0).HasCall(mdt) {
			okArg = true
		}
		r.Check(okArg, "C14.R6", "computeGraph/staged-set", "the modules handed to the staging are ModulesDownTo(output module): the ancestor closure and nothing else", "computeStages argument does not come from ModulesDownTo", p.Pos(calls[0].Pos()))
		// ModulesDownTo is called with the output module name parameter
		okOut := false
		for _, c := range core.FindInstrs(fn, core.IsCallTo(mdt)) {
			if core.OriginParam(c.(ssa.CallInstruction).Common().Args[1]) != nil {
				okOut = true
			}
		}
		r.Check(okOut, "C14.R6", "computeGraph/output", "the closure is taken from the requested output module", "ModulesDownTo argument is not the output-module parameter", p.Pos(fn.Pos()))
		// error of ModulesDownTo is propagated before use
		okErr := false
		for _, c := range core.FindInstrs(fn, core.IsCallTo(mdt)) {
			if core.ErrorTested(c) {
				okErr = true
			}
		}
		r.Check(okErr, "C14.R6", "computeGraph/closure-error", "an unknown output module is an error", "ModulesDownTo error ignored", p.Pos(fn.Pos()))
	})
	r.Guard("C14.R6", "closure/ModulesDownTo", "ancestor closure", func() { checkClosureFn(p, r, "C14.R6", "ModuleGraph.ModulesDownTo", 0, false) })
	r.Guard("C14.R6", "graph-edges", "edges only for module inputs", func() { checkGraphEdgesOnlyForModuleInputs(p, r, "C14.R6") })
	r.Guard("C14.R6", "closure/StoresDownTo", "ancestor closure", func() { checkClosureFn(p, r, "C14.R6", "ModuleGraph.StoresDownTo", 0, true) })
	r.GuardExact("C14.R5", "error-discipline", "errors are tested where they are produced", func() {
		checkErrorDiscipline(p, r, "C14.R5", []string{"pipeline/exec", "manifest"}, 50)
	})
	r.GuardExact("C14.R6", "graph-edges/per-input", "inputs classified one by one", func() {
		checkNoCarriedState(p, r, "C14.R6", pkgMani, "NewModuleGraph", "each input of each module is classified (reads a module or not) from that input alone: no flag set for one input is read for the next")
	})
	r.Guard("C14.R5", "visits-all", "no silent truncation", func() {
		checkNoSilentTruncation(p, r, "C14.R5", []loopSite{{pkgPipe, "Pipeline.executeModules", nil}, {pkgPipe, "Pipeline.BuildModuleExecutors", nil}, {pkgMani, "NewModuleGraph", nil}})
	})
	r.MinInstances("C14.R1", 2)
	r.MinInstances("C14.R3", 4)
	r.MinInstances("C14.R6", 9)
	r.MinInstances("C14.R5", 4)
}
