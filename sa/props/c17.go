package props

import (
	"fmt"
	"go/constant"
	"go/token"
	"go/types"
	"sort"
	"strings"

	"golang.org/x/tools/go/ssa"

	"verif/sa/core"
)

func init() {
	register("C17", &Def{
		Title:     "Malformed requests are rejected with an error, never with a crash or a hang",
		Run:       runC17,
		Technique: "static analysis: call-graph reachability from the validation/planning entry points with site collection (explicit panics, request-derived slice indexes without a dominating bound check, nil-able message dereferences, unbounded loops, recursion), each site excluded by a checked precondition or reported; dominance of validation before use",
		Explanation: "(R1) in everything reachable from request validation, graph construction, hashing, staging and planning, every explicit panic, every slice index derived from a request field, and every dereference of a nil-able request sub-message is either guarded in the same function or excluded by a validation check that is itself verified to exist (allow-table with the excluding check as a rule instance); " +
			"R1 further requires: a stage number taken from the (tier-2) request indexes the staged module list only behind `stage < len(stages)` (the obligation is passed from every function indexing by a parameter to its callers); the product (SegmentNumber+1)*SegmentSize and the segment boundary following the stop block are guarded against wrap-around; a message field the client may leave out (type closure of the two request messages, oneof wrappers excluded) is dereferenced, in everything reachable from the two handlers, only behind a nil test or a verified precondition; " +
			"(R2) the handlers validate the request before constructing the graph and answer a refused request with the invalid-argument error OF THEIR OWN PROTOCOL (connect error in the connect handler, grpc status in the grpc handler, a bsstream error only where toConnectError/toGRPCError maps it); toConnectError keeps the code of a wrapped connect error and gives Internal only to an error holding neither a connect nor a bsstream invalid-argument error; the plan is built only with stop > start or no stop; " +
			"(R3) the only loop without a bound and the only recursion reachable are the layering loop and the ancestor hashing, both under the verified preconditions `graph acyclic` and `references exist with the right kind`; the size limits (100 modules, 30 inputs, 300 MB) are tested before any per-module allocation. R3 also requires that the graph tested for cycles holds an edge for every module reference the layering loop waits on (each map/store input and the block filter, self references included unless validation is verified to refuse them), looked up under the reference field itself (a helper may not return another name while the reference is present). Also (R3) validation looks references up under the raw reference field (getters only on the way). Also (R3) every hash computed by hashModule is stored in the cache before it is returned (linear recursion). Also (R2) the error-discipline contradiction rules are silent on manifest, service and pipeline.",
		NotCovered:  "That the recorded preconditions really imply termination (self references through the external graph library), panics inside dependencies (bstream, yourbasic/graph, protobuf, dmetering: an unregistered metering plugin named by tier 1 makes dmetering.New panic), arithmetic on request numbers outside the two guarded sites (the segmenter rounds a block within one interval of 2^64 to a wrong, not crashing, range), allocation bounds of the external libraries.",
		Assumptions: []string{"the protobuf decoder never leaves the inner message of a set oneof nil", "yourbasic/graph.Acyclic detects every cycle including self loops"},
	})
}

type reachSite struct {
	Fn   *ssa.Function
	Kind string // panic | index | deref | loop | recursion
	Key  string
	Pos  token.Pos
	Desc string
}

func runC17(p *core.Prog, r *core.Report) {
	entries := func() []*ssa.Function {
		return []*ssa.Function{
			p.Func(pkgSvc, "ValidateTier1Request"), p.Func(pkgSvc, "ValidateTier2Request"),
			p.Func(pkgExec, "NewOutputModuleGraph"), p.Func(pkgPipe, "BuildRequestDetails"), p.Func(pkgPlan, "BuildTier1RequestPlan"),
		}
	}

	// ------------------------------------------------------------------ R1
	r.Guard("C17.R1", "reachable-sites", "no crash on request data", func() {
		cg := p.CallGraph(false)
		reach := core.Reachable(cg, entries()...)
		var fns []*ssa.Function
		for f := range reach {
			if core.IsRepo(f) && f.Blocks != nil && !p.IsTestFunc(f) && !isGenerated(p, f) {
				fns = append(fns, f)
			}
		}
		sort.Slice(fns, func(i, j int) bool { return fns[i].String() < fns[j].String() })
		if len(fns) < 40 {
			core.Undecide("only %d repository functions reachable from the validation/planning entries", len(fns))
		}
		r.Notes = append(r.Notes, fmt.Sprintf("C17.R1: %d repository functions reachable from the 5 entry points", len(fns)))
		// results of segment lookups can be nil for request-derived bounds (stop block below the modules' initial block inside
		// one segment): they are dereferenced only behind a nil test
		rangeFn := p.FuncObj(pkgBlock, "Segmenter.Range")
		nLook := 0
		for _, fn := range fns {
			for _, c := range core.FindInstrs(fn, core.IsCallTo(rangeFn)) {
				cv := c.(ssa.Value)
				var derefs []ssa.Instruction
				var nonNil []core.Edge
				for _, ref := range *cv.Referrers() {
					switch x := ref.(type) {
					case *ssa.FieldAddr:
						derefs = append(derefs, x)
					case *ssa.Call:
						if len(x.Call.Args) > 0 && x.Call.Args[0] == cv && !x.Call.IsInvoke() {
							if cl := core.CommonCallee(x.Common()); cl != nil && cl.Name() != "String" && cl.Name() != "MarshalLogObject" {
								if sig, ok := cl.Type().(*types.Signature); ok && sig.Recv() != nil {
									derefs = append(derefs, x)
								}
							}
						}
					case *ssa.BinOp:
						if k, ok := x.Y.(*ssa.Const); ok && k.IsNil() && (x.Op == token.EQL || x.Op == token.NEQ) {
							for _, rr := range *x.Referrers() {
								if ifi, ok := rr.(*ssa.If); ok {
									idx := 0
									if x.Op == token.EQL {
										idx = 1
									}
									nonNil = append(nonNil, core.Edge{From: ifi.Block(), Idx: idx})
								}
							}
						}
					}
				}
				if len(derefs) == 0 {
					continue
				}
				nLook++
				q := core.PathQuery{Fn: fn, CutEdge: func(e core.Edge) bool { return containsEdge(nonNil, e) }}
				_, reach := q.CanReach(c, func(x ssa.Instruction) bool {
					for _, d := range derefs {
						if x == d {
							return true
						}
					}
					return false
				})
				r.Check(len(nonNil) > 0 && !reach, "C17.R1", "nil-segment@"+core.FuncName(fn), "the result of Segmenter.Range(…), which is nil for an index without segment (e.g. a stop block below the initial block inside one segment), is dereferenced only behind a nil test", "a dereference of the lookup result is reachable without a nil test", p.Pos(c.Pos()))
			}
		}
		if nLook == 0 {
			core.Undecide("no dereferenced Segmenter.Range result found in the functions reachable from planning")
		}
		var sites []reachSite
		for _, fn := range fns {
			r.Touch(core.FuncName(fn))
			sites = append(sites, collectCrashSites(p, fn)...)
		}
		// allow-table: site key → precondition (each precondition is checked below as its own obligation)
		allow := map[string]string{
			"panic@pipeline/exec.computeOutputModule":        "P-output-found: ModulesDownTo(output) returned no error, so the output module is in the list",
			"panic@(*pb/sf/substreams/v1.Module).ModuleKind": "P-kind-set: ValidateModules rejects a module without kind before calling ModuleKind",
			"panic@pipeline/exec.computeStages":              "P-input-set: ValidateModules (checkValidInputs) rejects an input whose oneof is absent",
			"panic@manifest.(*ModuleGraph).mustModule":       "unused helper",
		}
		seen := map[string]bool{}
		for _, s := range sites {
			if seen[s.Key] {
				continue
			}
			seen[s.Key] = true
			why, ok := allow[s.Key]
			desc := "a crash site reachable from request validation/planning is excluded by a verified precondition"
			if ok {
				r.Add(&core.Obligation{Rule: "C17.R1", Construct: "site/" + s.Key, Desc: desc + " [" + why + "]", Status: core.OK, Sites: []string{p.Pos(s.Pos)}, Detail: s.Desc})
			} else {
				r.Fail("C17.R1", "site/"+s.Key, desc, s.Desc+" — not guarded in its function and not covered by a validation precondition", p.Pos(s.Pos))
			}
		}
		r.Pass("C17.R1", "sites/inventory", fmt.Sprintf("%d crash-prone sites collected in %d reachable functions (explicit panics, request-derived indexes, nil-able message dereferences)", len(seen), len(fns)))
	})
	// the preconditions named in the allow-table
	r.Guard("C17.R1", "preconditions", "validation preconditions", func() { checkValidationPreconditions(p, r) })
	r.Guard("C17.R1", "stage-index", "request stage number bounded", func() { checkStageIndexBound(p, r) })
	r.Guard("C17.R1", "overflow", "wrap-around guards", func() { checkOverflowGuards(p, r) })
	r.Guard("C17.R1", "optional-message", "optional message fields", func() { checkOptionalMessageDerefs(p, r) })

	// ------------------------------------------------------------------ R2
	r.Guard("C17.R2", "validate-first", "validation precedes use", func() {
		for _, h := range []struct{ fn, val string }{{"Tier1Service.Blocks", "ValidateTier1Request"}, {"Tier2Service.ProcessRange", "ValidateTier2Request"}} {
			fn := p.Func(pkgSvc, h.fn)
			r.Touch(core.FuncName(fn))
			vcalls := core.FindInstrs(fn, core.IsCallTo(p.FuncObj(pkgSvc, h.val)))
			if len(vcalls) != 1 {
				core.Undecide("%s: expected one %s call", h.fn, h.val)
			}
			v := vcalls[0]
			nilEdges := errNilEdges(fn, v)
			// graph construction / processing only on the nil-error edge
			use := func(in ssa.Instruction) bool {
				c := core.CalleeOf(in)
				if c == nil {
					return false
				}
				return c == p.FuncObj(pkgExec, "NewOutputModuleGraph") || c == p.FuncObj(pkgSvc, "Tier2Service.processRange") || c == p.FuncObj(pkgSvc, "Tier1Service.blocks")
			}
			okDom := true
			for _, f := range core.WithClosures(fn) {
				for _, u := range core.FindInstrs(f, use) {
					if f != fn {
						// a closure: it must be created after the validation
						continue
					}
					q := core.PathQuery{Fn: fn, CutEdge: func(e core.Edge) bool { return containsEdge(nilEdges, e) }}
					if _, reach := q.CanReach(nil, func(x ssa.Instruction) bool { return x == u }); reach {
						okDom = false
					}
				}
			}
			r.Check(len(nilEdges) > 0 && okDom, "C17.R2", h.fn+"/validated", "the handler builds the module graph / processes the request only after "+h.val+" returned no error", "use reachable without passing the successful validation", p.Pos(v.Pos()))
			// a validation error is answered with the invalid-argument error OF THE HANDLER'S PROTOCOL: a connect handler
			// must return a connect error, a plain grpc handler a grpc status (a connect error returned by a grpc
			// handler, or a bsstream error returned outside toConnectError, reaches the client with the code Unknown)
			proto := handlerProtocol(fn)
			okInv := false
			got := ""
			for _, e := range errNonNilEdges(fn, v) {
				k := invalidArgKind(e.From.Succs[e.Idx])
				got += k + " "
				if k == proto {
					okInv = true
				}
			}
			r.Check(okInv, "C17.R2", h.fn+"/invalid-argument", "a validation failure is answered with an invalid-argument error of the handler's own protocol ("+proto+")", "error branch builds: "+got, p.Pos(v.Pos()))
		}
		// every validation step's error ends validateRequest / ValidateTierXRequest with that error
		for _, vf := range []string{"validateRequest", "ValidateTier1Request", "ValidateTier2Request"} {
			fn := p.Func(pkgSvc, vf)
			r.Touch(core.FuncName(fn))
			n := 0
			core.Instrs(fn, func(in ssa.Instruction) {
				c, ok := in.(*ssa.Call)
				if !ok {
					return
				}
				cl := core.CommonCallee(c.Common())
				if cl == nil {
					return
				}
				sig := cl.Type().(*types.Signature)
				if sig.Results().Len() != 1 || !isErrorTyped(sig.Results().At(0).Type()) {
					return
				}
				if cl.Pkg() == nil || !strings.HasPrefix(cl.Pkg().Path(), core.ModPath) {
					return
				}
				n++
				nilEdges := errNilEdges(fn, c)
				hit, ok := core.ErrorPropagated(fn, c, nilEdges, func(x ssa.Instruction) bool { return core.ReturnsConstNilError(x) })
				d := ""
				if !ok {
					d = "a `return nil` is reachable although " + cl.Name() + " failed: " + p.Pos(core.InstrPos(hit))
				}
				// `return step(...)`: the step's verdict is the function's own
				if len(nilEdges) == 0 && returnedAsIs(fn, c) {
					r.Check(true, "C17.R2", vf+"/"+cl.Name()+"-propagated", "a failing validation step ("+cl.Name()+") always makes "+vf+" fail", "", p.Pos(c.Pos()))
					return
				}
				r.Check(ok && len(nilEdges) > 0, "C17.R2", vf+"/"+cl.Name()+"-propagated", "a failing validation step ("+cl.Name()+") always makes "+vf+" fail", d, p.Pos(c.Pos()))
			})
			if n == 0 {
				core.Undecide("%s: no validation step found", vf)
			}
		}
		// graph construction errors are invalid-argument too (in the handler's protocol: Blocks returns them outside of
		// toConnectError)
		b := p.Func(pkgSvc, "Tier1Service.Blocks")
		okG := false
		gotG := ""
		for _, c := range core.FindInstrs(b, core.IsCallTo(p.FuncObj(pkgExec, "NewOutputModuleGraph"))) {
			for _, e := range errNonNilEdges(b, c) {
				k := invalidArgKind(e.From.Succs[e.Idx])
				gotG += k + " "
				if k == handlerProtocol(b) {
					okG = true
				}
			}
		}
		r.Check(okG, "C17.R2", "Blocks/graph-error", "a module graph that cannot be built is answered with a connect invalid-argument error", "error branch builds: "+gotG, p.Pos(b.Pos()))
		// a missing module list is refused the same way, in both handlers
		for _, hn := range []string{"Tier1Service.Blocks", "Tier2Service.ProcessRange"} {
			fn := p.Func(pkgSvc, hn)
			okM := false
			gotM := ""
			core.InstrsDeep(fn, func(in ssa.Instruction) {
				ifi, ok := in.(*ssa.If)
				if !ok {
					return
				}
				c, neg := core.StripNot(ifi.Cond)
				bo, ok := c.(*ssa.BinOp)
				if !ok || (bo.Op != token.EQL && bo.Op != token.NEQ) {
					return
				}
				if k, ok := bo.Y.(*ssa.Const); !ok || !k.IsNil() {
					return
				}
				f, _ := core.LoadedField(bo.X)
				if f == nil || f.Name() != "Modules" {
					return
				}
				idx := 0
				if (bo.Op == token.NEQ) != neg {
					idx = 1
				}
				k := invalidArgKind(ifi.Block().Succs[idx])
				gotM += k + " "
				if k == handlerProtocol(fn) {
					okM = true
				}
			})
			r.Check(okM, "C17.R2", hn+"/missing-modules", "a request without module list is refused with an invalid-argument error of the handler's own protocol ("+handlerProtocol(fn)+")", "nil branch builds: "+gotM, p.Pos(fn.Pos()))
		}
		checkErrorCodeMapping(p, r)
	})

	// ------------------------------------------------------------------ R3
	r.Guard("C17.R3", "reference-keys-raw", "validation looks up the reference field itself", func() { checkReferenceKeysRaw(p, r, "C17.R3") })
	r.Guard("C17.R3", "hash-memoised", "hash recursion bounded by the cache", func() { checkHashMemoised(p, r, "C17.R3") })
	r.GuardExact("C17.R2", "error-discipline", "errors and lookups are tested where they are produced", func() {
		checkErrorDiscipline(p, r, "C17.R2", []string{"manifest", "service", "pipeline/exec", "pipeline"}, 100)
	})
	r.Guard("C17.R3", "bounded-work", "loops and recursion", func() {
		cg := p.CallGraph(false)
		reach := core.Reachable(cg, entries()...)
		var unbounded, recursive []string
		pos := map[string]token.Pos{}
		for f := range reach {
			if !core.IsRepo(f) || f.Blocks == nil || p.IsTestFunc(f) || isGenerated(p, f) {
				continue
			}
			for _, l := range core.Loops(f) {
				if len(l.BoundExits) == 0 {
					k := core.FuncName(f)
					unbounded = append(unbounded, k)
					pos[k] = l.Header.Instrs[0].Pos()
				}
			}
			// recursion: f reaches itself
			if n := cg.Nodes[f]; n != nil {
				for _, e := range n.Out {
					if core.IsRepo(e.Callee.Func) && core.Reachable(cg, e.Callee.Func)[f] {
						recursive = append(recursive, core.FuncName(f))
						break
					}
				}
			}
		}
		sort.Strings(unbounded)
		sort.Strings(recursive)
		allowLoop := map[string]string{"pipeline/exec.computeStages": "the layering loop ends when every module is placed: guaranteed when the graph is acyclic and every reference resolves inside the staged set (preconditions checked below)"}
		allowRec := map[string]string{
			"(*manifest.ModuleHashes).HashModule": "recursion over ancestors of an acyclic graph, memoised in the cache",
			"(*manifest.ModuleHashes).hashModule": "recursion over ancestors / filter module of an acyclic graph, memoised in the cache",
		}
		for _, u := range uniq(unbounded) {
			_, ok := allowLoop[u]
			r.Check(ok, "C17.R3", "loop/"+u, "a loop without its own bound reachable from validation/planning terminates under a verified precondition", "unbounded loop not in the allow-table", p.Pos(pos[u]))
		}
		// a function that is recursive only because it takes part in an allowed recursion (every cycle through it also goes
		// through an allowed function — e.g. a piece of hashModule extracted into a helper that calls hashModule back) is
		// covered by the same argument
		viaAllowed := func(name string) bool {
			var f *ssa.Function
			for g := range reach {
				if core.FuncName(g) == name {
					f = g
				}
			}
			if f == nil {
				return false
			}
			// cut the allowed functions: f must no longer reach itself
			seen := map[*ssa.Function]bool{}
			var dfs func(g *ssa.Function) bool
			dfs = func(g *ssa.Function) bool {
				n := cg.Nodes[g]
				if n == nil {
					return false
				}
				for _, e := range n.Out {
					c := e.Callee.Func
					if !core.IsRepo(c) {
						continue
					}
					if _, allowed := allowRec[core.FuncName(c)]; allowed {
						continue
					}
					if c == f {
						return true
					}
					if !seen[c] {
						seen[c] = true
						if dfs(c) {
							return true
						}
					}
				}
				return false
			}
			return !dfs(f)
		}
		for _, u := range uniq(recursive) {
			_, ok := allowRec[u]
			if !ok {
				ok = viaAllowed(u)
			}
			r.Check(ok, "C17.R3", "recursion/"+u, "recursion reachable from validation/planning is bounded by the acyclic module graph", "recursive function not in the allow-table")
		}
		// precondition: NewModuleGraph rejects cycles, and computeGraph calls it (error → return) before staging/hashing
		ng := p.Func(pkgMani, "NewModuleGraph")
		okAcyc := false
		core.Instrs(ng, func(in ssa.Instruction) {
			if c := core.CalleeOf(in); c != nil && c.Name() == "Acyclic" {
				for _, ref := range *in.(ssa.Value).Referrers() {
					var ifi *ssa.If
					neg := false
					switch x := ref.(type) {
					case *ssa.If:
						ifi = x
					case *ssa.UnOp:
						neg = true
						for _, rr := range *x.Referrers() {
							if y, ok := rr.(*ssa.If); ok {
								ifi = y
							}
						}
					}
					if ifi == nil {
						continue
					}
					cyc := ifi.Block().Succs[1]
					if neg {
						cyc = ifi.Block().Succs[0]
					}
					if ret, ok := cyc.Instrs[len(cyc.Instrs)-1].(*ssa.Return); ok && !core.ReturnsNilError(ret) {
						okAcyc = true
					}
				}
			}
		})
		r.Check(okAcyc, "C17.R3", "NewModuleGraph/acyclic", "a module graph with a cycle is rejected with an error", "Acyclic test with error return not found", p.Pos(ng.Pos()))
		// the acyclicity test only bounds the layering loop if the graph holds an edge for EVERY reference the
		// loop waits on: each map/store input and the block filter, self references included
		mg := p.Named(pkgMani, "ModuleGraph")
		idxF := core.FieldOf(mg, "moduleIndex")
		nLook, nComplete := 0, 0
		keyFields := map[string]bool{}
		var inexact []string
		core.InstrsDeep(ng, func(in ssa.Instruction) { // (an edge may be added by a helper method of the graph)
			lk, ok := in.(*ssa.Lookup)
			if !ok || !lk.CommaOk {
				return
			}
			if f, _ := core.LoadedField(lk.X); f != idxF {
				return
			}
			ng := lk.Parent() // the queries below are about the function that holds the lookup
			nLook++
			if why := exactReferenceKey(lk.Index, 0); why != "" {
				inexact = append(inexact, why+" ("+p.Pos(lk.Pos())+")")
			}
			src := core.Trace(lk.Index, 1)
			for _, n := range []string{"ModuleName", "Module"} {
				if hasFieldNamed(src, n) {
					keyFields[n] = true
				}
			}
			var found, idx ssa.Value
			for _, ref := range *lk.Referrers() {
				if ex, ok := ref.(*ssa.Extract); ok {
					if ex.Index == 1 {
						found = ex
					} else {
						idx = ex
					}
				}
			}
			if found == nil || idx == nil {
				return
			}
			for _, ref := range *found.Referrers() {
				ifi, ok := ref.(*ssa.If)
				if !ok {
					continue
				}
				tb, fb := ifi.Block().Succs[0], ifi.Block().Succs[1]
				isEdge := func(x ssa.Instruction) bool {
					c := core.CalleeOf(x)
					if c == nil || c.Name() != "AddCost" {
						return false
					}
					args := x.(ssa.CallInstruction).Common().Args
					return len(args) >= 3 && core.SkipConv(args[len(args)-2]) == idx
				}
				if isEdge(tb.Instrs[0]) {
					nComplete++
					continue
				}
				q := core.PathQuery{Fn: ng, CutInstr: isEdge}
				if _, reach := q.CanReach(tb.Instrs[0], func(x ssa.Instruction) bool { return x == fb.Instrs[0] }); !reach {
					nComplete++
					continue
				}
				// an edge may be left out only for references validation is verified to refuse: a module naming itself
				// (every reference field feeding this lookup must be compared with the module's own name → error)
				refused := true
				nRef := 0
				for f := range src.Fields {
					if f.Name() == "ModuleName" || (f.Name() == "Module" && f.Pkg() != nil && strings.HasSuffix(f.Pkg().Path(), pkgPBV1)) {
						nRef++
						if !selfReferenceRefused(p, f) {
							refused = false
						}
					}
				}
				if nRef > 0 && refused && onlySelfExcluded(ng, tb, fb, idx, isEdge) {
					nComplete++
				}
			}
		})
		r.Check(nLook >= 2 && nComplete == nLook && keyFields["ModuleName"] && keyFields["Module"], "C17.R3", "NewModuleGraph/edges-complete",
			"every reference that resolves to a module — each map/store input and the block filter, a module's reference to itself included — becomes an edge of the graph tested for cycles (the layering loop waits on exactly these references)",
			fmt.Sprintf("%d module-name lookups, %d add an edge whenever the name is found; keys cover inputs=%v blockFilter=%v", nLook, nComplete, keyFields["ModuleName"], keyFields["Module"]), p.Pos(ng.Pos()))
		r.Check(len(inexact) == 0, "C17.R3", "NewModuleGraph/reference-keys-exact",
			"the name looked up for an edge is the reference field itself (input module name, block filter module) for every module that has the reference — the layering loop reads these very fields, so a name filtered by kind or altered on the way leaves a reference without edge",
			strings.Join(inexact, "; "), p.Pos(ng.Pos()))
		// ... and every reference resolves: validation accepts a module only if each map/store input and the block filter
		// (when present, whatever its name — the empty name included) names an existing module; a reference the graph has
		// no vertex for is never placed, so the layering loop would wait for it for ever
		for _, w := range []struct {
			fn      string
			keyName []string
			min     int
		}{{"checkValidInputs", []string{"ModuleName"}, 2}, {"checkValidBlockFilter", []string{"Module"}, 1}} {
			fn := p.Func(pkgMani, w.fn)
			r.Touch(core.FuncName(fn))
			var foundEdges, absentEdges []core.Edge
			nLk := 0
			core.InstrsDeep(fn, func(in ssa.Instruction) { // in the validation function or the helper that checks one reference
				lk, ok := in.(*ssa.Lookup)
				if !ok || !lk.CommaOk {
					return
				}
				// the key: the reference field itself, or the helper's parameter standing for it at each call
				keys := []ssa.Value{lk.Index}
				if cvs := core.CallerValues(fn, lk.Index); len(cvs) > 0 {
					keys = cvs
				}
				matched := 0
				for _, kv := range keys {
					src := core.Trace(kv, 1)
					for _, k := range w.keyName {
						if hasFieldNamed(src, k) {
							matched++
							break
						}
					}
				}
				if matched == 0 || matched != len(keys) {
					return
				}
				nLk += matched
				for _, ref := range *lk.Referrers() {
					ex, ok := ref.(*ssa.Extract)
					if !ok || ex.Index != 1 {
						continue
					}
					for _, rr := range *ex.Referrers() {
						var ifi *ssa.If
						neg := false
						switch y := rr.(type) {
						case *ssa.If:
							ifi = y
						case *ssa.UnOp:
							neg = true
							for _, r3 := range *y.Referrers() {
								if z, ok := r3.(*ssa.If); ok {
									ifi = z
								}
							}
						}
						if ifi == nil {
							continue
						}
						fi := 0
						if neg {
							fi = 1
						}
						foundEdges = append(foundEdges, core.Edge{From: ifi.Block(), Idx: fi})
						absentEdges = append(absentEdges, core.Edge{From: ifi.Block(), Idx: 1 - fi})
					}
				}
			})
			// on the not-found edge the function returns an error
			okErr := nLk >= w.min
			for _, e := range absentEdges {
				q := core.PathQuery{Fn: fn}
				if _, reach := q.CanReach(e.From.Succs[e.Idx].Instrs[0], func(x ssa.Instruction) bool {
					rt, ok := x.(*ssa.Return)
					return ok && core.ReturnsNilError(rt)
				}); reach {
					okErr = false
				}
			}
			// and, for the block filter, success without a lookup is only possible when there is no filter at all
			okOnly := true
			if w.fn == "checkValidBlockFilter" {
				var nilEdges []core.Edge
				core.InstrsDeep(fn, func(in ssa.Instruction) {
					ifi, ok := in.(*ssa.If)
					if !ok {
						return
					}
					c, neg := core.StripNot(ifi.Cond)
					bo, ok := c.(*ssa.BinOp)
					if !ok || (bo.Op != token.EQL && bo.Op != token.NEQ) {
						return
					}
					k, isK := bo.Y.(*ssa.Const)
					if !isK || !k.IsNil() {
						return
					}
					if !(hasFieldNamed(core.Trace(bo.X, 1), "BlockFilter") || core.Trace(bo.X, 1).HasCallNamed("GetBlockFilter")) {
						return
					}
					idx := 0
					if (bo.Op == token.NEQ) != neg {
						idx = 1
					}
					nilEdges = append(nilEdges, core.Edge{From: ifi.Block(), Idx: idx})
				})
				cut := append(append([]core.Edge{}, nilEdges...), foundEdges...)
				q := core.PathQuery{Fn: fn, CutEdge: func(e core.Edge) bool { return containsEdge(cut, e) }}
				_, reach := q.CanReach(nil, func(x ssa.Instruction) bool {
					rt, ok := x.(*ssa.Return)
					return ok && core.ReturnsNilError(rt)
				})
				okOnly = len(nilEdges) > 0 && !reach
			}
			r.Check(okErr && okOnly, "C17.R3", "precondition/P-refs-resolve/"+w.fn, "validation accepts a module only if every module it refers to exists: a name that is not found is an error, and a block filter is accepted without a lookup only when it is absent", fmt.Sprintf("%d lookups; not-found always an error: %v; no other way to succeed: %v", nLk, okErr, okOnly), p.Pos(fn.Pos()))
		}
		cgf := p.Func(pkgExec, "Graph.computeGraph")
		ngCalls := core.FindInstrs(cgf, core.IsCallTo(p.FuncObj(pkgMani, "NewModuleGraph")))
		okOrder := len(ngCalls) == 1
		if okOrder {
			nilEdges := errNilEdges(cgf, ngCalls[0])
			q := core.PathQuery{Fn: cgf, CutEdge: func(e core.Edge) bool { return containsEdge(nilEdges, e) }}
			_, reach := q.CanReach(nil, func(x ssa.Instruction) bool {
				c := core.CalleeOf(x)
				if c == p.FuncObj(pkgExec, "computeStages") || c == p.FuncObj(pkgMani, "ModuleHashes.HashModule") {
					return true
				}
				// hashing through a helper of the package (Graph.hashModules)
				if ci, ok := x.(ssa.CallInstruction); ok {
					if h := core.StaticFn(ci.Common()); h != nil && h.Blocks != nil && h.Pkg == cgf.Pkg && len(core.FindInstrs(h, core.IsCallTo(p.FuncObj(pkgMani, "ModuleHashes.HashModule")))) > 0 {
						return true
					}
				}
				return false
			})
			okOrder = len(nilEdges) > 0 && !reach
		}
		r.Check(okOrder, "C17.R3", "computeGraph/acyclic-first", "staging and hashing run only after NewModuleGraph succeeded (acyclic graph)", "computeStages/hashModules reachable without a successful NewModuleGraph", p.Pos(cgf.Pos()))
		// limits tested before the per-module maps are allocated in ValidateModules
		vm := p.Func(pkgMani, "ValidateModules")
		var limits []string
		core.InstrsDeep(vm, func(in ssa.Instruction) { // in ValidateModules or the helpers it delegates the checks to
			bo, ok := in.(*ssa.BinOp)
			if !ok || bo.Op != token.GTR {
				return
			}
			if k, ok := bo.Y.(*ssa.Const); ok && k.Value != nil {
				limits = append(limits, k.Value.ExactString())
			}
		})
		sort.Strings(limits)
		r.Check(strings.Join(limits, ",") == "100,30,300000000", "C17.R3", "ValidateModules/limits", "the request is bounded: at most 100 modules, 30 inputs per module, 300 MB of code", fmt.Sprintf("limit comparisons found: %v", limits), p.Pos(vm.Pos()))
		// the module-count limit precedes the allocation of the per-module maps
		var firstMake ssa.Instruction
		core.InstrsDeep(vm, func(in ssa.Instruction) { // in ValidateModules or the helpers it delegates the checks to
			if _, ok := in.(*ssa.MakeMap); ok && firstMake == nil {
				firstMake = in
			}
		})
		okLim := false
		if firstMake != nil {
			_, okLim = core.MustPassBefore(vm, func(x ssa.Instruction) bool {
				bo, ok := x.(*ssa.BinOp)
				if !ok || bo.Op != token.GTR {
					return false
				}
				k, ok := bo.Y.(*ssa.Const)
				return ok && k.Value != nil && k.Value.ExactString() == "100"
			}, func(x ssa.Instruction) bool { return x == firstMake })
		}
		r.Check(okLim, "C17.R3", "ValidateModules/limit-before-alloc", "the module-count limit is tested before per-module structures are allocated", "allocation not dominated by the limit test", p.Pos(vm.Pos()))
	})
	r.MinInstances("C17.R1", 6)
	r.MinInstances("C17.R2", 5)
	r.MinInstances("C17.R3", 9)
}

func uniq(xs []string) []string {
	var out []string
	for _, x := range xs {
		if len(out) == 0 || out[len(out)-1] != x {
			out = append(out, x)
		}
	}
	return out
}

// isRequestMessagePkg: types of the request messages (pb packages of the repository).
func isRequestMessage(t types.Type) bool {
	if p, ok := t.(*types.Pointer); ok {
		t = p.Elem()
	}
	n, ok := t.(*types.Named)
	if !ok || n.Obj().Pkg() == nil {
		return false
	}
	pp := n.Obj().Pkg().Path()
	return strings.HasPrefix(pp, core.ModPath+"/pb/")
}

// collectCrashSites: explicit panics, request-derived indexes without bound check, nil-able message dereferences.
func collectCrashSites(p *core.Prog, fn *ssa.Function) []reachSite {
	var out []reachSite
	name := core.FuncName(fn)
	hasRecover := false
	core.Instrs(fn, func(in ssa.Instruction) {
		if d, ok := in.(*ssa.Defer); ok {
			if mc, ok := d.Call.Value.(*ssa.MakeClosure); ok {
				core.Instrs(mc.Fn.(*ssa.Function), func(x ssa.Instruction) {
					if _, ok := core.IsBuiltinCall(x, "recover"); ok {
						hasRecover = true
					}
				})
			}
		}
	})
	if hasRecover {
		return nil
	}
	core.Instrs(fn, func(in ssa.Instruction) {
		switch x := in.(type) {
		case *ssa.Panic:
			// go/ssa's own unreachable marker after a `select` without default is not a crash site of the program
			if mi, ok := x.X.(*ssa.MakeInterface); ok {
				if k, ok := mi.X.(*ssa.Const); ok && k.Value != nil && k.Value.Kind() == constant.String && constant.StringVal(k.Value) == "blocking select matched no case" {
					return
				}
			}
			out = append(out, reachSite{Fn: fn, Kind: "panic", Key: "panic@" + name, Pos: x.Pos(), Desc: "explicit panic"})
		case *ssa.IndexAddr:
			// slice index derived from a field of a request message
			if _, isSlice := x.X.Type().Underlying().(*types.Slice); !isSlice {
				return
			}
			if _, isConst := x.Index.(*ssa.Const); isConst {
				// constant index into a request-derived slice: needs a length check too
			}
			src := core.Trace(x.Index, 0)
			var fld *types.Var
			for f := range src.Fields {
				if isRequestMessage(types.NewPointer(ownerNamed(f))) {
					fld = f
				}
			}
			if fld == nil {
				return
			}
			// range-loop induction variables are bounded by construction
			if loopBounded(fn, x) {
				return
			}
			if boundChecked(fn, x) {
				return
			}
			out = append(out, reachSite{Fn: fn, Kind: "index", Key: fmt.Sprintf("index@%s[%s]", name, fieldKey(fld)), Pos: x.Pos(),
				Desc: "slice indexed by request field " + fieldKey(fld) + " without a dominating bound check"})
		}
	})
	return out
}

func ownerNamed(f *types.Var) types.Type {
	if f.Pkg() == nil {
		return types.Typ[types.Invalid]
	}
	sc := f.Pkg().Scope()
	for _, n := range sc.Names() {
		tn, ok := sc.Lookup(n).(*types.TypeName)
		if !ok {
			continue
		}
		st, ok := tn.Type().Underlying().(*types.Struct)
		if !ok {
			continue
		}
		for i := 0; i < st.NumFields(); i++ {
			if st.Field(i) == f {
				return tn.Type()
			}
		}
	}
	return types.Typ[types.Invalid]
}

// loopBounded: the index is the induction variable of a range/for loop over the same slice.
func loopBounded(fn *ssa.Function, ia *ssa.IndexAddr) bool {
	for _, l := range core.Loops(fn) {
		if !l.Body[ia.Block()] {
			continue
		}
		_, phi := l.InductionDir()
		if phi != nil && core.SliceReaches(ia.Index, phi, 0) {
			return true
		}
	}
	return false
}

// boundChecked: a comparison between (something derived from) the index and len(slice) dominates the access.
func boundChecked(fn *ssa.Function, ia *ssa.IndexAddr) bool {
	found := false
	core.InstrsDeep(fn, func(in ssa.Instruction) {
		ifi, ok := in.(*ssa.If)
		if !ok || found {
			return
		}
		bo, ok := ifi.Cond.(*ssa.BinOp)
		if !ok {
			return
		}
		isLen := func(v ssa.Value) bool {
			l := lenArg(v)
			return l != nil && sameExpr(l, ia.X, 3)
		}
		isIdx := func(v ssa.Value) bool { return sameExpr(core.SkipConv(v), core.SkipConv(ia.Index), 3) }
		if (isLen(bo.X) && isIdx(bo.Y)) || (isLen(bo.Y) && isIdx(bo.X)) {
			// the edge that leads to the access must establish index < len exactly (`index > len` leaves index == len in)
			onTrue, onFalse, okRel := core.CondRelation(ifi.Cond, isIdx, isLen)
			if !okRel {
				return
			}
			blk := ifi.Block()
			switch {
			case blk.Succs[0] != blk.Succs[1] && len(blk.Succs[0].Preds) == 1 && blk.Succs[0].Dominates(ia.Block()):
				found = onTrue == core.OrdLT
			case blk.Succs[0] != blk.Succs[1] && len(blk.Succs[1].Preds) == 1 && blk.Succs[1].Dominates(ia.Block()):
				found = onFalse == core.OrdLT
			}
		}
	})
	return found
}

// checkValidationPreconditions: the checks that exclude the allowed crash sites exist in ValidateModules.
func checkValidationPreconditions(p *core.Prog, r *core.Report) {
	vm := p.Func(pkgMani, "ValidateModules")
	r.Touch(core.FuncName(vm))
	modT := p.Named(pkgPBV1, "Module")
	modsT := p.Named(pkgPBV1, "Modules")
	kindF := core.FieldOf(modT, "Kind")
	binIdx := core.FieldOf(modT, "BinaryIndex")
	bins := core.FieldOf(modsT, "Binaries")
	mk := p.FuncObj(pkgPBV1, "Module.ModuleKind")

	// P-kind-set: every call of ModuleKind reachable from validation is dominated, in ValidateModules, by a nil test of mod.Kind with error return
	scope := []*ssa.Function{vm, p.Func(pkgMani, "checkValidBlockFilter"), p.Func(pkgMani, "checkValidInputs")}
	okKind := false
	core.InstrsDeep(vm, func(in ssa.Instruction) {
		ifi, ok := in.(*ssa.If)
		if !ok {
			return
		}
		bo, ok := ifi.Cond.(*ssa.BinOp)
		if !ok || (bo.Op != token.EQL && bo.Op != token.NEQ) {
			return
		}
		f, _ := core.LoadedField(bo.X)
		k, isK := bo.Y.(*ssa.Const)
		if f != kindF || !isK || !k.IsNil() {
			return
		}
		nilIdx := 0
		if bo.Op == token.NEQ {
			nilIdx = 1
		}
		b := ifi.Block().Succs[nilIdx]
		if ret, ok := b.Instrs[len(b.Instrs)-1].(*ssa.Return); ok && !core.ReturnsNilError(ret) {
			// and the test precedes the first ModuleKind call
			first := core.FindInstrsIn(vm, core.IsCallTo(mk)) // the calls in ValidateModules itself: the helpers run after this loop
			okAll := len(first) > 0
			for _, c := range first {
				if _, dom := core.MustPassBefore(vm, func(x ssa.Instruction) bool { return x == ssa.Instruction(ifi) }, func(x ssa.Instruction) bool { return x == c }); !dom {
					okAll = false
				}
			}
			okKind = okAll
		}
	})
	_ = scope
	r.Check(okKind, "C17.R1", "precondition/P-kind-set", "ValidateModules rejects a module whose kind is absent before anything calls Module.ModuleKind() (which panics on an absent kind)", "no `mod.Kind == nil → error` test dominating the ModuleKind calls", p.Pos(vm.Pos()))

	// P-input-set: checkValidInputs has a default / nil case returning an error
	ci := p.Func(pkgMani, "checkValidInputs")
	fd, pk := p.FuncDecl(pkgMani, "checkValidInputs")
	okInput := false
	for _, s := range core.SwitchesIn(pk, fd.Body) {
		if s.IsType && s.HasDefault {
			for i, ls := range s.Labels {
				if ls != nil {
					continue
				}
				cl := s.Clauses[i]
				core.Instrs(ci, func(in ssa.Instruction) {
					if ret, ok := in.(*ssa.Return); ok && cl.Pos() <= ret.Pos() && ret.Pos() <= cl.End() && !core.ReturnsNilError(ret) {
						okInput = true
					}
				})
			}
		}
	}
	r.Check(okInput, "C17.R1", "precondition/P-input-set", "checkValidInputs rejects an input whose oneof is absent or of an unknown kind (default case → error); computeStages panics on such an input", "the type switch over the input kinds has no erroring default case", p.Pos(ci.Pos()))

	// P-binary-index: the only request-derived slice index (Binaries[BinaryIndex] in hashModule) is bound-checked where it is used
	hm := p.Func(pkgMani, "ModuleHashes.hashModule")
	nIdx, nChecked := 0, 0
	core.Instrs(hm, func(in ssa.Instruction) {
		ia, ok := in.(*ssa.IndexAddr)
		if !ok {
			return
		}
		if f, _ := core.LoadedField(ia.X); f != bins {
			return
		}
		if !core.Trace(ia.Index, 0).Fields[binIdx] {
			return
		}
		nIdx++
		if boundChecked(hm, ia) {
			nChecked++
		}
	})
	r.Check(nIdx > 0 && nIdx == nChecked, "C17.R1", "precondition/P-binary-index", "every access Modules.Binaries[module.BinaryIndex] in the hash function is dominated by a comparison of the index with len(Binaries)", fmt.Sprintf("%d accesses, %d bound-checked", nIdx, nChecked), p.Pos(hm.Pos()))
	_ = vm

	// P-output-found: computeGraph returns the ModulesDownTo error before computeOutputModule
	cgf := p.Func(pkgExec, "Graph.computeGraph")
	mdt := core.FindInstrs(cgf, core.IsCallTo(p.FuncObj(pkgMani, "ModuleGraph.ModulesDownTo")))
	okOut := false
	if len(mdt) == 1 {
		nilEdges := errNilEdges(cgf, mdt[0])
		q := core.PathQuery{Fn: cgf, CutEdge: func(e core.Edge) bool { return containsEdge(nilEdges, e) }}
		_, reach := q.CanReach(nil, core.IsCallTo(p.FuncObj(pkgExec, "computeOutputModule")))
		okOut = len(nilEdges) > 0 && !reach
	}
	r.Check(okOut, "C17.R1", "precondition/P-output-found", "computeOutputModule (which panics when the output module is missing) runs only after ModulesDownTo(output) succeeded", "computeOutputModule reachable without a successful ModulesDownTo", p.Pos(cgf.Pos()))
	// the request handlers reach the graph only through validation (R2) — and Request.Validate guards nil Modules before ValidateTier*Request dereferences it
	for _, v := range []struct{ rel, fn, val string }{{pkgSvc, "ValidateTier1Request", "Request.Validate"}, {pkgSvc, "ValidateTier2Request", "ProcessRangeRequest.Validate"}} {
		fn := p.Func(v.rel, v.fn)
		var vc ssa.Instruction
		core.Instrs(fn, func(in ssa.Instruction) {
			if c := core.CalleeOf(in); c != nil && c.Name() == "Validate" {
				vc = in
			}
		})
		ok := false
		if vc != nil {
			nilEdges := errNilEdges(fn, vc)
			q := core.PathQuery{Fn: fn, CutEdge: func(e core.Edge) bool { return containsEdge(nilEdges, e) }}
			_, reach := q.CanReach(nil, core.IsCallTo(p.FuncObj(pkgSvc, "validateRequest")))
			ok = len(nilEdges) > 0 && !reach
		}
		r.Check(ok, "C17.R1", "precondition/"+v.fn+"/modules-non-nil", v.fn+" dereferences request.Modules only after "+v.val+" (which rejects a nil Modules) succeeded", "validateRequest reachable without the successful Validate()", p.Pos(fn.Pos()))
	}
}

// selfReferenceRefused: some validation function of package manifest compares the given reference field with the
// module's own Name and returns an error on equality.
func selfReferenceRefused(p *core.Prog, ref *types.Var) bool {
	nameF := core.FieldOf(p.Named(pkgPBV1, "Module"), "Name")
	ok := false
	for _, fn := range p.RepoFunctions() {
		if fn.Pkg == nil || fn.Pkg.Pkg.Path() != core.ModPath+"/"+pkgMani {
			continue
		}
		core.InstrsDeep(fn, func(in ssa.Instruction) {
			ifi, isIf := in.(*ssa.If)
			if !isIf {
				return
			}
			c, neg := core.StripNot(ifi.Cond)
			bo, isBo := c.(*ssa.BinOp)
			if !isBo || (bo.Op != token.EQL && bo.Op != token.NEQ) {
				return
			}
			has := func(v ssa.Value, f *types.Var) bool { return core.Trace(v, 1).Fields[f] }
			if !((has(bo.X, ref) && has(bo.Y, nameF)) || (has(bo.Y, ref) && has(bo.X, nameF))) {
				return
			}
			eq := 0
			if (bo.Op == token.NEQ) != neg {
				eq = 1
			}
			b := ifi.Block().Succs[eq]
			if ret, isRet := b.Instrs[len(b.Instrs)-1].(*ssa.Return); isRet && !core.ReturnsNilError(ret) {
				ok = true
			}
		})
	}
	return ok
}

// onlySelfExcluded: between the found-edge and the join, the only condition under which the edge is not added
// is `looked-up index == the module's own index`.
func onlySelfExcluded(fn *ssa.Function, tb, fb *ssa.BasicBlock, idx ssa.Value, isEdge func(ssa.Instruction) bool) bool {
	var selfEdges []core.Edge
	core.InstrsDeep(fn, func(in ssa.Instruction) {
		ifi, ok := in.(*ssa.If)
		if !ok {
			return
		}
		c, neg := core.StripNot(ifi.Cond)
		bo, isBo := c.(*ssa.BinOp)
		if !isBo || (bo.Op != token.EQL && bo.Op != token.NEQ) {
			return
		}
		if core.SkipConv(bo.X) != idx && core.SkipConv(bo.Y) != idx {
			return
		}
		eq := 0
		if (bo.Op == token.NEQ) != neg {
			eq = 1
		}
		selfEdges = append(selfEdges, core.Edge{From: ifi.Block(), Idx: eq})
	})
	if len(selfEdges) == 0 {
		return false
	}
	q := core.PathQuery{Fn: fn, CutInstr: isEdge, CutEdge: func(e core.Edge) bool { return containsEdge(selfEdges, e) }}
	_, reach := q.CanReach(tb.Instrs[0], func(x ssa.Instruction) bool { return x == fb.Instrs[0] })
	return !reach
}

// exactReferenceKey: "" unless some leaf of the key value hands out a reference field (ModuleName of an input, Module
// of a block filter) only conditionally: a helper that returns the field on one path and an empty name on another path
// on which the reference is present.  Direct field loads, the generated nil-safe getters and leaves that are no
// reference at all (a source type, a params value, the initial "") are fine.
func exactReferenceKey(v ssa.Value, depth int) string {
	v = core.SkipConv(v)
	if f, _ := core.LoadedField(v); f != nil {
		return ""
	}
	switch x := v.(type) {
	case *ssa.Phi:
		for _, e := range x.Edges {
			if why := exactReferenceKey(e, depth); why != "" {
				return why
			}
		}
		return ""
	case *ssa.Const:
		return ""
	case *ssa.Call:
		fn := core.StaticFn(x.Common())
		if fn == nil || fn.Blocks == nil || depth > 1 {
			return ""
		}
		// does the helper hand out a reference field at all?
		isRef := false
		core.Instrs(fn, func(in ssa.Instruction) {
			if rt, ok := in.(*ssa.Return); ok && len(rt.Results) > 0 {
				if f, _ := core.LoadedField(core.SkipConv(rt.Results[0])); f != nil && (f.Name() == "ModuleName" || f.Name() == "Module") {
					isRef = true
				}
			}
		})
		if !isRef {
			return ""
		}
		// edges of fn on which the reference is known to be absent
		var absent []core.Edge
		core.InstrsDeep(fn, func(in ssa.Instruction) {
			ifi, ok := in.(*ssa.If)
			if !ok {
				return
			}
			c, neg := core.StripNot(ifi.Cond)
			bo, ok := c.(*ssa.BinOp)
			if !ok || (bo.Op != token.EQL && bo.Op != token.NEQ) {
				return
			}
			if k, ok := bo.Y.(*ssa.Const); !ok || !k.IsNil() {
				return
			}
			// nil block filter, or the nil receiver of a generated (nil-safe) getter
			f, _ := core.LoadedField(bo.X)
			isRecv := len(fn.Params) > 0 && bo.X == ssa.Value(fn.Params[0])
			if !isRecv && (f == nil || f.Name() != "BlockFilter") {
				return
			}
			idx := 0
			if (bo.Op == token.NEQ) != neg {
				idx = 1
			}
			absent = append(absent, core.Edge{From: ifi.Block(), Idx: idx})
		})
		why := ""
		core.Instrs(fn, func(in ssa.Instruction) {
			rt, ok := in.(*ssa.Return)
			if !ok || len(rt.Results) == 0 || why != "" {
				return
			}
			res := core.SkipConv(rt.Results[0])
			if f, _ := core.LoadedField(res); f != nil && (f.Name() == "ModuleName" || f.Name() == "Module") {
				return
			}
			q := core.PathQuery{Fn: fn, CutEdge: func(e core.Edge) bool { return containsEdge(absent, e) }}
			if _, reach := q.CanReach(nil, func(y ssa.Instruction) bool { return y == in }); reach {
				why = core.FuncName(fn) + " returns something else than the reference field although the reference is present"
			}
		})
		return why
	}
	return ""
}

// returnedAsIs: the call's (single, error) result is used for nothing but being returned, on every path
// that follows the call (directly, or through the cell go/ssa spills results into when the function has defers).
func returnedAsIs(fn *ssa.Function, c *ssa.Call) bool {
	nRet := 0
	for _, ref := range *c.Referrers() {
		switch x := ref.(type) {
		case *ssa.Return:
			nRet++
		case *ssa.Store:
			if _, cell := x.Addr.(*ssa.Alloc); !cell || x.Val != ssa.Value(c) {
				return false
			}
			found := false
			for _, in := range x.Block().Instrs {
				if ret, ok := in.(*ssa.Return); ok {
					for _, rv := range core.ReturnValues(ret) {
						if rv == ssa.Value(c) {
							found = true
						}
					}
				}
			}
			if !found {
				return false
			}
			nRet++
		case *ssa.DebugRef:
		default:
			return false
		}
	}
	if nRet == 0 {
		return false
	}
	// every path from the call ends in one of those returns: the call's block ends with it
	_, ok := c.Block().Instrs[len(c.Block().Instrs)-1].(*ssa.Return)
	return ok
}
