package props

import (
	"fmt"
	"go/ast"
	"go/constant"
	"go/types"
	"regexp"
	"sort"
	"strings"

	"golang.org/x/tools/go/packages"
	"golang.org/x/tools/go/ssa"

	"verif/sa/core"
)

func init() {
	register("C10", &Def{
		Title:     "Store snapshots round-trip through save/load and are found by block range",
		Run:       runC10,
		Technique: "static analysis: printer/parser table agreement (constant format strings vs regexp literals and the role each capture group feeds), save/load field symmetry, comparison normal form of the listing guards",
		Explanation: "(R1) for store snapshots, cached outputs and index files, the file-name printer (constant Sprintf format, role of each argument traced to Range.StartBlock / ExclusiveEndBlock) and the parser (regexp literal, role each capture group is converted into) agree position by position, use equal zero-padded widths, and the extension decides the full/partial kind consistently with the constructors; " +
			"(R2) Save writes exactly the StoreData fields Load restores, from/to the store's own fields, with the store's marshaller (shared with C02.R6), and the bytes are uploaded with a reader created per retry attempt (a shared reader would upload a truncated snapshot after a failed attempt); " +
			"(R3) the snapshot listing keeps every parsed file except trace-id leftovers, stops only at a file whose start block is >= the limit, returns nothing for limit 0, and the caller classifies files by their Partial flag.",
		NotCovered:  "Byte-level round trip of arbitrary keys and values (delegated to generated protobuf code; the hand-written part is C18), behaviour of the object store's Walk ordering.",
		Assumptions: []string{"dstore.Walk lists file names in lexicographic order", "the regexp literals are evaluated by the checker with Go's regexp package (constant evaluation, no repository code is run)"},
	})
}

type printerInfo struct {
	fn     *ssa.Function
	format string
	widths []string
	roles  []string // per verb: "start" | "end" | "?"
	ext    string
}

var fmtShape = regexp.MustCompile(`^%(0\d+)d-%(0\d+)d\.(\w+)$`)

// constString returns the constant string value of an SSA value.
func constString(v ssa.Value) (string, bool) {
	c, ok := v.(*ssa.Const)
	if !ok || c.Value == nil || c.Value.Kind() != constant.String {
		return "", false
	}
	return constant.StringVal(c.Value), true
}

func rangeRole(p *core.Prog, v ssa.Value) string {
	rt := p.Named(pkgBlock, "Range")
	start, end := core.FieldOf(rt, "StartBlock"), core.FieldOf(rt, "ExclusiveEndBlock")
	f, _ := core.LoadedField(core.SkipConv(v))
	switch f {
	case start:
		return "start"
	case end:
		return "end"
	}
	// accessor calls StartBlock()/EndBlock() of bstream.Range etc.
	if c, ok := core.SkipConv(v).(*ssa.Call); ok {
		if cl := core.CommonCallee(c.Common()); cl != nil {
			switch cl.Name() {
			case "StartBlock":
				return "start"
			}
		}
	}
	return "?"
}

// analysePrinter extracts format, widths, extension and argument roles of a
// file-name printer (function whose result is a Sprintf with constant format).
func analysePrinter(p *core.Prog, fn *ssa.Function) *printerInfo {
	var call *ssa.Call
	core.Instrs(fn, func(in ssa.Instruction) {
		if c, ok := in.(*ssa.Call); ok {
			if cl := core.CommonCallee(c.Common()); cl != nil && calleeKey(cl) == "fmt.Sprintf" {
				call = c
			}
		}
	})
	// the printer may delegate to a shared helper of the package (`return stateFileName(r, "kv")`): the helper's Sprintf
	// is read, its extension verb standing for the constant passed at this call
	extArg := ""
	outer := fn
	if call == nil {
		core.Instrs(outer, func(in ssa.Instruction) {
			hc, ok := in.(*ssa.Call)
			if !ok || call != nil {
				return
			}
			h := core.StaticFn(hc.Common())
			if h == nil || h.Blocks == nil || h.Pkg != outer.Pkg || h.Parent() != nil {
				return
			}
			var hcall *ssa.Call
			core.Instrs(h, func(x ssa.Instruction) {
				if c, ok := x.(*ssa.Call); ok {
					if cl := core.CommonCallee(c.Common()); cl != nil && calleeKey(cl) == "fmt.Sprintf" {
						hcall = c
					}
				}
			})
			if hcall == nil {
				return
			}
			returned := false
			core.Instrs(outer, func(x ssa.Instruction) {
				if rt, ok := x.(*ssa.Return); ok && len(rt.Results) == 1 && core.ReturnValues(rt)[0] == ssa.Value(hc) {
					returned = true
				}
			})
			if !returned {
				return
			}
			for i, a := range hc.Call.Args {
				if cs, ok := constString(a); ok && i < len(h.Params) {
					extArg = cs
				}
			}
			call, fn = hcall, h
		})
	}
	if call == nil {
		core.Undecide("%s: no fmt.Sprintf", core.FuncName(fn))
	}
	format, ok := constString(call.Call.Args[0])
	if !ok {
		core.Undecide("%s: Sprintf format is not constant", core.FuncName(fn))
	}
	if extArg != "" && strings.HasSuffix(format, ".%s") {
		format = strings.TrimSuffix(format, "%s") + extArg
	}
	m := fmtShape.FindStringSubmatch(format)
	if m == nil {
		core.Undecide("%s: format %q is not of the shape %%0Nd-%%0Nd.ext", core.FuncName(fn), format)
	}
	pi := &printerInfo{fn: outer, format: format, widths: []string{m[1], m[2]}, ext: m[3]}
	// variadic args: slice of an alloc'd array; elements stored by index
	args := make([]ssa.Value, 2)
	if sl, ok := call.Call.Args[1].(*ssa.Slice); ok {
		if al, ok := sl.X.(*ssa.Alloc); ok {
			for _, r := range *al.Referrers() {
				ia, ok := r.(*ssa.IndexAddr)
				if !ok {
					continue
				}
				idx, ok := ia.Index.(*ssa.Const)
				if !ok {
					continue
				}
				i, _ := constant.Int64Val(idx.Value)
				for _, rr := range *ia.Referrers() {
					if st, ok := rr.(*ssa.Store); ok && i < 2 {
						v := st.Val
						if mi, ok := v.(*ssa.MakeInterface); ok {
							v = mi.X
						}
						args[i] = v
					}
				}
			}
		}
	}
	for _, a := range args {
		if a == nil {
			core.Undecide("%s: Sprintf arguments not recovered", core.FuncName(fn))
		}
		role := rangeRole(p, a)
		if role == "?" {
			if prm, ok := core.SkipConv(a).(*ssa.Parameter); ok {
				role = paramRoleFromCallers(p, fn, prm)
			}
		}
		pi.roles = append(pi.roles, role)
	}
	return pi
}

// paramRoleFromCallers: role of a printer's parameter, from what every caller passes (constants ignored).
func paramRoleFromCallers(p *core.Prog, fn *ssa.Function, prm *ssa.Parameter) string {
	idx := -1
	for i, x := range fn.Params {
		if x == prm {
			idx = i
		}
	}
	role := ""
	for _, caller := range p.RepoFunctions() {
		core.Instrs(caller, func(in ssa.Instruction) {
			c, ok := in.(ssa.CallInstruction)
			if !ok || core.StaticFn(c.Common()) != fn {
				return
			}
			a := c.Common().Args[idx]
			if _, isConst := a.(*ssa.Const); isConst {
				return
			}
			r := rangeRole(p, a)
			if role == "" {
				role = r
			} else if role != r {
				role = "conflict"
			}
		})
	}
	if role == "" {
		return "?"
	}
	return role
}

type parserInfo struct {
	fn        *ssa.Function
	regex     string
	narrow    []string // conversions of a captured number that cannot represent every printable value
	nConv     int
	groupRole map[int]string // capture group -> role
	groupCmp  map[int][]string
	groupFld  map[int][]string
}

// analyseParser: which capture group of the regexp feeds which role of the parsed range.
func analyseParser(p *core.Prog, fn *ssa.Function, regex string) *parserInfo {
	pi := &parserInfo{fn: fn, regex: regex, groupRole: map[int]string{}, groupCmp: map[int][]string{}, groupFld: map[int][]string{}}
	rt := p.Named(pkgBlock, "Range")
	start, end := core.FieldOf(rt, "StartBlock"), core.FieldOf(rt, "ExclusiveEndBlock")
	newRange := p.FuncObj(pkgBlock, "NewRange")
	core.Instrs(fn, func(in ssa.Instruction) {
		ia, ok := in.(*ssa.IndexAddr)
		if !ok {
			return
		}
		k, ok := ia.Index.(*ssa.Const)
		if !ok {
			return
		}
		// inner index of res[0][k]: X is a load of res[0]
		inner, ok := ia.X.(*ssa.UnOp)
		if !ok {
			return
		}
		if _, ok := inner.X.(*ssa.IndexAddr); !ok {
			return
		}
		g64, _ := constant.Int64Val(k.Value)
		g := int(g64)
		for _, r := range *ia.Referrers() {
			ld, ok := r.(*ssa.UnOp)
			if !ok {
				continue
			}
			convWidths(ld, 2, pi)
			for _, s := range core.ForwardSinks(ld, 8) {
				switch {
				case s.Callee == newRange && s.Arg == 0:
					pi.groupRole[g] = "start"
				case s.Callee == newRange && s.Arg == 1:
					pi.groupRole[g] = "end"
				case s.Field == start:
					pi.groupRole[g] = "start"
				case s.Field == end:
					pi.groupRole[g] = "end"
				case s.Field != nil:
					pi.groupFld[g] = append(pi.groupFld[g], s.Field.Name())
				case s.Cmp != nil:
					for _, op := range []ssa.Value{s.Cmp.X, s.Cmp.Y} {
						if cs, ok := constString(op); ok {
							pi.groupCmp[g] = append(pi.groupCmp[g], s.Cmp.Op.String()+cs)
						}
					}
				}
			}
		}
	})
	return pi
}

// convWidths records, for a captured string, the numeric conversions it goes through (directly or inside a helper)
// and flags those whose result type is narrower than 64 bits: names are printed with %010d, i.e. up to 9 999 999 999,
// which does not fit 32 bits.
func convWidths(v ssa.Value, depth int, pi *parserInfo) {
	for _, s := range core.ForwardSinks(v, 3) {
		if s.Callee == nil || s.Arg != 0 {
			continue
		}
		call, ok := s.Instr.(*ssa.Call)
		if !ok {
			continue
		}
		if s.Callee.Pkg() != nil && s.Callee.Pkg().Path() == "strconv" {
			switch s.Callee.Name() {
			case "Atoi":
				pi.nConv++ // int is 64 bits on every platform the server is built for
			case "ParseUint", "ParseInt":
				pi.nConv++
				if k, ok := call.Call.Args[2].(*ssa.Const); !ok || (k.Int64() != 64 && k.Int64() != 0) {
					pi.narrow = append(pi.narrow, fmt.Sprintf("strconv.%s(…, %s)", s.Callee.Name(), call.Call.Args[2]))
				}
			}
			continue
		}
		if depth > 0 {
			if sf := core.StaticFn(call.Common()); sf != nil && len(sf.Blocks) > 0 && len(sf.Params) > s.Arg {
				convWidths(sf.Params[s.Arg], depth-1, pi)
			}
		}
	}
}

// regexOf finds the regexp literal compiled into the package variable.
func regexOf(p *core.Prog, rel, varName string) string {
	pk := p.Pkg(rel)
	v := p.PkgVar(rel, varName)
	found := ""
	for _, f := range pk.Syntax {
		ast.Inspect(f, func(n ast.Node) bool {
			var lhs []ast.Expr
			var rhs []ast.Expr
			switch x := n.(type) {
			case *ast.ValueSpec:
				for _, id := range x.Names {
					lhs = append(lhs, id)
				}
				rhs = x.Values
			case *ast.AssignStmt:
				lhs, rhs = x.Lhs, x.Rhs
			default:
				return true
			}
			for i, l := range lhs {
				id, ok := l.(*ast.Ident)
				if !ok || i >= len(rhs) {
					continue
				}
				obj := pk.TypesInfo.Defs[id]
				if obj == nil {
					obj = pk.TypesInfo.Uses[id]
				}
				if obj != v {
					continue
				}
				if call, ok := rhs[i].(*ast.CallExpr); ok && len(call.Args) == 1 {
					if tv, ok := pk.TypesInfo.Types[call.Args[0]]; ok && tv.Value != nil && tv.Value.Kind() == constant.String {
						found = constant.StringVal(tv.Value)
					}
				}
			}
			return true
		})
	}
	if found == "" {
		core.Undecide("regexp literal of %s.%s not found", rel, varName)
	}
	return found
}

var _ = packages.NeedName

// verbToGroup evaluates the two constants against each other: a name produced
// from the format with two distinguishable numbers is matched by the regexp;
// returns for each verb the capture group that captured it, and the group that captured the extension.
func verbToGroup(format, regex string) (map[int]int, int, bool) {
	re, err := regexp.Compile(regex)
	if err != nil {
		return nil, 0, false
	}
	name := fmt.Sprintf(format, uint64(1111111111), uint64(2222222222))
	m := re.FindAllStringSubmatch(name, 1)
	if len(m) != 1 {
		return nil, 0, false
	}
	out := map[int]int{}
	extGroup := 0
	mm := fmtShape.FindStringSubmatch(format)
	for g := 1; g < len(m[0]); g++ {
		switch m[0][g] {
		case "1111111111":
			out[0] = g
		case "2222222222":
			out[1] = g
		case mm[3]:
			extGroup = g
		}
	}
	return out, extGroup, len(out) == 2
}

func runC10(p *core.Prog, r *core.Report) {
	type family struct {
		name     string
		printers []string // "rel:Func"
		parser   string
		regexRel string
		regexVar string
		wantRole [2]string // expected by the documented layout
	}
	fams := []family{
		{"store-snapshot", []string{pkgStore + ":PartialFileName", pkgStore + ":FullStateFileName"}, pkgStore + ":parseFileName", pkgStore, "stateFileRegex", [2]string{"end", "start"}},
		{"cached-output", []string{pkgExecout + ":computeDBinFilename"}, pkgExecout + ":fileNameToRange", pkgExecout, "cacheFilenameRegex", [2]string{"start", "end"}},
		{"index", []string{pkgIndex + ":computeDBinFilename"}, pkgExecout + ":fileNameToRange", pkgExecout, "indexFilenameRegex", [2]string{"start", "end"}},
	}
	for _, fam := range fams {
		fam := fam
		r.Guard("C10.R1", fam.name, "printer/parser agreement", func() {
			regex := regexOf(p, fam.regexRel, fam.regexVar)
			pp := strings.SplitN(fam.parser, ":", 2)
			parser := analyseParser(p, p.Func(pp[0], pp[1]), regex)
			r.Touch(core.FuncName(parser.fn))
			r.Check(parser.nConv >= 2 && len(parser.narrow) == 0, "C10.R1", fam.name+"/parser-width", "the parser converts the captured numbers with a 64-bit conversion: every number a name can carry (10 digits) is read back", fmt.Sprintf("%d conversions; narrow: %v", parser.nConv, parser.narrow), p.Pos(parser.fn.Pos()))
			for _, prn := range fam.printers {
				q := strings.SplitN(prn, ":", 2)
				pi := analysePrinter(p, p.Func(q[0], q[1]))
				r.Touch(core.FuncName(pi.fn))
				pos := p.Pos(pi.fn.Pos())
				cons := fam.name + "/" + q[1]
				v2g, extGroup, ok := verbToGroup(pi.format, regex)
				r.Check(ok, "C10.R1", cons+"/matched", fmt.Sprintf("a name printed with format %q is matched by the parser's regexp %q with both numbers captured", pi.format, regex), "the regexp does not capture both numbers of a printed name", pos)
				if !ok {
					continue
				}
				for i := 0; i < 2; i++ {
					pr := parser.groupRole[v2g[i]]
					r.Check(pi.roles[i] == pr && pr != "" && pr != "?", "C10.R1", fmt.Sprintf("%s/verb%d", cons, i+1),
						fmt.Sprintf("number %d of the file name is printed from and parsed into the same end of the range", i+1),
						fmt.Sprintf("printed from %q, parsed (group %d) into %q", pi.roles[i], v2g[i], pr), pos)
					r.Check(pi.roles[i] == fam.wantRole[i], "C10.R1", fmt.Sprintf("%s/layout%d", cons, i+1),
						fmt.Sprintf("documented layout: number %d is the %s block", i+1, fam.wantRole[i]), "printed from "+pi.roles[i], pos)
				}
				r.Check(pi.widths[0] == pi.widths[1] && pi.widths[0] == "010", "C10.R1", cons+"/width", "both numbers are zero-padded to the same width of 10 digits (lexicographic listing order = numeric order)",
					fmt.Sprintf("widths %v", pi.widths), pos)
				if fam.name == "store-snapshot" {
					// the extension group decides Partial
					flds := parser.groupFld[extGroup]
					cmps := parser.groupCmp[extGroup]
					okKind := contains(flds, "Partial") && contains(cmps, "==partial")
					r.Check(okKind, "C10.R1", cons+"/kind", "the parser sets Partial from the extension group compared with \"partial\"", fmt.Sprintf("extension group %d feeds fields %v through comparisons %v", extGroup, flds, cmps), pos)
					wantPartial := strings.HasPrefix(q[1], "Partial")
					r.Check((pi.ext == "partial") == wantPartial, "C10.R1", cons+"/ext", "the partial printer uses the extension the parser recognises as partial, the full printer another one", "extension is ."+pi.ext, pos)
				}
			}
		})
	}
	// constructors pair the printer with the kind flag and the same range
	r.Guard("C10.R1", "FileInfo-constructors", "constructor consistency", func() {
		fi := p.Named(pkgStore, "FileInfo")
		for _, c := range []struct {
			fn, printer string
			partial     bool
		}{{"NewPartialFileInfo", "PartialFileName", true}, {"NewCompleteFileInfo", "FullStateFileName", false}} {
			fn := p.Func(pkgStore, c.fn)
			r.Touch(core.FuncName(fn))
			ok := false
			for _, al := range core.AllocsOf(fn, fi) {
				f := core.LiteralFields(al)
				nameOK, kindOK := false, false
				for _, v := range f["Filename"] {
					if call, isC := v.(*ssa.Call); isC && core.CommonCallee(call.Common()) == p.FuncObj(pkgStore, c.printer) {
						nameOK = true
					}
				}
				if vs := f["Partial"]; len(vs) == 1 {
					if k, isK := vs[0].(*ssa.Const); isK && k.Value != nil && constant.BoolVal(k.Value) == c.partial {
						kindOK = true
					}
				} else if len(vs) == 0 && !c.partial {
					kindOK = true
				}
				ok = nameOK && kindOK
			}
			r.Check(ok, "C10.R1", c.fn, fmt.Sprintf("%s names the file with %s and sets Partial=%v", c.fn, c.printer, c.partial), "file name printer and Partial flag do not correspond", p.Pos(fn.Pos()))
		}
	})

	r.Guard("C10.R2", "save-load", "snapshot field symmetry", func() { checkSaveLoadSymmetry(p, r, "C10.R2") })
	r.Guard("C10.R2", "upload", "fresh reader per upload attempt", func() { checkFreshReaderPerAttempt(p, r, "C10.R2") })
	r.Guard("C10.R2", "download", "a retried download starts from nothing", func() { checkRetryAccumulatesNothing(p, r, "C10.R2") })

	r.Guard("C10.R3", "ListSnapshotFiles", "listing guards", func() {
		fn := p.Func(pkgStore, "Config.ListSnapshotFiles")
		r.Touch(core.FuncName(fn))
		below := fn.Params[2]
		// below == 0 → return nil
		okZero := false
		core.InstrsDeep(fn, func(in ssa.Instruction) {
			ifi, ok := in.(*ssa.If)
			if !ok {
				return
			}
			onT, _, ok := core.CondRelation(ifi.Cond, func(v ssa.Value) bool { return core.OriginParam(v) == below }, isZeroConst)
			if ok && onT == core.OrdEQ {
				blk := ifi.Block().Succs[0]
				if ret, ok := blk.Instrs[len(blk.Instrs)-1].(*ssa.Return); ok {
					if c, ok := core.ReturnValues(ret)[0].(*ssa.Const); ok && c.IsNil() {
						okZero = true
					}
				}
			}
		})
		r.Check(okZero, "C10.R3", "ListSnapshotFiles/zero", "listing below block 0 returns nothing", "no `below == 0 → nil` guard", p.Pos(fn.Pos()))
		// the walk callback: innermost closure that calls parseFileName
		var cb *ssa.Function
		for _, c := range core.WithClosures(fn) {
			if len(core.FindInstrs(c, core.IsCallTo(p.FuncObj(pkgStore, "parseFileName")))) > 0 {
				cb = c
			}
		}
		if cb == nil {
			core.Undecide("ListSnapshotFiles: walk callback not found")
		}
		fi := p.Named(pkgStore, "FileInfo")
		rt := p.Named(pkgBlock, "Range")
		trace := core.FieldOf(fi, "WithTraceID")
		startF := core.FieldOf(rt, "StartBlock")
		// appends of the parsed file to `files` (captured variable)
		var appends []ssa.Instruction
		core.Instrs(cb, func(in ssa.Instruction) {
			if _, ok := core.IsBuiltinCall(in, "append"); ok {
				appends = append(appends, in)
			}
		})
		if len(appends) != 1 {
			core.Undecide("ListSnapshotFiles callback: expected one append, found %d", len(appends))
		}
		app := appends[0]
		// conditions that can prevent the append: collect the If conditions on which the append depends
		var guards []string
		okStop := false
		core.InstrsDeep(cb, func(in ssa.Instruction) {
			ifi, ok := in.(*ssa.If)
			if !ok {
				return
			}
			// does this If decide whether the append is reached?
			reachT := reachFromBlock(cb, ifi.Block().Succs[0], app)
			reachF := reachFromBlock(cb, ifi.Block().Succs[1], app)
			if reachT == reachF {
				return
			}
			c, neg := core.StripNot(ifi.Cond)
			desc := "?"
			if f, _ := core.LoadedField(c); f == trace {
				desc = "WithTraceID"
				// append must be on the not-trace side
				if (reachT && !neg) || (reachF && neg) {
					desc = "WithTraceID(wrong polarity)"
				}
			} else if ex, ok := c.(*ssa.Extract); ok {
				if call, ok := ex.Tuple.(*ssa.Call); ok && core.CommonCallee(call.Common()) == p.FuncObj(pkgStore, "parseFileName") {
					desc = "parsed-ok"
				}
			} else if onT, _, ok := core.CondRelation(ifi.Cond, func(v ssa.Value) bool { f, _ := core.LoadedField(v); return f == startF },
				func(v ssa.Value) bool { return core.OriginParam(v) == below }); ok {
				desc = "StartBlock " + core.OrdString(onT) + " below → stop"
				// on the edge where start >= below the callback returns StopIteration and does not append
				if onT == core.OrdGT|core.OrdEQ && !reachT && reachF {
					okStop = true
					desc = "start>=below stops"
				}
			}
			guards = append(guards, desc)
		})
		sort.Strings(guards)
		want := []string{"WithTraceID", "parsed-ok", "start>=below stops"}
		r.Check(strings.Join(guards, "|") == strings.Join(want, "|") && okStop, "C10.R3", "ListSnapshotFiles/guards",
			"a listed file is kept unless it cannot be parsed, carries a trace id, or starts at/after the limit (which ends the walk)", fmt.Sprintf("conditions guarding the append: %v", guards), p.Pos(cb.Pos()))
		// the appended element is the parsed file info
		okElem := false
		cc, _ := core.IsBuiltinCall(app, "append")
		if core.Trace(cc.Args[1], 0).HasCall(p.FuncObj(pkgStore, "parseFileName")) {
			okElem = true
		}
		r.Check(okElem, "C10.R3", "ListSnapshotFiles/element", "the element appended is the parsed file info of the walked name", "appended value does not come from parseFileName", p.Pos(app.Pos()))
	})
	r.Guard("C10.R3", "listSnapshots", "classification by kind", func() {
		fn := p.Func(pkgState, "listSnapshots")
		r.Touch(core.FuncName(fn))
		fi := p.Named(pkgStore, "FileInfo")
		partialF := core.FieldOf(fi, "Partial")
		ss := p.Named(pkgState, "storeSnapshots")
		pf, ff := core.FieldOf(ss, "Partials"), core.FieldOf(ss, "FullKVFiles")
		// every append that feeds the Partials field happens behind the edge on which file.Partial is true, every append
		// that feeds FullKVFiles behind the edge on which it is false (the lists may be fields or locals assigned later)
		var tEdges, fEdges []core.Edge
		core.InstrsDeep(fn, func(in ssa.Instruction) {
			ifi, isIf := in.(*ssa.If)
			if !isIf {
				return
			}
			c, neg := core.StripNot(ifi.Cond)
			if f, _ := core.LoadedField(c); f != partialF {
				return
			}
			tIdx, fIdx := 0, 1
			if neg {
				tIdx, fIdx = 1, 0
			}
			tEdges = append(tEdges, core.Edge{From: ifi.Block(), Idx: tIdx})
			fEdges = append(fEdges, core.Edge{From: ifi.Block(), Idx: fIdx})
		})
		ok := len(tEdges) > 0
		for _, side := range []struct {
			f     *types.Var
			edges []core.Edge
		}{{pf, tEdges}, {ff, fEdges}} {
			nAp := 0
			for _, member := range core.Family(fn, 1) {
				for _, w := range core.FieldWritesIn(member, side.f) {
					if w.Value == nil {
						continue
					}
					// the appends that build the stored list: through phis, the first operand of append, and local cells
					var aps []*ssa.Call
					seenV := map[ssa.Value]bool{}
					var walk func(v ssa.Value)
					walk = func(v ssa.Value) {
						if v == nil || seenV[v] {
							return
						}
						seenV[v] = true
						switch x := v.(type) {
						case *ssa.Phi:
							for _, e := range x.Edges {
								walk(e)
							}
						case *ssa.Call:
							if b, isB := x.Call.Value.(*ssa.Builtin); isB && b.Name() == "append" {
								aps = append(aps, x)
								walk(x.Call.Args[0])
							}
						case *ssa.UnOp:
							if al, isAl := x.X.(*ssa.Alloc); isAl {
								for _, ref := range *al.Referrers() {
									if st, isSt := ref.(*ssa.Store); isSt && st.Addr == ssa.Value(al) {
										walk(st.Val)
									}
								}
							}
						}
					}
					walk(w.Value)
					for _, ap := range aps {
						nAp++
						q := core.PathQuery{Fn: ap.Parent(), CutEdge: func(e core.Edge) bool { return containsEdge(side.edges, e) }}
						if _, reach := q.CanReach(nil, func(x ssa.Instruction) bool { return x == ssa.Instruction(ap) }); reach {
							ok = false
						}
					}
				}
			}
			if nAp == 0 {
				ok = false
			}
		}
		r.Check(ok, "C10.R3", "listSnapshots/kind", "files with Partial set go to Partials, the others to FullKVFiles", "classification by Partial not found or inverted", p.Pos(fn.Pos()))
	})
	r.Guard("C10.R2", "marshallers", "stateless marshallers", func() { checkMarshallersStateless(p, r, "C10.R2") })
	r.Guard("C10.R2", "probes", "existence probes and listing retries", func() { checkExistenceProbes(p, r, "C10.R2") })
	r.Guard("C10.R2", "file-kind", "full and partial file descriptors are not mixed up", func() {
		complete, partial := p.FuncObj(pkgStore, "NewCompleteFileInfo"), p.FuncObj(pkgStore, "NewPartialFileInfo")
		// the two constructors have the same signature; each store kind saves and loads through its own
		for _, w := range []struct {
			fn           string
			want, forbid *types.Func
		}{{"FullKV.Save", complete, partial}, {"PartialKV.Save", partial, complete}} {
			fn := p.Func(pkgStore, w.fn)
			okW := len(core.FindInstrs(fn, core.IsCallTo(w.want))) > 0 && len(core.FindInstrs(fn, core.IsCallTo(w.forbid))) == 0
			for _, c := range core.FindInstrs(fn, core.IsCallTo(w.want)) {
				args := c.(ssa.CallInstruction).Common().Args
				f1, _ := core.LoadedField(core.SkipConv(args[1]))
				okArgs := f1 != nil && (f1.Name() == "moduleInitialBlock" || f1.Name() == "initialBlock") && core.SkipConv(args[2]) == ssa.Value(fn.Params[1])
				r.Check(okArgs, "C10.R2", w.fn+"/file-range", "the file is named after the store's own first block and the boundary block being saved", "constructor arguments are not (store's initial block, end boundary parameter)", p.Pos(c.Pos()))
			}
			r.Check(okW, "C10.R2", w.fn+"/file-kind", "the snapshot is named with the constructor of its own kind (full: <end>-<module init>.kv, partial: <end>-<start>.partial)", "wrong or missing file-info constructor", p.Pos(fn.Pos()))
		}
		nLoads := 0
		bad := ""
		loadFull, loadPartial := p.FuncObj(pkgStore, "FullKV.Load"), p.FuncObj(pkgStore, "PartialKV.Load")
		for _, fn := range p.RepoFunctions() {
			core.Instrs(fn, func(in ssa.Instruction) {
				c := core.CalleeOf(in)
				if c != loadFull && c != loadPartial {
					return
				}
				nLoads++
				args := in.(ssa.CallInstruction).Common().Args
				src := core.Trace(args[len(args)-1], 1)
				if c == loadFull && src.HasCall(partial) {
					bad = "FullKV.Load of a partial file descriptor at " + p.Pos(in.Pos())
				}
				if c == loadPartial && src.HasCall(complete) {
					bad = "PartialKV.Load of a full file descriptor at " + p.Pos(in.Pos())
				}
			})
		}
		r.Check(nLoads >= 3 && bad == "", "C10.R2", "Load/file-kind", "a full store is only loaded from a full-snapshot descriptor and a partial store from a partial descriptor", bad, "")
		// the constructors name the file with the matching printer and set the matching flag
		for _, w := range []struct {
			fn      *types.Func
			printer string
			flag    string
		}{{complete, "FullStateFileName", "false"}, {partial, "PartialFileName", "true"}} {
			fn := p.Func(pkgStore, w.fn.Name())
			okP := len(core.FindInstrs(fn, core.IsCallTo(p.FuncObj(pkgStore, w.printer)))) > 0
			okF := false
			for _, al := range core.AllocsOf(fn, p.Named(pkgStore, "FileInfo")) {
				for _, v := range core.LiteralFields(al)["Partial"] {
					if k, ok := v.(*ssa.Const); ok && k.Value != nil && k.Value.ExactString() == w.flag {
						okF = true
					}
				}
			}
			r.Check(okP && okF, "C10.R2", w.fn.Name()+"/kind", "the constructor names the file with the printer of its kind and sets Partial accordingly", fmt.Sprintf("printer=%v flag=%v", okP, okF), p.Pos(fn.Pos()))
		}
	})
	r.MinInstances("C10.R1", 20)
	r.MinInstances("C10.R3", 4)
}

func contains(xs []string, s string) bool {
	for _, x := range xs {
		if x == s {
			return true
		}
	}
	return false
}

// reachFromBlock: is the instruction reachable from the start of block b (within fn)?
func reachFromBlock(fn *ssa.Function, b *ssa.BasicBlock, target ssa.Instruction) bool {
	seen := map[*ssa.BasicBlock]bool{}
	stack := []*ssa.BasicBlock{b}
	for len(stack) > 0 {
		x := stack[len(stack)-1]
		stack = stack[:len(stack)-1]
		if seen[x] {
			continue
		}
		seen[x] = true
		if x == target.Block() {
			return true
		}
		stack = append(stack, x.Succs...)
	}
	return false
}

// checkExistenceProbes (C10.R2, C07.R1): the probes that decide whether a snapshot exists ask for exactly the name
// Save writes: full = <upTo>-<module initial block>.kv, partial = <to>-<from>.partial (the two printers take the same
// argument type), and hand the object store's answer back unchanged.
func checkExistenceProbes(p *core.Prog, r *core.Report, rule string) {
	for _, w := range []struct {
		fn, printer string
		startField  string // receiver field expected as range start ("" = first block parameter)
	}{{"Config.ExistsFullKV", "FullStateFileName", "moduleInitialBlock"}, {"Config.ExistsPartialKV", "PartialFileName", ""}} {
		fn := p.Func(pkgStore, w.fn)
		r.Touch(core.FuncName(fn))
		ok := false
		for _, c := range core.FindInstrs(fn, core.IsCallTo(p.FuncObj(pkgStore, w.printer))) {
			arg := c.(ssa.CallInstruction).Common().Args[0]
			nr, isCall := arg.(*ssa.Call)
			if !isCall || core.CommonCallee(nr.Common()) != p.FuncObj(pkgBlock, "NewRange") {
				continue
			}
			a0, a1 := core.SkipConv(nr.Call.Args[0]), core.SkipConv(nr.Call.Args[1])
			last := fn.Params[len(fn.Params)-1]
			okStart := false
			if w.startField != "" {
				f, _ := core.LoadedField(a0)
				okStart = f != nil && f.Name() == w.startField
			} else {
				okStart = a0 == ssa.Value(fn.Params[len(fn.Params)-2])
			}
			// the name probed is the one returned to FileExists
			okUse := false
			for _, fe := range core.FindInstrs(fn, func(in ssa.Instruction) bool {
				cc, isC := in.(ssa.CallInstruction)
				return isC && cc.Common().IsInvoke() && cc.Common().Method.Name() == "FileExists"
			}) {
				args := fe.(ssa.CallInstruction).Common().Args
				if args[len(args)-1] == c.(ssa.Value) {
					okUse = true
				}
			}
			ok = okStart && a1 == ssa.Value(last) && okUse
		}
		// answer returned unchanged (value and error)
		okRet := false
		core.Instrs(fn, func(in ssa.Instruction) {
			rt, isRet := in.(*ssa.Return)
			if !isRet || len(rt.Results) != 2 {
				return
			}
			e0, ok0 := rt.Results[0].(*ssa.Extract)
			e1, ok1 := rt.Results[1].(*ssa.Extract)
			if ok0 && ok1 && e0.Tuple == e1.Tuple && e0.Index == 0 && e1.Index == 1 {
				okRet = true
			}
		})
		r.Check(ok && okRet, rule, w.fn+"/name", "the existence probe asks the object store for the name Save writes for that range and kind, and returns the store's answer (and error) unchanged", fmt.Sprintf("name ok=%v, answer returned unchanged=%v", ok, okRet), p.Pos(fn.Pos()))
	}
	// a retried listing starts from an empty list (a failed attempt may have accumulated part of it)
	ls := p.Func(pkgStore, "Config.ListSnapshotFiles")
	okReset := false
	for _, cl := range core.WithClosures(ls) {
		if cl == ls {
			continue
		}
		// the retry closure: stores nil to the captured `files` before calling Walk
		var walk ssa.Instruction
		core.Instrs(cl, func(in ssa.Instruction) {
			if cc, ok := in.(ssa.CallInstruction); ok && cc.Common().IsInvoke() && cc.Common().Method.Name() == "Walk" {
				walk = in
			}
		})
		if walk == nil {
			continue
		}
		_, must := core.MustPassBefore(cl, func(in ssa.Instruction) bool {
			st, ok := in.(*ssa.Store)
			if !ok {
				return false
			}
			k, isK := st.Val.(*ssa.Const)
			_, isFV := st.Addr.(*ssa.FreeVar)
			return isK && k.IsNil() && isFV
		}, func(in ssa.Instruction) bool { return in == walk })
		okReset = must
	}
	r.Check(okReset, rule, "ListSnapshotFiles/reset-per-attempt", "each retry of the listing starts from an empty result (files accumulated by a failed attempt are dropped)", "the retry closure does not reset the result before walking", p.Pos(ls.Pos()))
}
