package props

import (
	"fmt"
	"go/token"
	"go/types"
	"sort"
	"strings"

	"golang.org/x/tools/go/ssa"

	"verif/sa/core"
)

func init() {
	register("C07", &Def{
		Title:     "Results do not depend on which cache files exist (crash and eviction tolerance)",
		Run:       runC07,
		Technique: "static analysis: must-pass-through rules on every file probe/load (an error or absence leads to `compute it`, never to `done`), dominance of the all-modules-present test before a unit is marked from storage, load-then-assign ordering in every file loader, error-discipline table over cache I/O calls, who-may-write rule for cache files",
		Explanation: "Enumeration of file subsets is NOT done. Decided: (R1) in the tier-2 execution plan a missing or unreadable output/index file makes the module required, a store is skipped only when its full or partial snapshot exists, and probe errors are returned; " +
			"(R2) the initial storage scan marks a unit completed / partial-present only when every module of the stage has the file for exactly that segment range, and ignores partials of completed units; " +
			"(R3) a failed load never yields content: every loader assigns its content only after the bytes were read and decoded without error, and no caller on the serving path drops the error of a cache read/write (explicit allow-table); " +
			"(R4) cache files are written only through the object store's WriteObject (atomic in the local store) — no direct file creation in the storage packages; " +
			"(R5) the squasher takes the next full snapshot if present, else the partial, fails only when both loads failed, and asynchronous snapshot writes are awaited before the scheduler quits.",
		NotCovered:  "Equality of outputs over all subsets of files; equivalence of the files left behind; atomicity of the external object store's WriteObject.",
		Assumptions: []string{"dstore local store writes atomically (temp file + rename)", "a file that decodes without error is complete (protobuf framing)"},
	})
}

func runC07(p *core.Prog, r *core.Report) {
	// ------------------------------------------------------------------ R1
	r.Guard("C07.R1", "GetExecutionPlan", "absence means compute", func() {
		fn := p.Func(pkgSvc, "GetExecutionPlan")
		r.Touch(core.FuncName(fn))
		// the requiredModules map: the MakeMap of map[string]*Module that is returned in ExecutionPlan.RequiredModules
		ep := p.Named(pkgSvc, "ExecutionPlan")
		var required, storesToWrite ssa.Value
		for _, al := range core.AllocsOf(fn, ep) {
			f := core.LiteralFields(al)
			if len(f["RequiredModules"]) == 1 {
				required = f["RequiredModules"][0]
			}
			if len(f["StoresToWrite"]) == 1 {
				storesToWrite = f["StoresToWrite"][0]
			}
		}
		if required == nil || storesToWrite == nil {
			core.Undecide("GetExecutionPlan: RequiredModules/StoresToWrite of the returned plan not found")
		}
		isReq := func(in ssa.Instruction) bool {
			mu, ok := in.(*ssa.MapUpdate)
			return ok && mu.Map == required
		}
		// loads / reads whose failure must lead to "required"
		type probe struct {
			name string
			pred core.InstrPred
		}
		probes := []probe{
			{"index.File.Load", core.IsCallTo(p.FuncObj(pkgIndex, "File.Load"))},
			{"execout.Config.ReadFile", core.IsCallTo(p.FuncObj(pkgExecout, "Config.ReadFile"))},
		}
		for _, pb := range probes {
			calls := core.FindInstrs(fn, pb.pred)
			if len(calls) == 0 {
				core.Undecide("GetExecutionPlan: no %s call", pb.name)
			}
			for i, c := range calls {
				r.CallSites++
				lbl := strings.Join(p.CaseLabels(c.Pos()), "/")
				construct := fmt.Sprintf("GetExecutionPlan/%s@%s#%d", pb.name, lbl, i+1)
				// the error value of the call
				errEdges := errNonNilEdges(fn, c)
				if len(errEdges) == 0 {
					r.Fail("C07.R1", construct, "the error of the cache read is tested", "error not tested", p.Pos(c.Pos()))
					continue
				}
				okAll := true
				for _, e := range errEdges {
					first := e.From.Succs[e.Idx].Instrs[0]
					// from the error edge: the module becomes required before the switch is left (next loop iteration / return)
					var header ssa.Instruction
					for _, l := range core.Loops(fn) {
						if l.Body[c.Block()] {
							if header == nil || len(l.Body) < 1<<30 {
								header = l.Header.Instrs[0]
							}
						}
					}
					if isReq(first) {
						continue
					}
					q := core.PathQuery{Fn: fn, CutInstr: isReq}
					if _, reach := q.CanReach(first, func(x ssa.Instruction) bool {
						return (x == header || core.IsNormalExit(x)) && !isReq(x)
					}); reach {
						okAll = false
					}
				}
				r.Check(okAll, "C07.R1", construct, "when the cached file cannot be loaded (absent, truncated, undecodable) the module is added to the modules that must run", "the error branch can leave the module un-required", p.Pos(c.Pos()))
				// and on the error edge the file's content is not used as existing output
			}
		}
		// the content is registered as existing only on the success edge
		for _, target := range []string{"existingExecOuts", "existingIndices"} {
			_ = target
		}
		// stores: skipped only if a full or partial snapshot exists; probe errors returned
		exFull := p.FuncObj(pkgStore, "Config.ExistsFullKV")
		exPart := p.FuncObj(pkgStore, "Config.ExistsPartialKV")
		for _, pr := range []struct {
			obj  *types.Func
			name string
		}{{exFull, "ExistsFullKV"}, {exPart, "ExistsPartialKV"}} {
			calls := core.FindInstrs(fn, core.IsCallTo(pr.obj))
			if len(calls) != 1 {
				core.Undecide("GetExecutionPlan: expected one %s call", pr.name)
			}
			c := calls[0]
			// in GetExecutionPlan itself, or in the helper that probes (whose own error GetExecutionPlan must then return too)
			ok := true
			for _, site := range []ssa.Instruction{c, core.SiteIn(fn, c)} {
				if site == nil {
					ok = false
					continue
				}
				edges := errNonNilEdges(site.Parent(), site)
				if len(edges) == 0 {
					ok = false
				}
				for _, e := range edges {
					b := e.From.Succs[e.Idx]
					if ret, isRet := b.Instrs[len(b.Instrs)-1].(*ssa.Return); !isRet || core.ReturnsNilError(ret) {
						ok = false
					}
				}
			}
			r.Check(ok, "C07.R1", "GetExecutionPlan/"+pr.name+"-error", "an error of the snapshot existence probe aborts the plan (it is not read as `absent` nor as `present`)", "probe error not returned", p.Pos(c.Pos()))
		}
		// the store becomes required (and to-write) exactly on the path where both probes said "absent"
		// the edges on which a probe's answer is "absent": tests of the answer itself, or — when the answer is handed back
		// by a helper as its own result — tests of that result at the helper's call
		var absentEdges []core.Edge
		var falseEdges func(v ssa.Value, depth int) []core.Edge
		falseEdges = func(v ssa.Value, depth int) []core.Edge {
			var out []core.Edge
			for _, rr := range *v.Referrers() {
				switch x := rr.(type) {
				case *ssa.UnOp:
					if x.Op == token.NOT {
						for _, r3 := range *x.Referrers() {
							if ifi, ok := r3.(*ssa.If); ok {
								out = append(out, core.Edge{From: ifi.Block(), Idx: 0})
							}
						}
					}
				case *ssa.If:
					if x.Cond == v {
						out = append(out, core.Edge{From: x.Block(), Idx: 1})
					}
				case *ssa.Return:
					if depth == 0 {
						continue
					}
					h := x.Parent()
					for i, rv := range core.ReturnValues(x) {
						if rv != v {
							continue
						}
						for _, m := range core.Family(fn, 1) {
							core.Instrs(m, func(in ssa.Instruction) {
								hc, ok := in.(*ssa.Call)
								if !ok || core.StaticFn(hc.Common()) != h {
									return
								}
								for _, ref := range *hc.Referrers() {
									if ex, ok := ref.(*ssa.Extract); ok && ex.Index == i {
										out = append(out, falseEdges(ex, depth-1)...)
									}
								}
							})
						}
					}
				}
			}
			return out
		}
		for _, obj := range []*types.Func{exFull, exPart} {
			for _, c := range core.FindInstrs(fn, core.IsCallTo(obj)) {
				for _, ref := range *c.(ssa.Value).Referrers() {
					ex, ok := ref.(*ssa.Extract)
					if !ok || ex.Index != 0 {
						continue
					}
					es := falseEdges(ex, 1)
					if len(es) > 0 {
						absentEdges = append(absentEdges, es[0])
					}
				}
			}
		}
		var stw []ssa.Instruction
		core.Instrs(fn, func(in ssa.Instruction) {
			if mu, ok := in.(*ssa.MapUpdate); ok && mu.Map == storesToWrite {
				stw = append(stw, in)
			}
		})
		okStore := len(stw) == 1 && len(absentEdges) == 2
		if okStore {
			// the write is reachable only when both probes answered "absent": cutting either absent edge makes it unreachable
			for _, e := range absentEdges {
				q := core.PathQuery{Fn: fn, CutEdge: func(x core.Edge) bool { return x == e }}
				if _, reach := q.CanReach(nil, func(x ssa.Instruction) bool { return x == stw[0] }); reach {
					okStore = false
				}
			}
			// and from the second absent edge the store is also made required
			last := absentEdges[len(absentEdges)-1]
			b := last.From.Succs[last.Idx]
			if _, ok := core.MustReachAfter(fn, b.Instrs[0], isReq, func(x ssa.Instruction) bool { return x == stw[0] }); !ok && !isReq(b.Instrs[0]) {
				// order may be stw then required: accept either order within the block
				found := false
				for _, in := range b.Instrs {
					if isReq(in) {
						found = true
					}
				}
				okStore = okStore && found
			}
		}
		r.Check(okStore, "C07.R1", "GetExecutionPlan/store-skip", "a store is left out of the job only if its full snapshot or its partial for this range exists; otherwise it is required and scheduled for writing", fmt.Sprintf("stores-to-write sites=%d, absent edges=%d", len(stw), len(absentEdges)), p.Pos(fn.Pos()))
	})

	r.Guard("C07.R1", "processRange/all-excluded", "segment shortcut", func() {
		fn := p.Func(pkgSvc, "Tier2Service.processRange")
		r.Touch(core.FuncName(fn))
		ep := p.Named(pkgSvc, "ExecutionPlan")
		existing, toWrite := core.FieldOf(ep, "ExistingExecOuts"), core.FieldOf(ep, "StoresToWrite")
		excl := core.FindInstrs(fn, func(in ssa.Instruction) bool {
			c := core.CalleeOf(in)
			return c != nil && c.Name() == "ExcludesAllBlocks"
		})
		if len(excl) != 1 {
			core.Undecide("processRange: expected one ExcludesAllBlocks call, found %d", len(excl))
		}
		var loop *core.Loop
		for _, l := range core.Loops(fn) {
			if l.Body[excl[0].Block()] && (loop == nil || len(l.Body) < len(loop.Body)) {
				loop = l
			}
		}
		if loop == nil {
			core.Undecide("processRange: executor loop not found")
		}
		// the store case: success edge of the *StoreModuleExecutor type assertion
		var entry *ssa.BasicBlock
		core.Instrs(fn, func(in ssa.Instruction) {
			ta, ok := in.(*ssa.TypeAssert)
			if !ok || !ta.CommaOk || typeName(ta.AssertedType) != "*StoreModuleExecutor" || !loop.Body[ta.Block()] {
				return
			}
			for _, ref := range *ta.Referrers() {
				if ex, ok := ref.(*ssa.Extract); ok && ex.Index == 1 {
					for _, rr := range *ex.Referrers() {
						if ifi, ok := rr.(*ssa.If); ok {
							entry = ifi.Block().Succs[0]
						}
					}
				}
			}
		})
		if entry == nil {
			core.Undecide("processRange: store executor case not found")
		}
		// edges: cached output present; store not to be written
		var cachedEdges, notWrittenEdges []core.Edge
		core.InstrsDeep(fn, func(in ssa.Instruction) {
			ifi, ok := in.(*ssa.If)
			if !ok || !loop.Body[ifi.Block()] {
				return
			}
			c, neg := core.StripNot(ifi.Cond)
			if bo, ok := c.(*ssa.BinOp); ok && (bo.Op == token.NEQ || bo.Op == token.EQL) {
				if lk, ok := bo.X.(*ssa.Lookup); ok {
					if f, _ := core.LoadedField(lk.X); f == existing {
						if k, ok := bo.Y.(*ssa.Const); ok && k.IsNil() {
							idx := 0
							if (bo.Op == token.EQL) != neg {
								idx = 1
							}
							cachedEdges = append(cachedEdges, core.Edge{From: ifi.Block(), Idx: idx})
						}
					}
				}
			}
			if ex, ok := c.(*ssa.Extract); ok && ex.Index == 1 {
				if lk, ok := ex.Tuple.(*ssa.Lookup); ok {
					if f, _ := core.LoadedField(lk.X); f == toWrite {
						idx := 1 // found == false
						if neg {
							idx = 0
						}
						notWrittenEdges = append(notWrittenEdges, core.Edge{From: ifi.Block(), Idx: idx})
					}
				}
			}
		})
		header := loop.Header.Instrs[0]
		ignoredWithout := func(edges []core.Edge) bool {
			// can the store executor be ignored (next executor reached without the ExcludesAllBlocks test) without taking one of the edges?
			q := core.PathQuery{Fn: fn, CutEdge: func(e core.Edge) bool { return containsEdge(edges, e) }, CutInstr: func(x ssa.Instruction) bool { return x == excl[0] }}
			if entry.Instrs[0] == excl[0] {
				return false
			}
			_, reach := q.CanReach(entry.Instrs[0], func(x ssa.Instruction) bool { return x == header || loopLatch(loop, x) })
			return reach
		}
		okCached := len(cachedEdges) > 0 && !ignoredWithout(filterEdgesFrom(cachedEdges, entry, fn))
		okWrite := len(notWrittenEdges) > 0 && !ignoredWithout(notWrittenEdges)
		r.Check(okCached, "C07.R1", "processRange/all-excluded/store-cached", "for the `everything is excluded by block indexes` shortcut a store executor is ignored only if its outputs are cached", "a store without cached outputs can be ignored", p.Pos(excl[0].Pos()))
		r.Check(okWrite, "C07.R1", "processRange/all-excluded/store-written", "a store whose snapshot still has to be written for this segment is never ignored by the shortcut (its cached operations must be replayed before the snapshot is saved)", "a store in StoresToWrite can be ignored by the shortcut", p.Pos(excl[0].Pos()))
	})

	// ------------------------------------------------------------------ R2
	r.Guard("C07.R2", "FetchStoresState", "units marked from storage", func() {
		fn := p.Func(pkgStage, "Stages.FetchStoresState")
		r.Touch(core.FuncName(fn))
		mf := p.FuncObj(pkgStage, "markFound")
		marks := []*types.Func{p.FuncObj(pkgStage, "Stages.markSegmentCompleted"), p.FuncObj(pkgStage, "Stages.MarkSegmentPartialPresent")}
		n := 0
		for _, m := range marks {
			for _, c := range core.FindInstrs(fn, core.IsCallTo(m)) {
				n++
				r.CallSites++
				unit := c.(ssa.CallInstruction).Common().Args[1]
				// an If on the result of markFound(..., unit, ...) whose true edge is the only way to the call
				ok := false
				core.InstrsDeep(fn, func(in ssa.Instruction) {
					ifi, isIf := in.(*ssa.If)
					if !isIf {
						return
					}
					mc, isCall := ifi.Cond.(*ssa.Call)
					if !isCall || core.CommonCallee(mc.Common()) != mf {
						return
					}
					if !sameUnit(mc.Call.Args[1], unit) && !sameExpr(mc.Call.Args[1], unit, 2) {
						return
					}
					if ifi.Block().Succs[0] == c.Block() && len(c.Block().Preds) == 1 {
						ok = true
					}
				})
				construct := fmt.Sprintf("FetchStoresState/%s#%d", m.Name(), n)
				r.Check(ok, "C07.R2", construct, "a unit is marked from storage only when markFound reports that every module of the stage has its file for that unit", "call not guarded by markFound(...) == true on the same unit", p.Pos(c.Pos()))
			}
		}
		// full snapshots and partials are counted separately: the tally that can mark a unit Completed is not the tally that
		// can mark it PartialPresent (a unit with one module's full snapshot and another module's partial is neither)
		tallyOf := map[*types.Func]map[ssa.Value]bool{}
		core.InstrsDeep(fn, func(in ssa.Instruction) {
			ifi, isIf := in.(*ssa.If)
			if !isIf {
				return
			}
			mc, isCall := ifi.Cond.(*ssa.Call)
			if !isCall || core.CommonCallee(mc.Common()) != mf {
				return
			}
			tb := ifi.Block().Succs[0]
			for _, x := range tb.Instrs {
				for _, m := range marks {
					if core.CalleeOf(x) == m {
						if tallyOf[m] == nil {
							tallyOf[m] = map[ssa.Value]bool{}
						}
						tallyOf[m][core.ResolveCell(core.CallerValue(fn, mc.Call.Args[0]))] = true
					}
				}
			}
		})
		okSep := len(tallyOf[marks[0]]) > 0 && len(tallyOf[marks[1]]) > 0
		for v := range tallyOf[marks[0]] {
			if _, isMk := v.(*ssa.MakeMap); !isMk || tallyOf[marks[1]][v] {
				okSep = false
			}
		}
		for v := range tallyOf[marks[1]] {
			if _, isMk := v.(*ssa.MakeMap); !isMk {
				okSep = false
			}
		}
		r.Check(okSep, "C07.R2", "FetchStoresState/separate-tallies", "the per-unit tally of modules having a full snapshot (or output file) and the tally of modules having a partial are distinct maps: a unit is Completed only if every module has the full file, PartialPresent only if every module has the partial", "the same tally feeds both markSegmentCompleted and MarkSegmentPartialPresent", p.Pos(fn.Pos()))
		if n < 3 {
			core.Undecide("FetchStoresState: only %d marking calls found", n)
		}
		// markFound: len(mods) == moduleCount
		mff := p.Func(pkgStage, "markFound")
		okMF := false
		core.Instrs(mff, func(in ssa.Instruction) {
			ret, ok := in.(*ssa.Return)
			if !ok || len(ret.Results) != 1 {
				return
			}
			bo, ok := ret.Results[0].(*ssa.BinOp)
			if !ok || bo.Op != token.EQL {
				return
			}
			if l := lenArg(bo.X); l != nil {
				if prm, ok := bo.Y.(*ssa.Parameter); ok && prm == mff.Params[len(mff.Params)-1] {
					okMF = true
				}
			}
		})
		r.Check(okMF, "C07.R2", "markFound", "markFound answers true only when the number of modules seen for the unit equals the stage's module count", "return expression differs", p.Pos(mff.Pos()))
		// the file must match the segment exactly: range end / whole range compared before marking
		rt := p.Named(pkgBlock, "Range")
		endF := core.FieldOf(rt, "ExclusiveEndBlock")
		nCmp := 0
		core.InstrsDeep(fn, func(in ssa.Instruction) {
			bo, ok := in.(*ssa.BinOp)
			if ok && (bo.Op == token.NEQ || bo.Op == token.EQL) {
				fx, _ := core.LoadedField(bo.X)
				fy, _ := core.LoadedField(bo.Y)
				if fx == endF && fy == endF {
					nCmp++
				}
			}
			if c, ok := in.(*ssa.Call); ok && core.CommonCallee(c.Common()) == p.FuncObj(pkgBlock, "Range.Equals") {
				nCmp++
			}
		})
		r.Check(nCmp >= 3, "C07.R2", "FetchStoresState/range-match", "a listed file counts for a unit only if its range matches the unit's segment range (end for full snapshots and outputs, whole range for partials)", fmt.Sprintf("%d range comparisons", nCmp), p.Pos(fn.Pos()))
		// partials of completed units are ignored
		okIgn := false
		// every way to MarkSegmentPartialPresent(unit) goes over the edge on which getState(that unit) was found different
		// from UnitCompleted (the test is read where the marking call is: FetchStoresState or its helper)
		completedVal := ""
		for _, c := range core.EnumConsts(p.Named(pkgStage, "UnitState")) {
			if c.Name() == "UnitCompleted" {
				completedVal = c.Val().ExactString()
			}
		}
		getStateObj := p.FuncObj(pkgStage, "Stages.getState")
		ppCalls := core.FindInstrs(fn, core.IsCallTo(marks[1]))
		okIgn = len(ppCalls) > 0 && completedVal != ""
		for _, pc := range ppCalls {
			unit := pc.(ssa.CallInstruction).Common().Args[1]
			holder := pc.Parent()
			var notCompleted []core.Edge
			core.InstrsDeep(holder, func(in ssa.Instruction) {
				ifi, ok := in.(*ssa.If)
				if !ok {
					return
				}
				onT, onF, ok := core.CondRelation(ifi.Cond, func(v ssa.Value) bool {
					c, ok := v.(*ssa.Call)
					return ok && core.CommonCallee(c.Common()) == getStateObj && (sameUnit(c.Call.Args[1], unit) || sameExpr(c.Call.Args[1], unit, 2))
				}, func(v ssa.Value) bool {
					k, ok := v.(*ssa.Const)
					return ok && k.Value != nil && k.Value.ExactString() == completedVal
				})
				if !ok {
					return
				}
				if onT&core.OrdEQ == 0 {
					notCompleted = append(notCompleted, core.Edge{From: ifi.Block(), Idx: 0})
				}
				if onF&core.OrdEQ == 0 {
					notCompleted = append(notCompleted, core.Edge{From: ifi.Block(), Idx: 1})
				}
			})
			q := core.PathQuery{Fn: holder, CutEdge: func(e core.Edge) bool { return containsEdge(notCompleted, e) }}
			if _, reach := q.CanReach(nil, func(x ssa.Instruction) bool { return x == pc }); reach || len(notCompleted) == 0 {
				okIgn = false
			}
		}
		r.Check(okIgn, "C07.R2", "FetchStoresState/full-over-partial", "a partial found for a unit already completed by a full snapshot is ignored", "state test not found", p.Pos(fn.Pos()))
	})
	r.GuardExact("C07.R2", "FetchStoresState/order", "fulls before partials", func() { checkFullsBeforePartials(p, r, "C07.R2") })

	// ------------------------------------------------------------------ R3
	r.Guard("C07.R3", "loaders", "load then assign", func() {
		type loader struct {
			rel, fn string
			field   string // field holding the content
			typ     string
			decode  []string // decoding callee names that must succeed first
		}
		for _, ld := range []loader{
			{pkgExecout, "File.Load", "Kv", "File", []string{"UnmarshalFast"}},
			{pkgStore, "FullKV.Load", "kv", "baseStore", []string{"Unmarshal"}},
			{pkgStore, "PartialKV.Load", "kv", "baseStore", []string{"Unmarshal"}},
			{pkgIndex, "File.Load", "Indices", "File", []string{"Unmarshal"}},
		} {
			fn := p.Func(ld.rel, ld.fn)
			r.Touch(core.FuncName(fn))
			f := p.Field(ld.rel, ld.typ, ld.field)
			construct := ld.rel + "." + ld.fn
			n := 0
			okAll := true
			// (the loader, its closures and the helpers of its package it hands the decoding to)
			for _, sub := range core.Family(fn, 2) {
				for _, w := range core.FieldWritesIn(sub, f) {
					if w.Kind != core.WAssign {
						continue
					}
					n++
					// a decode call dominates the assignment, and the assignment is reachable only through its err == nil edge
					var dec ssa.Instruction
					core.Instrs(sub, func(in ssa.Instruction) {
						if c := core.CalleeOf(in); c != nil {
							for _, d := range ld.decode {
								if c.Name() == d {
									dec = in
								}
							}
						}
					})
					if dec == nil {
						okAll = false
						continue
					}
					nilEdges := errNilEdges(sub, dec)
					q := core.PathQuery{Fn: sub, CutEdge: func(e core.Edge) bool { return containsEdge(nilEdges, e) }}
					if _, reach := q.CanReach(nil, func(x ssa.Instruction) bool { return x == w.Instr }); reach || len(nilEdges) == 0 {
						okAll = false
					}
				}
			}
			r.Check(n > 0 && okAll, "C07.R3", construct+"/assign-after-decode", "the loader assigns its content only on the path where the file was read and decoded without error", fmt.Sprintf("%d assignments, all guarded: %v", n, okAll), p.Pos(fn.Pos()))
		}
		checkExecoutLoadedFlag(p, r, "C07.R3")
		// index.File.Load propagates the bitmap decoding error
		il := p.Func(pkgIndex, "File.Load")
		okBM := false
		core.Instrs(il, func(in ssa.Instruction) {
			if c := core.CalleeOf(in); c != nil && c.Name() == "FromUnsafeBytes" && core.ErrorTested(in) {
				okBM = true
			}
		})
		r.Check(okBM, "C07.R3", "index.File.Load/bitmap-error", "an undecodable bitmap makes the index load fail (the index is then rebuilt)", "FromUnsafeBytes error ignored", p.Pos(il.Pos()))
	})
	r.Guard("C07.R3", "error-discipline", "no dropped cache I/O error", func() { checkCacheErrorDiscipline(p, r) })

	// ------------------------------------------------------------------ R4
	r.Guard("C07.R4", "writers", "cache writes go through the object store", func() {
		forbidden := map[string]bool{"os.Create": true, "os.WriteFile": true, "os.Rename": true, "os.OpenFile": true, "io/ioutil.WriteFile": true}
		var hits []string
		nWrite := 0
		for _, fn := range p.RepoFunctions() {
			root := core.RootFn(fn)
			if root.Pkg == nil || !strings.HasPrefix(root.Pkg.Pkg.Path(), core.ModPath+"/storage") {
				continue
			}
			core.Instrs(fn, func(in ssa.Instruction) {
				c := core.CalleeOf(in)
				if c == nil {
					return
				}
				if forbidden[calleeKey(c)] {
					hits = append(hits, core.FuncName(fn)+"→"+calleeKey(c)+" at "+p.Pos(in.Pos()))
				}
				if c.Name() == "WriteObject" {
					nWrite++
				}
			})
		}
		r.Check(len(hits) == 0, "C07.R4", "storage/direct-file-writes", "no function of the storage packages creates, writes or renames files directly", strings.Join(hits, "; "))
		checkFreshReaderPerAttempt(p, r, "C07.R4")
		r.Check(nWrite >= 3, "C07.R4", "storage/WriteObject", "store snapshots, cached outputs and indexes are written with dstore WriteObject", fmt.Sprintf("%d WriteObject call sites", nWrite))
	})

	// ------------------------------------------------------------------ R5
	r.Guard("C07.R5", "squasher", "full snapshot else partial", func() {
		fn := p.Func(pkgStage, "getPartialOrFullKV")
		r.Touch(core.FuncName(fn))
		// error return only after the loop collected both results: the final error return is outside the loop, results with a store return nil error
		okErrOnlyAfter := true
		var loop *core.Loop
		for _, l := range core.Loops(fn) {
			loop = l
		}
		if loop == nil {
			core.Undecide("getPartialOrFullKV: result loop not found")
		}
		nOK := 0
		core.Instrs(fn, func(in ssa.Instruction) {
			ret, ok := in.(*ssa.Return)
			if !ok {
				return
			}
			vals := core.ReturnValues(ret)
			errV := vals[len(vals)-1]
			isNilErr := false
			if k, ok := errV.(*ssa.Const); ok && k.IsNil() {
				isNilErr = true
			}
			if isNilErr {
				nOK++
				// one of the stores is non-nil: comes from a result field
				src := core.Trace(vals[0], 0)
				src2 := core.Trace(vals[2], 0)
				if !(hasFieldNamed(src, "partialKVStore") || hasFieldNamed(src2, "fullKVStore")) {
					okErrOnlyAfter = false
				}
			}
		})
		r.Check(nOK == 2 && okErrOnlyAfter, "C07.R5", "getPartialOrFullKV/success", "the first load that succeeds (next full snapshot, or the partial) is returned with a nil error", fmt.Sprintf("%d success returns", nOK), p.Pos(fn.Pos()))
		// a result with an error does not return from the loop (break from select → next result)
		okCont := true
		core.Instrs(fn, func(in ssa.Instruction) {
			ret, ok := in.(*ssa.Return)
			if !ok || !loop.Body[ret.Block()] && !reachesLoop(loop, ret.Block()) {
				return
			}
		})
		// both goroutines send exactly one result
		// (the goroutines are closures of the function, or functions of the package started with `go`)
		sends := 0
		probes := append([]*ssa.Function{}, fn.AnonFuncs...)
		core.Instrs(fn, func(in ssa.Instruction) {
			if g, ok := in.(*ssa.Go); ok {
				if callee := core.StaticFn(g.Common()); callee != nil && callee.Parent() == nil && callee.Pkg == fn.Pkg && callee.Blocks != nil {
					probes = append(probes, callee)
				}
			}
		})
		for _, cl := range probes {
			core.Instrs(cl, func(in ssa.Instruction) {
				if _, ok := in.(*ssa.Send); ok {
					sends++
				}
			})
		}
		r.Check(okCont && sends == 2, "C07.R5", "getPartialOrFullKV/both-probed", "both the partial and the next full snapshot are probed, each reporting exactly one result", fmt.Sprintf("%d sends", sends), p.Pos(fn.Pos()))
		// singleSquash: a loaded next-full replaces the cached store and skips the merge
		ss := p.Func(pkgStage, "Stages.singleSquash")
		r.Touch(core.FuncName(ss))
		merge := p.FuncObj(pkgStore, "baseStore.Merge")
		cached := p.Field(pkgStage, "StoreModuleState", "cachedStore")
		okSkip := false
		for _, w := range core.FieldWritesIn(ss, cached) {
			q := core.PathQuery{Fn: ss}
			if _, reach := q.CanReach(w.Instr, core.IsCallTo(merge)); !reach {
				okSkip = true
			}
		}
		r.Check(okSkip, "C07.R5", "singleSquash/full-replaces", "when the next full snapshot was loaded it becomes the module's store and nothing is merged on top of it", "Merge reachable after adopting the loaded full snapshot", p.Pos(ss.Pos()))
		// lastBlockInStore is advanced on both paths
		lb := p.Field(pkgStage, "StoreModuleState", "lastBlockInStore")
		hit, okAdv := core.MustReachAfter(ss, nil, core.IsStoreToField(lb), func(x ssa.Instruction) bool { return core.ReturnsConstNilError(x) })
		d := ""
		if !okAdv {
			d = "success return without advancing lastBlockInStore at " + p.Pos(core.InstrPos(hit))
		}
		r.Check(okAdv, "C07.R5", "singleSquash/advance", "every successful squash advances the store's synced block to the segment end", d, p.Pos(ss.Pos()))
		// asynchronous writes are awaited before quitting
		sh := p.Func(pkgSched, "Scheduler.cmdShutdownWhenComplete")
		wait := p.FuncObj(pkgStage, "Stages.WaitAsyncWork")
		okWait := false
		for _, cl := range sh.AnonFuncs {
			waits := core.FindInstrs(cl, core.IsCallTo(wait))
			quits := core.FindInstrs(cl, core.IsCallTo(p.FuncObj(pkgLoop, "Quit")))
			if len(waits) == 1 && len(quits) == 1 {
				if _, ok := core.MustPassBefore(cl, func(x ssa.Instruction) bool { return x == waits[0] }, func(x ssa.Instruction) bool { return x == quits[0] }); ok {
					// the quit carries the wait's error
					if core.SliceReaches(quits[0].(ssa.CallInstruction).Common().Args[0], waits[0].(ssa.Value), 0) {
						okWait = true
					}
				}
			}
		}
		r.Check(okWait, "C07.R5", "cmdShutdownWhenComplete/await", "before the scheduler quits it waits for the asynchronous snapshot writes and quits with their error", "WaitAsyncWork not awaited before Quit", p.Pos(sh.Pos()))
	})
	r.Guard("C07.R5", "squash-base", "merge base", func() { checkSquashBase(p, r, "C07.R5") })
	r.Guard("C07.R2", "visits-all", "no silent truncation", func() {
		checkNoSilentTruncation(p, r, "C07.R2", []loopSite{{pkgStage, "Stages.FetchStoresState", nil}, {pkgStage, "Stages.multiSquash", nil}, {pkgPipe, "Stores.saveStoresSnapshots", nil}})
	})
	r.Guard("C07.R3", "OnStreamTerminated", "graceful end only", func() { checkOnStreamTerminated(p, r, "C07.R3") })
	r.Guard("C07.R3", "stream-end", "failed step never classified EOF", func() { checkStreamEndClassification(p, r, "C07.R3") })
	r.MinInstances("C07.R1", 6)
	r.MinInstances("C07.R2", 6)
	r.MinInstances("C07.R3", 7)
}

func reachesLoop(l *core.Loop, b *ssa.BasicBlock) bool { return l.Body[b] }

// errValueOf: the error-typed value produced by a call (the call itself or its error Extract).
func errValueOf(call ssa.Instruction) []ssa.Value {
	v, ok := call.(ssa.Value)
	if !ok {
		return nil
	}
	var out []ssa.Value
	if isErrorTyped(v.Type()) {
		out = append(out, v)
	}
	if refs := v.Referrers(); refs != nil {
		for _, ref := range *refs {
			if ex, ok := ref.(*ssa.Extract); ok && isErrorTyped(ex.Type()) {
				out = append(out, ex)
			}
		}
	}
	// through local cells
	var more []ssa.Value
	for _, ev := range out {
		for _, ref := range *ev.Referrers() {
			if st, ok := ref.(*ssa.Store); ok {
				if al, ok := st.Addr.(*ssa.Alloc); ok {
					for _, rr := range *al.Referrers() {
						if ld, ok := rr.(*ssa.UnOp); ok && ld.Op == token.MUL {
							// only loads that read this store (same block after it, or dominated) — approximated by same-block order
							if core.ResolveCell(ld) == ev {
								more = append(more, ld)
							}
						}
					}
				}
			}
		}
	}
	return append(out, more...)
}

// errNonNilEdges / errNilEdges: CFG edges on which the error of the call is known non-nil / nil.
func errEdges(fn *ssa.Function, call ssa.Instruction, wantNil bool) []core.Edge {
	var out []core.Edge
	evs := errValueOf(call)
	core.InstrsDeep(fn, func(in ssa.Instruction) {
		ifi, ok := in.(*ssa.If)
		if !ok {
			return
		}
		c, neg := core.StripNot(ifi.Cond)
		bo, ok := c.(*ssa.BinOp)
		if !ok || (bo.Op != token.NEQ && bo.Op != token.EQL) {
			return
		}
		k, isK := bo.Y.(*ssa.Const)
		if !isK || !k.IsNil() {
			return
		}
		match := false
		for _, ev := range evs {
			if bo.X == ev {
				match = true
			}
		}
		if !match {
			return
		}
		nonNilIdx := 0
		if (bo.Op == token.EQL) != neg {
			nonNilIdx = 1
		}
		if wantNil {
			out = append(out, core.Edge{From: ifi.Block(), Idx: 1 - nonNilIdx})
		} else {
			out = append(out, core.Edge{From: ifi.Block(), Idx: nonNilIdx})
		}
	})
	return out
}

func errNonNilEdges(fn *ssa.Function, call ssa.Instruction) []core.Edge {
	return errEdges(fn, call, false)
}
func errNilEdges(fn *ssa.Function, call ssa.Instruction) []core.Edge { return errEdges(fn, call, true) }

// checkCacheErrorDiscipline (E12a): on the serving path, no caller drops the
// error of a cache load/read/write, except the allow-table.
func checkCacheErrorDiscipline(p *core.Prog, r *core.Report) {
	watched := map[string]bool{"Load": true, "ReadFile": true, "Save": true, "Write": true, "WriteObject": true, "Unmarshal": true, "UnmarshalFast": true,
		"ExistsFullKV": true, "ExistsPartialKV": true, "ListSnapshotFiles": true, "FileExists": true, "OpenObject": true, "DeleteStore": true}
	allow := map[string]string{
		"(*storage/execout.FileWalker).preload$1→Load":        "prefetch only: the result is not used, the consumer loads the file again and handles its error",
		"(*pipeline.Stores).saveStoresSnapshots→ExistsFullKV": "an existence-probe error is treated as absent: the snapshot is simply written again",
	}
	inScope := func(fn *ssa.Function) bool {
		root := core.RootFn(fn)
		if root.Pkg == nil {
			return false
		}
		pp := strings.TrimPrefix(root.Pkg.Pkg.Path(), core.ModPath+"/")
		for _, pre := range []string{"storage", "orchestrator", "pipeline", "service"} {
			if strings.HasPrefix(pp, pre) {
				return true
			}
		}
		return false
	}
	n := 0
	var dropped []string
	for _, fn := range p.RepoFunctions() {
		if !inScope(fn) {
			continue
		}
		core.Instrs(fn, func(in ssa.Instruction) {
			c, ok := in.(*ssa.Call)
			if !ok {
				return
			}
			cl := core.CommonCallee(c.Common())
			if cl == nil || !watched[cl.Name()] {
				return
			}
			sig := cl.Type().(*types.Signature)
			if sig.Results().Len() == 0 || !isErrorTyped(sig.Results().At(sig.Results().Len()-1).Type()) {
				return
			}
			// only repository / dstore / marshaller callees
			pk := ""
			if cl.Pkg() != nil {
				pk = cl.Pkg().Path()
			}
			if !strings.HasPrefix(pk, core.ModPath) && !strings.Contains(pk, "dstore") {
				return
			}
			n++
			if core.ErrorTested(in) || errorForwarded(c) {
				return
			}
			key := core.FuncName(fn) + "→" + cl.Name()
			if _, ok := allow[key]; ok {
				r.Add(&core.Obligation{Rule: "C07.R3", Construct: "dropped-error/" + key, Desc: "dropped cache I/O error allowed: " + allow[key], Status: core.OK, Sites: []string{p.Pos(c.Pos())}})
				return
			}
			dropped = append(dropped, key+" at "+p.Pos(c.Pos()))
			r.Fail("C07.R3", "dropped-error/"+key, "the error of a cache load/read/write/probe is tested or returned", "error result dropped", p.Pos(c.Pos()))
		})
	}
	sort.Strings(dropped)
	r.CallSites += n
	r.Check(n >= 25, "C07.R3", "error-discipline/coverage", fmt.Sprintf("%d error-returning cache I/O call sites on the serving path inspected", n), "too few call sites matched (rule would be vacuous)")
}

// errorForwarded: the call's error result is passed on as a value (returned by an enclosing closure, sent in a message, stored in a result struct).
func errorForwarded(c *ssa.Call) bool {
	for _, ev := range errValueOf(c) {
		for _, ref := range *ev.Referrers() {
			switch ref.(type) {
			case *ssa.Return, *ssa.Store, *ssa.MakeInterface, *ssa.Phi, *ssa.Call:
				return true
			}
		}
	}
	return false
}

// loopLatch: the instruction is the first of a block that jumps back to the loop header from inside the loop.
func loopLatch(l *core.Loop, x ssa.Instruction) bool {
	b := x.Block()
	if !l.Body[b] || b.Instrs[0] != x {
		return false
	}
	for _, s := range b.Succs {
		if s == l.Header && len(b.Instrs) == 1 {
			return true
		}
	}
	return false
}

// filterEdgesFrom keeps the edges located in blocks reachable from the entry block (the case clause).
func filterEdgesFrom(es []core.Edge, entry *ssa.BasicBlock, fn *ssa.Function) []core.Edge {
	var out []core.Edge
	for _, e := range es {
		if e.From == entry || reachFromBlock(fn, entry, e.From.Instrs[0]) {
			out = append(out, e)
		}
	}
	return out
}

// checkExecoutLoadedFlag (C07.R3, C01.R5): execout.File.Load flags the file as loaded only over the edge on which the
// whole load returned a nil error.  Load answers nil at once for a file already flagged, and the walker may reuse a File
// object whose background preload ran before the file existed: a file flagged loaded after a failed (e.g. not found)
// load is later served as an empty segment, so the output depends on when the segment job finished.
func checkExecoutLoadedFlag(p *core.Prog, r *core.Report, rule string) {
	fl := p.Func(pkgExecout, "File.Load")
	r.Touch(core.FuncName(fl))
	loaded := p.Field(pkgExecout, "File", "loaded")
	var nilEdges []core.Edge
	core.InstrsDeep(fl, func(in ssa.Instruction) {
		ifi, ok := in.(*ssa.If)
		if !ok {
			return
		}
		c, neg := core.StripNot(ifi.Cond)
		bo, ok := c.(*ssa.BinOp)
		if !ok || (bo.Op != token.EQL && bo.Op != token.NEQ) {
			return
		}
		k, isK := bo.Y.(*ssa.Const)
		if !isK || !k.IsNil() || !isErrorTyped(bo.X.Type()) {
			return
		}
		idx := 0
		if (bo.Op == token.NEQ) != neg {
			idx = 1
		}
		nilEdges = append(nilEdges, core.Edge{From: ifi.Block(), Idx: idx})
	})
	okLoaded := true
	nL := 0
	for _, w := range core.FieldWritesIn(fl, loaded) {
		k, isK := w.Value.(*ssa.Const)
		if !isK || k.Value.ExactString() != "true" {
			continue
		}
		nL++
		q := core.PathQuery{Fn: fl, CutEdge: func(e core.Edge) bool { return containsEdge(nilEdges, e) }}
		if _, reach := q.CanReach(nil, func(x ssa.Instruction) bool { return x == w.Instr }); reach || len(nilEdges) == 0 {
			okLoaded = false
		}
	}
	r.Check(nL > 0 && okLoaded, rule, "execout.File.Load/loaded", "a cached-output file is flagged loaded only when the load returned no error (the flag is reachable only over an `err == nil` edge)", "loaded can be set although the load failed", p.Pos(fl.Pos()))
	// and the short-circuit at the top answers from the flag alone
	okShort := false
	core.InstrsDeep(fl, func(in ssa.Instruction) {
		ifi, ok := in.(*ssa.If)
		if !ok {
			return
		}
		c, _ := core.StripNot(ifi.Cond)
		if f, _ := core.LoadedField(c); f == loaded {
			okShort = true
		}
	})
	r.Check(okShort, rule, "execout.File.Load/short-circuit", "Load answers at once for a file already flagged loaded (which is why the flag must only follow a successful load)", "no test of the loaded flag", p.Pos(fl.Pos()))
}
