package props

import (
	"fmt"
	"go/token"
	"go/types"
	"strings"

	"golang.org/x/tools/go/ssa"

	"verif/sa/core"
)

func init() {
	register("C09", &Def{
		Title:     "Replaying a store's cached operation log reproduces its deltas and state",
		Run:       runC09,
		Technique: "static analysis: must-pass-through ordering (flush before log read, replay before delta export), provenance slices of the log bytes from ReadOps to the cache writer and back to ApplyOps, override completeness for side state, map-iteration determinism of the interpreter",
		Explanation: "Replay runs the same interpreter (Flush) over the same list, so it can only diverge through nondeterminism of Flush, a log that is not what was applied, or state outside kv that the original path updates and replay does not. " +
			"(R1) ApplyOps = unmarshal → assign the whole list to kvOps → Flush with the error propagated; the log handed to the cache is read after Flush (hence already ordinal-sorted) and ReadOps serialises exactly kvOps; " +
			"(R2) Flush and everything it reaches contain no order-sensitive map iteration, time or randomness (deletePrefix sorts its deltas by key); " +
			"(R3) side state completeness: every way a DELETE_PREFIX operation enters a partial store also records the prefix in DeletedPrefixes (PartialKV overrides DeletePrefix and ApplyOps); " +
			"(R4) on the cached branch RunModule applies the cached log before exporting the module output, re-marshals the deltas from the store (not from the log), and the bytes written to the store module's cached-output file are ReadOps() of that block. R1 requires the exported log to be ReadOps() on every path (never an empty substitute for a block without deltas). Also (R3) PartialKV marks a key seen only where it records it as a deleted prefix. Also (R1) no function of the store package branches on a []byte parameter being nil. Also (R1) the operation log of a block is only appended to.",
		NotCovered:  "Equality of replayed and original deltas for all pre-states (given R1–R3 it reduces to determinism of Flush, which is argued structurally, not executed).",
		Assumptions: []string{"proto.Marshal/Unmarshal round-trip the Operations message (generated code)", "a store is in the same pre-block state when the log is replayed (C01/C07 scheduling properties)"},
	})
}

func runC09(p *core.Prog, r *core.Report) {
	r.Guard("C09.R2", "visits-all", "no silent truncation", func() {
		checkNoSilentTruncation(p, r, "C09.R2", []loopSite{{pkgStore, "baseStore.Flush", nil}, {pkgStore, "baseStore.SetDeltas", nil}, {pkgStore, "baseStore.deletePrefix", nil}, {pkgStore, "PartialKV.ApplyOps", nil}})
	})

	kvOps := func() *types.Var { return p.Field(pkgStore, "baseStore", "kvOps") }
	flushObj := func() *types.Func { return p.FuncObj(pkgStore, "baseStore.Flush") }

	r.Guard("C09.R1", "ApplyOps", "replay shape", func() {
		fn := p.Func(pkgStore, "baseStore.ApplyOps")
		r.Touch(core.FuncName(fn))
		in := fn.Params[1]
		// unmarshal of the parameter into a fresh Operations value
		var unm ssa.Instruction
		var target ssa.Value
		core.InstrsDeep(fn, func(x ssa.Instruction) { // (the decoding may sit in a helper that is handed the bytes)
			c, ok := x.(*ssa.Call)
			if !ok {
				return
			}
			cl := core.CommonCallee(c.Common())
			if cl == nil || cl.Name() != "Unmarshal" && cl.Name() != "UnmarshalVT" {
				return
			}
			for _, a := range c.Call.Args {
				if a == ssa.Value(in) || core.CallerValue(fn, a) == ssa.Value(in) {
					unm = x
				}
			}
			if unm == x {
				for _, a := range c.Call.Args {
					if mi, ok := a.(*ssa.MakeInterface); ok {
						target = mi.X
					}
				}
				if target == nil && !c.Call.IsInvoke() && len(c.Call.Args) > 0 {
					target = c.Call.Args[0]
				}
			}
		})
		if unm == nil || target == nil {
			r.Fail("C09.R1", "ApplyOps/unmarshal", "ApplyOps decodes the given log bytes", "no Unmarshal of the parameter found", p.Pos(fn.Pos()))
			return
		}
		// when a helper decodes, what ApplyOps assigns is the helper's result that carries the decoded message
		if unm.Parent() != fn {
			if site, ok := core.SiteIn(fn, unm).(*ssa.Call); ok && site != nil {
				h := unm.Parent()
				core.Instrs(h, func(x ssa.Instruction) {
					rt, ok := x.(*ssa.Return)
					if !ok {
						return
					}
					for i, rv := range core.ReturnValues(rt) {
						if rv != target {
							continue
						}
						if len(rt.Results) == 1 {
							target = site
						}
						for _, ref := range *site.Referrers() {
							if ex, ok := ref.(*ssa.Extract); ok && ex.Index == i {
								target = ex
							}
						}
					}
				})
			}
		}
		ws := core.FieldWritesIn(fn, kvOps())
		okAssign := len(ws) == 1 && ws[0].Kind == core.WAssign && ws[0].Value == target
		r.Check(okAssign, "C09.R1", "ApplyOps/assign", "the decoded list replaces kvOps wholesale (nothing of a previous block is replayed with it)", "kvOps is not assigned the decoded message", p.Pos(fn.Pos()))
		// unmarshal error → return error before assignment
		okOrder := false
		if len(ws) == 1 {
			_, okOrder = core.MustPassBefore(fn, func(x ssa.Instruction) bool { return x == unm }, func(x ssa.Instruction) bool { return x == ws[0].Instr })
		}
		r.Check(okOrder, "C09.R1", "ApplyOps/decode-first", "the list is assigned only after decoding", "assignment not dominated by the decode", p.Pos(fn.Pos()))
		// every success path runs Flush and returns its error
		isFlush := core.IsCallTo(flushObj())
		hit, ok := core.MustReachAfter(fn, nil, isFlush, func(x ssa.Instruction) bool { return core.ReturnsNilError(x) })
		d := ""
		if !ok {
			d = "a return with a possibly-nil error is reachable without Flush at " + p.Pos(core.InstrPos(hit))
		}
		r.Check(ok, "C09.R1", "ApplyOps/flush", "ApplyOps applies the list through Flush on every path that can report success", d, p.Pos(fn.Pos()))
		// the value returned after Flush is Flush's result
		retOK := false
		core.Instrs(fn, func(x ssa.Instruction) {
			if ret, ok := x.(*ssa.Return); ok && len(ret.Results) == 1 {
				if c, ok := ret.Results[0].(*ssa.Call); ok && core.CommonCallee(c.Common()) == flushObj() {
					retOK = true
				}
			}
		})
		// replay refuses nothing the execution path accepts: the only failures of ApplyOps are the decoding error and
		// Flush's own error (the log was produced by Flush on the original run; any extra validation is a way for the
		// cached branch to fail where execution succeeded — e.g. delete_prefix("") carries an empty Key)
		foreign := ""
		core.Instrs(fn, func(in ssa.Instruction) {
			rt, ok := in.(*ssa.Return)
			if !ok || core.ReturnsNilError(rt) {
				return
			}
			src := core.Trace(core.ResolveCell(rt.Results[len(rt.Results)-1]), 1)
			if !(src.HasCallNamed("Unmarshal") || src.HasCallNamed("UnmarshalVT") || src.HasCall(p.FuncObj(pkgStore, "baseStore.Flush"))) {
				foreign = p.Pos(rt.Pos())
			}
		})
		r.Check(foreign == "", "C09.R1", "ApplyOps/no-extra-failure", "replaying a log fails only if it cannot be decoded or if Flush itself fails: ApplyOps adds no validation of its own (every log the execution path wrote is replayable)", "an error return of ApplyOps comes from neither the decoder nor Flush: "+foreign, p.Pos(fn.Pos()))
		r.Check(retOK, "C09.R1", "ApplyOps/flush-error", "the error of the replayed Flush is returned to the caller", "Flush's result is not returned", p.Pos(fn.Pos()))
	})

	r.Guard("C09.R1", "ReadOps", "log serialisation", func() {
		fn := p.Func(pkgStore, "baseStore.ReadOps")
		r.Touch(core.FuncName(fn))
		ok := false
		core.Instrs(fn, func(x ssa.Instruction) {
			ret, isRet := x.(*ssa.Return)
			if !isRet || len(ret.Results) != 1 {
				return
			}
			src := core.Trace(ret.Results[0], 0)
			marsh := false
			for c := range src.Calls {
				if strings.HasPrefix(c.Name(), "Marshal") {
					marsh = true
				}
			}
			if marsh && src.Fields[kvOps()] {
				ok = true
			}
		})
		r.Check(ok, "C09.R1", "ReadOps/kvOps", "ReadOps serialises exactly the store's operation list (kvOps)", "returned bytes do not derive from a Marshal of kvOps", p.Pos(fn.Pos()))
		// ReadOps does not modify the list
		r.Check(len(core.FieldWritesIn(fn, kvOps())) == 0, "C09.R1", "ReadOps/pure", "ReadOps does not modify the operation list", "writes kvOps", p.Pos(fn.Pos()))
		// ... nor anything else of the store, and what it returns is not a view of store-owned memory: the caller parks the
		// bytes in the block's output buffer until the block is final, several blocks later on a reversible segment
		wr := ""
		core.Instrs(fn, func(x ssa.Instruction) {
			if st, ok := x.(*ssa.Store); ok {
				if fa, ok := st.Addr.(*ssa.FieldAddr); ok && derivesFromParam(fa.X, fn.Params[0]) {
					wr = core.FieldOfAddr(fa).Name()
				}
			}
			if c, ok := x.(*ssa.Call); ok {
				// a buffer handed to an append-style marshaller must not be store-owned
				for _, a := range c.Call.Args {
					if sl, ok := a.(*ssa.Slice); ok {
						if f, base := core.LoadedField(sl.X); f != nil && derivesFromParam(base, fn.Params[0]) {
							wr = f.Name()
						}
					}
				}
			}
		})
		r.Check(wr == "", "C09.R1", "ReadOps/fresh-bytes", "ReadOps keeps no state: it writes no field of the store and serialises into a fresh buffer (the bytes stay valid while later blocks are executed)", "ReadOps writes or re-uses the store's field "+wr, p.Pos(fn.Pos()))
	})

	r.Guard("C09.R1", "wrapDeltasAndOps", "flush before log read", func() {
		fn := p.Func(pkgExec, "StoreModuleExecutor.wrapDeltasAndOps")
		r.Touch(core.FuncName(fn))
		da := p.Named(pkgStore, "DeltaAccessor")
		_ = da
		isM := func(name string) core.InstrPred {
			return func(x ssa.Instruction) bool {
				c, ok := x.(ssa.CallInstruction)
				return ok && c.Common().IsInvoke() && c.Common().Method.Name() == name
			}
		}
		reads := core.FindInstrs(fn, isM("ReadOps"))
		gets := core.FindInstrs(fn, isM("GetDeltas"))
		if len(reads) == 0 || len(gets) == 0 {
			core.Undecide("wrapDeltasAndOps: ReadOps/GetDeltas calls not found")
		}
		bad := ""
		for _, x := range append(append([]ssa.Instruction{}, reads...), gets...) {
			if _, ok := core.MustPassBefore(fn, isM("Flush"), func(y ssa.Instruction) bool { return y == x }); !ok {
				bad = p.Pos(x.Pos())
			}
		}
		r.Check(bad == "", "C09.R1", "wrapDeltasAndOps/flush-first", "the operation log and the deltas are read after Flush (the log is the sorted list that was applied)", "read before Flush at "+bad, p.Pos(fn.Pos()))
		// results: #1 (for files) ← ReadOps; #0 ← Marshal(deltas from GetDeltas); the Flush error is returned
		okFiles, okData := true, true
		nRet := 0
		core.Instrs(fn, func(x ssa.Instruction) {
			ret, ok := x.(*ssa.Return)
			if !ok || len(ret.Results) != 4 || !core.ReturnsNilError(x) {
				return
			}
			if c, isC := ret.Results[3].(*ssa.Const); !isC || !c.IsNil() {
				return
			}
			nRet++
			// on every path: every value that can be returned as the log is the result of ReadOps() (never an
			// empty or partial substitute chosen by a condition)
			has := true
			seenV := map[ssa.Value]bool{}
			var leaves func(v ssa.Value)
			leaves = func(v ssa.Value) {
				v = core.ResolveCell(core.SkipConv(v))
				if seenV[v] {
					return
				}
				seenV[v] = true
				switch x := v.(type) {
				case *ssa.Phi:
					for _, e := range x.Edges {
						leaves(e)
					}
				case *ssa.Call:
					if c := core.CalleeOf(x); c == nil || c.Name() != "ReadOps" {
						has = false
					}
				default:
					has = false
				}
			}
			leaves(ret.Results[1])
			if !has {
				okFiles = false
			}
			s0 := core.Trace(ret.Results[0], 0)
			has = false
			for c := range s0.Calls {
				if c.Name() == "GetDeltas" {
					has = true
				}
			}
			if !has {
				okData = false
			}
		})
		r.Check(nRet > 0 && okFiles, "C09.R1", "wrapDeltasAndOps/files←ReadOps", "the bytes destined to the cached-output file of a store module are ReadOps() on every path (a block without deltas can still carry operations: a delete_prefix matching nothing in a partial store is recorded in DeletedPrefixes)", "the second result can be something else than the result of ReadOps()", p.Pos(fn.Pos()))
		r.Check(nRet > 0 && okData, "C09.R1", "wrapDeltasAndOps/data←GetDeltas", "the bytes handed to downstream modules are the marshalled deltas of the block", "first result does not derive from GetDeltas", p.Pos(fn.Pos()))
	})

	// R2: determinism of Flush: done by the shared map-order engine
	r.Guard("C09.R2", "Flush/determinism", "no order-sensitive map iteration under Flush", func() {
		roots := []*ssa.Function{p.Func(pkgStore, "baseStore.Flush")}
		checkMapOrder(p, r, "C09.R2", roots, mapOrderAllow)
	})

	// R3
	r.Guard("C09.R3", "PartialKV/overrides", "side state completeness", func() { checkPartialOverrides(p, r, "C09.R3") })
	r.Guard("C09.R3", "PartialKV/seen", "seen marks recorded prefixes only", func() { checkSeenOnlyWithRecordedPrefix(p, r, "C09.R3") })

	// R4 cached branch of RunModule
	r.GuardExact("C09.R1", "nilness", "no branch on nil-ness of a value", func() { checkNoNilnessOfValues(p, r, "C09.R1") })
	r.GuardExact("C09.R1", "log-only-grows", "the operation log is only appended to", func() { checkOperationLogOnlyGrows(p, r, "C09.R1") })
	r.Guard("C09.R4", "RunModule", "cached branch", func() {
		fn := p.Func(pkgExec, "RunModule")
		r.Touch(core.FuncName(fn))
		isM := func(name string) core.InstrPred {
			return func(x ssa.Instruction) bool {
				c, ok := x.(ssa.CallInstruction)
				return ok && c.Common().IsInvoke() && c.Common().Method.Name() == name
			}
		}
		applies := core.FindInstrs(fn, isM("applyCachedOutput"))
		runs := core.FindInstrs(fn, isM("run"))
		if len(applies) != 1 || len(runs) != 1 {
			core.Undecide("RunModule: expected one applyCachedOutput and one run call, found %d/%d", len(applies), len(runs))
		}
		apply := applies[0]
		// the argument replayed is what execOutput.Get returned for this module
		src := core.Trace(apply.(ssa.CallInstruction).Common().Args[0], 2)
		fromGet := false
		for c := range src.Calls {
			if c.Name() == "Get" {
				fromGet = true
			}
		}
		r.Check(fromGet, "C09.R4", "RunModule/replay-source", "the bytes replayed are the module's entry of the block's execution output (the cached log)", "argument does not derive from execOutput.Get", p.Pos(apply.Pos()))
		// toModuleOutput after apply on the cached branch: every toModuleOutput call reachable from apply..., and apply error returns
		tmo := core.FindInstrs(fn, isM("toModuleOutput"))
		okOrder := false
		for _, t := range tmo {
			q := core.PathQuery{Fn: fn}
			if _, reach := q.CanReach(apply, func(x ssa.Instruction) bool { return x == t }); reach {
				okOrder = true
				// and not reachable from entry without apply, unless it is the skip-from-index empty output (argument nil)
			}
		}
		r.Check(okOrder, "C09.R4", "RunModule/replay-before-export", "on the cached branch the log is applied to the store before the module output (deltas) is exported", "no toModuleOutput after applyCachedOutput", p.Pos(apply.Pos()))
		// run and apply are exclusive: no path executes both
		q := core.PathQuery{Fn: fn}
		_, both := q.CanReach(apply, func(x ssa.Instruction) bool { return x == runs[0] })
		r.Check(!both, "C09.R4", "RunModule/exclusive", "a block's module is either replayed from cache or executed, never both", "executor.run reachable after applyCachedOutput", p.Pos(apply.Pos()))
		// a failed replay is an error
		r.Check(core.ErrorTested(apply), "C09.R4", "RunModule/replay-error", "the error of the replay is tested", "applyCachedOutput result unused", p.Pos(apply.Pos()))
		// the returned bytes on the cached store branch are re-marshalled deltas
		remarsh := false
		core.InstrsDeep(fn, func(x ssa.Instruction) { // in RunModule or in the helper that builds the cached output
			c, ok := x.(*ssa.Call)
			if !ok {
				return
			}
			cl := core.CommonCallee(c.Common())
			if cl == nil || cl.Name() != "Marshal" {
				return
			}
			s := core.Trace(c.Call.Args[len(c.Call.Args)-1], 1)
			for cc := range s.Calls {
				if cc.Name() == "GetStoreDeltas" || cc.Name() == "toModuleOutput" {
					q := core.PathQuery{Fn: fn}
					if _, reach := q.CanReach(apply, func(y ssa.Instruction) bool { return y == x }); reach {
						remarsh = true
					}
				}
			}
		})
		// ... whenever the module output is a store output: the only condition on the re-marshal is the nil test of the store
		// deltas getter (a replay that yields zero deltas must hand downstream an empty delta list, not the operation log)
		okGuard := false
		core.InstrsDeep(fn, func(x ssa.Instruction) {
			c, ok := x.(*ssa.Call)
			if !ok {
				return
			}
			cl := core.CommonCallee(c.Common())
			if cl == nil || cl.Name() != "Marshal" || !core.Trace(c.Call.Args[len(c.Call.Args)-1], 1).HasCallNamed("GetStoreDeltas") {
				return
			}
			// nearest conditional whose successor dominates the call
			for b := c.Block(); b != nil; b = b.Idom() {
				id := b.Idom()
				if id == nil {
					break
				}
				ifi, isIf := id.Instrs[len(id.Instrs)-1].(*ssa.If)
				if !isIf || !(id.Succs[0] == b || id.Succs[1] == b) || len(b.Preds) != 1 {
					continue
				}
				cnd, _ := core.StripNot(ifi.Cond)
				if bo, ok := cnd.(*ssa.BinOp); ok && (bo.Op == token.NEQ || bo.Op == token.EQL) {
					isGetter := func(v ssa.Value) bool {
						cc, ok := v.(*ssa.Call)
						return ok && core.CommonCallee(cc.Common()) != nil && core.CommonCallee(cc.Common()).Name() == "GetStoreDeltas"
					}
					isNil := func(v ssa.Value) bool { k, ok := v.(*ssa.Const); return ok && k.IsNil() }
					if (isGetter(bo.X) && isNil(bo.Y)) || (isGetter(bo.Y) && isNil(bo.X)) {
						okGuard = true
					}
				}
				break
			}
		})
		r.Check(okGuard, "C09.R4", "RunModule/deltas-remarshalled/always", "the re-marshal happens for every cached store output: its only guard is `GetStoreDeltas() != nil` (not the number of deltas)", "the re-marshal of the deltas is guarded by another condition", p.Pos(apply.Pos()))
		r.Check(remarsh, "C09.R4", "RunModule/deltas-remarshalled", "for a cached store module the bytes given to downstream modules are re-marshalled from the replayed store's deltas, not the operation log", "no Marshal of the module output's store deltas after the replay", p.Pos(apply.Pos()))
	})
	r.Guard("C09.R4", "toModuleOutput", "deltas from the store", func() {
		fn := p.Func(pkgExec, "StoreModuleExecutor.toModuleOutput")
		r.Touch(core.FuncName(fn))
		sd := p.Named(pkgPBV1, "StoreDeltas")
		ok := false
		for _, al := range core.AllocsOf(fn, sd) {
			for _, v := range core.LiteralFields(al)["StoreDeltas"] {
				s := core.Trace(v, 1)
				for c := range s.Calls {
					if c.Name() == "GetDeltas" {
						ok = true
					}
				}
			}
		}
		r.Check(ok, "C09.R4", "toModuleOutput/GetDeltas", "the module output of a store is built from the store's current deltas (re-derived by the replay), not from the bytes passed in", "StoreDeltas does not derive from GetDeltas()", p.Pos(fn.Pos()))
		// applyCachedOutput delegates to ApplyOps with its argument
		ap := p.Func(pkgExec, "StoreModuleExecutor.applyCachedOutput")
		okAp := false
		core.Instrs(ap, func(x ssa.Instruction) {
			c, isC := x.(ssa.CallInstruction)
			if isC && c.Common().IsInvoke() && c.Common().Method.Name() == "ApplyOps" && len(c.Common().Args) == 1 && c.Common().Args[0] == ssa.Value(ap.Params[1]) {
				okAp = true
			}
		})
		r.Check(okAp, "C09.R4", "applyCachedOutput/ApplyOps", "a store executor replays a cached output through ApplyOps on its output store", "no ApplyOps(value) call", p.Pos(ap.Pos()))
	})
	r.Guard("C09.R4", "file-output-chain", "log bytes reach the cache writer", func() {
		// applyExecutionResult: SetFileOutput(name, res.bytesForFiles)
		fn := p.Func(pkgPipe, "Pipeline.applyExecutionResult")
		r.Touch(core.FuncName(fn))
		resT := p.Named(pkgPipe, "resultObj")
		bff := core.FieldOf(resT, "bytesForFiles")
		ok1 := false
		core.Instrs(fn, func(x ssa.Instruction) {
			c, ok := x.(ssa.CallInstruction)
			if ok && c.Common().IsInvoke() && c.Common().Method.Name() == "SetFileOutput" {
				if core.Trace(c.Common().Args[1], 0).Fields[bff] {
					ok1 = true
				}
			}
		})
		r.Check(ok1, "C09.R4", "applyExecutionResult/SetFileOutput", "the file output recorded for a module is the result's bytesForFiles", "SetFileOutput argument is not res.bytesForFiles", p.Pos(fn.Pos()))
		ex := p.Func(pkgPipe, "Pipeline.execute")
		ok2 := false
		for _, al := range allocsOrValuesOf(ex, resT) {
			for _, v := range al["bytesForFiles"] {
				if e, ok := v.(*ssa.Extract); ok && e.Index == 2 {
					if c, ok := e.Tuple.(*ssa.Call); ok && core.CommonCallee(c.Common()) == p.FuncObj(pkgExec, "RunModule") {
						ok2 = true
					}
				}
			}
		}
		r.Check(ok2, "C09.R4", "execute/bytesForFiles", "bytesForFiles is RunModule's third result", "not the third result of exec.RunModule", p.Pos(ex.Pos()))
		rm := p.Func(pkgExec, "RunModule")
		ok3 := false
		core.Instrs(rm, func(x ssa.Instruction) {
			ret, ok := x.(*ssa.Return)
			if !ok || len(ret.Results) != 5 {
				return
			}
			if e, ok := core.ReturnValues(ret)[2].(*ssa.Extract); ok && e.Index == 1 {
				if c, ok := e.Tuple.(*ssa.Call); ok && c.Call.IsInvoke() && c.Call.Method.Name() == "run" {
					ok3 = true
				}
			}
		})
		r.Check(ok3, "C09.R4", "RunModule/outputForFiles", "RunModule's third result on the executed branch is the executor's output-for-files", "not executor.run's second result", p.Pos(rm.Pos()))
		// Writer.Write stores that entry of the buffer into the file, keyed by the block's clock
		w := p.Func(pkgExecout, "Writer.Write")
		vf := p.Field(pkgExecout, "Buffer", "valuesForFileOutput")
		ok4 := false
		core.Instrs(w, func(x ssa.Instruction) {
			c, ok := x.(*ssa.Call)
			if !ok {
				return
			}
			if cl := core.CommonCallee(c.Common()); cl != nil && cl.Name() == "SetItem" {
				if core.Trace(c.Call.Args[len(c.Call.Args)-1], 0).Fields[vf] {
					ok4 = true
				}
			}
		})
		r.Check(ok4, "C09.R4", "Writer.Write/valuesForFileOutput", "the cache writer stores the block's file-output entry of its module", "SetItem value does not come from valuesForFileOutput", p.Pos(w.Pos()))
		sfo := p.Func(pkgExecout, "Buffer.SetFileOutput")
		ws := core.FieldWritesIn(sfo, vf)
		ok5 := len(ws) == 1 && ws[0].Kind == core.WMapSet && ws[0].Key == ssa.Value(sfo.Params[1]) && ws[0].Value == ssa.Value(sfo.Params[2])
		r.Check(ok5, "C09.R4", "Buffer.SetFileOutput", "SetFileOutput records the bytes under the module's name", fmt.Sprintf("%d writes", len(ws)), p.Pos(sfo.Pos()))
	})
	r.MinInstances("C09.R1", 9)
	r.MinInstances("C09.R4", 10)
}

// allocsOrValuesOf collects composite-literal field values of a struct type,
// both for &T{...} (Alloc + stores) and for T{...} values built in a local cell.
func allocsOrValuesOf(fn *ssa.Function, named *types.Named) []map[string][]ssa.Value {
	var out []map[string][]ssa.Value
	core.Instrs(fn, func(in ssa.Instruction) {
		al, ok := in.(*ssa.Alloc)
		if !ok {
			return
		}
		pt, ok := al.Type().(*types.Pointer)
		if !ok {
			return
		}
		if n, ok := pt.Elem().(*types.Named); ok && n.Obj() == named.Obj() {
			out = append(out, core.LiteralFields(al))
		}
	})
	return out
}
