package props

import (
	"fmt"
	"strings"

	"golang.org/x/tools/go/ssa"

	"verif/sa/core"
)

// checkFreshReaderPerAttempt (C10.R2 / C07.R4, added after the seeded change
// "reader shared across upload retries"): a cache file is uploaded with
// WriteObject(ctx, name, reader) inside a retry closure; an io.Reader is
// consumed by an attempt, so it must be created inside the closure (fresh for
// every attempt).  A reader captured from outside makes a retry after a
// partial upload write only the unread tail: a truncated file reported as
// written.
func checkFreshReaderPerAttempt(p *core.Prog, r *core.Report, rule string) {
	n := 0
	for _, fn := range p.RepoFunctions() {
		root := core.RootFn(fn)
		if root.Pkg == nil || !strings.HasPrefix(root.Pkg.Pkg.Path(), core.ModPath+"/storage") {
			continue
		}
		cnt := 0
		core.Instrs(fn, func(in ssa.Instruction) {
			c, ok := in.(*ssa.Call)
			if !ok || !c.Call.IsInvoke() || c.Call.Method.Name() != "WriteObject" {
				return
			}
			n++
			cnt++
			r.CallSites++
			r.Touch(core.FuncName(fn))
			reader := c.Call.Args[len(c.Call.Args)-1]
			inRetry := isRetryClosure(fn)
			construct := fmt.Sprintf("%s/WriteObject#%d", core.FuncName(fn), cnt)
			if !inRetry {
				r.Pass(rule, construct, "the upload is not inside a retry closure (single attempt)", p.Pos(c.Pos()))
				return
			}
			// the reader must be produced inside this closure: no free variable in its backward slice (other than the content bytes it wraps)
			fresh := false
			if mi, ok := reader.(*ssa.MakeInterface); ok {
				if call, ok := mi.X.(*ssa.Call); ok {
					if cl := core.CommonCallee(call.Common()); cl != nil && (calleeKey(cl) == "bytes.NewReader" || calleeKey(cl) == "bytes.NewBuffer" || calleeKey(cl) == "strings.NewReader") {
						fresh = true
					}
				}
			}
			r.Check(fresh, rule, construct, "inside a retry closure the uploaded reader is created per attempt (bytes.NewReader(content) in the closure), never captured from outside", "the reader handed to WriteObject is not created inside the retry closure: a retry after a partial upload would send only the unread tail", p.Pos(c.Pos()))
		})
	}
	if n < 3 {
		core.Undecide("only %d WriteObject call sites found in the storage packages", n)
	}
}

// isRetryClosure: the function is a closure passed to derr.RetryContext / derr.Retry.
func isRetryClosure(fn *ssa.Function) bool {
	parent := fn.Parent()
	if parent == nil {
		return false
	}
	found := false
	core.Instrs(parent, func(in ssa.Instruction) {
		c, ok := in.(*ssa.Call)
		if !ok {
			return
		}
		cl := core.CommonCallee(c.Common())
		if cl == nil || cl.Pkg() == nil || !strings.HasSuffix(cl.Pkg().Path(), "/derr") || !strings.HasPrefix(cl.Name(), "Retry") {
			return
		}
		for _, a := range c.Call.Args {
			if mc, ok := a.(*ssa.MakeClosure); ok && mc.Fn == ssa.Value(fn) {
				found = true
			}
		}
	})
	return found
}

// checkRetryAccumulatesNothing: what an attempt of a retried closure reads or builds does not pile up in something
// captured from outside the closure — an attempt that failed half-way must leave nothing behind for the next one.
// A closure that copies the downloaded bytes into a captured buffer returns, after a failed first attempt, the bytes of
// that attempt followed by the whole file; concatenated protobuf messages decode, map entries collapse, and the size
// counted per entry no longer matches the content.
func checkRetryAccumulatesNothing(p *core.Prog, r *core.Report, rule string) {
	n := 0
	for _, fn := range p.RepoFunctions() {
		root := core.RootFn(fn)
		if root.Pkg == nil || !strings.HasPrefix(root.Pkg.Pkg.Path(), core.ModPath+"/storage") || !isRetryClosure(fn) {
			continue
		}
		n++
		r.Touch(core.FuncName(fn))
		fromOutside := func(v ssa.Value) bool {
			for x := range core.OperandSlice(v) {
				if _, ok := x.(*ssa.FreeVar); ok {
					return true
				}
			}
			return false
		}
		var bad []string
		core.Instrs(fn, func(in ssa.Instruction) {
			ci, ok := in.(ssa.CallInstruction)
			if !ok {
				return
			}
			cl := core.CommonCallee(ci.Common())
			if cl == nil {
				return
			}
			args := ci.Common().Args
			switch calleeKey(cl) {
			case "io.Copy", "io.CopyN", "io.CopyBuffer":
				if len(args) > 0 && fromOutside(args[0]) {
					bad = append(bad, "io.Copy into a captured writer at "+p.Pos(in.Pos()))
				}
			}
			if cl.Pkg() != nil && cl.Pkg().Path() == "bytes" {
				switch cl.Name() {
				case "Write", "WriteString", "WriteByte", "WriteRune", "ReadFrom":
					if len(args) > 0 && fromOutside(args[0]) {
						bad = append(bad, "write into a captured bytes.Buffer at "+p.Pos(in.Pos()))
					}
				}
			}
			if b, ok := ci.Common().Value.(*ssa.Builtin); ok && b.Name() == "append" && len(args) > 0 && fromOutside(args[0]) {
				bad = append(bad, "append to a captured slice at "+p.Pos(in.Pos()))
			}
		})
		r.Check(len(bad) == 0, rule, core.FuncName(fn)+"/attempt-leaves-nothing", "an attempt of the retried closure does not add to a buffer or slice captured from outside it (what a failed attempt read is gone before the next one)", strings.Join(bad, "; "), p.Pos(fn.Pos()))
	}
	if n < 3 {
		core.Undecide("only %d retry closures found in the storage packages", n)
	}
}
