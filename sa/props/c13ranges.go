package props

import (
	"fmt"
	"go/token"
	"go/types"
	"strings"

	"golang.org/x/tools/go/ssa"

	"verif/sa/core"
)

// C13.R5 / C13.R6: structural necessary conditions of "splitting a range into chunks and merging adjacent ranges
// preserve the set of covered blocks", and of the Segmenter's derived constructors / Count.

// checkSegmenterDerived (C13.R1): Count is LastIndex-FirstIndex+1; the With* constructors keep the other two numbers
// in their positions; NewSegmenter stores each parameter in the field of the same role.
func checkSegmenterDerived(p *core.Prog, r *core.Report) {
	cnt := p.Func(pkgBlock, "Segmenter.Count")
	r.Touch(core.FuncName(cnt))
	e := exprOf(p, cnt)
	// canonical linear form: +1 + LastIndex() - FirstIndex()
	paths := core.Summarize(&core.SymConfig{Fn: cnt})
	okCount := false
	if len(paths) == 1 && len(paths[0].ResultLeaves) == 1 {
		var last, first ssa.Value
		core.Instrs(cnt, func(in ssa.Instruction) {
			if c, ok := in.(*ssa.Call); ok {
				switch core.CalleeOf(c) {
				case p.FuncObj(pkgBlock, "Segmenter.LastIndex"):
					last = c
				case p.FuncObj(pkgBlock, "Segmenter.FirstIndex"):
					first = c
				}
			}
		})
		if last != nil && first != nil {
			// result = (last - first) + 1 up to conversions
			ret := cnt.Blocks[len(cnt.Blocks)-1].Instrs
			if rt, ok := ret[len(ret)-1].(*ssa.Return); ok {
				okCount = isPlusOne(core.SkipConv(rt.Results[0]), func(v ssa.Value) bool {
					bo, ok := core.SkipConv(v).(*ssa.BinOp)
					return ok && bo.Op == token.SUB && core.SkipConv(bo.X) == last && core.SkipConv(bo.Y) == first
				})
			}
		}
	}
	r.Check(okCount, "C13.R1", "Count", "Count() is LastIndex() − FirstIndex() + 1 (the number of indexes Range() answers for)", "expression is "+e, p.Pos(cnt.Pos()))

	seg := p.Named(pkgBlock, "Segmenter")
	ns := p.Func(pkgBlock, "NewSegmenter")
	r.Touch(core.FuncName(ns))
	want := map[string]int{"interval": 0, "initialBlock": 1, "exclusiveEndBlock": 2}
	got := map[string]int{}
	core.Instrs(ns, func(in ssa.Instruction) {
		st, ok := in.(*ssa.Store)
		if !ok {
			return
		}
		fa, ok := st.Addr.(*ssa.FieldAddr)
		if !ok {
			return
		}
		f := core.FieldOfAddr(fa)
		for i, prm := range ns.Params {
			if core.SkipConv(st.Val) == prm {
				got[f.Name()] = i
			}
		}
	})
	okNew := len(got) == 3
	for k, v := range want {
		if got[k] != v {
			okNew = false
		}
	}
	_ = seg
	r.Check(okNew, "C13.R1", "NewSegmenter/fields", "NewSegmenter(interval, initial, end) stores each number in the field of that role", fmt.Sprintf("field←parameter map %v", got), p.Pos(ns.Pos()))
	for _, w := range []struct {
		fn      string
		replace int
	}{{"Segmenter.WithInitialBlock", 1}, {"Segmenter.WithExclusiveEndBlock", 2}} {
		fn := p.Func(pkgBlock, w.fn)
		r.Touch(core.FuncName(fn))
		ok := false
		for _, c := range core.FindInstrs(fn, core.IsCallTo(p.FuncObj(pkgBlock, "NewSegmenter"))) {
			args := c.(ssa.CallInstruction).Common().Args
			ok = len(args) == 3
			names := []string{"interval", "initialBlock", "exclusiveEndBlock"}
			for i := 0; ok && i < 3; i++ {
				if i == w.replace {
					ok = core.SkipConv(args[i]) == fn.Params[1]
				} else {
					f, base := core.LoadedField(args[i])
					ok = f != nil && f.Name() == names[i] && base == fn.Params[0]
				}
			}
		}
		r.Check(ok, "C13.R1", w.fn+"/args", "the derived segmenter replaces exactly one number and keeps the two others in their positions", "argument roles differ", p.Pos(fn.Pos()))
	}
}

func isPlusOne(v ssa.Value, isBase func(ssa.Value) bool) bool {
	bo, ok := v.(*ssa.BinOp)
	if !ok || bo.Op != token.ADD {
		return false
	}
	one := func(x ssa.Value) bool {
		c, ok := x.(*ssa.Const)
		return ok && c.Value != nil && c.Value.ExactString() == "1"
	}
	return (one(bo.Y) && isBase(bo.X)) || (one(bo.X) && isBase(bo.Y))
}

// checkRangeSplit (C13.R5).
func checkRangeSplit(p *core.Prog, r *core.Report) {
	fn := p.Func(pkgBlock, "Range.Split")
	r.Touch(core.FuncName(fn))
	rng := p.Named(pkgBlock, "Range")
	startF, endF := core.FieldOf(rng, "StartBlock"), core.FieldOf(rng, "ExclusiveEndBlock")
	recv := fn.Params[0]
	isRecvField := func(v ssa.Value, f *types.Var) bool {
		g, base := core.LoadedField(core.SkipConv(v))
		return g == f && base == recv
	}
	// the chunk built inside the loop: a &Range{…} literal or a NewRange(start, end) call
	newRange := p.FuncObj(pkgBlock, "NewRange")
	var lit ssa.Value
	var loop *core.Loop
	var startV, endV ssa.Value
	isCons := func(in ssa.Instruction) bool {
		if a, ok := in.(*ssa.Alloc); ok && a.Heap {
			if pt, ok := a.Type().Underlying().(*types.Pointer); ok && types.Identical(pt.Elem(), rng) {
				return true
			}
		}
		if c, ok := in.(*ssa.Call); ok && core.CommonCallee(c.Common()) == newRange {
			return true
		}
		return false
	}
	consBounds := func(in ssa.Instruction) (ssa.Value, ssa.Value) {
		if c, ok := in.(*ssa.Call); ok {
			return c.Call.Args[0], c.Call.Args[1]
		}
		var sv, ev ssa.Value
		for _, ref := range *in.(*ssa.Alloc).Referrers() {
			fa, ok := ref.(*ssa.FieldAddr)
			if !ok {
				continue
			}
			for _, st := range core.StoresTo(fa) {
				switch core.FieldOfAddr(fa) {
				case startF:
					sv = st.Val
				case endF:
					ev = st.Val
				}
			}
		}
		return sv, ev
	}
	for _, l := range core.Loops(fn) {
		for b := range l.Body {
			for _, in := range b.Instrs {
				if isCons(in) {
					lit, loop = in.(ssa.Value), l
					startV, endV = consBounds(in)
				}
			}
		}
	}
	if lit == nil {
		core.Undecide("Range.Split: no chunk (literal or NewRange call) built inside a loop")
	}
	sp, ok1 := startV.(*ssa.Phi)
	ep, ok2 := endV.(*ssa.Phi)
	if !ok1 || !ok2 || sp.Block() != loop.Header || ep.Block() != loop.Header {
		core.Undecide("Range.Split: chunk bounds are not loop-carried variables")
	}
	// S1: first chunk starts at the range's start; S2: each next chunk starts where the previous ended
	okFirst, okContig := true, true
	nBack := 0
	for i, pred := range sp.Block().Preds {
		if loop.Body[pred] {
			nBack++
			if sp.Edges[i] != ep {
				okContig = false
			}
		} else if !isRecvField(sp.Edges[i], startF) {
			okFirst = false
		}
	}
	r.Check(okFirst, "C13.R5", "Split/first-start", "the first chunk starts at the range's start block", "initial chunk start is not r.StartBlock", p.Pos(sp.Pos()))
	r.Check(okContig && nBack > 0, "C13.R5", "Split/contiguous", "each following chunk starts exactly where the previous one ended (no gap, no overlap)", "the next chunk's start is not the previous chunk's end on some iteration", p.Pos(sp.Pos()))
	// S3: the next end is previous end + chunk size, clipped to the range's end: on every back edge the new end is
	// either r.ExclusiveEndBlock or (end + chunkSize) on a path where it was not found > r.ExclusiveEndBlock
	chunk := fn.Params[1]
	okClip := true
	// another correct shape tests the end at the loop head: the chunk of an iteration is only built over an edge on which
	// the loop-carried end was found <= the range's end
	headGuarded := false
	{
		var leEdges []core.Edge
		core.InstrsDeep(fn, func(in ssa.Instruction) {
			ifi, ok := in.(*ssa.If)
			if !ok || !loop.Body[ifi.Block()] {
				return
			}
			onT, onF, ok := core.CondRelation(ifi.Cond, func(x ssa.Value) bool { return core.SkipConv(x) == ssa.Value(ep) }, func(x ssa.Value) bool { return isRecvField(x, endF) })
			if !ok {
				return
			}
			if onT&core.OrdGT == 0 {
				leEdges = append(leEdges, core.Edge{From: ifi.Block(), Idx: 0})
			}
			if onF&core.OrdGT == 0 {
				leEdges = append(leEdges, core.Edge{From: ifi.Block(), Idx: 1})
			}
		})
		if len(leEdges) > 0 {
			q := core.PathQuery{Fn: fn, CutEdge: func(e core.Edge) bool { return containsEdge(leEdges, e) }}
			if _, reach := q.CanReach(loop.Header.Instrs[0], func(x ssa.Instruction) bool { return x == lit.(ssa.Instruction) }); !reach && loop.Header.Instrs[0] != lit.(ssa.Instruction) {
				headGuarded = true
			}
		}
	}
	for i, pred := range ep.Block().Preds {
		if !loop.Body[pred] {
			continue
		}
		v := core.SkipConv(ep.Edges[i])
		if isRecvField(v, endF) {
			continue
		}
		isStep := func(x ssa.Value) bool {
			bo, ok := core.SkipConv(x).(*ssa.BinOp)
			return ok && bo.Op == token.ADD && ((bo.X == ssa.Value(ep) && bo.Y == ssa.Value(chunk)) || (bo.Y == ssa.Value(ep) && bo.X == ssa.Value(chunk)))
		}
		if c, ok := v.(*ssa.Call); ok {
			// min(end+chunk, r.ExclusiveEndBlock)
			if b, ok := c.Call.Value.(*ssa.Builtin); ok && b.Name() == "min" && len(c.Call.Args) == 2 &&
				((isStep(c.Call.Args[0]) && isRecvField(c.Call.Args[1], endF)) || (isStep(c.Call.Args[1]) && isRecvField(c.Call.Args[0], endF))) {
				continue
			}
		}
		if !isStep(v) {
			okClip = false
			continue
		}
		// the unclipped value may only come back over an edge on which `v > r.End` is false
		guarded := false
		if ifi, ok := pred.Instrs[len(pred.Instrs)-1].(*ssa.If); ok {
			onT, onF, ok := core.CondRelation(ifi.Cond, func(x ssa.Value) bool { return core.SkipConv(x) == v }, func(x ssa.Value) bool { return isRecvField(x, endF) })
			if ok {
				rel := onF
				if pred.Succs[0] == ep.Block() {
					rel = onT
				}
				guarded = rel&core.OrdGT == 0
			}
		}
		if !guarded && !headGuarded {
			okClip = false
		}
	}
	r.Check(okClip, "C13.R5", "Split/clip", "a chunk ends at the previous end plus the chunk size, clipped to the range's exclusive end (the unclipped value is used only where it was tested not to exceed it)", "the next chunk end can exceed the range's end or is not end+chunkSize", p.Pos(ep.Pos()))
	// S3b: the FIRST chunk end (an aligned value computed before the loop) is not clipped by the loop; it lies inside the
	// range only because the chunking loop is entered for ranges strictly longer than one chunk (start+chunk < end, and
	// the aligned value is <= start+chunk) — or because it is clipped itself
	okFirstEnd := false
	for i, pred := range ep.Block().Preds {
		if loop.Body[pred] {
			continue
		}
		v0 := core.SkipConv(ep.Edges[i])
		if c, ok := v0.(*ssa.Call); ok {
			if b, ok := c.Call.Value.(*ssa.Builtin); ok && b.Name() == "min" {
				for _, a := range c.Call.Args {
					if isRecvField(a, endF) {
						okFirstEnd = true
					}
				}
			}
		}
	}
	if !okFirstEnd {
		isSize := func(v ssa.Value) bool {
			if c, ok := core.SkipConv(v).(*ssa.Call); ok {
				// r.Size() / r.Len(): a method of the range whose single return is end − start of its receiver
				if h := core.StaticFn(c.Common()); h != nil && h.Blocks != nil && len(h.Blocks) == 1 && len(c.Call.Args) == 1 && c.Call.Args[0] == ssa.Value(recv) {
					if rt, ok := h.Blocks[0].Instrs[len(h.Blocks[0].Instrs)-1].(*ssa.Return); ok && len(rt.Results) == 1 {
						if bo, ok := core.SkipConv(rt.Results[0]).(*ssa.BinOp); ok && bo.Op == token.SUB {
							fx, bx := core.LoadedField(bo.X)
							fy, by := core.LoadedField(bo.Y)
							return fx == endF && fy == startF && bx == ssa.Value(h.Params[0]) && by == ssa.Value(h.Params[0])
						}
					}
				}
				return false
			}
			bo, ok := core.SkipConv(v).(*ssa.BinOp)
			return ok && bo.Op == token.SUB && isRecvField(bo.X, endF) && isRecvField(bo.Y, startF)
		}
		var longEdges []core.Edge
		core.InstrsDeep(fn, func(in ssa.Instruction) {
			ifi, ok := in.(*ssa.If)
			if !ok {
				return
			}
			onT, onF, ok := core.CondRelation(ifi.Cond, isSize, func(v ssa.Value) bool { return v == ssa.Value(chunk) })
			if !ok {
				return
			}
			if onT == core.OrdGT {
				longEdges = append(longEdges, core.Edge{From: ifi.Block(), Idx: 0})
			}
			if onF == core.OrdGT {
				longEdges = append(longEdges, core.Edge{From: ifi.Block(), Idx: 1})
			}
		})
		if len(longEdges) > 0 {
			q := core.PathQuery{Fn: fn, CutEdge: func(e core.Edge) bool { return containsEdge(longEdges, e) }}
			_, reach := q.CanReach(nil, func(x ssa.Instruction) bool { return x == loop.Header.Instrs[0] })
			okFirstEnd = !reach
		}
	}
	r.Check(okFirstEnd, "C13.R5", "Split/first-end-inside", "the first chunk's (aligned, unclipped) end cannot exceed the range: the chunking loop is entered only for ranges strictly longer than one chunk, or the first end is clipped with min(_, end)", "the loop can be entered for a range of at most one chunk while its first chunk end is not clipped", p.Pos(fn.Pos()))
	// S4: the loop is left only once the chunk end reached the range's end, and what is returned includes the last chunk
	okExit := len(loop.EarlyExits)+len(loop.BoundExits) > 0
	for _, e := range append(append([]core.Edge{}, loop.EarlyExits...), loop.BoundExits...) {
		ifi, ok := e.From.Instrs[len(e.From.Instrs)-1].(*ssa.If)
		if !ok {
			okExit = false
			continue
		}
		onT, onF, ok := core.CondRelation(ifi.Cond, func(x ssa.Value) bool { return core.SkipConv(x) == ssa.Value(ep) }, func(x ssa.Value) bool { return isRecvField(x, endF) })
		rel := onF
		if e.Idx == 0 {
			rel = onT
		}
		if !ok || rel&core.OrdLT != 0 {
			okExit = false
		}
	}
	r.Check(okExit, "C13.R5", "Split/until-end", "chunks are produced until the chunk end reaches the range's exclusive end (the loop has no other exit)", "the loop can be left while the last chunk ends below the range's end", p.Pos(fn.Pos()))
	// S4b: the last chunk is in the result: either every way out of the loop comes after the chunk of that iteration was
	// built (the exit test follows the construction), or every path from the exit to a return builds a final chunk that ends
	// at the range's end
	okLast := true
	for _, e := range append(append([]core.Edge{}, loop.EarlyExits...), loop.BoundExits...) {
		exitIf := e.From.Instrs[len(e.From.Instrs)-1]
		qa := core.PathQuery{Fn: fn, CutInstr: isCons}
		_, beforeCons := qa.CanReach(loop.Header.Instrs[0], func(x ssa.Instruction) bool { return x == exitIf })
		if isCons(loop.Header.Instrs[0]) {
			beforeCons = false
		}
		if exitIf.Block() == loop.Header {
			// the test sits in the loop head: is a construction ahead of it in that block?
			beforeCons = true
			for _, in := range loop.Header.Instrs {
				if isCons(in) {
					beforeCons = false
				}
			}
		}
		if !beforeCons {
			continue // (a)
		}
		// (b)
		tailCons := func(x ssa.Instruction) bool {
			if !isCons(x) || loop.Body[x.Block()] {
				return false
			}
			_, ev := consBounds(x)
			return ev != nil && isRecvField(ev, endF)
		}
		tgt := e.From.Succs[e.Idx]
		qb := core.PathQuery{Fn: fn, CutInstr: tailCons}
		if _, reach := qb.CanReach(tgt.Instrs[0], func(x ssa.Instruction) bool { _, isRet := x.(*ssa.Return); return isRet }); reach && !tailCons(tgt.Instrs[0]) {
			okLast = false
		}
	}
	r.Check(okLast, "C13.R5", "Split/last-chunk", "the chunk that reaches the range's end is part of the result: the loop is only left after the chunk of that iteration was built, or a final chunk ending at the range's end is built on every path after the loop", "the loop can be left before the current chunk is built and a path to the return builds no final chunk", p.Pos(fn.Pos()))
	okRet := true
	nRet := 0
	core.Instrs(fn, func(in ssa.Instruction) {
		rt, ok := in.(*ssa.Return)
		if !ok || !loop.Body[rt.Block()] && !reachFromBlock(fn, loop.Header, in) {
			return
		}
		nRet++
		// the returned slice is the one the current chunk was appended to
		found := false
		seen := map[ssa.Value]bool{}
		var walk func(v ssa.Value)
		walk = func(v ssa.Value) {
			if seen[v] {
				return
			}
			seen[v] = true
			switch x := v.(type) {
			case *ssa.Call:
				if b, ok := x.Call.Value.(*ssa.Builtin); ok && b.Name() == "append" {
					if core.SliceReaches(x.Call.Args[1], lit, 2) {
						found = true
					}
				}
			case *ssa.Phi:
				for _, e := range x.Edges {
					walk(e)
				}
			}
		}
		walk(core.ResolveCell(rt.Results[0]))
		if !found {
			okRet = false
		}
	})
	r.Check(okRet && nRet > 0, "C13.R5", "Split/returns-all", "the returned list includes the chunk built in the last iteration", "a return inside the loop drops the current chunk", p.Pos(fn.Pos()))
	// S5: a range not larger than the chunk size is returned as is
	okSmall := false
	core.Instrs(fn, func(in ssa.Instruction) {
		rt, ok := in.(*ssa.Return)
		if !ok || reachFromBlock(fn, loop.Header, in) {
			return
		}
		if c, ok := core.ResolveCell(rt.Results[0]).(*ssa.Call); ok {
			if b, ok := c.Call.Value.(*ssa.Builtin); ok && b.Name() == "append" && core.SliceReaches(c.Call.Args[1], recv, 2) {
				okSmall = true
			}
		}
	})
	r.Check(okSmall, "C13.R5", "Split/small", "a range that fits in one chunk is returned unchanged", "the early return does not return the range itself", p.Pos(fn.Pos()))
}

// checkRangesMerged (C13.R6).
func checkRangesMerged(p *core.Prog, r *core.Report) {
	checkRangesMergedFn(p, r, "Merged")
	checkRangesMergedFn(p, r, "MergedBuckets")
}

func checkRangesMergedFn(p *core.Prog, r *core.Report, name string) {
	fn := p.Func(pkgBlock, "Ranges."+name)
	r.Touch(core.FuncName(fn))
	rng := p.Named(pkgBlock, "Range")
	startF, endF := core.FieldOf(rng, "StartBlock"), core.FieldOf(rng, "ExclusiveEndBlock")
	type adj struct {
		ifi             *ssa.If
		endBase, stBase ssa.Value
		eq              core.Edge
	}
	var adjs []adj
	core.InstrsDeep(fn, func(in ssa.Instruction) {
		ifi, ok := in.(*ssa.If)
		if !ok {
			return
		}
		c, neg := core.StripNot(ifi.Cond)
		// the comparison may be the result of a predicate of the package: a single-block function returning
		// `a.End == b.Start && …` of two of its range parameters — read with the call's arguments
		if hc, isCall := c.(*ssa.Call); isCall {
			h := core.StaticFn(hc.Common())
			if h == nil || h.Blocks == nil || h.Pkg != fn.Pkg {
				return
			}
			var found *adj
			core.Instrs(h, func(x ssa.Instruction) {
				hb, ok := x.(*ssa.BinOp)
				if !ok || hb.Op != token.EQL {
					return
				}
				fx, bx := core.LoadedField(hb.X)
				fy, by := core.LoadedField(hb.Y)
				if fx == startF && fy == endF {
					fx, bx, fy, by = fy, by, fx, bx
				}
				if fx != endF || fy != startF {
					return
				}
				argOf := func(v ssa.Value) ssa.Value {
					for i, hp := range h.Params {
						if ssa.Value(hp) == v && i < len(hc.Call.Args) {
							return hc.Call.Args[i]
						}
					}
					return nil
				}
				eb, sb := argOf(bx), argOf(by)
				if eb != nil && sb != nil {
					found = &adj{endBase: eb, stBase: sb}
				}
			})
			// the predicate must imply the adjacency: every `return true`-able path goes through the comparison being true.
			// For the single-expression form `A && B` the result is a phi whose only non-false leaf lies behind A.
			if found == nil || !predicateImplies(h, startF, endF) {
				return
			}
			idx := 0
			if neg {
				idx = 1
			}
			found.ifi, found.eq = ifi, core.Edge{From: ifi.Block(), Idx: idx}
			adjs = append(adjs, *found)
			return
		}
		bo, ok := c.(*ssa.BinOp)
		if !ok || (bo.Op != token.EQL && bo.Op != token.NEQ) {
			return
		}
		fx, bx := core.LoadedField(bo.X)
		fy, by := core.LoadedField(bo.Y)
		var a adj
		switch {
		case fx == endF && fy == startF:
			a.endBase, a.stBase = bx, by
		case fx == startF && fy == endF:
			a.endBase, a.stBase = by, bx
		default:
			return
		}
		idx := 0
		if (bo.Op == token.NEQ) != neg {
			idx = 1
		}
		a.ifi, a.eq = ifi, core.Edge{From: ifi.Block(), Idx: idx}
		adjs = append(adjs, a)
	})
	if len(adjs) == 0 {
		// ranges joined on an ordering test (end >= start, start <= end+1, …) instead of the equality: that also joins
		// overlapping ranges or ranges across a hole
		base := func(v ssa.Value) *types.Var {
			v = core.SkipConv(v)
			if bo, ok := v.(*ssa.BinOp); ok && (bo.Op == token.ADD || bo.Op == token.SUB) {
				if _, isK := bo.Y.(*ssa.Const); isK {
					v = core.SkipConv(bo.X)
				}
			}
			f, _ := core.LoadedField(v)
			return f
		}
		var ordered []string
		core.InstrsDeep(fn, func(in ssa.Instruction) {
			bo, ok := in.(*ssa.BinOp)
			if !ok {
				return
			}
			switch bo.Op {
			case token.LSS, token.LEQ, token.GTR, token.GEQ:
			default:
				return
			}
			fx, fy := base(bo.X), base(bo.Y)
			if (fx == endF && fy == startF) || (fx == startF && fy == endF) {
				ordered = append(ordered, p.Pos(bo.Pos()))
			}
		})
		if len(ordered) > 0 {
			r.Check(false, "C13.R6", name+"/only-adjacent#1", "two ranges are merged only when the first ends exactly where the second starts", "the end of one range and the start of the next are compared for order only (no equality test): "+strings.Join(ordered, ", "), p.Pos(fn.Pos()))
			return
		}
		core.Undecide("Ranges." + name + ": no adjacency comparison (end of one range vs start of the next)")
	}
	news := core.FindInstrs(fn, core.IsCallTo(p.FuncObj(pkgBlock, "NewRange")))
	r.Check(len(news) > 0, "C13.R6", name+"/builds", "merged ranges are built with NewRange", "no NewRange call", p.Pos(fn.Pos()))
	eqEdges := []core.Edge{}
	for _, a := range adjs {
		eqEdges = append(eqEdges, a.eq)
	}
	for i, c := range news {
		args := c.(ssa.CallInstruction).Common().Args
		f0, b0 := core.LoadedField(args[0])
		f1, b1 := core.LoadedField(args[1])
		// the merged range starts at the start of a range whose end was found adjacent to the next one's start, and
		// ends at the end of the last range of the adjacency chain
		okRoles := f0 == startF && f1 == endF
		okChain := false
		for _, a := range adjs {
			if a.endBase == b0 {
				okChain = true
			}
		}
		// b1 is the chain's last element: a phi whose incoming values are start-side operands of the adjacency tests
		lastOK := false
		if ph, ok := b1.(*ssa.Phi); ok {
			lastOK = true
			for _, e := range ph.Edges {
				m := false
				for _, a := range adjs {
					if a.stBase == e {
						m = true
					}
				}
				if !m {
					lastOK = false
				}
			}
			// and the chain is extended from that same element
			ext := false
			for _, a := range adjs {
				if a.endBase == ssa.Value(ph) {
					ext = true
				}
			}
			lastOK = lastOK && ext
		} else {
			for _, a := range adjs {
				if a.stBase == b1 {
					lastOK = true
				}
			}
		}
		{
			// the chain's last element may also be re-read from the input by index (`nextRange = r[i]` after `i++`)
			// instead of being carried from the comparison: it must then be the element that was compared — the same
			// slice at a structurally equal index (`r[i+1]` tested, `i++`, `r[i]` read) — and be read only behind that
			// comparison's equality edge
			if !lastOK {
				compared := func(e ssa.Value) bool {
					for _, a := range adjs {
						if a.stBase == e {
							return true
						}
						if sameElement(e, a.stBase) {
							if ei, ok := e.(ssa.Instruction); ok {
								if _, only := core.OnlyViaEdge(fn, a.eq, func(x ssa.Instruction) bool { return x == ei }); only {
									return true
								}
							}
						}
					}
					return false
				}
				if ph, ok := b1.(*ssa.Phi); ok {
					lastOK = true
					for _, e := range ph.Edges {
						if !compared(e) {
							lastOK = false
						}
					}
				} else {
					lastOK = compared(b1)
				}
			}
		}
		r.Check(okRoles && okChain && lastOK, "C13.R6", fmt.Sprintf("%s/bounds#%d", name, i+1), "a merged range runs from the start of the first range of an adjacency chain to the exclusive end of its last range, each link having been compared (end == next start)", "NewRange arguments are not (first.StartBlock, last.ExclusiveEndBlock) of a compared chain", p.Pos(c.Pos()))
		q := core.PathQuery{Fn: fn, CutEdge: func(e core.Edge) bool { return containsEdge(eqEdges, e) }}
		_, reach := q.CanReach(nil, func(x ssa.Instruction) bool { return x == c })
		r.Check(!reach, "C13.R6", fmt.Sprintf("%s/only-adjacent#%d", name, i+1), "two ranges are merged only when the first ends exactly where the second starts", "a merged range can be built without any adjacency test having succeeded", p.Pos(c.Pos()))
	}
	// the chain is extended only over an adjacency that held: the back edge assigning the chain's last element is cut by the equality edges
	for _, a := range adjs {
		ph, ok := a.endBase.(*ssa.Phi)
		if !ok {
			continue
		}
		for i, pred := range ph.Block().Preds {
			if ph.Edges[i] != a.stBase && !sameElement(ph.Edges[i], a.stBase) {
				continue
			}
			_, only := core.OnlyViaEdge(fn, a.eq, func(x ssa.Instruction) bool { return x == pred.Instrs[0] })
			r.Check(only, "C13.R6", name+"/extend-only-adjacent", "the chain is extended to a further range only when that range starts exactly at the chain's end", "the chain's last element can advance without the adjacency test having succeeded", p.Pos(a.ifi.Pos()))
		}
	}
	// index and chain advance together: inside the squash loop the input index moves past an element exactly when that
	// element becomes the chain's last — on every way round the loop and on every way out of it (an index bumped on the
	// way out of the loop, without the element having joined the chain, loses that element)
	for _, a := range adjs {
		nph, ok := a.endBase.(*ssa.Phi)
		if !ok {
			continue
		}
		var loop *core.Loop
		for _, l := range core.Loops(fn) {
			if l.Header == nph.Block() {
				loop = l
			}
		}
		if loop == nil {
			continue
		}
		for _, hin := range loop.Header.Instrs {
			iph, ok := hin.(*ssa.Phi)
			if !ok || iph == nph {
				continue
			}
			if bt, ok := iph.Type().Underlying().(*types.Basic); !ok || bt.Info()&types.IsInteger == 0 {
				continue
			}
			isInc := func(v ssa.Value) bool {
				bo, ok := v.(*ssa.BinOp)
				return ok && bo.Op == token.ADD && bo.X == ssa.Value(iph) && isConstInt(bo.Y, 1)
			}
			hasInc := false
			for b := range loop.Body {
				for _, in := range b.Instrs {
					if v, ok := in.(ssa.Value); ok && isInc(v) {
						hasInc = true
					}
				}
			}
			if !hasInc {
				continue
			}
			flowing := func(from, to *ssa.BasicBlock, carried *ssa.Phi, other func(ssa.Value) bool) ssa.Value {
				// the value of the carried variable on the edge from→to: the operand of a phi of `to` that merges the
				// carried value with its updates, else the carried value itself
				for _, tin := range to.Instrs {
					tp, ok := tin.(*ssa.Phi)
					if !ok {
						break
					}
					related := false
					for _, e := range tp.Edges {
						if e == ssa.Value(carried) || other(e) {
							related = true
						}
					}
					if !related {
						continue
					}
					for k, pred := range to.Preds {
						if pred == from {
							return tp.Edges[k]
						}
					}
				}
				return carried
			}
			okPairs := true
			bad := ""
			check := func(from, to *ssa.BasicBlock, iv, nv ssa.Value) {
				if (iv == ssa.Value(iph)) != (nv == ssa.Value(nph)) {
					okPairs = false
					bad = p.Pos(core.InstrPos(from.Instrs[len(from.Instrs)-1]))
				}
			}
			for k, pred := range loop.Header.Preds {
				if loop.Body[pred] {
					check(pred, loop.Header, iph.Edges[k], nph.Edges[k])
				}
			}
			for b := range loop.Body {
				for _, sb := range b.Succs {
					if loop.Body[sb] {
						continue
					}
					iv := flowing(b, sb, iph, isInc)
					nv := flowing(b, sb, nph, func(v ssa.Value) bool {
						for _, e := range nph.Edges {
							if e == v && v != ssa.Value(nph) {
								return true
							}
						}
						return false
					})
					// only when the index is live after the loop (it is the outer loop's index)
					if iv != ssa.Value(iph) || nv != ssa.Value(nph) {
						check(b, sb, iv, nv)
					}
				}
			}
			r.Check(okPairs, "C13.R6", name+"/index-follows-chain/"+iph.Comment, "in the squash loop the input index advances past a range exactly when that range joins the chain, on every back edge and on every exit", "the index and the chain's last element can part ways at "+bad, p.Pos(iph.Pos()))
		}
	}
	// unmerged elements are kept as they are: everything appended to the result is an element of the input or a NewRange result
	okElems, n := true, 0
	core.Instrs(fn, func(in ssa.Instruction) {
		st, ok := in.(*ssa.Store)
		if !ok {
			return
		}
		ia, ok := st.Addr.(*ssa.IndexAddr)
		if !ok {
			return
		}
		if _, ok := ia.X.(*ssa.Alloc); !ok {
			return
		}
		n++
		v := st.Val
		if c, ok := v.(*ssa.Call); ok && core.CalleeOf(c) == p.FuncObj(pkgBlock, "NewRange") {
			return
		}
		if u, ok := v.(*ssa.UnOp); ok && u.Op == token.MUL {
			if ia2, ok := u.X.(*ssa.IndexAddr); ok && ia2.X == ssa.Value(fn.Params[0]) {
				return
			}
		}
		okElems = false
	})
	r.Check(okElems && n >= 2, "C13.R6", name+"/elements", "every range of the result is either an input range kept as is or a merged range", "something else is appended to the result", p.Pos(fn.Pos()))
}

// predicateImplies: the boolean function h can only answer true when its comparison `x.End == y.Start` held: with the
// true edge of that comparison removed, no return of a value that can be true is reachable (for `A && B` compiled to a
// phi, the non-constant leaf of the phi lies behind A's true edge).
func predicateImplies(h *ssa.Function, startF, endF *types.Var) bool {
	var eqEdges []core.Edge
	var eqVal ssa.Value
	core.Instrs(h, func(in ssa.Instruction) {
		bo, ok := in.(*ssa.BinOp)
		if !ok || bo.Op != token.EQL {
			return
		}
		fx, _ := core.LoadedField(bo.X)
		fy, _ := core.LoadedField(bo.Y)
		if !((fx == endF && fy == startF) || (fx == startF && fy == endF)) {
			return
		}
		eqVal = bo
		for _, ref := range *bo.Referrers() {
			if ifi, ok := ref.(*ssa.If); ok {
				eqEdges = append(eqEdges, core.Edge{From: ifi.Block(), Idx: 0})
			}
		}
	})
	if eqVal == nil {
		return false
	}
	ok := true
	core.Instrs(h, func(in ssa.Instruction) {
		rt, isRet := in.(*ssa.Return)
		if !isRet || len(rt.Results) != 1 {
			return
		}
		var mayBeTrue func(v ssa.Value, from *ssa.BasicBlock) bool
		mayBeTrue = func(v ssa.Value, from *ssa.BasicBlock) bool {
			switch x := v.(type) {
			case *ssa.Const:
				return x.Value != nil && x.Value.ExactString() == "true"
			case *ssa.Phi:
				for i, e := range x.Edges {
					pred := x.Block().Preds[i]
					if k, isK := e.(*ssa.Const); isK {
						if k.Value != nil && k.Value.ExactString() == "true" {
							return true
						}
						continue
					}
					if e == eqVal {
						continue // true only if the comparison held
					}
					// another leaf: fine if its predecessor is only reachable over the comparison's true edge
					q := core.PathQuery{Fn: h, CutEdge: func(ed core.Edge) bool { return containsEdge(eqEdges, ed) }}
					if _, reach := q.CanReach(nil, func(y ssa.Instruction) bool { return y == pred.Instrs[0] }); reach {
						return true
					}
				}
				return false
			}
			return v != eqVal
		}
		if mayBeTrue(rt.Results[0], rt.Block()) {
			ok = false
		}
	})
	return ok
}

// sameElement: two loads of the same slice at structurally equal indexes (go/ssa does no CSE: `r[i+1]` read in a
// condition and `r[i]` read after `i++` are two loads whose index expressions are both `i0 + 1`).
func sameElement(a, b ssa.Value) bool {
	ua, ok1 := a.(*ssa.UnOp)
	ub, ok2 := b.(*ssa.UnOp)
	if !ok1 || !ok2 || ua.Op != token.MUL || ub.Op != token.MUL {
		return false
	}
	ia, ok1 := ua.X.(*ssa.IndexAddr)
	ib, ok2 := ub.X.(*ssa.IndexAddr)
	if !ok1 || !ok2 || ia.X != ib.X {
		return false
	}
	return sameExpr(ia.Index, ib.Index, 3)
}
