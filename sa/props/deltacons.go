package props

import (
	"fmt"
	"go/types"
	"sort"
	"strings"

	"golang.org/x/tools/go/ssa"

	"verif/sa/core"
)

// checkDeltaConstruction (C08.R4 / C11.R4): every StoreDelta built by the
// store's write path describes what is applied.
func checkDeltaConstruction(p *core.Prog, r *core.Report, rule string) {
	deltaT := p.Named(pkgPBV1, "StoreDelta")
	opT := p.Named(pkgPBV1, "StoreDelta_Operation")
	opName := map[string]string{}
	for _, c := range core.EnumConsts(opT) {
		opName[c.Val().ExactString()] = strings.TrimPrefix(c.Name(), "StoreDelta_")
	}
	getLast := p.FuncObj(pkgStore, "baseStore.getLast")
	applyDelta := p.FuncObj(pkgStore, "baseStore.ApplyDelta")
	deltasF := p.Field(pkgStore, "baseStore", "deltas")
	kvF := p.Field(pkgStore, "baseStore", "kv")

	// who builds StoreDelta values in storage/store
	builders := map[string]bool{}
	total := 0
	for _, fn := range p.RepoFunctions() {
		if fn.Pkg == nil || fn.Pkg.Pkg.Path() != core.ModPath+"/"+pkgStore {
			continue
		}
		allocs := core.AllocsOf(fn, deltaT)
		if len(allocs) == 0 {
			continue
		}
		fname := core.FuncName(fn)
		builders[fname] = true
		r.Touch(fname)
		// parameters by role
		var ordP, keyP, valP *ssa.Parameter
		for _, prm := range fn.Params[1:] {
			switch t := prm.Type().Underlying().(type) {
			case *types.Basic:
				if t.Kind() == types.Uint64 && ordP == nil {
					ordP = prm
				} else if t.Kind() == types.String && keyP == nil {
					keyP = prm
				}
			case *types.Slice:
				if valP == nil {
					valP = prm
				}
			}
		}
		// the found flag(s): Extract #1 of getLast(key)
		type foundInfo struct {
			old   ssa.Value // Extract #0
			found ssa.Value
			call  *ssa.Call
		}
		var founds []foundInfo
		core.Instrs(fn, func(in ssa.Instruction) {
			c, ok := in.(*ssa.Call)
			if !ok || core.CommonCallee(c.Common()) != getLast {
				return
			}
			fi := foundInfo{call: c}
			for _, ref := range *c.Referrers() {
				if ex, ok := ref.(*ssa.Extract); ok {
					if ex.Index == 0 {
						fi.old = ex
					} else {
						fi.found = ex
					}
				}
			}
			founds = append(founds, fi)
		})
		edgeOf := func(found ssa.Value, polarity bool) []core.Edge {
			var es []core.Edge
			core.InstrsDeep(fn, func(in ssa.Instruction) {
				ifi, ok := in.(*ssa.If)
				if !ok {
					return
				}
				c, neg := core.StripNot(ifi.Cond)
				if c != found {
					return
				}
				idx := 0
				if polarity == neg {
					idx = 1
				}
				es = append(es, core.Edge{From: ifi.Block(), Idx: idx})
			})
			return es
		}
		for i, al := range allocs {
			total++
			fields := core.LiteralFields(al)
			one := func(name string) ssa.Value {
				vs := fields[name]
				if len(vs) != 1 {
					return nil
				}
				return vs[0]
			}
			op := "UNSET"
			if c, ok := one("Operation").(*ssa.Const); ok && c.Value != nil {
				op = opName[c.Value.ExactString()]
			}
			construct := fmt.Sprintf("%s/delta#%d(%s)", fname, i+1, op)
			pos := p.Pos(al.Pos())
			var bad []string
			// Ordinal
			if ordP == nil || core.SkipConv(valueOrNil(one("Ordinal"))) != ssa.Value(ordP) {
				bad = append(bad, "Ordinal is not the ordinal parameter")
			}
			isRangeOf := func(v ssa.Value, idx int) bool {
				ex, ok := v.(*ssa.Extract)
				if !ok || ex.Index != idx {
					return false
				}
				nx, ok := ex.Tuple.(*ssa.Next)
				if !ok {
					return false
				}
				rg, ok := nx.Iter.(*ssa.Range)
				if !ok {
					return false
				}
				f, _ := core.LoadedField(rg.X)
				return f == kvF
			}
			// the merged form: one literal whose Operation (and OldValue) are chosen by the found flag —
			//   op, old := CREATE, nil; if val, found := getLast(key); found { op, old = UPDATE, val }
			if ph, isPhi := one("Operation").(*ssa.Phi); isPhi && op == "UNSET" {
				if keyP == nil || one("Key") != ssa.Value(keyP) {
					bad = append(bad, "Key is not the key parameter")
				}
				nv := one("NewValue")
				if !(valP != nil && nv != nil && (nv == ssa.Value(valP) || copiedFrom(fn, nv, valP))) {
					bad = append(bad, "NewValue is not (a copy of) the value parameter")
				}
				oldPhi, _ := one("OldValue").(*ssa.Phi)
				var ops []string
				for ei, e := range ph.Edges {
					k, isK := e.(*ssa.Const)
					if !isK || k.Value == nil {
						bad = append(bad, "Operation chosen among non-constant values")
						continue
					}
					eop := opName[k.Value.ExactString()]
					ops = append(ops, eop)
					pred := ph.Block().Preds[ei]
					var oldV ssa.Value
					if oldPhi != nil && oldPhi.Block() == ph.Block() {
						oldV = oldPhi.Edges[ei]
					}
					okEdge := false
					for _, fi := range founds {
						if fi.found == nil || len(fi.call.Call.Args) < 2 || fi.call.Call.Args[1] != ssa.Value(keyP) {
							continue
						}
						want := eop == "UPDATE"
						es := edgeOf(fi.found, want) // edges on which found == want
						// the phi edge pred→block is taken only with found == want: either pred is only reachable over such an edge, or
						// the edge itself is one of them
						direct := false
						for _, x := range es {
							if x.From == pred && x.From.Succs[x.Idx] == ph.Block() {
								direct = true
							}
						}
						q := core.PathQuery{Fn: fn, CutEdge: func(x core.Edge) bool { return containsEdge(es, x) }}
						_, reach := q.CanReach(nil, func(in ssa.Instruction) bool { return in == pred.Instrs[0] })
						if len(es) > 0 && (direct || !reach) {
							okEdge = true
							if want && oldV != fi.old {
								bad = append(bad, "OldValue of the UPDATE alternative is not the value returned by getLast(key)")
							}
							if !want {
								if c, ok := oldV.(*ssa.Const); oldV != nil && (!ok || !c.IsNil()) {
									bad = append(bad, "OldValue of the CREATE alternative is not nil")
								}
							}
						}
					}
					if !okEdge {
						bad = append(bad, eop+" alternative is not tied to the found flag of getLast(key)")
					}
				}
				sort.Strings(ops)
				if strings.Join(ops, ",") != "CREATE,UPDATE" {
					bad = append(bad, fmt.Sprintf("operation alternatives are %v", ops))
				}
				total++ // the literal stands for two deltas
				op = "CREATE|UPDATE"
				construct = fmt.Sprintf("%s/delta#%d(%s)", fname, i+1, op)
			}
			switch op {
			case "CREATE|UPDATE":
			case "CREATE", "UPDATE":
				if keyP == nil || one("Key") != ssa.Value(keyP) {
					bad = append(bad, "Key is not the key parameter")
				}
				// NewValue: the value parameter itself or a fresh slice filled by copy(dst, value)
				nv := one("NewValue")
				if !(valP != nil && nv != nil && (nv == ssa.Value(valP) || copiedFrom(fn, nv, valP))) {
					bad = append(bad, "NewValue is not (a copy of) the value parameter")
				}
				// found-polarity
				okPol := false
				for _, fi := range founds {
					if fi.found == nil || len(fi.call.Call.Args) < 2 || fi.call.Call.Args[1] != ssa.Value(keyP) {
						continue
					}
					es := edgeOf(fi.found, op == "UPDATE")
					if len(es) == 0 {
						continue
					}
					q := core.PathQuery{Fn: fn, CutEdge: func(e core.Edge) bool { return containsEdge(es, e) }}
					if _, reach := q.CanReach(nil, func(in ssa.Instruction) bool { return in == ssa.Instruction(al) }); !reach {
						okPol = true
						if op == "UPDATE" && one("OldValue") != fi.old {
							bad = append(bad, "OldValue of an UPDATE delta is not the value returned by getLast(key)")
						}
					}
				}
				if !okPol {
					if op == "UPDATE" {
						bad = append(bad, "UPDATE delta is not confined to the branch where getLast(key) found the key")
					} else {
						bad = append(bad, "CREATE delta is not confined to the branch where getLast(key) did not find the key")
					}
				}
				if op == "CREATE" {
					if ov := one("OldValue"); ov != nil {
						if c, ok := ov.(*ssa.Const); !ok || !c.IsNil() {
							bad = append(bad, "OldValue of a CREATE delta is not nil")
						}
					}
				}
			case "DELETE":
				if !isRangeOf(valueOrNil(one("Key")), 1) {
					bad = append(bad, "Key of a DELETE delta is not the key ranged from kv")
				}
				if !isRangeOf(valueOrNil(one("OldValue")), 2) {
					bad = append(bad, "OldValue of a DELETE delta is not the value ranged from kv")
				}
				if nv := one("NewValue"); nv != nil {
					if c, ok := nv.(*ssa.Const); !ok || !c.IsNil() {
						bad = append(bad, "NewValue of a DELETE delta is not nil")
					}
				}
				if !strings.HasSuffix(fname, ".deletePrefix") {
					bad = append(bad, "DELETE delta built outside deletePrefix")
				}
			default:
				bad = append(bad, "delta without a constant operation kind")
			}
			r.Check(len(bad) == 0, rule, construct, "the delta describes what is applied: ordinal, key, old value found just before, new value, kind matching presence", strings.Join(bad, "; "), pos)

			// pairing: applied <=> appended to b.deltas
			applied := core.FindInstrs(fn, func(in ssa.Instruction) bool {
				c, ok := in.(ssa.CallInstruction)
				if !ok || core.CommonCallee(c.Common()) != applyDelta {
					return false
				}
				return len(c.Common().Args) >= 2 && core.SliceReaches(c.Common().Args[1], al, 1)
			})
			recorded := false
			var recStore ssa.Instruction
			for _, w := range core.FieldWritesIn(fn, deltasF) {
				if w.Kind == core.WAssign && core.SliceReaches(w.Value, al, 1) {
					recorded = true
					recStore = w.Instr
				}
			}
			okPair := len(applied) > 0 && recorded
			why := ""
			// both steps may be delegated to a helper of the package that is handed the delta: it applies its parameter and then
			// appends it to the delta list on every path
			if len(applied) == 0 && !recorded {
				delegated := false
				core.Instrs(fn, func(in ssa.Instruction) {
					ci, ok := in.(ssa.CallInstruction)
					if !ok {
						return
					}
					h := core.StaticFn(ci.Common())
					if h == nil || h.Blocks == nil || h.Pkg != fn.Pkg || h.Parent() != nil {
						return
					}
					for ai, a := range ci.Common().Args {
						if !(a == ssa.Value(al) || core.SliceReaches(a, al, 1)) || ai >= len(h.Params) {
							continue
						}
						prm := h.Params[ai]
						happ := core.FindInstrsIn(h, func(x ssa.Instruction) bool {
							c, ok := x.(ssa.CallInstruction)
							return ok && core.CommonCallee(c.Common()) == applyDelta && len(c.Common().Args) >= 2 && c.Common().Args[1] == ssa.Value(prm)
						})
						var hrec ssa.Instruction
						for _, w := range core.FieldWritesIn(h, deltasF) {
							if w.Kind == core.WAssign && core.SliceReaches(w.Value, prm, 1) {
								hrec = w.Instr
							}
						}
						if len(happ) == 0 || hrec == nil {
							continue
						}
						all := true
						for _, a2 := range happ {
							if _, ok := core.MustReachAfter(h, a2, func(x ssa.Instruction) bool { return x == hrec }, nil); !ok {
								all = false
							}
						}
						if all {
							delegated = true
						}
					}
				})
				if delegated {
					r.Check(true, rule, construct+"/recorded", "a delta is applied to kv if and only if it is appended to the block's delta list", "", pos)
					continue
				}
			}
			if len(applied) == 0 {
				why = "the delta is never passed to ApplyDelta"
			} else if !recorded {
				why = "the delta is applied but never appended to baseStore.deltas"
			} else {
				for _, a := range applied {
					if hit, ok := core.MustReachAfter(fn, a, func(in ssa.Instruction) bool { return in == recStore }, nil); !ok {
						okPair = false
						why = "a return is reachable after ApplyDelta without recording the delta: " + p.Pos(core.InstrPos(hit))
					}
				}
			}
			r.Check(okPair, rule, construct+"/recorded", "a delta is applied to kv if and only if it is appended to the block's delta list", why, pos)
		}
	}
	if total < 4 {
		core.Undecide("only %d StoreDelta literals found in storage/store (expected ≥ 4)", total)
	}
	// writers of deltas
	checkWriters(p, r, rule, "baseStore.deltas", deltasF, map[string]string{
		"(*storage/store.baseStore).set":            "appends the delta it applied",
		"(*storage/store.baseStore).setIfNotExists": "appends the delta it applied",
		"(*storage/store.baseStore).deletePrefix":   "appends the sorted DELETE deltas it applied",
		"(*storage/store.baseStore).Reset":          "clears at block end",
		"(*storage/store.baseStore).SetDeltas":      "replaces and applies a given delta list",
	})
	// Reset assigns nil
	reset := p.Func(pkgStore, "baseStore.Reset")
	for _, w := range core.FieldWritesIn(reset, deltasF) {
		c, ok := w.Value.(*ssa.Const)
		r.Check(ok && c.IsNil(), rule, "Reset/deltas=nil", "Reset clears the block's deltas", "assigned value is not nil", p.Pos(w.Instr.Pos()))
	}
}

func valueOrNil(v ssa.Value) ssa.Value { return v }

// copiedFrom: dst is a fresh slice (make) and a builtin copy(dst', src) with
// dst' a (slice of) dst and src deriving from the parameter exists and dominates nothing else (presence only).
func copiedFrom(fn *ssa.Function, dst ssa.Value, src *ssa.Parameter) bool {
	// a cloning helper of the package handed the parameter: it returns a slice it makes and fills from its own parameter
	if hc, ok := dst.(*ssa.Call); ok {
		h := core.StaticFn(hc.Common())
		if h == nil || h.Blocks == nil || h.Pkg != fn.Pkg || h == fn {
			return false
		}
		for i, a := range hc.Call.Args {
			if a != ssa.Value(src) || i >= len(h.Params) {
				continue
			}
			all, n := true, 0
			core.Instrs(h, func(in ssa.Instruction) {
				if rt, ok := in.(*ssa.Return); ok && len(rt.Results) == 1 {
					n++
					rv := core.ReturnValues(rt)[0]
					if k, isK := rv.(*ssa.Const); isK && k.IsNil() {
						return // nil in, nil out
					}
					if !copiedFrom(h, rv, h.Params[i]) {
						all = false
					}
				}
			})
			return all && n > 0
		}
		return false
	}
	if _, ok := dst.(*ssa.MakeSlice); !ok {
		return false
	}
	ms := dst.(*ssa.MakeSlice)
	// len(dst) == len(src)
	lenOK := false
	if c, ok := core.SkipConv(ms.Len).(*ssa.Call); ok {
		if b, ok := c.Call.Value.(*ssa.Builtin); ok && b.Name() == "len" && c.Call.Args[0] == ssa.Value(src) {
			lenOK = true
		}
	}
	found := false
	core.Instrs(fn, func(in ssa.Instruction) {
		cc, ok := core.IsBuiltinCall(in, "copy")
		if !ok {
			return
		}
		d := cc.Args[0]
		if sl, ok := d.(*ssa.Slice); ok && sl.Low == nil {
			d = sl.X
		}
		if d == dst && cc.Args[1] == ssa.Value(src) {
			found = true
		}
	})
	return found && lenOK
}
