package props

import (
	"fmt"
	"go/ast"
	"go/token"
	"go/types"
	"sort"
	"strings"

	"golang.org/x/tools/go/ssa"

	"verif/sa/core"
)

func init() {
	register("C02", &Def{
		Title:     "Squashing per-segment partial stores equals sequential store execution",
		Run:       runC02,
		Technique: "static analysis: switch-table exhaustiveness against generated enums, recorder/decoder codec type agreement across the []byte boundary, selector classification (min/max/sum) from comparison orderings, must-pass-through ordering in Merge, typestate preconditions, override completeness, save/load field symmetry",
		Explanation: "(R1) every Operation_Type enumerator has exactly one case in Flush, its recorder encodes the value with an encoder whose input type equals the decoder's output type in that case and the Go type the enumerator names, and the case calls a handler of the enumerator's class; " +
			"(R2) every write intrinsic of the WASM host interface validates the update policy (and value types) matching the class of the operation it records, and Merge has a branch for every (policy, value type) the validators admit; " +
			"(R3) in Merge the partial's deleted prefixes are replayed and flushed before any key of the partial is merged, and Reset is reached on every success path; " +
			"(R4) first-wins: under SET_IF_NOT_EXISTS the only writer is setNewKV under a failed lookup; concatenation under APPEND puts the existing value first (both in Merge and in the sequential append); " +
			"(R5) every baseStore method that can introduce a DELETE_PREFIX operation is overridden by PartialKV so that the prefix is also recorded in DeletedPrefixes; " +
			"(R6) Save writes exactly the StoreData fields Load restores; " +
			"(R7) the merge combiner and the sequential combiner of each MIN/MAX/ADD (policy, value type) classify as the same selection (min, max or sum) using only the orderings of their two operands. (R8) in every loop of Merge over the partial's keys an iteration ends with that key written into the full store or with an error; a key is left untouched only when a lookup found it already present (first-wins), so squashing never loses a key that sequential execution holds. Also (R1) every numeric parse of a store value asks for 64 bits.",
		NotCovered:  "Arithmetic of the merged values (sums, decimal truncation, float formatting), arbitrary segment cuts and interleavings: numeric equality of merged and sequential values is not decided. SET_SUM prefix algebra is only checked for switch coverage.",
		Assumptions: []string{"enumerator names of the generated Operation_Type / UpdatePolicy enums are the schema", "big.Int.Cmp / decimal.Cmp are three-way compares"},
	})
}

type opClass struct{ class, goType string }

func classifyOp(name string) opClass {
	n := strings.TrimPrefix(name, "Operation_")
	typeOf := func(s string) string {
		switch s {
		case "BIG_INT":
			return "*math/big.Int"
		case "INT64":
			return "int64"
		case "FLOAT64":
			return "float64"
		case "BIG_DECIMAL":
			return "github.com/shopspring/decimal.Decimal"
		}
		return "?"
	}
	switch {
	case strings.HasPrefix(n, "SET_MAX_"):
		return opClass{"max", typeOf(strings.TrimPrefix(n, "SET_MAX_"))}
	case strings.HasPrefix(n, "SET_MIN_"):
		return opClass{"min", typeOf(strings.TrimPrefix(n, "SET_MIN_"))}
	case strings.HasPrefix(n, "SET_SUM_"):
		return opClass{"setsum", "raw"}
	case strings.HasPrefix(n, "SUM_"):
		return opClass{"sum", typeOf(strings.TrimPrefix(n, "SUM_"))}
	case n == "SET" || n == "SET_BYTES":
		return opClass{"set", "raw"}
	case n == "SET_IF_NOT_EXISTS" || n == "SET_BYTES_IF_NOT_EXISTS":
		return opClass{"setifnotexists", "raw"}
	case n == "APPEND":
		return opClass{"append", "raw"}
	case n == "DELETE_PREFIX":
		return opClass{"deleteprefix", "none"}
	}
	return opClass{"?", "?"}
}

func typeKey(t types.Type) string {
	return types.TypeString(t, func(p *types.Package) string { return p.Path() })
}

// recorderInfo: which functions add which operation kinds, with the encoder input type.
type recorderInfo struct {
	Fn      *ssa.Function
	Op      string
	EncType string // "raw", "none" or the encoder's parameter type
	Pos     string
}

func findRecorders(p *core.Prog) []recorderInfo {
	opT := p.Named(pkgPBInt, "Operation")
	opEnum := p.Named(pkgPBInt, "Operation_Type")
	names := map[string]string{}
	for _, c := range core.EnumConsts(opEnum) {
		names[c.Val().ExactString()] = c.Name()
	}
	var out []recorderInfo
	for _, fn := range p.RepoFunctions() {
		for _, al := range core.AllocsOf(fn, opT) {
			fields := core.LiteralFields(al)
			op := "Operation_SET" // zero value if Type not set
			if vs := fields["Type"]; len(vs) == 1 {
				c, ok := vs[0].(*ssa.Const)
				if !ok || c.Value == nil {
					op = "?dynamic"
				} else {
					op = names[c.Value.ExactString()]
				}
			}
			enc := "none"
			if vs := fields["Value"]; len(vs) == 1 {
				enc = encoderType(vs[0])
			}
			out = append(out, recorderInfo{Fn: fn, Op: op, EncType: enc, Pos: p.Pos(al.Pos())})
		}
	}
	return out
}

// encoderType classifies the expression stored in Operation.Value.
func encoderType(v ssa.Value) string {
	switch x := v.(type) {
	case *ssa.Const:
		if x.IsNil() {
			return "none"
		}
	case *ssa.Parameter:
		return "raw"
	case *ssa.Convert: // []byte(string param)
		return encoderType(x.X)
	case *ssa.Call:
		callee := core.StaticFn(x.Common())
		if callee != nil && len(callee.Params) == 1 {
			pt := callee.Params[0].Type()
			if sl, ok := pt.Underlying().(*types.Slice); ok {
				if b, ok := sl.Elem().(*types.Basic); ok && b.Kind() == types.Byte {
					return encoderType(x.Call.Args[0]) // cloneBytes-like: bytes in, bytes out
				}
			}
			return typeKey(pt)
		}
	}
	return "?"
}

func runC02(p *core.Prog, r *core.Report) {
	opEnum := func() *types.Named { return p.Named(pkgPBInt, "Operation_Type") }

	// ------------------------------------------------------------------ R1
	r.Guard("C02.R1", "merge-float-codec", "float64 merge helpers are total", func() { checkMergeFloatCodecTotal(p, r, "C02.R1") })
	r.GuardExact("C02.R1", "parse-width", "64-bit parses everywhere", func() { checkParseWidth(p, r, "C02.R1") })
	r.Guard("C02.R1", "bigdecimal-truncation", "merge and host calls normalise alike", func() { checkDecimalTruncationAgreement(p, r, "C02.R1") })
	r.Guard("C02.R5", "PartialKV.Roll", "nothing of the previous segment survives a roll", func() { checkRollResetsSegmentState(p, r, "C02.R5") })
	r.Guard("C02.R1", "Flush", "operation table", func() {
		fd, pk := p.FuncDecl(pkgStore, "baseStore.Flush")
		fn := p.Func(pkgStore, "baseStore.Flush")
		r.Touch(core.FuncName(fn))
		var sw *core.SwitchInfo
		for _, s := range core.SwitchesIn(pk, fd.Body) {
			if t := s.TagType(pk); t != nil && types.Identical(t, opEnum()) {
				sw = s
			}
		}
		if sw == nil {
			core.Undecide("Flush: no switch over Operation_Type")
		}
		labels := sw.AllLabels()
		count := map[string]int{}
		for _, ls := range sw.Labels {
			for _, l := range ls {
				count[l]++
			}
		}
		recs := findRecorders(p)
		recByOp := map[string][]recorderInfo{}
		for _, rc := range recs {
			if rc.Fn.Pkg != nil && rc.Fn.Pkg.Pkg.Path() == core.ModPath+"/"+pkgStore {
				recByOp[rc.Op] = append(recByOp[rc.Op], rc)
			}
		}
		// handler calls per case label (SSA sites mapped to case clauses through positions)
		type hcall struct {
			handler *ssa.Function
			decType string
			pos     string
		}
		handlers := map[string][]hcall{}
		opT := p.Named(pkgPBInt, "Operation")
		valueF := core.FieldOf(opT, "Value")
		core.Instrs(fn, func(in ssa.Instruction) {
			c, ok := in.(*ssa.Call)
			if !ok {
				return
			}
			callee := core.StaticFn(c.Common())
			if callee == nil || callee.Signature.Recv() == nil || !core.IsRepo(callee) {
				return
			}
			rt := callee.Signature.Recv().Type()
			if pt, ok := rt.(*types.Pointer); ok {
				rt = pt.Elem()
			}
			if n, ok := rt.(*types.Named); !ok || n.Obj().Name() != "baseStore" {
				return
			}
			idx := sw.ClauseAt(c.Pos())
			if idx < 0 {
				return
			}
			dec := "none"
			if len(c.Call.Args) >= 4 {
				dec = decoderType(c.Call.Args[3], valueF)
			}
			for _, l := range sw.Labels[idx] {
				handlers[l] = append(handlers[l], hcall{callee, dec, p.Pos(c.Pos())})
			}
		})
		for _, c := range core.EnumConsts(opEnum()) {
			name := c.Name()
			want := classifyOp(name)
			pos := p.Pos(sw.Pos)
			r.Check(labels[name] && count[name] == 1, "C02.R1", name+"/case", "the operation kind has exactly one case in Flush (a missing case silently drops recorded operations)",
				fmt.Sprintf("%d cases", count[name]), pos)
			// recorder
			rcs := recByOp[name]
			if len(rcs) == 0 {
				r.Fail("C02.R1", name+"/recorder", "a Store method records this operation kind", "no function builds an Operation of this kind", pos)
			}
			for _, rc := range rcs {
				r.Check(rc.EncType == want.goType, "C02.R1", name+"/encoder@"+shortFn(rc.Fn), "the recorder encodes the typed value named by the enumerator ("+want.goType+")", "recorder encodes from "+rc.EncType, rc.Pos)
			}
			hs := handlers[name]
			if len(hs) != 1 {
				r.Fail("C02.R1", name+"/handler", "the case applies the operation through exactly one baseStore handler", fmt.Sprintf("%d handler calls", len(hs)), pos)
				continue
			}
			h := hs[0]
			r.Check(h.decType == want.goType, "C02.R1", name+"/decoder", "the case decodes Operation.Value to the type the recorder encoded ("+want.goType+")", "decodes to "+h.decType, h.pos)
			r.Touch(core.FuncName(h.handler))
			// handler class
			got := handlerClass(p, h.handler)
			r.Check(got == want.class, "C02.R1", name+"/class", "the handler called for this kind implements the "+want.class+" semantics", "handler "+shortFn(h.handler)+" classifies as "+got, h.pos)
			if want.class == "setsum" {
				// the set_sum handlers all take the raw prefixed bytes, so the compiler cannot tell them apart: the arithmetic the
				// handler performs must be the one the enumerator names (Merge adds the same kind with that arithmetic)
				wantDom := ""
				switch {
				case strings.HasSuffix(name, "_INT64"):
					wantDom = "int64"
				case strings.HasSuffix(name, "_FLOAT64"):
					wantDom = "float64"
				case strings.HasSuffix(name, "_BIG_INT"):
					wantDom = "bigint"
				case strings.HasSuffix(name, "_BIG_DECIMAL"):
					wantDom = "bigdecimal"
				}
				gotDom := numericDomain(h.handler, 2)
				r.Check(wantDom != "" && gotDom == wantDom, "C02.R1", name+"/domain", "the set_sum handler called for this kind adds in the numeric domain the enumerator names ("+wantDom+")", "handler "+shortFn(h.handler)+" computes in "+gotDom, h.pos)
			}
		}
		// no recorder of a dynamic / unknown kind
		for _, rc := range recs {
			if rc.Op == "?dynamic" || rc.Op == "" {
				r.Fail("C02.R1", "recorder/"+shortFn(rc.Fn), "every recorded Operation has a constant kind", "dynamic kind", rc.Pos)
			}
		}
		r.Check(!sw.HasDefault, "C02.R1", "Flush/no-default", "Flush has no default case hiding an unhandled kind", "default case present", p.Pos(sw.Pos))
	})

	// ------------------------------------------------------------------ R2
	r.Guard("C02.R2", "intrinsics", "host interface table", func() { checkIntrinsics(p, r) })

	// ------------------------------------------------------------------ R3
	r.Guard("C02.R3", "Merge/order", "delete prefixes first", func() {
		fn := p.Func(pkgStore, "baseStore.Merge")
		r.Touch(core.FuncName(fn))
		partialKV := p.Field(pkgStore, "baseStore", "kv")
		delPref := p.Field(pkgStore, "PartialKV", "DeletedPrefixes")
		flush := p.FuncObj(pkgStore, "baseStore.Flush")
		reset := p.FuncObj(pkgStore, "baseStore.Reset")
		delPrefix := p.FuncObj(pkgStore, "baseStore.DeletePrefix")
		var prm *ssa.Parameter
		for _, x := range fn.Params[1:] {
			prm = x
		}
		// ranges over the partial's kv: Range instruction whose operand loads kv from (the baseStore of) the parameter
		var ranges []ssa.Instruction
		core.Instrs(fn, func(in ssa.Instruction) {
			rg, ok := in.(*ssa.Range)
			if !ok {
				return
			}
			f, _ := core.LoadedField(rg.X)
			if f == partialKV && core.ParamSources(rg.X, 0)[prm] {
				ranges = append(ranges, in)
			}
		})
		if len(ranges) < 19 {
			core.Undecide("Merge: only %d loops over the partial store's kv found", len(ranges))
		}
		isFlush := core.IsCallTo(flush)
		// Flush call that follows the delete-prefix replay: a Flush call reachable from a DeletePrefix call
		dpCalls := core.FindInstrs(fn, core.IsCallTo(delPrefix))
		okDP := len(dpCalls) > 0
		for _, c := range dpCalls {
			// prefix argument derives from partial.DeletedPrefixes
			src := core.Trace(c.(ssa.CallInstruction).Common().Args[2], 0)
			fromDP := src.Fields[delPref]
			for prm := range src.Params {
				// the replay may sit in a helper that is handed the partial's DeletedPrefixes
				if cv := core.CallerValue(fn, prm); cv != ssa.Value(prm) && core.Trace(cv, 0).Fields[delPref] {
					fromDP = true
				}
			}
			if !fromDP {
				okDP = false
			}
			if _, ok := core.MustReachAfter(fn, c, isFlush, nil); !ok {
				okDP = false
			}
		}
		r.Check(okDP, "C02.R3", "Merge/replay", "Merge replays every prefix of the partial's DeletedPrefixes through DeletePrefix and flushes them", "DeletePrefix replay of DeletedPrefixes followed by Flush not found", p.Pos(fn.Pos()))
		bad := ""
		for _, rg := range ranges {
			if _, ok := core.MustPassBefore(fn, isFlush, func(in ssa.Instruction) bool { return in == rg }); !ok {
				bad = p.Pos(core.InstrPos(rg))
			}
			for _, c := range dpCalls {
				q := core.PathQuery{Fn: fn}
				if _, reach := q.CanReach(rg, func(in ssa.Instruction) bool { return in == c }); reach {
					bad = p.Pos(core.InstrPos(rg)) + " (a delete-prefix replay is reachable after merging keys)"
				}
			}
		}
		r.Check(bad == "", "C02.R3", "Merge/deletes-before-keys", "the flushed delete-prefix replay dominates every loop over the partial's keys (deleting afterwards would remove keys the segment re-created)", "loop over partial keys not preceded by the flush: "+bad, p.Pos(fn.Pos()))
		// the error of that Flush is returned
		okErr := false
		for _, c := range core.FindInstrs(fn, isFlush) {
			if core.ErrorTested(c) {
				okErr = true
			}
		}
		r.Check(okErr, "C02.R3", "Merge/flush-error", "the error of the delete-prefix flush is tested", "Flush result unused", p.Pos(fn.Pos()))
		// Reset on every success path
		hit, ok := core.MustReachAfter(fn, nil, core.IsCallTo(reset), func(in ssa.Instruction) bool { return core.ReturnsNilError(in) })
		d := ""
		if !ok {
			d = "success return without Reset at " + p.Pos(core.InstrPos(hit))
		}
		r.Check(ok, "C02.R3", "Merge/reset", "every success path of Merge ends with Reset (a merge never leaves deltas, operations or ordinals behind)", d, p.Pos(fn.Pos()))
	})

	// ------------------------------------------------------------------ R4
	r.Guard("C02.R4", "Merge/first-wins", "SET_IF_NOT_EXISTS discipline", func() {
		fn := p.Func(pkgStore, "baseStore.Merge")
		setKV := p.FuncObj(pkgStore, "baseStore.setKV")
		setNew := p.FuncObj(pkgStore, "baseStore.setNewKV")
		n := 0
		for _, c := range core.FindInstrs(fn, core.IsCallTo(setKV, setNew)) {
			lb := p.CaseLabels(c.Pos())
			if len(lb) == 0 || lb[0] != "Module_KindStore_UPDATE_POLICY_SET_IF_NOT_EXISTS" {
				continue
			}
			n++
			r.Check(core.CalleeOf(c) == setNew, "C02.R4", "Merge/SET_IF_NOT_EXISTS/writer", "under set_if_not_exists the only writer is setNewKV (guarded by a failed lookup, C11.R3): the earlier segment's value wins", "setKV overwrites an existing key", p.Pos(c.Pos()))
		}
		if n == 0 {
			r.Fail("C02.R4", "Merge/SET_IF_NOT_EXISTS/writer", "the set_if_not_exists branch writes absent keys", "no writer found in the branch", p.Pos(fn.Pos()))
		}
		checkSetNewKVCallers(p, r, "C02.R4")
	})
	r.Guard("C02.R4", "append/order", "concatenation order", func() {
		// Merge (APPEND branch) and sequential append: existing value at offset 0, new value after it
		for _, name := range []string{"baseStore.Merge", "baseStore.append"} {
			root := p.Func(pkgStore, name)
			r.Touch(core.FuncName(root))
			n := 0
			for _, fn := range core.Family(root, 1) {
				fn := fn
				core.Instrs(fn, func(in ssa.Instruction) {
					ms, ok := in.(*ssa.MakeSlice)
					if !ok {
						return
					}
					var copies []*ssa.CallCommon
					var cins []ssa.Instruction
					core.Instrs(fn, func(x ssa.Instruction) {
						cc, ok := core.IsBuiltinCall(x, "copy")
						if !ok {
							return
						}
						if sl, ok := cc.Args[0].(*ssa.Slice); ok && sl.X == ssa.Value(ms) {
							copies = append(copies, cc)
							cins = append(cins, x)
						}
					})
					if len(copies) != 2 {
						return
					}
					n++
					// classify sources: "existing" = derived from a lookup in kv / GetAt result; "incoming" = parameter value / range value of partial
					var isExisting func(v ssa.Value) bool
					isExisting = func(v ssa.Value) bool {
						// in a shared concatenation helper, what the parameter stands for at the call(s) made from this root
						if prm, ok := core.SkipConv(v).(*ssa.Parameter); ok && prm.Parent() != root {
							cvs := core.CallerValues(root, prm)
							if len(cvs) == 0 {
								return false
							}
							for _, cv := range cvs {
								if !isExisting(cv) {
									return false
								}
							}
							return true
						}
						s := core.Trace(v, 0)
						for c := range s.Calls {
							if c.Name() == "GetAt" || c.Name() == "getAt" || c.Name() == "getLast" {
								return true
							}
						}
						if ex, ok := v.(*ssa.Extract); ok {
							if lk, ok := ex.Tuple.(*ssa.Lookup); ok {
								f, _ := core.LoadedField(lk.X)
								return f == p.Field(pkgStore, "baseStore", "kv")
							}
						}
						return false
					}
					var first, second *ssa.CallCommon
					for _, cc := range copies {
						sl := cc.Args[0].(*ssa.Slice)
						if sl.Low == nil || isZeroConst(sl.Low) {
							first = cc
						} else {
							second = cc
						}
					}
					ok2 := first != nil && second != nil && isExisting(first.Args[1]) && !isExisting(second.Args[1])
					if ok2 {
						// second offset is len(existing)
						lo := second.Args[0].(*ssa.Slice).Low
						if c, ok := core.SkipConv(lo).(*ssa.Call); ok {
							if b, ok := c.Call.Value.(*ssa.Builtin); !ok || b.Name() != "len" || c.Call.Args[0] != first.Args[1] {
								ok2 = false
							}
						} else {
							ok2 = false
						}
					}
					lbl := strings.Join(p.CaseLabels(cins[0].Pos()), "/")
					if lbl == "" && fn != root {
						lbl = fn.Name()
					}
					r.Check(ok2, "C02.R4", name+"/concat/"+lbl, "append concatenates the existing value first (offset 0) and the newer value after it (offset len(existing))", "copy order/offsets do not match existing-then-new", p.Pos(cins[0].Pos()))
				})
			}
			if n == 0 {
				core.Undecide("%s: no two-copy concatenation found", name)
			}
		}
	})

	// ------------------------------------------------------------------ R5
	r.Guard("C02.R5", "PartialKV/overrides", "delete-prefix bookkeeping complete", func() { checkPartialOverrides(p, r, "C02.R5") })

	// ------------------------------------------------------------------ R6
	r.Guard("C02.R6", "save-load", "snapshot field symmetry", func() { checkSaveLoadSymmetry(p, r, "C02.R6") })

	// ------------------------------------------------------------------ R7
	r.Guard("C02.R7", "selectors", "combiner classification", func() { checkSelectors(p, r) })
	r.Guard("C02.R7", "merge-domain", "numeric domain per value-type clause", func() { checkMergeBranchDomain(p, r, "C02.R7") })
	r.Guard("C02.R8", "Merge/key-set", "every key of the partial is merged", func() { checkMergeKeySet(p, r) })

	r.Guard("C02.R4", "min-max-absent", "absent keys under MIN/MAX", func() { checkMinMaxAbsentKey(p, r) })
	r.Guard("C02.R4", "in-place", "store values are never written in place", func() { checkNoInPlaceMutation(p, r, "C02.R4") })
	r.Guard("C02.R3", "visits-all", "no silent truncation", func() {
		checkNoSilentTruncation(p, r, "C02.R3", []loopSite{{pkgStore, "baseStore.Merge", nil}})
	})
	r.MinInstances("C02.R1", 22*4)
	r.MinInstances("C02.R2", 20)
	r.MinInstances("C02.R3", 4)
	r.MinInstances("C02.R4", 4)
	r.MinInstances("C02.R7", 20)
	r.MinInstances("C02.R8", 19)
}

func shortFn(fn *ssa.Function) string {
	s := core.FuncName(fn)
	if i := strings.LastIndex(s, ")."); i >= 0 {
		return s[i+2:]
	}
	if i := strings.LastIndex(s, "."); i >= 0 {
		return s[i+1:]
	}
	return s
}

// decoderType classifies the value argument of a handler call in Flush.
func decoderType(v ssa.Value, valueF *types.Var) string {
	if f, _ := core.LoadedField(v); f == valueF {
		return "raw"
	}
	if ex, ok := v.(*ssa.Extract); ok {
		v = ex.Tuple
		if c, ok := v.(*ssa.Call); ok {
			callee := core.StaticFn(c.Common())
			if callee != nil && len(c.Call.Args) == 1 {
				if f, _ := core.LoadedField(c.Call.Args[0]); f == valueF {
					return typeKey(callee.Signature.Results().At(ex.Index).Type())
				}
			}
		}
		return "?"
	}
	if c, ok := v.(*ssa.Call); ok {
		callee := core.StaticFn(c.Common())
		if callee != nil && len(c.Call.Args) == 1 {
			if f, _ := core.LoadedField(c.Call.Args[0]); f == valueF {
				return typeKey(callee.Signature.Results().At(0).Type())
			}
		}
	}
	return "?"
}

// handlerClass classifies a sequential handler by its effect.
func handlerClass(p *core.Prog, fn *ssa.Function) string {
	name := shortFn(fn)
	setObj := p.FuncObj(pkgStore, "baseStore.set")
	switch {
	case core.CalleeIs(fn, p.FuncObj(pkgStore, "baseStore.set")):
		return "set"
	case core.CalleeIs(fn, p.FuncObj(pkgStore, "baseStore.setIfNotExists")):
		return "setifnotexists"
	case core.CalleeIs(fn, p.FuncObj(pkgStore, "baseStore.deletePrefix")):
		return "deleteprefix"
	case core.CalleeIs(fn, p.FuncObj(pkgStore, "baseStore.append")):
		return "append"
	}
	_ = name
	// set_sum: dispatches on the 4-byte prefix of the incoming raw value
	if len(fn.Params) == 4 {
		if _, ok := fn.Params[3].Type().Underlying().(*types.Slice); ok {
			hasPrefixSwitch := false
			core.Instrs(fn, func(in ssa.Instruction) {
				if bo, ok := in.(*ssa.BinOp); ok {
					if c, ok := bo.Y.(*ssa.Const); ok && c.Value != nil && (c.Value.ExactString() == `"sum:"` || c.Value.ExactString() == `"set:"`) {
						hasPrefixSwitch = true
					}
				}
			})
			if hasPrefixSwitch && len(core.FindInstrs(fn, core.IsCallTo(setObj))) > 0 {
				return "setsum"
			}
		}
	}
	return classifySequential(p, fn)
}

// classifySequential classifies setMax*/setMin*/sum* handlers from the orderings of (value, prev).
func classifySequential(p *core.Prog, fn *ssa.Function) string {
	if len(fn.Params) != 4 {
		return "?"
	}
	valueName := fn.Params[3].Name()
	setObj := p.FuncObj(pkgStore, "baseStore.set")
	paths := core.Summarize(&core.SymConfig{Fn: fn})
	sawGT, sawLT := "", ""
	allBoth, nBoth, dropsValue := true, 0, false
	for _, ps := range paths {
		if ps.End == "panic" {
			continue
		}
		var chosen map[string]bool
		for _, c := range ps.Calls {
			if c.Callee == setObj && len(c.Leaves) >= 4 {
				chosen = c.Leaves[3]
			}
		}
		if chosen == nil {
			continue
		}
		// ordering between value and whatever it is compared with
		set := core.OrdAny
		for _, c := range ps.Conds {
			a, b, s, ok := c.Relation()
			if !ok {
				continue
			}
			switch {
			case a == valueName && b != "nil":
			case b == valueName && a != "nil":
				sw := s & core.OrdEQ
				if s&core.OrdLT != 0 {
					sw |= core.OrdGT
				}
				if s&core.OrdGT != 0 {
					sw |= core.OrdLT
				}
				s = sw
			default:
				continue
			}
			set &= s
		}
		hasValue := chosen[valueName]
		// "prev" chosen: the stored value flows in (a GetAt/getAt result) and value does not
		hasPrev := false
		for l := range chosen {
			if strings.HasPrefix(l, "GetAt(") || strings.HasPrefix(l, "getAt(") {
				hasPrev = true
			}
		}
		found := false
		for _, c := range ps.Conds {
			if c.Op == "true" && (strings.HasPrefix(c.X, "GetAt(") || strings.HasPrefix(c.X, "getAt(")) && strings.HasSuffix(c.X, "#1") && !c.Neg {
				found = true
			}
		}
		if found && hasPrev {
			nBoth++
			if !(hasValue && chosen["+"]) {
				allBoth = false
			}
		}
		if found && !hasValue {
			dropsValue = true
		}
		if set == core.OrdAny || set == 0 {
			continue
		}
		valueOnly := hasValue && !hasPrev
		prevOnly := hasPrev && !hasValue
		if set&core.OrdLT == 0 && set&core.OrdGT != 0 { // value > prev or value >= prev
			c := pick(valueOnly, prevOnly)
			if sawGT != "" && sawGT != c {
				c = "mixed"
			}
			sawGT = c
		}
		if set&core.OrdGT == 0 && set&core.OrdLT != 0 { // value < prev or value <= prev
			c := pick(valueOnly, prevOnly)
			if sawLT != "" && sawLT != c {
				c = "mixed"
			}
			sawLT = c
		}
	}
	switch {
	case sawGT == "value" && sawLT == "prev":
		return "max"
	case sawGT == "prev" && sawLT == "value":
		return "min"
	case sawGT == "" && sawLT == "" && nBoth > 0 && allBoth && !dropsValue:
		return "sum"
	}
	return fmt.Sprintf("other(gt→%s,lt→%s)", sawGT, sawLT)
}

func pick(valueOnly, prevOnly bool) string {
	switch {
	case valueOnly:
		return "value"
	case prevOnly:
		return "prev"
	}
	return "mixed"
}

// classifyClosure classifies f(a,b) T closures: max / min / sum / other.
func classifyClosure(fn *ssa.Function) string {
	if len(fn.Params) != 2 {
		return "?"
	}
	a, b := fn.Params[0].Name(), fn.Params[1].Name()
	paths := core.Summarize(&core.SymConfig{Fn: fn})
	gt, lt := "", ""
	sumLike := len(paths) == 1
	for _, ps := range paths {
		if ps.End != "return" || len(ps.ResultLeaves) != 1 {
			return "?"
		}
		lv := ps.ResultLeaves[0]
		onlyA, onlyB := lv[a] && !lv[b], lv[b] && !lv[a]
		if !(lv[a] && lv[b] && lv["+"]) {
			sumLike = false
		}
		set := ps.RelationOf(a, b)
		if set == 0 || set == core.OrdAny {
			continue
		}
		if set&core.OrdLT == 0 && set&core.OrdGT != 0 {
			c := pick(onlyA, onlyB)
			if gt != "" && gt != c {
				c = "mixed"
			}
			gt = c
		}
		if set&core.OrdGT == 0 && set&core.OrdLT != 0 {
			c := pick(onlyA, onlyB)
			if lt != "" && lt != c {
				c = "mixed"
			}
			lt = c
		}
	}
	switch {
	case gt == "value" && lt == "prev":
		return "max"
	case gt == "prev" && lt == "value":
		return "min"
	case sumLike:
		return "sum"
	}
	return fmt.Sprintf("other(a>b→%s,a<b→%s)", gt, lt)
}

func checkSelectors(p *core.Prog, r *core.Report) {
	merge := p.Func(pkgStore, "baseStore.Merge")
	// closures of Merge, labelled by their enclosing case clauses
	n := 0
	for _, cl := range merge.AnonFuncs {
		if len(cl.Params) != 2 || cl.Signature.Results().Len() != 1 {
			continue
		}
		labels := p.CaseLabels(cl.Pos())
		if len(labels) == 0 {
			continue
		}
		want := ""
		switch labels[0] {
		case "Module_KindStore_UPDATE_POLICY_MAX":
			want = "max"
		case "Module_KindStore_UPDATE_POLICY_MIN":
			want = "min"
		case "Module_KindStore_UPDATE_POLICY_ADD", "Module_KindStore_UPDATE_POLICY_SET_SUM":
			want = "sum"
		default:
			continue
		}
		n++
		got := classifyClosure(cl)
		r.Check(got == want, "C02.R7", "Merge/"+strings.Join(labels, "/")+"/combiner", "the merge combiner of this (policy, value type) is a "+want+" of its two operands", "classifies as "+got, p.Pos(cl.Pos()))
		// the combiner is applied to (existing, partial) values and its result is what gets written
		used := false
		core.Instrs(merge, func(in ssa.Instruction) {
			if c, ok := in.(*ssa.Call); ok {
				if mc, ok := c.Call.Value.(*ssa.MakeClosure); ok && mc.Fn == ssa.Value(cl) {
					used = true
				} else if f, ok := c.Call.Value.(*ssa.Function); ok && f == cl {
					used = true
				}
			}
		})
		r.Check(used, "C02.R7", "Merge/"+strings.Join(labels, "/")+"/combiner-used", "the combiner is called in its branch", "combiner defined but never called", p.Pos(cl.Pos()))
	}
	// a branch may use the builtin of the same name instead of a hand-written closure (int64, where they agree)
	core.Instrs(merge, func(in ssa.Instruction) {
		c, ok := in.(*ssa.Call)
		if !ok {
			return
		}
		bi, ok := c.Call.Value.(*ssa.Builtin)
		if !ok || (bi.Name() != "min" && bi.Name() != "max") || len(c.Call.Args) != 2 {
			return
		}
		labels := p.CaseLabels(in.Pos())
		if len(labels) == 0 {
			return
		}
		want := ""
		switch labels[0] {
		case "Module_KindStore_UPDATE_POLICY_MAX":
			want = "max"
		case "Module_KindStore_UPDATE_POLICY_MIN":
			want = "min"
		default:
			return
		}
		n++
		r.Check(bi.Name() == want, "C02.R7", "Merge/"+strings.Join(labels, "/")+"/combiner", "the merge combiner of this (policy, value type) is a "+want+" of its two operands", "the builtin "+bi.Name()+" is used", p.Pos(in.Pos()))
	})
	// a sum may also be written in place (v0 + v1, new(big.Int).Add(v0, v1), v0.Add(v1)) in an ADD / SET_SUM branch that
	// has no combiner closure: counted once per (policy, value type), and it must be a sum (not a difference, not a product)
	covered := map[string]bool{}
	for _, cl := range merge.AnonFuncs {
		if labels := p.CaseLabels(cl.Pos()); len(labels) > 0 && len(cl.Params) == 2 {
			covered[strings.Join(labels, "/")] = true
		}
	}
	inline := map[string]string{}
	core.Instrs(merge, func(in ssa.Instruction) {
		labels := p.CaseLabels(in.Pos())
		if len(labels) < 2 || (labels[0] != "Module_KindStore_UPDATE_POLICY_ADD" && labels[0] != "Module_KindStore_UPDATE_POLICY_SET_SUM") {
			return
		}
		key := strings.Join(labels, "/")
		if covered[key] {
			return
		}
		switch x := in.(type) {
		case *ssa.BinOp:
			bt, ok := x.Type().Underlying().(*types.Basic)
			if !ok || bt.Info()&types.IsNumeric == 0 {
				return
			}
			if _, isK := x.X.(*ssa.Const); isK {
				return
			}
			if _, isK := x.Y.(*ssa.Const); isK {
				return
			}
			switch x.Op {
			case token.ADD:
				if inline[key] == "" {
					inline[key] = "sum"
				}
			case token.SUB, token.MUL, token.QUO:
				inline[key] = "other(" + x.Op.String() + ")"
			}
		case *ssa.Call:
			if cl := core.CommonCallee(x.Common()); cl != nil && cl.Pkg() != nil && (strings.HasSuffix(cl.Pkg().Path(), "math/big") || strings.Contains(cl.Pkg().Path(), "decimal")) {
				switch cl.Name() {
				case "Add":
					if inline[key] == "" {
						inline[key] = "sum"
					}
				case "Sub", "Mul", "Quo", "Div":
					inline[key] = "other(" + cl.Name() + ")"
				}
			}
		}
	})
	for key, got := range inline {
		n++
		r.Check(got == "sum", "C02.R7", "Merge/"+key+"/combiner", "the merge combiner of this (policy, value type) is a sum of its two operands", "computes "+got, p.Pos(merge.Pos()))
	}
	if n < 16 {
		core.Undecide("Merge: only %d combiners found (expected 16)", n)
	}
}

// checkIntrinsics (C02.R2): the write intrinsics of wasm.Call validate the
// policy/value types of the operation they record; Merge covers them.
func checkIntrinsics(p *core.Prog, r *core.Report) {
	policyT := p.Named(pkgPBV1, "Module_KindStore_UpdatePolicy")
	polName := map[string]string{}
	for _, c := range core.EnumConsts(policyT) {
		polName[c.Val().ExactString()] = strings.TrimPrefix(c.Name(), "Module_KindStore_UPDATE_POLICY_")
	}
	// recorder method name -> operation kind
	recOp := map[string]string{}
	for _, rc := range findRecorders(p) {
		if rc.Fn.Pkg != nil && rc.Fn.Pkg.Pkg.Path() == core.ModPath+"/"+pkgStore {
			recOp[shortFn(rc.Fn)] = rc.Op
		}
	}
	classPolicy := map[string]string{"set": "SET", "setifnotexists": "SET_IF_NOT_EXISTS", "append": "APPEND", "sum": "ADD", "min": "MIN", "max": "MAX", "setsum": "SET_SUM"}
	typeNames := map[string][]string{"int64": {"int64"}, "float64": {"float64"}, "*math/big.Int": {"bigint"}, "github.com/shopspring/decimal.Decimal": {"bigdecimal", "bigfloat"}}
	admitted := map[string]map[string]bool{} // policy -> value types
	callT := p.Named(pkgWasm, "Call")
	outStore := core.FieldOf(callT, "outputStore")
	n := 0
	for i := 0; i < callT.NumMethods(); i++ {
		m := callT.Method(i)
		if !strings.HasPrefix(m.Name(), "Do") {
			continue
		}
		fn := p.SSA.FuncValue(m)
		if fn == nil || fn.Blocks == nil {
			continue
		}
		// store writer invoked on c.outputStore
		var rec string
		var recPos ssa.Instruction
		core.Instrs(fn, func(in ssa.Instruction) {
			c, ok := in.(*ssa.Call)
			if !ok || !c.Call.IsInvoke() {
				return
			}
			if f, _ := core.LoadedField(c.Call.Value); f != outStore {
				return
			}
			if _, isRec := recOp[c.Call.Method.Name()]; isRec {
				rec = c.Call.Method.Name()
				recPos = in
			}
		})
		if rec == "" {
			continue
		}
		op := recOp[rec]
		want := classifyOp(op)
		if want.class == "deleteprefix" {
			continue
		}
		n++
		r.Touch(core.FuncName(fn))
		// validator call: a Call method taking an UpdatePolicy constant
		var pol string
		var vts []string
		var valIn ssa.Instruction
		core.Instrs(fn, func(in ssa.Instruction) {
			c, ok := in.(*ssa.Call)
			if !ok {
				return
			}
			for _, a := range c.Call.Args {
				if k, ok := a.(*ssa.Const); ok && types.Identical(k.Type(), policyT) {
					pol = polName[k.Value.ExactString()]
					valIn = in
					vts = nil
					for _, b := range c.Call.Args[2:] {
						if s, ok := b.(*ssa.Const); ok && s.Value != nil && isStringConst(s) {
							vts = append(vts, strings.Trim(s.Value.ExactString(), `"`))
						}
					}
				}
			}
		})
		construct := "wasm.Call." + m.Name()
		if pol == "" {
			r.Fail("C02.R2", construct+"/validated", "the write intrinsic validates the store's update policy before recording", "no validator call with an update policy constant", p.Pos(fn.Pos()))
			continue
		}
		// validator dominates the recorder call
		_, dom := core.MustPassBefore(fn, func(in ssa.Instruction) bool { return in == valIn }, func(in ssa.Instruction) bool { return in == recPos })
		r.Check(dom, "C02.R2", construct+"/validated", "the write intrinsic validates the store's update policy before recording", "recorder reachable without validation", p.Pos(fn.Pos()))
		r.Check(pol == classPolicy[want.class], "C02.R2", construct+"/policy", fmt.Sprintf("the intrinsic recording %s requires update policy %s", op, classPolicy[want.class]), "validates policy "+pol, p.Pos(valIn.Pos()))
		// value-type strings (first is the 3rd arg: skip the state-func name which is arg 1)
		var vtOnly []string
		for _, v := range vts {
			vtOnly = append(vtOnly, v)
		}
		if len(vtOnly) > 0 {
			vtOnly = vtOnly[:len(vtOnly)-0]
		}
		if exp, ok := typeNames[want.goType]; ok {
			sort.Strings(vtOnly)
			e := append([]string(nil), exp...)
			sort.Strings(e)
			r.Check(strings.Join(vtOnly, ",") == strings.Join(e, ","), "C02.R2", construct+"/valuetype", fmt.Sprintf("the intrinsic recording %s requires value type %v", op, exp), fmt.Sprintf("validates value types %v", vtOnly), p.Pos(valIn.Pos()))
		}
		if admitted[pol] == nil {
			admitted[pol] = map[string]bool{}
		}
		for _, v := range vtOnly {
			admitted[pol][v] = true
		}
	}
	if n < 19 {
		core.Undecide("only %d write intrinsics found on wasm.Call (expected 19 besides delete_prefix)", n)
	}
	// validators really test both fields: each validate* compares c.updatePolicy with its parameter (and c.valueType with each string parameter)
	for _, vn := range []string{"Call.validateSimple", "Call.validateWithValueType", "Call.validateWithTwoValueTypes"} {
		fn := p.Func(pkgWasm, vn)
		upd := core.FieldOf(callT, "updatePolicy")
		vt := core.FieldOf(callT, "valueType")
		cmpPol, cmpVT := 0, 0
		core.Instrs(fn, func(in ssa.Instruction) {
			bo, ok := in.(*ssa.BinOp)
			if !ok {
				return
			}
			fx, _ := core.LoadedField(bo.X)
			_, py := bo.Y.(*ssa.Parameter)
			if fx == upd && py {
				cmpPol++
			}
			if fx == vt && py {
				cmpVT++
			}
		})
		nStr := 0
		for _, prm := range fn.Params[1:] {
			if b, ok := prm.Type().Underlying().(*types.Basic); ok && b.Kind() == types.String {
				nStr++
			}
		}
		wantVT := nStr - 2 // stateFunc and key are strings too
		ok := cmpPol == 1 && cmpVT == wantVT
		// a mismatch must reach returnInvalidPolicy
		rip := p.FuncObj(pkgWasm, "Call.returnInvalidPolicy")
		ok = ok && len(core.FindInstrs(fn, core.IsCallTo(rip))) > 0
		r.Check(ok, "C02.R2", vn, "the validator compares the store's update policy (and value type) with every expected value and rejects a mismatch", fmt.Sprintf("policy comparisons %d, value-type comparisons %d (want %d)", cmpPol, cmpVT, wantVT), p.Pos(fn.Pos()))
	}
	// Merge coverage
	fd, pk := p.FuncDecl(pkgStore, "baseStore.Merge")
	var outer *core.SwitchInfo
	sws := core.SwitchesIn(pk, fd.Body)
	for _, s := range sws {
		if t := s.TagType(pk); t != nil && types.Identical(t, policyT) {
			outer = s
			break
		}
	}
	if outer == nil {
		core.Undecide("Merge: no switch over the update policy")
	}
	for _, c := range core.EnumConsts(policyT) {
		if strings.HasSuffix(c.Name(), "_UNSET") {
			continue
		}
		short := strings.TrimPrefix(c.Name(), "Module_KindStore_UPDATE_POLICY_")
		has := outer.AllLabels()[c.Name()]
		r.Check(has, "C02.R2", "Merge/policy/"+short, "Merge has a branch for update policy "+short, "no case for this policy", p.Pos(outer.Pos))
		if !has || len(admitted[short]) == 0 {
			continue
		}
		// inner switch on the value type inside that clause
		var clause *ast.CaseClause
		for i, ls := range outer.Labels {
			for _, l := range ls {
				if l == c.Name() {
					clause = outer.Clauses[i]
				}
			}
		}
		var inner *core.SwitchInfo
		for _, s := range sws {
			if s != outer && clause.Pos() <= s.Pos && s.Pos <= clause.End() && s.Tag != nil {
				if b, ok := s.TagType(pk).Underlying().(*types.Basic); ok && b.Kind() == types.String {
					inner = s
					break
				}
			}
		}
		if inner == nil {
			r.Fail("C02.R2", "Merge/"+short+"/valuetypes", "the branch dispatches on the value type", "no inner switch on the value type", p.Pos(clause.Pos()))
			continue
		}
		// labels are constant names; resolve to their string values
		vals := map[string]bool{}
		for _, cc := range inner.Clauses {
			for _, e := range cc.List {
				if tv, ok := pk.TypesInfo.Types[e]; ok && tv.Value != nil {
					vals[strings.Trim(tv.Value.ExactString(), `"`)] = true
				}
			}
		}
		var vts []string
		for v := range admitted[short] {
			vts = append(vts, v)
		}
		sort.Strings(vts)
		for _, v := range vts {
			r.Check(vals[v], "C02.R2", "Merge/"+short+"/"+v, fmt.Sprintf("Merge has a branch for (%s, %s), which the host interface admits", short, v), "no case for this value type", p.Pos(inner.Pos))
		}
		if short != "SET_SUM" {
			r.Check(inner.HasDefault, "C02.R2", "Merge/"+short+"/default", "an unsupported value type is an error, not a silent no-op", "no default case", p.Pos(inner.Pos))
		}
	}
	r.Check(outer.HasDefault, "C02.R2", "Merge/policy/default", "an unsupported policy is an error", "no default case", p.Pos(outer.Pos))
}

func isStringConst(c *ssa.Const) bool {
	b, ok := c.Type().Underlying().(*types.Basic)
	return ok && b.Info()&types.IsString != 0
}

// checkPartialOverrides (C02.R5 / C09.R3): every baseStore method through
// which a DELETE_PREFIX operation can enter kvOps must be overridden by
// PartialKV with a method that also writes DeletedPrefixes.
func checkPartialOverrides(p *core.Prog, r *core.Report, rule string) {
	base := p.Named(pkgStore, "baseStore")
	partial := p.Named(pkgStore, "PartialKV")
	kvOps := p.Field(pkgStore, "baseStore", "kvOps")
	delPref := p.Field(pkgStore, "PartialKV", "DeletedPrefixes")
	recs := findRecorders(p)
	introducers := map[string]string{}
	for _, rc := range recs {
		if rc.Op == "Operation_DELETE_PREFIX" && rc.Fn.Signature.Recv() != nil {
			introducers[shortFn(rc.Fn)] = "records a DELETE_PREFIX operation"
		}
	}
	// wholesale assignment of kvOps from decoded bytes (replay)
	for i := 0; i < base.NumMethods(); i++ {
		m := base.Method(i)
		fn := p.SSA.FuncValue(m)
		if fn == nil || fn.Blocks == nil {
			continue
		}
		for _, w := range core.FieldWritesIn(fn, kvOps) {
			if w.Kind != core.WAssign {
				continue
			}
			// a fresh empty list (Reset / constructors) introduces nothing
			if al, ok := w.Value.(*ssa.Alloc); ok && len(core.LiteralFields(al)) == 0 {
				// empty literal unless it is filled by Unmarshal: check whether the alloc is passed to a call
				passed := false
				for _, ref := range *al.Referrers() {
					if c, ok := ref.(ssa.CallInstruction); ok {
						_ = c
						passed = true
					}
					if mi, ok := ref.(*ssa.MakeInterface); ok {
						for _, rr := range *mi.Referrers() {
							if _, ok := rr.(ssa.CallInstruction); ok {
								passed = true
							}
						}
					}
				}
				if !passed {
					continue
				}
			}
			introducers[m.Name()] = "replaces the operation list wholesale (replay of a recorded log, which may contain DELETE_PREFIX)"
		}
	}
	if len(introducers) == 0 {
		core.Undecide("no baseStore method introducing DELETE_PREFIX operations found")
	}
	var names []string
	for n := range introducers {
		names = append(names, n)
	}
	sort.Strings(names)
	for _, n := range names {
		var over *types.Func
		for i := 0; i < partial.NumMethods(); i++ {
			if partial.Method(i).Name() == n {
				over = partial.Method(i)
			}
		}
		desc := fmt.Sprintf("baseStore.%s %s; PartialKV overrides it and records the prefixes in DeletedPrefixes (otherwise the squashed store keeps keys the segment deleted)", n, introducers[n])
		if over == nil {
			r.Fail(rule, "PartialKV."+n, desc, "PartialKV does not override "+n+": the promoted baseStore method leaves DeletedPrefixes untouched", p.Pos(partial.Obj().Pos()))
			continue
		}
		fn := p.SSA.FuncValue(over)
		writes := core.MayDo(fn, func(in ssa.Instruction) bool {
			st, ok := in.(*ssa.Store)
			if !ok {
				return false
			}
			fa, ok := st.Addr.(*ssa.FieldAddr)
			return ok && core.FieldOfAddr(fa) == delPref
		}, 2)
		r.Check(writes, rule, "PartialKV."+n, desc, "the override never writes DeletedPrefixes", p.Pos(fn.Pos()))
		if !writes {
			continue
		}
		// every deleted prefix is recorded unless that exact prefix (or a covering one) already is
		pr := &prefixRec{p: p, delPref: delPref, seen: p.Field(pkgStore, "PartialKV", "seen")}
		complete := "each prefix deleted through PartialKV." + n + " is appended to DeletedPrefixes on every path, except when that exact prefix was already recorded (seen) or is covered by a recorded one (strings.HasPrefix(new, recorded))"
		if len(fn.Params) >= 3 && isStringType(fn.Params[2].Type()) {
			// DeletePrefix(ord, prefix)
			prm := fn.Params[2]
			ok, hit := pr.records(fn, nil, func(v ssa.Value) bool { return v == ssa.Value(prm) }, nil, 2)
			d := ""
			if !ok {
				d = "a return is reachable without recording the prefix: " + p.Pos(core.InstrPos(hit))
			}
			r.Check(ok, rule, "PartialKV."+n+"/complete", complete, d, p.Pos(fn.Pos()))
			continue
		}
		// replay form: a loop over decoded operations; for every operation of kind DELETE_PREFIX its Key is recorded
		opT := p.Named(pkgPBInt, "Operation")
		keyF, typeF := core.FieldOf(opT, "Key"), core.FieldOf(opT, "Type")
		delConst := ""
		for _, c := range core.EnumConsts(p.Named(pkgPBInt, "Operation_Type")) {
			if c.Name() == "Operation_DELETE_PREFIX" {
				delConst = c.Val().ExactString()
			}
		}
		found := false
		okAll := true
		detail := ""
		core.Instrs(fn, func(in ssa.Instruction) {
			ifi, isIf := in.(*ssa.If)
			if !isIf {
				return
			}
			isType := func(v ssa.Value) bool { f, _ := core.LoadedField(v); return f == typeF }
			isDel := func(v ssa.Value) bool {
				k, ok := v.(*ssa.Const)
				return ok && k.Value != nil && k.Value.ExactString() == delConst
			}
			onT, onF, okc := core.CondRelation(ifi.Cond, isType, isDel)
			if !okc {
				return
			}
			var start *ssa.BasicBlock
			if onT == core.OrdEQ {
				start = ifi.Block().Succs[0]
			} else if onF == core.OrdEQ {
				start = ifi.Block().Succs[1]
			} else {
				return
			}
			found = true
			// the operation whose type was tested
			var opVal ssa.Value
			if bo, ok := ifi.Cond.(*ssa.BinOp); ok {
				_, opVal = core.LoadedField(bo.X)
			}
			isKey := func(v ssa.Value) bool {
				f, base := core.LoadedField(v)
				return f == keyF && (opVal == nil || base == opVal)
			}
			// per iteration: stop at the loop header
			var header ssa.Instruction
			for _, l := range core.Loops(fn) {
				if l.Body[ifi.Block()] {
					header = l.Header.Instrs[0]
				}
			}
			stop := func(x ssa.Instruction) bool { return header != nil && x == header }
			first := start.Instrs[0]
			// `first` itself may be the record
			if ok2, hit := pr.recordsFromBlock(fn, first, isKey, stop); !ok2 {
				okAll = false
				detail = "the next operation / return is reachable without recording the deleted prefix: " + p.Pos(core.InstrPos(hit))
			}
		})
		if !found {
			okAll = false
			detail = "no test of the operation kind against DELETE_PREFIX found"
		}
		r.Check(okAll, rule, "PartialKV."+n+"/complete", complete, detail, p.Pos(fn.Pos()))
		// and the replay itself is delegated to the base implementation
		base := p.FuncObj(pkgStore, "baseStore."+n)
		hit, okDel := core.MustReachAfter(fn, nil, core.IsCallTo(base), func(x ssa.Instruction) bool { return core.ReturnsNilError(x) })
		d := ""
		if !okDel {
			d = "success return without calling baseStore." + n + ": " + p.Pos(core.InstrPos(hit))
		}
		r.Check(okDel, rule, "PartialKV."+n+"/delegates", "the override still performs the base operation on every success path", d, p.Pos(fn.Pos()))
	}
	// DeletePrefix override delegates too
	if dp := p.Func(pkgStore, "PartialKV.DeletePrefix"); dp != nil {
		base := p.FuncObj(pkgStore, "baseStore.DeletePrefix")
		_, okDel := core.MustReachAfter(dp, nil, core.IsCallTo(base), nil)
		r.Check(okDel, rule, "PartialKV.DeletePrefix/delegates", "the override still records the DELETE_PREFIX operation through baseStore.DeletePrefix on every path", "a return is reachable without the base call", p.Pos(dp.Pos()))
	}
}

func isStringType(t types.Type) bool {
	b, ok := t.Underlying().(*types.Basic)
	return ok && b.Info()&types.IsString != 0
}

// checkSaveLoadSymmetry (C02.R6 / C10.R2).
func checkSaveLoadSymmetry(p *core.Prog, r *core.Report, rule string) {
	sd := p.Named(pkgMarsh, "StoreData")
	type pair struct {
		typ              string
		wantSave, wantLd []string
	}
	for _, pr := range []pair{
		{"FullKV", []string{"Kv"}, []string{"kv", "totalSizeBytes"}},
		{"PartialKV", []string{"DeletePrefixes", "Kv"}, []string{"DeletedPrefixes", "kv", "totalSizeBytes"}},
	} {
		save := p.Func(pkgStore, pr.typ+".Save")
		load := p.Func(pkgStore, pr.typ+".Load")
		r.Touch(core.FuncName(save), core.FuncName(load))
		// Save: fields of the StoreData literal and where they come from
		var saved []string
		srcOK := true
		for _, al := range core.AllocsOf(save, sd) {
			for f, vs := range core.LiteralFields(al) {
				saved = append(saved, f)
				for _, v := range vs {
					lf, _ := core.LoadedField(v)
					want := map[string]string{"Kv": "kv", "DeletePrefixes": "DeletedPrefixes"}[f]
					if lf == nil || lf.Name() != want {
						srcOK = false
					}
				}
			}
		}
		sort.Strings(saved)
		r.Check(strings.Join(saved, ",") == strings.Join(pr.wantSave, ",") && srcOK, rule, pr.typ+".Save/fields",
			fmt.Sprintf("%s.Save writes StoreData{%s} from the store's own fields", pr.typ, strings.Join(pr.wantSave, ",")), fmt.Sprintf("writes %v (sources ok: %v)", saved, srcOK), p.Pos(save.Pos()))
		// Load: store fields assigned from the unmarshalled StoreData
		restored := map[string]string{}
		core.InstrsDeep(load, func(in ssa.Instruction) { // (the fields may be assigned by a helper that is handed the decoded values)
			st, ok := in.(*ssa.Store)
			if !ok {
				return
			}
			fa, ok := st.Addr.(*ssa.FieldAddr)
			if !ok {
				return
			}
			f := core.FieldOfAddr(fa)
			src := core.TraceFrom(load, st.Val, 0)
			for c := range src.Calls {
				if c.Name() == "Unmarshal" {
					from := "size"
					for sf := range src.Fields {
						if sf.Name() == "Kv" || sf.Name() == "DeletePrefixes" {
							from = sf.Name()
						}
					}
					restored[f.Name()] = from
				}
			}
		})
		var got []string
		for k := range restored {
			got = append(got, k)
		}
		sort.Strings(got)
		okMap := restored["kv"] == "Kv" && restored["totalSizeBytes"] == "size"
		if pr.typ == "PartialKV" {
			okMap = okMap && restored["DeletedPrefixes"] == "DeletePrefixes"
		}
		r.Check(strings.Join(got, ",") == strings.Join(pr.wantLd, ",") && okMap, rule, pr.typ+".Load/fields",
			fmt.Sprintf("%s.Load restores {%s} from the unmarshalled snapshot (each saved field is read back)", pr.typ, strings.Join(pr.wantLd, ",")), fmt.Sprintf("restores %v", restored), p.Pos(load.Pos()))
		// ... on every path that reports success: no early return between decoding and the last assignment
		for _, fname := range pr.wantLd {
			fname := fname
			isRestore := func(in ssa.Instruction) bool {
				st, ok := in.(*ssa.Store)
				if !ok {
					return false
				}
				fa, ok := st.Addr.(*ssa.FieldAddr)
				if !ok || core.FieldOfAddr(fa).Name() != fname {
					return false
				}
				if fname == "DeletedPrefixes" {
					return hasFieldNamed(core.Trace(st.Val, 0), "DeletePrefixes")
				}
				return true
			}
			q := core.PathQuery{Fn: load, CutInstr: isRestore}
			hit, reach := q.CanReach(nil, func(in ssa.Instruction) bool {
				rt, ok := in.(*ssa.Return)
				return ok && core.ReturnsNilError(rt)
			})
			where := ""
			if reach {
				where = p.Pos(hit.Pos())
			}
			r.Check(!reach, rule, pr.typ+".Load/"+fname+"/every-path", fmt.Sprintf("every path on which %s.Load reports success has restored %s (a snapshot holding only deleted prefixes, or no key at all, is restored like any other)", pr.typ, fname), "a success return is reachable without restoring the field "+where, p.Pos(load.Pos()))
		}
		// both use the store's marshaller
		for _, fn := range []*ssa.Function{save, load} {
			usesOwn := false
			core.Instrs(fn, func(in ssa.Instruction) {
				c, ok := in.(*ssa.Call)
				if !ok || !c.Call.IsInvoke() {
					return
				}
				if c.Call.Method.Name() == "Marshal" || c.Call.Method.Name() == "Unmarshal" {
					if f, _ := core.LoadedField(c.Call.Value); f != nil && f.Name() == "marshaller" {
						usesOwn = true
					}
				}
			})
			r.Check(usesOwn, rule, pr.typ+"."+shortFn(fn)+"/marshaller", "snapshots are written and read with the store's own marshaller", "marshaller not taken from the store", p.Pos(fn.Pos()))
		}
	}
}

// checkMergeKeySet (C02.R8): in every loop of Merge over the partial's keys, an iteration ends with the key written
// into the full store (setKV / setNewKV on that key) or with an error; the only way to leave a key untouched is the
// found-branch of a lookup of that same key in the full store (first-wins: it is already there).  A key skipped for
// any other reason (a zero sum, an empty value) exists after sequential execution but not after squashing.
func checkMergeKeySet(p *core.Prog, r *core.Report) {
	fn := p.Func(pkgStore, "baseStore.Merge")
	kvF := p.Field(pkgStore, "baseStore", "kv")
	setKV, setNew := p.FuncObj(pkgStore, "baseStore.setKV"), p.FuncObj(pkgStore, "baseStore.setNewKV")
	partial := fn.Params[1]
	loops := core.Loops(fn)
	count := map[string]int{}
	core.Instrs(fn, func(in ssa.Instruction) {
		rg, ok := in.(*ssa.Range)
		if !ok {
			return
		}
		f, base := core.LoadedField(rg.X)
		if f != kvF || !derivesFromParam(base, partial) {
			return
		}
		var next *ssa.Next
		for _, ref := range *rg.Referrers() {
			if n, ok := ref.(*ssa.Next); ok {
				next = n
			}
		}
		if next == nil {
			core.Undecide("Merge: range without Next")
		}
		var key, okv ssa.Value
		for _, ref := range *next.Referrers() {
			if ex, ok := ref.(*ssa.Extract); ok {
				switch ex.Index {
				case 0:
					okv = ex
				case 1:
					key = ex
				}
			}
		}
		var loop *core.Loop
		for _, l := range loops {
			if l.Header == next.Block() {
				loop = l
			}
		}
		if loop == nil || okv == nil {
			core.Undecide("Merge: loop of a range over the partial's keys not found")
		}
		ifi, isIf := next.Block().Instrs[len(next.Block().Instrs)-1].(*ssa.If)
		if !isIf || ifi.Cond != okv {
			core.Undecide("Merge: unexpected loop header shape")
		}
		body := next.Block().Succs[0]
		labels := p.CaseLabels(rg.Pos())
		base2 := "Merge/" + strings.Join(labels, "/")
		count[base2]++
		construct := fmt.Sprintf("%s/keys#%d", base2, count[base2])
		if key == nil {
			r.Fail("C02.R8", construct, "every key of the partial is written into the full store", "the loop does not use the key", p.Pos(rg.Pos()))
			return
		}
		// found-edges of lookups of the same key in the full store
		var foundEdges []core.Edge
		for b := range loop.Body {
			bi, ok := b.Instrs[len(b.Instrs)-1].(*ssa.If)
			if !ok {
				continue
			}
			c, neg := core.StripNot(bi.Cond)
			ex, ok := c.(*ssa.Extract)
			if !ok || ex.Index != 1 {
				continue
			}
			lk, ok := ex.Tuple.(*ssa.Lookup)
			if !ok || core.SkipConv(lk.Index) != key {
				continue
			}
			if f, base := core.LoadedField(lk.X); f != kvF || !derivesFromParam(base, fn.Params[0]) {
				continue
			}
			idx := 0
			if neg {
				idx = 1
			}
			foundEdges = append(foundEdges, core.Edge{From: b, Idx: idx})
		}
		isWrite := func(x ssa.Instruction) bool {
			if _, ok := x.(*ssa.Return); ok {
				return true
			}
			c := core.CalleeOf(x)
			if c != setKV && c != setNew {
				// a helper of the package that receives the key and writes it on every path on which it succeeds
				ci, ok := x.(ssa.CallInstruction)
				if !ok {
					return false
				}
				h := core.StaticFn(ci.Common())
				if h == nil || h.Blocks == nil || h.Pkg != fn.Pkg {
					return false
				}
				for i, a := range ci.Common().Args {
					if core.SkipConv(a) != key || i >= len(h.Params) {
						continue
					}
					hp := h.Params[i]
					writes := func(y ssa.Instruction) bool {
						hc := core.CalleeOf(y)
						if hc != setKV && hc != setNew {
							return false
						}
						ha := y.(ssa.CallInstruction).Common().Args
						return len(ha) >= 2 && core.SkipConv(ha[1]) == ssa.Value(hp)
					}
					var exit func(ssa.Instruction) bool
					if res := h.Signature.Results(); res.Len() > 0 && isErrorTyped(res.At(res.Len()-1).Type()) {
						exit = func(y ssa.Instruction) bool { return core.ReturnsNilError(y) }
					}
					if _, must := core.MustReachAfter(h, nil, writes, exit); must {
						return true
					}
				}
				return false
			}
			args := x.(ssa.CallInstruction).Common().Args
			return len(args) >= 2 && core.SkipConv(args[1]) == key
		}
		if isWrite(body.Instrs[0]) {
			r.Pass("C02.R8", construct, "every key of the partial is written into the full store on every path of its iteration (or the merge fails); a key is left alone only when a lookup found it already present", p.Pos(rg.Pos()))
			return
		}
		q := core.PathQuery{Fn: fn, CutInstr: isWrite, CutEdge: func(e core.Edge) bool { return containsEdge(foundEdges, e) }}
		hit, reach := q.CanReach(body.Instrs[0], func(x ssa.Instruction) bool { return x == next.Block().Instrs[0] })
		_ = hit
		r.Check(!reach, "C02.R8", construct, "every key of the partial is written into the full store on every path of its iteration (or the merge fails); a key is left alone only when a lookup found it already present", "an iteration can end without writing its key although the key was not found in the full store", p.Pos(rg.Pos()))
	})
}

// derivesFromParam: v is the parameter itself or an (embedded) field path loaded from it.
func derivesFromParam(v ssa.Value, prm *ssa.Parameter) bool {
	for i := 0; i < 4 && v != nil; i++ {
		if v == ssa.Value(prm) {
			return true
		}
		switch x := v.(type) {
		case *ssa.UnOp:
			if fa, ok := x.X.(*ssa.FieldAddr); ok {
				v = fa.X
				continue
			}
		case *ssa.FieldAddr:
			v = x.X
			continue
		case *ssa.Field:
			v = x.X
			continue
		}
		return false
	}
	return false
}

// numericDomain classifies the arithmetic a function performs from the parsing / arithmetic routines it calls
// (following same-package helpers up to the given depth).
func numericDomain(fn *ssa.Function, depth int) string {
	doms := map[string]bool{}
	var visit func(f *ssa.Function, d int)
	seen := map[*ssa.Function]bool{}
	visit = func(f *ssa.Function, d int) {
		if f == nil || seen[f] || len(f.Blocks) == 0 {
			return
		}
		seen[f] = true
		core.Instrs(f, func(in ssa.Instruction) {
			ci, ok := in.(ssa.CallInstruction)
			if !ok {
				return
			}
			cl := core.CommonCallee(ci.Common())
			if cl == nil || cl.Pkg() == nil {
				return
			}
			path, nm := cl.Pkg().Path(), cl.Name()
			recv := ""
			if sig, ok := cl.Type().(*types.Signature); ok && sig.Recv() != nil {
				recv = sig.Recv().Type().String()
			}
			switch {
			case path == "strconv" && (nm == "ParseInt" || nm == "FormatInt" || nm == "Atoi"):
				doms["int64"] = true
			case path == "strconv" && (nm == "ParseFloat" || nm == "FormatFloat"):
				doms["float64"] = true
			case path == "math/big" && (strings.Contains(recv, "big.Int") || nm == "NewInt"):
				doms["bigint"] = true
			case strings.Contains(path, "shopspring/decimal"):
				doms["bigdecimal"] = true
			case path == "math/big" && (strings.Contains(recv, "big.Float") || nm == "NewFloat"):
				doms["bigfloat"] = true
			}
			if d > 0 && fn.Pkg != nil && cl.Pkg() == fn.Pkg.Pkg {
				if sf := core.StaticFn(ci.Common()); sf != nil && sf != fn {
					// generic store plumbing (set, GetAt ...) carries no arithmetic
					visit(sf, d-1)
				}
			}
		})
	}
	visit(fn, depth)
	var out []string
	for k := range doms {
		out = append(out, k)
	}
	sort.Strings(out)
	if len(out) == 0 {
		return "none"
	}
	return strings.Join(out, "+")
}

// checkMinMaxAbsentKey (C02.R4): under MIN/MAX, a key that is not yet in the full store takes the partial's value as
// it is; the combiner is applied only to a value that was found.  Combining with a default (zero) turns a negative
// maximum into 0 (or a positive minimum into 0) for keys first written in a later segment.
func checkMinMaxAbsentKey(p *core.Prog, r *core.Report) {
	fn := p.Func(pkgStore, "baseStore.Merge")
	kvF := p.Field(pkgStore, "baseStore", "kv")
	n := 0
	core.Instrs(fn, func(in ssa.Instruction) {
		rg, ok := in.(*ssa.Range)
		if !ok {
			return
		}
		f, base := core.LoadedField(rg.X)
		if f != kvF || !derivesFromParam(base, fn.Params[1]) {
			return
		}
		labels := p.CaseLabels(rg.Pos())
		isMinMax := false
		for _, l := range labels {
			if strings.HasSuffix(l, "UPDATE_POLICY_MIN") || strings.HasSuffix(l, "UPDATE_POLICY_MAX") {
				isMinMax = true
			}
		}
		if !isMinMax {
			return
		}
		n++
		construct := "Merge/" + strings.Join(labels, "/") + "/absent-key"
		var next *ssa.Next
		for _, ref := range *rg.Referrers() {
			if x, ok := ref.(*ssa.Next); ok {
				next = x
			}
		}
		var key, val ssa.Value
		for _, ref := range *next.Referrers() {
			if ex, ok := ref.(*ssa.Extract); ok {
				switch ex.Index {
				case 1:
					key = ex
				case 2:
					val = ex
				}
			}
		}
		var loop *core.Loop
		for _, l := range core.Loops(fn) {
			if l.Header == next.Block() {
				loop = l
			}
		}
		if loop == nil || key == nil || val == nil {
			core.Undecide("Merge: MIN/MAX loop shape not recognised")
		}
		// found / not-found edges of the lookup of this key in the full store
		var foundE, absentE []core.Edge
		for b := range loop.Body {
			bi, ok := b.Instrs[len(b.Instrs)-1].(*ssa.If)
			if !ok {
				continue
			}
			c, neg := core.StripNot(bi.Cond)
			ex, ok := c.(*ssa.Extract)
			if !ok || ex.Index != 1 {
				continue
			}
			lk, ok := ex.Tuple.(*ssa.Lookup)
			if !ok || core.SkipConv(lk.Index) != key {
				continue
			}
			if f, base := core.LoadedField(lk.X); f != kvF || !derivesFromParam(base, fn.Params[0]) {
				continue
			}
			fi := 0
			if neg {
				fi = 1
			}
			foundE = append(foundE, core.Edge{From: b, Idx: fi})
			absentE = append(absentE, core.Edge{From: b, Idx: 1 - fi})
		}
		// the combiner: a call of a local closure with two arguments inside the loop
		var combine []ssa.Instruction
		for b := range loop.Body {
			for _, x := range b.Instrs {
				if c, ok := x.(*ssa.Call); ok {
					if _, isClosure := c.Call.Value.(*ssa.MakeClosure); isClosure && len(c.Call.Args) == 2 {
						combine = append(combine, x)
					}
					if fnv, isFn := c.Call.Value.(*ssa.Function); isFn && fnv.Parent() == fn && len(c.Call.Args) == 2 {
						combine = append(combine, x)
					}
					if bi, isB := c.Call.Value.(*ssa.Builtin); isB && (bi.Name() == "min" || bi.Name() == "max") && len(c.Call.Args) == 2 {
						combine = append(combine, x)
					}
				}
			}
		}
		okCombine := len(foundE) > 0 && len(combine) > 0
		q := core.PathQuery{Fn: fn, CutEdge: func(e core.Edge) bool { return containsEdge(foundE, e) }}
		for _, c := range combine {
			c := c
			if _, reach := q.CanReach(next.Block().Succs[0].Instrs[0], func(x ssa.Instruction) bool { return x == c }); reach {
				okCombine = false
			}
		}
		// on the not-found edge the value written is the partial's own value
		okRaw := false
		for _, e := range absentE {
			b := e.From.Succs[e.Idx]
			for _, x := range b.Instrs {
				if c := core.CalleeOf(x); c != nil && (c.Name() == "setNewKV" || c.Name() == "setKV") {
					args := x.(ssa.CallInstruction).Common().Args
					if len(args) >= 3 && core.SkipConv(args[1]) == key {
						sl := core.OperandSlice(args[2])
						bad := false
						for v := range sl {
							if lk, ok := v.(*ssa.Lookup); ok {
								if f, _ := core.LoadedField(lk.X); f == kvF {
									bad = true
								}
							}
							for _, c := range combine {
								if cv, ok := c.(ssa.Value); ok && cv == v {
									bad = true
								}
							}
						}
						if !sl[val] || bad {
							continue
						}
						okRaw = true
					}
				}
			}
		}
		r.Check(okCombine && okRaw, "C02.R4", construct, "a key absent from the full store takes the partial's value unchanged; min/max is only computed against a value that was found (never against a default)", fmt.Sprintf("combiner only behind the found edge: %v; absent key written with the partial's raw value: %v", okCombine, okRaw), p.Pos(rg.Pos()))
	})
	if n < 8 {
		core.Undecide("Merge: only %d MIN/MAX loops found (expected 8)", n)
	}
}
