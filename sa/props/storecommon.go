package props

import (
	"fmt"
	"go/types"
	"sort"
	"strings"

	"golang.org/x/tools/go/ssa"

	"verif/sa/core"
)

const (
	pkgStore   = "storage/store"
	pkgPBV1    = "pb/sf/substreams/v1"
	pkgPBInt   = "pb/sf/substreams/intern/v2"
	pkgPipe    = "pipeline"
	pkgExec    = "pipeline/exec"
	pkgStage   = "orchestrator/stage"
	pkgSched   = "orchestrator/scheduler"
	pkgWork    = "orchestrator/work"
	pkgLoop    = "orchestrator/loop"
	pkgPlan    = "orchestrator/plan"
	pkgOExec   = "orchestrator/execout"
	pkgExecout = "storage/execout"
	pkgIndex   = "storage/index"
	pkgMani    = "manifest"
	pkgBlock   = "block"
	pkgSvc     = "service"
	pkgSqe     = "sqe"
	pkgWasm    = "wasm"
	pkgCache   = "pipeline/cache"
	pkgMarsh   = "storage/store/marshaller"
	pkgPBOut   = "storage/execout/pb"
	pkgReqctx  = "reqctx"
	pkgState   = "storage/store/state"
)

// isStoreDeltaPtr tells whether t is *pbsubstreams.StoreDelta.
func isStoreDeltaPtr(p *core.Prog, t types.Type) bool {
	ptr, ok := t.(*types.Pointer)
	if !ok {
		return false
	}
	n, ok := ptr.Elem().(*types.Named)
	if !ok {
		return false
	}
	return n.Obj() == p.Named(pkgPBV1, "StoreDelta").Obj()
}

// deltaPath is the effect of one feasible path of a delta interpreter.
type deltaPath struct {
	Case string // CREATE / UPDATE / DELETE / default / "" (no dispatch)
	Map  string // canonical map effects, e.g. "kv[δ.Key]=δ.NewValue"
	Size core.Lin
	Eqs  [][2]string // atoms the path conditions force equal
	End  string
	Cond string
}

// summarizeDeltaInterp summarises ApplyDelta-like code: for each feasible,
// non-panicking path, the enum case of δ.Operation it dispatches on, the kv
// effect and the totalSizeBytes polynomial.  perIteration: analyse one
// iteration of the loop that indexes the []*StoreDelta parameter.
func summarizeDeltaInterp(p *core.Prog, fn *ssa.Function, perIteration bool) []deltaPath {
	kv := p.Field(pkgStore, "baseStore", "kv")
	size := p.Field(pkgStore, "baseStore", "totalSizeBytes")
	cfg := &core.SymConfig{
		Fn:        fn,
		Inline:    2, // the sizes of a delta may be computed by a small helper of the package
		IntFields: map[*types.Var]string{size: "size"},
		MapFields: map[*types.Var]string{kv: "kv"},
		Root: func(v ssa.Value) (string, bool) {
			if isStoreDeltaPtr(p, v.Type()) {
				return "δ", true
			}
			return "", false
		},
	}
	if perIteration {
		loops := core.LoopIndexing(fn, func(v ssa.Value) bool {
			s, ok := v.Type().Underlying().(*types.Slice)
			return ok && isStoreDeltaPtr(p, s.Elem())
		})
		if len(loops) != 1 {
			core.Undecide("%s: expected exactly one loop over the deltas slice, found %d", core.FuncName(fn), len(loops))
		}
		cfg.Start = loops[0].Header
		cfg.StopAt = loops[0].Header
	}
	paths := core.Summarize(cfg)
	var out []deltaPath
	opType := p.Named(pkgPBV1, "StoreDelta_Operation")
	names := map[string]string{}
	for _, c := range core.EnumConsts(opType) {
		names[c.Val().ExactString()] = strings.TrimPrefix(c.Name(), "StoreDelta_")
	}
	for _, ps := range paths {
		if ps.End == "panic" {
			continue
		}
		feasible, eqs := ps.AtomEqualities()
		if !feasible || !ps.ConstFeasible() { // (the delta's own fields are only read here: two tests of δ.Operation agree)
			continue
		}
		dp := deltaPath{Eqs: eqs, End: ps.End}
		val, isDef, ok := ps.EnumCase("δ.Operation")
		if ok {
			dp.Case = "default"
			if !isDef {
				dp.Case = names[val]
				if dp.Case == "" {
					dp.Case = "const(" + val + ")"
				}
			}
		}
		sz, has := ps.Ints["size"]
		if !has {
			sz = core.LinConst(0)
		}
		dp.Size = sz
		var ms []string
		for _, m := range ps.Maps {
			ms = append(ms, m.String())
		}
		dp.Map = strings.Join(ms, ";")
		var cs []string
		for _, c := range ps.Conds {
			cs = append(cs, c.String())
		}
		dp.Cond = strings.Join(cs, " && ")
		out = append(out, dp)
	}
	sort.SliceStable(out, func(i, j int) bool { return out[i].Case < out[j].Case })
	return out
}

func lin(terms ...string) core.Lin {
	l := core.LinConst(0)
	for _, t := range terms {
		sign := int64(1)
		if strings.HasPrefix(t, "-") {
			sign = -1
			t = t[1:]
		} else if strings.HasPrefix(t, "+") {
			t = t[1:]
		}
		l = l.Add(core.LinAtom(t), sign)
	}
	return l
}

// deltaSpec: the effect table derived from the property statement
// "size = Σ len(key)+len(value)" and the meaning of the three delta kinds.
var deltaSpecApply = map[string]struct {
	Map  string
	Size []string
}{
	"CREATE": {"kv[δ.Key]=δ.NewValue", []string{"len(δ.Key)", "len(δ.NewValue)"}},
	"UPDATE": {"kv[δ.Key]=δ.NewValue", []string{"len(δ.NewValue)", "-len(δ.OldValue)"}},
	"DELETE": {"delete(kv,δ.Key)", []string{"-len(δ.Key)", "-len(δ.OldValue)"}},
}

var deltaSpecReverse = map[string]struct {
	Map  string
	Size []string
}{
	"CREATE": {"delete(kv,δ.Key)", []string{"-len(δ.Key)", "-len(δ.NewValue)"}},
	"UPDATE": {"kv[δ.Key]=δ.OldValue", []string{"-len(δ.NewValue)", "len(δ.OldValue)"}},
	"DELETE": {"kv[δ.Key]=δ.OldValue", []string{"len(δ.Key)", "len(δ.OldValue)"}},
}

// checkDeltaEffects emits one obligation per delta kind for the given interpreter.
func checkDeltaEffects(p *core.Prog, r *core.Report, rule string, fnName string, perIter bool, spec map[string]struct {
	Map  string
	Size []string
}) {
	fn := p.Func(pkgStore, fnName)
	r.Touch(core.FuncName(fn))
	// the per-delta interpretation may live in a helper that the function calls for each delta (body of the loop
	// extracted): analyse the helper as one iteration
	kvF, sizeF := p.Field(pkgStore, "baseStore", "kv"), p.Field(pkgStore, "baseStore", "totalSizeBytes")
	if len(core.FieldWritesIn(fn, kvF))+len(core.FieldWritesIn(fn, sizeF)) == 0 {
		var helper *ssa.Function
		for _, m := range core.Family(fn, 1) {
			if m == fn || m.Parent() != nil || len(core.FieldWritesIn(m, kvF))+len(core.FieldWritesIn(m, sizeF)) == 0 {
				continue
			}
			takesDelta := false
			for _, prm := range m.Params {
				if isStoreDeltaPtr(p, prm.Type()) {
					takesDelta = true
				}
			}
			if takesDelta {
				if helper != nil {
					helper = nil
					break
				}
				helper = m
			}
		}
		if helper != nil {
			fn, perIter = helper, false
			r.Touch(core.FuncName(fn))
		}
	}
	paths := summarizeDeltaInterp(p, fn, perIter)
	for _, k := range []string{"CREATE", "UPDATE", "DELETE"} {
		construct := fnName + "/" + k
		want := lin(spec[k].Size...)
		desc := fmt.Sprintf("on every path, a %s delta has kv effect %s and size effect %s", k, spec[k].Map, want)
		n := 0
		var bad []string
		for _, dp := range paths {
			if dp.Case != k {
				continue
			}
			n++
			if dp.Map != spec[k].Map {
				bad = append(bad, fmt.Sprintf("kv effect is %q (path: %s)", dp.Map, dp.Cond))
			}
			a, b := dp.Size, want
			for _, q := range dp.Eqs {
				a, b = a.Subst(q[0], q[1]), b.Subst(q[0], q[1])
			}
			if !a.Equal(b) {
				bad = append(bad, fmt.Sprintf("size effect is %s (path: %s)", dp.Size, dp.Cond))
			}
		}
		if n == 0 {
			r.Fail(rule, construct, desc, "no path handles this delta kind", p.Pos(fn.Pos()))
			continue
		}
		r.Check(len(bad) == 0, rule, construct, desc, strings.Join(bad, "; "), p.Pos(fn.Pos()))
	}
	var other []string
	for _, dp := range paths {
		if dp.Case == "CREATE" || dp.Case == "UPDATE" || dp.Case == "DELETE" {
			continue
		}
		if dp.Map != "" || !dp.Size.IsZero() {
			other = append(other, fmt.Sprintf("case %q: kv %q size %s", dp.Case, dp.Map, dp.Size))
		}
	}
	r.Check(len(other) == 0, rule, fnName+"/other", "no kv/size effect outside the three delta kinds", strings.Join(other, "; "), p.Pos(fn.Pos()))
}
