package props

import (
	"fmt"
	"go/token"
	"go/types"
	"strings"

	"golang.org/x/tools/go/ssa"

	"verif/sa/core"
)

func init() {
	register("C04", &Def{
		Title:     "Each requested block is delivered once, in order; streams resume from cursors",
		Run:       runC04,
		Technique: "static analysis: comparison normal form of the clip guards, must-pass-through/dominance of the stop test and of the error test before any send, edge-cut rule for unconditional delivery behind the gate, provenance of cursor/clock/final-height of each message, sort comparator classification",
		Explanation: "(R1) cached items are sent from File.SortedItems() (ascending by block number), items below the range start are skipped and the walk ends at the first item at or beyond the exclusive end, both guards dominating the send; " +
			"(R2) in the linear phase the stop-block test (stop ≠ 0 ∧ n ≥ stop → EOF) precedes any module execution or send; " +
			"(R3) nothing is sent after an error: the send is only reachable when executeModules returned nil, and processBlock returns immediately on a non-EOF error of handleStepNew; " +
			"(R4) once the gate is open every block is delivered, empty or not (no condition on the output between the open gate and the send for tier-1 requests), and the gate opens at the first new block ≥ LinearGateBlockNum; " +
			"(R5) a message's cursor, clock and final height belong together (cursor.ToOpaque(), clock, cursor.LIB.Num(); for cached items all three derive from the item itself); " +
			"(R6) a final cursor resumes at the next block, a step-new cursor after its block, a step-undo cursor at its block. Also (R6) the key of tier 1's failed-request memory is built from the request's start block, start cursor, stop block, mode and final-blocks-only. Also (R5) the error-discipline contradiction rules (stale test, sentinel-only test, wrapped nil, value before ok) are silent on pipeline and service. Also (R1) the cached-output walk reports completion only with the file walker's IsDone().",
		NotCovered:  "Absence of duplicates/gaps across the hand-off for all configurations (depends on the C12/C13 arithmetic and on the external block stream), equality of a resumed stream with the original suffix.",
		Assumptions: []string{"sort.Slice sorts by the given less function", "bstream delivers blocks of the linear phase in order from the hand-off block"},
	})
}

func runC04(p *core.Prog, r *core.Report) {
	// ------------------------------------------------------------------ R1
	r.Guard("C04.R1", "walker", "sorted and clipped", func() {
		cmd := p.Func(pkgOExec, "Walker.CmdDownloadCurrentSegment")
		send := p.FuncObj(pkgOExec, "Walker.sendItems")
		sorted := p.FuncObj(pkgExecout, "File.SortedItems")
		n := 0
		for _, f := range core.WithClosures(cmd) {
			for _, c := range core.FindInstrs(f, core.IsCallTo(send)) {
				n++
				arg := c.(ssa.CallInstruction).Common().Args[1]
				call, ok := arg.(*ssa.Call)
				r.Check(ok && core.CommonCallee(call.Common()) == sorted, "C04.R1", "sendItems/argument", "the items handed to sendItems are File.SortedItems() of the loaded file", "argument is not a SortedItems() call", p.Pos(c.Pos()))
			}
		}
		if n != 1 {
			core.Undecide("expected one sendItems call in CmdDownloadCurrentSegment, found %d", n)
		}
		// other callers of sendItems
		cs := callersOf(p, send)
		r.Check(len(cs) == 1, "C04.R1", "sendItems/callers", "sendItems has a single caller (the segment download command)", fmt.Sprintf("callers: %v", cs))

		// SortedItems: sort ascending by BlockNum
		sf := p.Func(pkgExecout, "File.SortedItems")
		r.Touch(core.FuncName(sf))
		item := p.Named(pkgPBOut, "Item")
		bn := core.FieldOf(item, "BlockNum")
		okSort := false
		for _, cl := range sf.AnonFuncs {
			// less(i, j): out[i].BlockNum < out[j].BlockNum
			core.Instrs(cl, func(in ssa.Instruction) {
				ret, ok := in.(*ssa.Return)
				if !ok || len(ret.Results) != 1 {
					return
				}
				bo, ok := ret.Results[0].(*ssa.BinOp)
				if !ok || bo.Op != token.LSS {
					return
				}
				fx, bx := core.LoadedField(bo.X)
				fy, by := core.LoadedField(bo.Y)
				if fx != bn || fy != bn {
					return
				}
				// bx is element i, by is element j
				ix := indexParam(bx)
				iy := indexParam(by)
				if ix != nil && iy != nil && ix == cl.Params[0] && iy == cl.Params[1] {
					okSort = true
				}
			})
		}
		usesSort := false
		core.Instrs(sf, func(in ssa.Instruction) {
			if c := core.CalleeOf(in); c != nil && sortFuncs[calleeKey(c)] {
				usesSort = true
			}
		})
		r.Check(okSort && usesSort, "C04.R1", "SortedItems/ascending", "SortedItems sorts the file's items ascending by block number (less(i,j) = items[i].BlockNum < items[j].BlockNum)", fmt.Sprintf("sort call=%v ascending comparator=%v", usesSort, okSort), p.Pos(sf.Pos()))
		// every item of the file is in the list
		mo := []*ssa.Function{sf}
		ml := findMapLoops(p, mo)
		r.Check(len(ml) == 1, "C04.R1", "SortedItems/all-items", "SortedItems collects every item of the file's map", fmt.Sprintf("%d map loops", len(ml)), p.Pos(sf.Pos()))

		// sendItems guards
		fn := p.Func(pkgOExec, "Walker.sendItems")
		r.Touch(core.FuncName(fn))
		rt := p.Named(pkgBlock, "Range")
		startF, endF := core.FieldOf(rt, "StartBlock"), core.FieldOf(rt, "ExclusiveEndBlock")
		bsd := p.FuncObj("orchestrator/response", "Stream.BlockScopedData")
		sends := core.FindInstrs(fn, core.IsCallTo(bsd))
		if len(sends) == 0 {
			core.Undecide("sendItems: no BlockScopedData send")
		}
		// every send site obeys the rules (a second, unguarded send path is a violation, not an unknown shape)
		sendIn := sends[0]
		isSend := func(x ssa.Instruction) bool {
			for _, sd := range sends {
				if x == sd {
					return true
				}
			}
			return false
		}
		isItemNum := func(v ssa.Value) bool { f, _ := core.LoadedField(core.SkipConv(v)); return f == bn }
		isF := func(f *types.Var) func(ssa.Value) bool {
			return func(v ssa.Value) bool { g, _ := core.LoadedField(core.SkipConv(v)); return g == f }
		}
		var startOK, endOK []core.Edge
		endStops := false
		core.InstrsDeep(fn, func(in ssa.Instruction) {
			ifi, ok := in.(*ssa.If)
			if !ok {
				return
			}
			if onT, onF, ok := core.CondRelation(ifi.Cond, isItemNum, isF(startF)); ok {
				// the edge on which item >= start
				if onT == core.OrdGT|core.OrdEQ {
					startOK = append(startOK, core.Edge{From: ifi.Block(), Idx: 0})
				} else if onF == core.OrdGT|core.OrdEQ {
					startOK = append(startOK, core.Edge{From: ifi.Block(), Idx: 1})
				}
			}
			if onT, onF, ok := core.CondRelation(ifi.Cond, isItemNum, isF(endF)); ok {
				// the edge on which item < end continues; the other edge returns
				var cont, stop int
				switch {
				case onT == core.OrdLT:
					cont, stop = 0, 1
				case onF == core.OrdLT:
					cont, stop = 1, 0
				default:
					return
				}
				endOK = append(endOK, core.Edge{From: ifi.Block(), Idx: cont})
				sb := ifi.Block().Succs[stop]
				if ret, ok := sb.Instrs[len(sb.Instrs)-1].(*ssa.Return); ok && core.ReturnsNilError(ret) {
					endStops = true
				}
			}
		})
		q1 := core.PathQuery{Fn: fn, CutEdge: func(e core.Edge) bool { return containsEdge(startOK, e) }}
		_, reach1 := q1.CanReach(nil, isSend)
		r.Check(len(startOK) > 0 && !reach1, "C04.R1", "sendItems/start-clip", "an item is sent only if its block number is >= the range start (items below are skipped)", "send reachable without the `item.BlockNum >= StartBlock` edge", p.Pos(sendIn.Pos()))
		q2 := core.PathQuery{Fn: fn, CutEdge: func(e core.Edge) bool { return containsEdge(endOK, e) }}
		_, reach2 := q2.CanReach(nil, isSend)
		r.Check(len(endOK) > 0 && !reach2 && endStops, "C04.R1", "sendItems/end-clip", "an item is sent only if its block number is < the exclusive end, and the first item at or beyond the end stops the walk", fmt.Sprintf("send reachable without the `< ExclusiveEndBlock` edge: %v; stop returns: %v", reach2, endStops), p.Pos(sendIn.Pos()))
		// the loop over the items is ascending and the sent message is built from the current item
		asc := true
		for _, sd := range sends {
			in := false
			for _, l := range core.Loops(fn) {
				site := core.SiteIn(fn, sd) // the send itself, or the call of the helper that sends
				if d, _ := l.InductionDir(); d == 1 && site != nil && l.Body[site.Block()] {
					in = true
				}
			}
			asc = asc && in
		}
		r.Check(asc, "C04.R1", "sendItems/order", "items are sent in the order of the sorted list (ascending range)", "loop is not an ascending range", p.Pos(fn.Pos()))
		okItem := true
		okErr := true
		for _, sd := range sends {
			okItem = okItem && core.Trace(sd.(ssa.CallInstruction).Common().Args[1], 1).HasCall(p.FuncObj(pkgOExec, "toBlockScopedData"))
			okErr = okErr && core.ErrorTested(sd)
		}
		r.Check(okItem, "C04.R1", "sendItems/payload", "the message sent is toBlockScopedData of the current item", "sent value does not come from toBlockScopedData", p.Pos(sendIn.Pos()))
		// error of the send ends the walk
		r.Check(okErr, "C04.R1", "sendItems/send-error", "a failed send ends the walk with the error", "send error ignored", p.Pos(sendIn.Pos()))
	})

	// ------------------------------------------------------------------ R2 / R3 / R4 on handleStepNew
	r.Guard("C04.R2", "pending-undo", "pending undo sent once", func() { checkPendingUndoSentOnce(p, r, "C04.R2") })
	r.Guard("C04.R2", "gate-and-undo", "nothing below the start block", func() { checkGateAndUndo(p, r, "C04.R2") })
	r.GuardExact("C04.R1", "step-equality", "equality dispatch on steps covers new+irreversible", func() { checkStepEqualityCoversCombined(p, r, "C04.R1") })
	r.Guard("C04.R2", "handleStepNew", "stop test first", func() {
		fn := p.Func(pkgPipe, "Pipeline.handleStepNew")
		r.Touch(core.FuncName(fn))
		over := p.FuncObj(pkgPipe, "isBlockOverStopBlock")
		exec := p.FuncObj(pkgPipe, "Pipeline.executeModules")
		ret := p.FuncObj(pkgPipe, "returnModuleDataOutputs")
		overCalls := core.FindInstrs(fn, core.IsCallTo(over))
		if len(overCalls) != 1 {
			core.Undecide("handleStepNew: expected one isBlockOverStopBlock call")
		}
		oc := overCalls[0].(*ssa.Call)
		// the edge on which the block is NOT over the stop block
		var notOver []core.Edge
		eofOK := false
		for _, ref := range *oc.Referrers() {
			if ifi, ok := ref.(*ssa.If); ok {
				notOver = append(notOver, core.Edge{From: ifi.Block(), Idx: 1})
				tb := ifi.Block().Succs[0]
				if rt, ok := tb.Instrs[len(tb.Instrs)-1].(*ssa.Return); ok {
					v := core.ReturnValues(rt)[0]
					if u, ok := v.(*ssa.UnOp); ok {
						if g, ok := u.X.(*ssa.Global); ok && g.Name() == "EOF" {
							eofOK = true
						}
					}
				}
			}
		}
		for _, target := range []struct {
			obj  *types.Func
			name string
		}{{exec, "executeModules"}, {ret, "returnModuleDataOutputs"}} {
			q := core.PathQuery{Fn: fn, CutEdge: func(e core.Edge) bool { return containsEdge(notOver, e) }}
			_, reach := q.CanReach(nil, core.IsCallTo(target.obj))
			r.Check(len(notOver) > 0 && !reach, "C04.R2", "handleStepNew/stop-before-"+target.name, "a block at or beyond the stop block is never executed nor sent: "+target.name+" is reachable only when the stop test failed", target.name+" reachable without passing the stop test", p.Pos(oc.Pos()))
		}
		r.Check(eofOK, "C04.R2", "handleStepNew/stop-eof", "reaching the stop block ends the stream with io.EOF", "the over-stop branch does not return io.EOF", p.Pos(oc.Pos()))
		// arguments: clock.Number and the request's StopBlockNum
		a0 := core.Trace(oc.Call.Args[0], 0)
		a1 := core.Trace(oc.Call.Args[1], 0)
		r.Check(hasFieldNamed(a0, "Number") && hasFieldNamed(a1, "StopBlockNum"), "C04.R2", "handleStepNew/stop-args", "the stop test compares the block's own number with the request's stop block", "argument provenance differs", p.Pos(oc.Pos()))
		// normal form of isBlockOverStopBlock: stop != 0 && n >= stop
		of := p.Func(pkgPipe, "isBlockOverStopBlock")
		paths := core.Summarize(&core.SymConfig{Fn: of})
		cur, stop := of.Params[0].Name(), of.Params[1].Name()
		okNF := len(paths) > 0
		for _, ps := range paths {
			if len(ps.Results) != 1 {
				okNF = false
				continue
			}
			res := ps.Results[0]
			relStop0 := ps.RelationOf(stop, "0")
			relCur := ps.RelationOf(cur, stop)
			switch res {
			case "true":
				if relStop0&core.OrdEQ != 0 || relCur&core.OrdLT != 0 {
					okNF = false
				}
			case "false":
				if !(relStop0 == core.OrdEQ || relCur == core.OrdLT) {
					okNF = false
				}
			default:
				// returned expression: n >= stop under stop != 0
				if !(strings.Contains(res, ">=") && relStop0&core.OrdEQ == 0) {
					okNF = false
				}
			}
		}
		r.Check(okNF, "C04.R2", "isBlockOverStopBlock", "isBlockOverStopBlock(n, stop) is stop ≠ 0 ∧ n ≥ stop", "normal form differs", p.Pos(of.Pos()))

		// ---- R3
		execCalls := core.FindInstrs(fn, core.IsCallTo(exec))
		if len(execCalls) != 1 {
			core.Undecide("handleStepNew: expected one executeModules call")
		}
		ec := execCalls[0]
		// edge where the error of executeModules is nil
		var nilEdges []core.Edge
		core.InstrsDeep(fn, func(in ssa.Instruction) {
			ifi, ok := in.(*ssa.If)
			if !ok {
				return
			}
			c, neg := core.StripNot(ifi.Cond)
			bo, ok := c.(*ssa.BinOp)
			if !ok || (bo.Op != token.NEQ && bo.Op != token.EQL) {
				return
			}
			if core.ResolveCell(bo.X) != ssa.Value(ec.(*ssa.Call)) && bo.X != ssa.Value(ec.(*ssa.Call)) {
				return
			}
			if k, ok := bo.Y.(*ssa.Const); !ok || !k.IsNil() {
				return
			}
			nilIdx := 1
			if (bo.Op == token.EQL) != neg {
				nilIdx = 0
			}
			nilEdges = append(nilEdges, core.Edge{From: ifi.Block(), Idx: nilIdx})
		})
		q := core.PathQuery{Fn: fn, CutEdge: func(e core.Edge) bool { return containsEdge(nilEdges, e) }}
		_, reach := q.CanReach(ec, core.IsCallTo(ret))
		r.Check(len(nilEdges) > 0 && !reach, "C04.R3", "handleStepNew/send-after-success", "module outputs are sent only if executeModules returned no error", "returnModuleDataOutputs reachable on the error branch of executeModules", p.Pos(ec.Pos()))

		// ---- R4: once the gate is open, delivery is unconditional for tier-1
		sso := p.FuncObj(pkgPipe, "gate.shouldSendOutputs")
		gateCalls := core.FindInstrs(fn, core.IsCallTo(sso))
		if len(gateCalls) != 1 {
			core.Undecide("handleStepNew: expected one shouldSendOutputs call")
		}
		gc := gateCalls[0].(*ssa.Call)
		var open *ssa.BasicBlock
		for _, ref := range *gc.Referrers() {
			if ifi, ok := ref.(*ssa.If); ok {
				open = ifi.Block().Succs[0]
			}
		}
		if open == nil {
			core.Undecide("handleStepNew: gate test not found")
		}
		retCalls := core.FindInstrs(fn, core.IsCallTo(ret))
		if len(retCalls) != 1 {
			core.Undecide("handleStepNew: expected one returnModuleDataOutputs call")
		}
		// from the open-gate block every path to a success return passes the send
		hit, ok := core.MustReachAfter(fn, open.Instrs[0], func(x ssa.Instruction) bool { return x == retCalls[0] }, func(x ssa.Instruction) bool { return core.ReturnsNilError(x) && !returnsDeferredErr(x) })
		d := ""
		if !ok {
			d = "a success return is reachable with the gate open and nothing sent: " + p.Pos(core.InstrPos(hit))
		}
		if open.Instrs[0] == retCalls[0] {
			ok = true
		}
		r.Check(ok, "C04.R4", "handleStepNew/deliver-every-block", "with the gate open every processed block is delivered, whether or not the output module produced something", d, p.Pos(gc.Pos()))
		// an empty output is replaced by an empty message for non tier-2 requests: the Output argument may be nil only under IsTier2Request
		okEmpty := false
		out := retCalls[0].(ssa.CallInstruction).Common().Args[2]
		if ph, isPhi := out.(*ssa.Phi); isPhi {
			for _, e := range ph.Edges {
				if _, isAlloc := e.(*ssa.Alloc); isAlloc {
					okEmpty = true
				}
			}
		}
		r.Check(okEmpty, "C04.R4", "handleStepNew/empty-output", "a block without output is delivered with an empty output message rather than dropped", "no empty-output substitution found", p.Pos(retCalls[0].Pos()))
	})
	r.Guard("C04.R3", "processBlock", "errors stop processing", func() {
		fn := p.Func(pkgPipe, "Pipeline.processBlock")
		r.Touch(core.FuncName(fn))
		hsn := p.FuncObj(pkgPipe, "Pipeline.handleStepNew")
		hsf := p.FuncObj(pkgPipe, "Pipeline.handleStepFinal")
		n := 0
		for _, c := range core.FindInstrs(fn, core.IsCallTo(hsn)) {
			n++
			r.Check(core.ErrorTested(c), "C04.R3", fmt.Sprintf("processBlock/handleStepNew#%d", n), "the error of handleStepNew is tested and a non-EOF error is returned at once", "error not tested", p.Pos(c.Pos()))
		}
		if n == 0 {
			core.Undecide("processBlock: no handleStepNew call found")
		}
		// EOF is remembered and returned at the end; handleStepFinal still runs for a new-irreversible step
		okFinal := false
		for _, c := range core.FindInstrs(fn, core.IsCallTo(hsn)) {
			q := core.PathQuery{Fn: fn}
			if _, reach := q.CanReach(c, core.IsCallTo(hsf)); reach {
				okFinal = true
			}
		}
		r.Check(okFinal, "C04.R3", "processBlock/new-irreversible", "a new-irreversible step is handled as new, then as final", "handleStepFinal not reachable after handleStepNew", p.Pos(fn.Pos()))
	})
	r.Guard("C04.R4", "gate", "gate opening", func() {
		fn := p.Func(pkgPipe, "blockTriggersGate")
		r.Touch(core.FuncName(fn))
		paths := core.Summarize(&core.SymConfig{Fn: fn})
		bnum, start := fn.Params[0].Name(), fn.Params[1].Name()
		okNew := false
		for _, ps := range paths {
			isNew := false
			for _, c := range ps.Conds {
				if c.Op == "true" && !c.Neg && strings.HasPrefix(c.X, "Matches(") && strings.HasSuffix(c.X, ",1)") {
					isNew = true
				}
			}
			if !isNew || len(ps.Results) != 1 {
				continue
			}
			if strings.Contains(ps.Results[0], bnum+" >= "+start) {
				okNew = true
			}
		}
		r.Check(okNew, "C04.R4", "blockTriggersGate/new", "for a new block the gate opens iff blockNum >= the gate block", "comparison differs", p.Pos(fn.Pos()))
		ng := p.Func(pkgPipe, "newGate")
		okSrc := false
		for _, al := range allocsOrValuesOf(ng, p.Named(pkgPipe, "gate")) {
			for _, v := range al["startBlockNum"] {
				if hasFieldNamed(core.Trace(v, 0), "LinearGateBlockNum") {
					okSrc = true
				}
			}
		}
		r.Check(okSrc, "C04.R4", "newGate/start", "the gate block is the request's LinearGateBlockNum", "startBlockNum from another source", p.Pos(ng.Pos()))
		// the gate sees the step the block is processed with (after the final-blocks-only rewrite)
		pb := p.Func(pkgPipe, "Pipeline.ProcessBlock")
		r.Touch(core.FuncName(pb))
		gp := core.FindInstrs(pb, core.IsCallTo(p.FuncObj(pkgPipe, "gate.processBlock")))
		pp := core.FindInstrs(pb, core.IsCallTo(p.FuncObj(pkgPipe, "Pipeline.processBlock")))
		okStep := len(gp) == 1 && len(pp) == 1
		if okStep {
			ga := gp[0].(ssa.CallInstruction).Common().Args
			pa := pp[0].(ssa.CallInstruction).Common().Args
			gStep, pStep := ga[len(ga)-1], pa[len(pa)-2]
			okStep = gStep == pStep
		}
		r.Check(okStep, "C04.R4", "ProcessBlock/gate-step", "the gate is driven with the same step value the block is then processed with (an irreversible step rewritten to new-irreversible must open the gate too)", "gate.processBlock and Pipeline.processBlock receive different step values", p.Pos(pb.Pos()))
		// the block number given to the gate is the block's own number
		if len(gp) == 1 {
			src := core.Trace(gp[0].(ssa.CallInstruction).Common().Args[1], 0)
			r.Check(hasFieldNamed(src, "Number"), "C04.R4", "ProcessBlock/gate-block", "the gate is driven with the processed block's number", "other value", p.Pos(gp[0].Pos()))
		}
		// passed is monotone: only set to true
		g := p.Named(pkgPipe, "gate")
		passed := core.FieldOf(g, "passed")
		okMono := true
		for _, w := range core.FieldWrites(p.RepoFunctions(), passed) {
			if p.IsTestFunc(w.Fn) {
				continue
			}
			if k, ok := w.Value.(*ssa.Const); ok && k.Value != nil && k.Value.ExactString() == "true" {
				continue
			}
			// any other value may be stored only where the gate was just found closed (`if !g.passed { g.passed = … }`)
			var closedEdges []core.Edge
			core.Instrs(w.Fn, func(in ssa.Instruction) {
				ifi, ok := in.(*ssa.If)
				if !ok {
					return
				}
				c, neg := core.StripNot(ifi.Cond)
				if f, _ := core.LoadedField(c); f != passed {
					return
				}
				idx := 1 // the false edge of `if g.passed`
				if neg {
					idx = 0
				}
				closedEdges = append(closedEdges, core.Edge{From: ifi.Block(), Idx: idx})
			})
			q := core.PathQuery{Fn: w.Fn, CutEdge: func(e core.Edge) bool { return containsEdge(closedEdges, e) }, Inter: -1}
			if _, reach := q.CanReach(nil, func(x ssa.Instruction) bool { return x == w.Instr }); reach || len(closedEdges) == 0 {
				okMono = false
			}
		}
		r.Check(okMono, "C04.R4", "gate/monotone", "once open the gate never closes again (passed is only ever set to true)", "passed assigned something else", p.Pos(ng.Pos()))
	})

	// ------------------------------------------------------------------ R5
	r.Guard("C04.R5", "message", "cursor/clock/final height", func() {
		fn := p.Func(pkgPipe, "returnModuleDataOutputs")
		r.Touch(core.FuncName(fn))
		bsd := p.Named("pb/sf/substreams/rpc/v2", "BlockScopedData")
		var clockP, cursorP *ssa.Parameter
		for _, prm := range fn.Params {
			ts := prm.Type().String()
			if strings.HasSuffix(ts, "v1.Clock") {
				clockP = prm
			}
			if strings.HasSuffix(ts, "bstream.Cursor") {
				cursorP = prm
			}
		}
		if clockP == nil || cursorP == nil {
			core.Undecide("returnModuleDataOutputs: clock/cursor parameters not found")
		}
		for _, al := range core.AllocsOf(fn, bsd) {
			f := core.LiteralFields(al)
			ck := len(f["Clock"]) == 1 && f["Clock"][0] == ssa.Value(clockP)
			r.Check(ck, "C04.R5", "BlockScopedData.Clock", "the message carries the clock of the block being returned", "Clock is not the clock parameter", p.Pos(al.Pos()))
			cu := false
			if len(f["Cursor"]) == 1 {
				s := core.Trace(f["Cursor"][0], 0)
				for c := range s.Calls {
					if c.Name() == "ToOpaque" {
						cu = s.Params[cursorP] && !s.Params[clockP]
					}
				}
			}
			r.Check(cu, "C04.R5", "BlockScopedData.Cursor", "the message's cursor is the opaque form of the block's own cursor", "Cursor does not derive from cursor.ToOpaque()", p.Pos(al.Pos()))
			fh := false
			if len(f["FinalBlockHeight"]) == 1 {
				s := core.Trace(f["FinalBlockHeight"][0], 0)
				fh = s.Params[cursorP] && hasFieldNamed(s, "LIB")
			}
			r.Check(fh, "C04.R5", "BlockScopedData.FinalBlockHeight", "the final block height is the cursor's LIB number", "does not derive from cursor.LIB", p.Pos(al.Pos()))
		}
		// handleStepNew passes its own clock and cursor
		hs := p.Func(pkgPipe, "Pipeline.handleStepNew")
		for _, c := range core.FindInstrs(hs, core.IsCallTo(p.FuncObj(pkgPipe, "returnModuleDataOutputs"))) {
			args := c.(ssa.CallInstruction).Common().Args
			ok := core.OriginParam(args[0]) != nil && core.OriginParam(args[1]) != nil &&
				strings.HasSuffix(core.OriginParam(args[0]).Type().String(), "v1.Clock") && strings.HasSuffix(core.OriginParam(args[1]).Type().String(), "bstream.Cursor")
			r.Check(ok, "C04.R5", "handleStepNew/clock-cursor", "handleStepNew returns outputs with the clock and cursor it was called with", "clock/cursor arguments are not its own parameters", p.Pos(c.Pos()))
		}
		// cached items: everything from the item
		tb := p.Func(pkgOExec, "toBlockScopedData")
		r.Touch(core.FuncName(tb))
		var itemP *ssa.Parameter
		for _, prm := range tb.Params {
			if strings.HasSuffix(prm.Type().String(), ".Item") {
				itemP = prm
			}
		}
		for _, al := range core.AllocsOf(tb, bsd) {
			f := core.LiteralFields(al)
			for _, name := range []string{"Clock", "Cursor", "FinalBlockHeight"} {
				ok := false
				if len(f[name]) == 1 {
					s := core.Trace(f[name][0], 2)
					ok = s.Params[itemP] && len(s.Params) == 1
				}
				r.Check(ok, "C04.R5", "toBlockScopedData/"+name, "for a cached item, "+name+" derives from that item only (its own id and number)", "derives from something else", p.Pos(al.Pos()))
			}
		}
		// toClock maps id/number/timestamp field by field
		// (in toBlockScopedData or in a helper of its family, e.g. toClock)
		okClock := false
		for _, member := range core.Family(tb, 2) {
			for _, al := range core.AllocsOf(member, p.Named(pkgPBV1, "Clock")) {
				f := core.LiteralFields(al)
				okClock = fieldFrom(f["Id"], "BlockId") && fieldFrom(f["Number"], "BlockNum") && fieldFrom(f["Timestamp"], "Timestamp")
			}
		}
		r.Check(okClock, "C04.R5", "toClock", "an item's clock is (BlockId, BlockNum, Timestamp) of the item", "field mapping differs", p.Pos(tb.Pos()))
	})

	// ------------------------------------------------------------------ R6
	r.Guard("C04.R6", "resolveStartBlockNum", "cursor resolution", func() { checkCursorResolution(p, r, "C04.R6") })
	r.Guard("C04.R6", "failure-key", "failed-request memory keyed by the whole request", func() { checkFailureKeyCoversRequest(p, r, "C04.R6") })
	r.GuardExact("C04.R1", "walker-completion", "the walk ends with the last file", func() { checkWalkerCompletion(p, r, "C04.R1") })
	r.GuardExact("C04.R5", "error-discipline", "errors are tested where they are produced", func() {
		checkErrorDiscipline(p, r, "C04.R5", []string{"pipeline", "service"}, 100)
	})

	r.MinInstances("C04.R1", 9)
	r.MinInstances("C04.R2", 5)
	r.MinInstances("C04.R3", 3)
	checkTier1StreamBounds(p, r, "C04.R6")
	r.Guard("C04.R1", "walker-protocol", "one download at a time, every segment once", func() { checkWalkerProtocol(p, r, "C04.R1") })
	r.MinInstances("C04.R4", 7)
	r.MinInstances("C04.R5", 8)
}

func fieldFrom(vs []ssa.Value, field string) bool {
	if len(vs) != 1 {
		return false
	}
	f, _ := core.LoadedField(vs[0])
	return f != nil && f.Name() == field
}

// indexParam: v is a load of slice[idx] with idx a parameter → that parameter.
func indexParam(v ssa.Value) *ssa.Parameter {
	u, ok := v.(*ssa.UnOp)
	if !ok {
		return nil
	}
	ia, ok := u.X.(*ssa.IndexAddr)
	if !ok {
		return nil
	}
	prm, _ := ia.Index.(*ssa.Parameter)
	return prm
}

// returnsDeferredErr: placeholder for returns whose error is produced by a deferred function (none distinguished here).
func returnsDeferredErr(in ssa.Instruction) bool { return false }
