package props

import (
	"fmt"

	"golang.org/x/tools/go/ssa"

	"verif/sa/core"
)

// loopSite names a function all of whose loops must visit every element: the only ways out of a loop before its
// bound are an error return or a panic.  allow lists, by ordinal of the loop in block order, exits that are correct
// for a stated reason.
type loopSite struct {
	pkg, fn string
	allow   map[string]string // "<loop#>/<exit kind>" → reason
}

// checkNoSilentTruncation: see loopSite.  Returns the number of loops examined.
func checkNoSilentTruncation(p *core.Prog, r *core.Report, rule string, sites []loopSite) int {
	total := 0
	for _, st := range sites {
		fn := p.Func(st.pkg, st.fn)
		r.Touch(core.FuncName(fn))
		fns := core.WithClosures(fn)
		n := 0
		var bad []string
		for _, f := range fns {
			for _, l := range core.Loops(f) {
				n++
				total++
				kind := func(e core.Edge) string {
					if l.ExitIsPanic(e) {
						return "panic"
					}
					// where does the exit lead: follow to a return if the target block ends in one
					tgt := e.From.Succs[e.Idx]
					if rt, ok := tgt.Instrs[len(tgt.Instrs)-1].(*ssa.Return); ok {
						if returnsError(rt) {
							if !core.ReturnsNilError(rt) {
								return "error-return"
							}
							return "nil-return"
						}
						return "plain-return"
					}
					return "break"
				}
				for _, e := range l.EarlyExits {
					k := kind(e)
					if k == "panic" || k == "error-return" {
						continue
					}
					key := fmt.Sprintf("%d/%s", n, k)
					if _, ok := st.allow[key]; ok {
						continue
					}
					bad = append(bad, fmt.Sprintf("loop #%d of %s: %s at %s", n, core.FuncName(f), k, p.Pos(e.From.Instrs[len(e.From.Instrs)-1].Pos())))
				}
			}
		}
		r.Check(len(bad) == 0, rule, st.fn+"/visits-all", "every loop of the function runs to its bound: the only early ways out are an error return or a panic (nothing is silently left unprocessed)", fmt.Sprintf("%v", bad), p.Pos(fn.Pos()))
	}
	return total
}

func returnsError(rt *ssa.Return) bool {
	if len(rt.Results) == 0 {
		return false
	}
	return isErrorTyped(rt.Results[len(rt.Results)-1].Type())
}
