package props

import (
	"fmt"
	"go/token"

	"golang.org/x/tools/go/ssa"

	"verif/sa/core"
)

// loopSite names a function all of whose loops must visit every element: the only ways out of a loop before its
// bound are an error return or a panic.  allow lists, by ordinal of the loop in block order, exits that are correct
// for a stated reason.
type loopSite struct {
	pkg, fn string
	allow   map[string]string // "<loop#>/<exit kind>" → reason
}

// checkNoSilentTruncation: see loopSite.  Returns the number of loops examined.
func checkNoSilentTruncation(p *core.Prog, r *core.Report, rule string, sites []loopSite) int {
	total := 0
	for _, st := range sites {
		fn := p.Func(st.pkg, st.fn)
		r.Touch(core.FuncName(fn))
		fns := core.WithClosures(fn)
		n := 0
		var bad []string
		for _, f := range fns {
			for _, l := range core.Loops(f) {
				n++
				total++
				kind := func(e core.Edge) string {
					if l.ExitIsPanic(e) {
						return "panic"
					}
					// where does the exit lead: follow to a return if the target block ends in one
					tgt := e.From.Succs[e.Idx]
					if rt, ok := tgt.Instrs[len(tgt.Instrs)-1].(*ssa.Return); ok {
						if returnsError(rt) {
							if !core.ReturnsNilError(rt) {
								return "error-return"
							}
							return "nil-return"
						}
						return "plain-return"
					}
					return "break"
				}
				for _, e := range l.EarlyExits {
					k := kind(e)
					if k == "panic" || k == "error-return" {
						continue
					}
					key := fmt.Sprintf("%d/%s", n, k)
					if _, ok := st.allow[key]; ok {
						continue
					}
					bad = append(bad, fmt.Sprintf("loop #%d of %s: %s at %s", n, core.FuncName(f), k, p.Pos(e.From.Instrs[len(e.From.Instrs)-1].Pos())))
				}
			}
		}
		r.Check(len(bad) == 0, rule, st.fn+"/visits-all", "every loop of the function runs to its bound: the only early ways out are an error return or a panic (nothing is silently left unprocessed)", fmt.Sprintf("%v", bad), p.Pos(fn.Pos()))
	}
	return total
}

func returnsError(rt *ssa.Return) bool {
	if len(rt.Results) == 0 {
		return false
	}
	return isErrorTyped(rt.Results[len(rt.Results)-1].Type())
}

// checkNoElementSkipped: in every loop of the named functions, each iteration performs the loop's effect — a write
// into the output buffer (builtin copy) or an addition to an accumulator carried around the loop.  A `continue` (or any
// branch back to the loop header) that bypasses the effect leaves an element out of the encoding or of its size.
func checkNoElementSkipped(p *core.Prog, r *core.Report, rule string, pkg string, fnNames ...string) int {
	total := 0
	for _, name := range fnNames {
		fn := p.Func(pkg, name)
		r.Touch(core.FuncName(fn))
		var bad []string
		n := 0
		for _, l := range core.Loops(fn) {
			// accumulators: header phis
			acc := map[ssa.Value]bool{}
			for _, in := range l.Header.Instrs {
				if ph, ok := in.(*ssa.Phi); ok {
					acc[ph] = true
				}
			}
			isEffect := func(in ssa.Instruction) bool {
				if !l.Body[in.Block()] {
					return false
				}
				if cc, ok := core.IsBuiltinCall(in, "copy"); ok && cc != nil {
					return true
				}
				// a helper of the package that is handed the accumulator (the write cursor) and does the copying
				if c, ok := in.(*ssa.Call); ok {
					if callee := core.StaticFn(c.Common()); callee != nil && callee.Pkg == fn.Pkg && callee.Blocks != nil {
						handed := false
						for _, a := range c.Call.Args {
							if acc[a] {
								handed = true
							}
						}
						if handed && len(core.FindInstrs(callee, func(x ssa.Instruction) bool { _, isCopy := core.IsBuiltinCall(x, "copy"); return isCopy })) > 0 {
							return true
						}
					}
				}
				if cc, ok := core.IsBuiltinCall(in, "append"); ok && cc != nil && len(cc.Args) > 0 && acc[cc.Args[0]] {
					return true // the element is appended to the list being built
				}
				if bo, ok := in.(*ssa.BinOp); ok && bo.Op == token.ADD {
					for a := range acc {
						if core.SkipConv(bo.X) == a || core.SkipConv(bo.Y) == a {
							return true
						}
					}
				}
				return false
			}
			if len(core.FindInstrs(fn, isEffect)) == 0 {
				continue // a loop without recognisable effect (not an encoding loop)
			}
			n++
			total++
			// body entry: successors of the header inside the body
			for i, s := range l.Header.Succs {
				if !l.Body[s] || s == l.Header {
					continue
				}
				_ = i
				q := core.PathQuery{Fn: fn, CutInstr: isEffect}
				if isEffect(s.Instrs[0]) {
					continue
				}
				if _, reach := q.CanReach(s.Instrs[0], func(x ssa.Instruction) bool { return x.Block() == l.Header && x == l.Header.Instrs[0] }); reach {
					bad = append(bad, fmt.Sprintf("loop at %s: an iteration can return to the loop head without writing/counting its element", p.Pos(l.Header.Instrs[len(l.Header.Instrs)-1].Pos())))
				}
			}
		}
		r.Check(n > 0 && len(bad) == 0, rule, name+"/no-element-skipped", "every element of the list/map is encoded (and counted): no iteration goes back to the loop head without its write or its addition to the size", fmt.Sprintf("%d encoding loops; %v", n, bad), p.Pos(fn.Pos()))
	}
	return total
}
