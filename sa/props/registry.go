// Package props: per-property rule sets (instance tables + rule code).
package props

import (
	"sort"

	"verif/sa/core"
)

// Def describes one property's static rule set.
type Def struct {
	Title       string
	Run         func(p *core.Prog, r *core.Report)
	Explanation string   // what the rules decide (goes to evidence.coverage.explanation)
	NotCovered  string   // what they do not decide
	Assumptions []string // trusted base / assumptions
	Technique   string   // few words naming the deciding method (MANIFEST technique)
	DesignRef   string
}

// NotApplicable gives the reason for every property that is not (yet) claimed.
var NotApplicable = map[string]string{}

// Registry of all claimed properties.
var Registry = map[string]*Def{}

func register(id string, d *Def) { Registry[id] = d }

// IDs returns the registered property ids, sorted.
func IDs() []string {
	var ids []string
	for k := range Registry {
		ids = append(ids, k)
	}
	sort.Strings(ids)
	return ids
}
