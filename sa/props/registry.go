// Package props: per-property rule sets (instance tables + rule code).
package props

import (
	"fmt"
	"sort"

	"verif/sa/core"
)

// Def describes one property's static rule set.
type Def struct {
	Title       string
	Run         func(p *core.Prog, r *core.Report)
	Explanation string   // what the rules decide (goes to evidence.coverage.explanation)
	NotCovered  string   // what they do not decide
	Assumptions []string // trusted base / assumptions
	Technique   string   // few words naming the deciding method (MANIFEST technique)
	DesignRef   string
}

// Includes: a property whose statement rests on mechanisms decided under other properties also evaluates those rule
// sets (folded in as rule "<id>.I", construct "<origin rule> <origin construct>").  E.g. output independence of the
// execution strategy (C01) cannot hold if replaying a cached log differs from executing (C09), if squashing differs from
// sequential execution (C02), if results depend on which cache files exist (C07) or if index filtering changes results (C15).
var Includes = map[string][]string{
	// (C03: in development mode the payloads after a reorg are those of the final chain only if every undone block's
	// store writes were reverted, whether or not the output gate was open yet)
	"C01": {"C02", "C03", "C07", "C09", "C15"},
	// the partials that are merged are "each saved to and reloaded from its snapshot file" (statement of C02): the merge
	// equals sequential execution only if the snapshot round-trips (C10)
	"C02": {"C10"},
	"C03": {"C11"},
	// the size is exact after a reload only if Load restores it on every path (C10.R2)
	"C11": {"C10"},
	// "staging terminates" for every graph validation lets through: cycles refused, every reference an edge of the graph
	// tested for cycles, every reference resolved — decided under C17.R3
	"C14": {"C17"},
	// the blocks delivered before the hand-off are read from cached output files: they are what was computed only if a
	// missing or half-written file is never taken for a complete one (C07)
	"C04": {"C12", "C07"},
	// the scheduler starts from "whatever snapshots already exist": the classification of the files found in storage
	// into Completed / PartialPresent units (FetchStoresState) is decided under C07
	"C05": {"C07"},
	"C07": {"C10"},
	"C09": {"C08"},
	"C10": {"C18"},
	"C12": {"C13"},
	// a retried job finds the cache in whatever state the failed attempt left it: it completes with the same outputs only
	// if results do not depend on which cache files exist (C07); a failed job or merge must end the scheduler (C05)
	"C16": {"C05", "C07"},
}

// IncludedClosure returns the transitive closure of Includes[id], sorted, without id itself.
func IncludedClosure(id string) []string {
	seen := map[string]bool{id: true}
	var out []string
	var walk func(x string)
	walk = func(x string) {
		for _, y := range Includes[x] {
			if !seen[y] {
				seen[y] = true
				out = append(out, y)
				walk(y)
			}
		}
	}
	walk(id)
	sort.Strings(out)
	return out
}

// RunFull runs the property's own rule set and then the rule sets it includes.
func RunFull(id string, p *core.Prog, r *core.Report) {
	Registry[id].Run(p, r)
	for _, inc := range IncludedClosure(id) {
		d := Registry[inc]
		if d == nil {
			continue
		}
		sub := core.NewReport(inc)
		func() {
			defer func() {
				if x := recover(); x != nil {
					sub.Add(&core.Obligation{Rule: inc, Construct: "run", Desc: "included rule set runs", Status: core.Undec, Detail: fmt.Sprint(x)})
				}
			}()
			d.Run(p, sub)
		}()
		for _, o := range sub.Obligations {
			r.Add(&core.Obligation{Rule: id + ".I", Construct: o.Rule + " " + o.Construct, Desc: o.Desc, Status: o.Status, Detail: o.Detail, Sites: o.Sites})
		}
		for f := range sub.Funcs {
			r.Funcs[f] = true
		}
		r.CallSites += sub.CallSites
	}
}

// NotApplicable gives the reason for every property that is not (yet) claimed.
var NotApplicable = map[string]string{}

// Registry of all claimed properties.
var Registry = map[string]*Def{}

func register(id string, d *Def) { Registry[id] = d }

// IDs returns the registered property ids, sorted.
func IDs() []string {
	var ids []string
	for k := range Registry {
		ids = append(ids, k)
	}
	sort.Strings(ids)
	return ids
}
