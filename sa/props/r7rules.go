package props

import (
	"fmt"
	"go/token"
	"go/types"
	"sort"
	"strings"

	"golang.org/x/tools/go/ssa"

	"verif/sa/core"
)

// Rules added after mutation round 7 (slips in the data flow between statements).

// checkVarintAccumulatorsFresh (C18.R1): in the hand-written decoders every varint is accumulated from zero: the
// accumulator of a `acc |= (b & 0x7F) << shift` loop enters the loop as the constant 0, never as a value left over by
// the previous field (a length shared between two fields decodes len(a)|len(b) for the second one).
func checkVarintAccumulatorsFresh(p *core.Prog, r *core.Report, rule string) {
	n := 0
	for _, a := range []struct{ rel, fn string }{
		{pkgMarsh, "unmarshalVT"}, {pkgPBOut, "Array.UnmarshalVTNoAlloc"}, {pkgPBOut, "Item.UnmarshalVTNoAlloc"},
	} {
		fn := p.Func(a.rel, a.fn)
		r.Touch(core.FuncName(fn))
		var bad []string
		m := 0
		for _, member := range core.Family(fn, 1) {
			for _, l := range core.Loops(member) {
				for _, hin := range l.Header.Instrs {
					ph, ok := hin.(*ssa.Phi)
					if !ok {
						continue
					}
					if bt, ok := ph.Type().Underlying().(*types.Basic); !ok || bt.Info()&types.IsInteger == 0 {
						continue
					}
					// acc |= x << shift on a back edge
					isAcc := false
					for i, e := range ph.Edges {
						if !l.Body[l.Header.Preds[i]] {
							continue
						}
						if bo, ok := e.(*ssa.BinOp); ok && bo.Op == token.OR && (bo.X == ssa.Value(ph) || bo.Y == ssa.Value(ph)) {
							other := bo.Y
							if bo.Y == ssa.Value(ph) {
								other = bo.X
							}
							if sh, ok := core.SkipConv(other).(*ssa.BinOp); ok && sh.Op == token.SHL {
								isAcc = true
							}
						}
					}
					if !isAcc {
						continue
					}
					m++
					for i, e := range ph.Edges {
						if l.Body[l.Header.Preds[i]] {
							continue
						}
						if k, ok := e.(*ssa.Const); !ok || k.Value == nil || k.Uint64() != 0 {
							bad = append(bad, p.Pos(ph.Pos()))
						}
					}
				}
			}
		}
		n += m
		r.Check(m > 0 && len(bad) == 0, rule, shortName(a.fn)+"/varint-from-zero", "every varint of the decoder is accumulated from zero: no length or tag starts from what the previous field left in a shared variable", fmt.Sprintf("%d varint loops; accumulators not starting at 0: %v", m, bad), p.Pos(fn.Pos()))
	}
	if n < 8 {
		core.Undecide("varint accumulators: only %d loops recognised", n)
	}
}

func shortName(s string) string { return s }

// checkSeenOnlyWithRecordedPrefix (C09.R3): PartialKV remembers the prefixes it has recorded in `seen`; a key may be
// marked seen only together with its being appended to DeletedPrefixes (marking anything else makes a later
// delete_prefix of that very string vanish from the partial's side state).
func checkSeenOnlyWithRecordedPrefix(p *core.Prog, r *core.Report, rule string) {
	seen := p.Field(pkgStore, "PartialKV", "seen")
	dp := p.Field(pkgStore, "PartialKV", "DeletedPrefixes")
	n := 0
	for _, fn := range p.RepoFunctions() {
		if fn.Pkg == nil || !strings.HasSuffix(fn.Pkg.Pkg.Path(), "/"+pkgStore) || p.IsTestFunc(fn) {
			continue
		}
		for _, w := range core.FieldWritesIn(fn, seen) {
			if w.Kind != core.WMapSet {
				continue
			}
			n++
			r.Touch(core.FuncName(fn))
			ok := false
			for _, a := range core.FieldWritesIn(fn, dp) {
				if a.Instr.Block() == w.Instr.Block() {
					ok = true
				}
			}
			r.Check(ok, rule, "seen←"+core.FuncName(fn), "a key is marked seen only where it is appended to DeletedPrefixes (same branch)", "seen[key] is set on a path that records no deleted prefix", p.Pos(w.Instr.Pos()))
		}
	}
	if n < 1 { // (the two recording sites may share one helper)
		core.Undecide("PartialKV.seen: no write found")
	}
}

// checkFilterQueryReceiver (C06.R1): the filter query written into a module's hash is that module's own
// (module.BlockFilterQueryString()), not the query of the index module it designates (which has none).
func checkFilterQueryReceiver(p *core.Prog, r *core.Report, rule string) {
	fn := p.Func(pkgMani, "ModuleHashes.hashModule")
	q := p.FuncObj(pkgPBV1, "Module.BlockFilterQueryString")
	calls := core.FindInstrs(fn, core.IsCallTo(q))
	if len(calls) == 0 {
		core.Undecide("hashModule: no BlockFilterQueryString call")
	}
	var modParam *ssa.Parameter
	for _, prm := range fn.Params {
		if pt, ok := prm.Type().(*types.Pointer); ok {
			if nm, ok := pt.Elem().(*types.Named); ok && nm.Obj().Name() == "Module" {
				modParam = prm
			}
		}
	}
	for _, c := range calls {
		recv := core.CallerValue(fn, c.(ssa.CallInstruction).Common().Args[0])
		r.Check(modParam != nil && core.SkipConv(recv) == ssa.Value(modParam), rule, "hashModule/filter-query-receiver", "the block-filter query hashed for a module is the query of that module's own filter", "BlockFilterQueryString is asked of another module than the one being hashed", p.Pos(c.Pos()))
	}
}

// checkReferenceKeysRaw (C17.R3): validation looks a referenced module up under the reference field itself; a name
// altered on the way (trimmed, pretty-printed) is accepted by validation while the graph and the staging, which read
// the raw field, find no such module.
func checkReferenceKeysRaw(p *core.Prog, r *core.Report, rule string) {
	for _, name := range []string{"checkValidInputs", "checkValidBlockFilter"} {
		fn := p.Func(pkgMani, name)
		r.Touch(core.FuncName(fn))
		n := 0
		var bad []string
		core.InstrsDeep(fn, func(in ssa.Instruction) {
			lk, ok := in.(*ssa.Lookup)
			if !ok {
				return
			}
			if _, isMap := lk.X.Type().Underlying().(*types.Map); !isMap {
				return
			}
			if _, isPrm := core.CallerValue(fn, lk.X).(*ssa.Parameter); !isPrm {
				return
			}
			n++
			// the key, or what the helper's parameter stands for at each of its calls
			keys := []ssa.Value{lk.Index}
			if cvs := core.CallerValues(fn, lk.Index); len(cvs) > 0 {
				keys = cvs
			}
			for _, kv := range keys {
				src := core.Trace(kv, 0)
				for c := range src.Calls {
					if !strings.HasPrefix(c.Name(), "Get") {
						bad = append(bad, c.Name()+" at "+p.Pos(lk.Pos()))
					}
				}
				okField := false
				for f := range src.Fields {
					if f.Name() == "ModuleName" || f.Name() == "Module" {
						okField = true
					}
				}
				for c := range src.Calls {
					if c.Name() == "GetModuleName" || c.Name() == "GetModule" {
						okField = true
					}
				}
				if !okField {
					bad = append(bad, "key not from a reference field at "+p.Pos(lk.Pos()))
				}
			}
		})
		sort.Strings(bad)
		r.Check(n > 0 && len(bad) == 0, rule, name+"/reference-key-raw", "the name validation looks up is the reference field as it is (the graph and the staging read that same field)", fmt.Sprintf("%d lookups; %v", n, bad), p.Pos(fn.Pos()))
	}
}

// checkKeyTermSameKey (C15.R1): both evaluators look a key term up under the same string: the provenance of the
// map key (fields and accessor calls) is the same in the bitmap evaluator and in the per-block evaluator.
func checkKeyTermSameKey(p *core.Prog, r *core.Report, rule string) {
	prov := func(fn *ssa.Function, field string) (string, bool) {
		res, found := "", false
		core.InstrsDeep(fn, func(in ssa.Instruction) { // (the lookup may sit in a helper that is handed the key)
			lk, ok := in.(*ssa.Lookup)
			if !ok {
				return
			}
			f, _ := core.LoadedField(lk.X)
			if f == nil || f.Name() != field {
				return
			}
			src := core.TraceFrom(fn, lk.Index, 0)
			var parts []string
			for fl := range src.Fields {
				parts = append(parts, "."+fl.Name())
			}
			for c := range src.Calls {
				parts = append(parts, c.Name()+"()")
			}
			sort.Strings(parts)
			res, found = strings.Join(parts, " "), true
		})
		return res, found
	}
	bm := p.Func(pkgSqe, "roaringQuerier.apply")
	ky := p.Func(pkgSqe, "KeysQuerier.apply")
	a, ok1 := prov(bm, "bitmaps")
	b, ok2 := prov(ky, "blockKeys")
	if !ok1 || !ok2 {
		core.Undecide("key-term lookups not found (bitmaps: %v, blockKeys: %v)", ok1, ok2)
	}
	r.Check(a == b, rule, "key-term/same-key", "a key term is looked up under the same string by both evaluators", fmt.Sprintf("bitmap evaluator keys by [%s], per-block evaluator by [%s]", a, b), p.Pos(ky.Pos()))
}

// checkStageSegmenter (C05.R2): a stage starts at the lowest initial block of its modules: the segmenter handed to
// NewStage is WithInitialBlock(v) with v folded over every module of the layer with min.
func checkStageSegmenter(p *core.Prog, r *core.Report, rule string) {
	fn := p.Func(pkgStage, "NewStages")
	r.Touch(core.FuncName(fn))
	ns := p.FuncObj(pkgStage, "NewStage")
	calls := core.FindInstrs(fn, core.IsCallTo(ns))
	if len(calls) == 0 {
		core.Undecide("NewStages: no NewStage call")
	}
	for _, c := range calls {
		args := c.(ssa.CallInstruction).Common().Args
		var seg ssa.Value
		for _, a := range args {
			if pt, ok := a.Type().(*types.Pointer); ok {
				if nm, ok := pt.Elem().(*types.Named); ok && nm.Obj().Name() == "Segmenter" {
					seg = a
				}
			}
		}
		ok, why := false, "the segmenter is not WithInitialBlock(<minimum over the layer's modules>)"
		if wc, isCall := seg.(*ssa.Call); isCall && core.CalleeOf(wc) != nil && core.CalleeOf(wc).Name() == "WithInitialBlock" {
			v := wc.Call.Args[len(wc.Call.Args)-1]
			// v is a running minimum over the layer's modules (computed here or by a helper that returns it)
			ok = isMinFold(fn.Pkg, v, 1)
		}
		r.Check(ok, rule, "NewStages/stage-segmenter", "a stage's first segment is that of the lowest initial block among its modules (the segmenter given to NewStage starts at a minimum folded over the layer)", why, p.Pos(c.Pos()))
	}
}

// isMinFold: v is a running minimum — a loop-carried value whose update is min(itself, x) (builtin, or a phi choosing
// between itself and the candidate) — or the result of a helper of the package that returns such a value.
func isMinFold(pkg *ssa.Package, v ssa.Value, depth int) bool {
	v = core.SkipConv(v)
	switch x := v.(type) {
	case *ssa.Phi:
		fn := x.Parent()
		for _, l := range core.Loops(fn) {
			if x.Block() != l.Header {
				continue
			}
			for i, e := range x.Edges {
				if !l.Body[l.Header.Preds[i]] {
					continue
				}
				if mc, isCall := core.SkipConv(e).(*ssa.Call); isCall {
					if b, isB := mc.Call.Value.(*ssa.Builtin); isB && b.Name() == "min" {
						for _, a := range mc.Call.Args {
							if core.SkipConv(a) == ssa.Value(x) {
								return true
							}
						}
					}
				}
				if ip, isIP := e.(*ssa.Phi); isIP {
					for _, ie := range ip.Edges {
						if ie == ssa.Value(x) {
							return true
						}
					}
				}
			}
		}
	case *ssa.Extract:
		if depth == 0 {
			return false
		}
		if hc, ok := x.Tuple.(*ssa.Call); ok {
			return helperReturnsMinFold(pkg, hc, x.Index, depth)
		}
	case *ssa.Call:
		if depth == 0 {
			return false
		}
		return helperReturnsMinFold(pkg, x, 0, depth)
	}
	return false
}

func helperReturnsMinFold(pkg *ssa.Package, hc *ssa.Call, idx, depth int) bool {
	h := core.StaticFn(hc.Common())
	if h == nil || h.Blocks == nil || h.Pkg != pkg || h.Parent() != nil {
		return false
	}
	n, all := 0, true
	core.Instrs(h, func(in ssa.Instruction) {
		rt, ok := in.(*ssa.Return)
		if !ok {
			return
		}
		vals := core.ReturnValues(rt)
		if idx >= len(vals) {
			all = false
			return
		}
		n++
		if !isMinFold(pkg, vals[idx], depth-1) {
			all = false
		}
	})
	return n > 0 && all
}
