package props

import (
	"fmt"
	"go/token"
	"go/types"
	"sort"
	"strings"

	"golang.org/x/tools/go/ssa"

	"verif/sa/core"
)

// Rules added after mutation round 8 (state kept across calls, iterations and requests).

// fieldWritesFamily: writes to f in fn's family.
func fieldWritesFamily(fn *ssa.Function, depth int, f *types.Var) []core.FieldWrite {
	var out []core.FieldWrite
	for _, m := range core.Family(fn, depth) {
		out = append(out, core.FieldWritesIn(m, f)...)
	}
	return out
}

// checkResetUnconditional (C08.R3): baseStore.Reset drops the whole per-block state on every path: the operation log,
// the deltas and the last ordinal are reassigned whatever the content of the others (operations that produce no delta
// — a set_if_not_exists on an existing key — would otherwise survive in kvOps and be written to the next block's ops).
func checkResetUnconditional(p *core.Prog, r *core.Report, rule string) {
	fn := p.Func(pkgStore, "baseStore.Reset")
	r.Touch(core.FuncName(fn))
	n := 0
	for _, name := range []string{"kvOps", "deltas", "lastOrdinal"} {
		f := p.Field(pkgStore, "baseStore", name)
		isW := func(in ssa.Instruction) bool {
			for _, m := range core.Family(fn, 1) {
				for _, w := range core.FieldWritesIn(m, f) {
					if w.Kind == core.WAssign && w.Instr == in {
						return true
					}
				}
			}
			return false
		}
		if len(core.FindInstrs(fn, isW)) == 0 {
			core.Undecide("baseStore.Reset: no assignment of %s", name)
		}
		n++
		hit, ok := core.MustReachAfter(fn, nil, isW, nil)
		pos := p.Pos(fn.Pos())
		if hit != nil {
			pos = p.Pos(core.InstrPos(hit))
		}
		r.Check(ok, rule, "baseStore.Reset/"+name+"/every-path", "Reset reassigns the per-block state (operation log, deltas, last ordinal) on every path, not only when some other part of it is non-empty", "a path through Reset returns without reassigning "+name, pos)
	}
	_ = n
}

// checkCompletionSignalOnEveryCall (C05.R2): once all stores are completed, every CmdTryMerge answers with the
// completion command: the Scheduler handles MsgAllStoresCompleted several times (it is the event on which it decides
// whether the outputs are done too), so a one-shot latch in front of it lets the request hang.
func checkCompletionSignalOnEveryCall(p *core.Prog, r *core.Report, rule string) {
	fn := p.Func(pkgStage, "Stages.CmdTryMerge")
	r.Touch(core.FuncName(fn))
	all := p.FuncObj(pkgStage, "Stages.AllStoresCompleted")
	cmd := p.FuncObj(pkgStage, "CmdAllStoresCompleted")
	isCmd := core.IsCallTo(cmd)
	n := 0
	for _, m := range core.Family(fn, 1) {
		for _, c := range core.FindInstrsIn(m, core.IsCallTo(all)) {
			cv, ok := c.(ssa.Value)
			if !ok {
				continue
			}
			for _, ref := range *cv.Referrers() {
				var ifi *ssa.If
				neg := false
				switch x := ref.(type) {
				case *ssa.If:
					ifi = x
				case *ssa.UnOp:
					if x.Op == token.NOT {
						for _, rr := range *x.Referrers() {
							if y, ok := rr.(*ssa.If); ok {
								ifi, neg = y, true
							}
						}
					}
				}
				if ifi == nil {
					continue
				}
				n++
				falseIdx := 1
				if neg {
					falseIdx = 0
				}
				blk := ifi.Block()
				q := core.PathQuery{Fn: m, CutInstr: isCmd, CutEdge: func(e core.Edge) bool { return e.From == blk && e.Idx == falseIdx }}
				hit, reached := q.CanReach(ifi, func(in ssa.Instruction) bool { return core.IsNormalExit(in) })
				pos := p.Pos(core.InstrPos(c))
				if hit != nil {
					pos = p.Pos(core.InstrPos(hit))
				}
				r.Check(!reached, rule, "CmdTryMerge/completion-signal", "once AllStoresCompleted() holds, every call of CmdTryMerge returns the completion command (the Scheduler relies on receiving it again after later events)", "a path returns without CmdAllStoresCompleted() although all stores are completed", pos)
			}
		}
	}
	if n == 0 {
		core.Undecide("CmdTryMerge: test of AllStoresCompleted() not found")
	}
}

// checkHashMemoised (C17.R2): hashModule recurses into every ancestor through every input; it is bounded only because
// each computed hash is stored in the cache before it is returned (a diamond-shaped graph of depth n costs 2^n
// otherwise).  Every successful return either returns the cached value or passes the cache write.
func checkHashMemoised(p *core.Prog, r *core.Report, rule string) {
	fn := p.Func(pkgMani, "ModuleHashes.hashModule")
	r.Touch(core.FuncName(fn))
	cache := p.Field(pkgMani, "ModuleHashes", "cache")
	isW := func(in ssa.Instruction) bool {
		mu, ok := in.(*ssa.MapUpdate)
		if !ok {
			return false
		}
		f, _ := core.LoadedField(mu.Map)
		return f != nil && (f == cache || f.Origin() == cache)
	}
	if len(core.FindInstrs(fn, isW)) == 0 {
		core.Undecide("hashModule: no write of the cache")
	}
	fromCache := func(v ssa.Value) bool {
		seen := map[ssa.Value]bool{}
		var walk func(v ssa.Value) bool
		walk = func(v ssa.Value) bool {
			if seen[v] {
				return true
			}
			seen[v] = true
			switch x := core.SkipConv(v).(type) {
			case *ssa.Lookup:
				f, _ := core.LoadedField(x.X)
				return f != nil && (f == cache || f.Origin() == cache)
			case *ssa.Extract:
				if lk, ok := x.Tuple.(*ssa.Lookup); ok {
					f, _ := core.LoadedField(lk.X)
					return f != nil && (f == cache || f.Origin() == cache)
				}
			case *ssa.Phi:
				for _, e := range x.Edges {
					if !walk(e) {
						return false
					}
				}
				return true
			}
			return false
		}
		return walk(v)
	}
	q := core.PathQuery{Fn: fn, CutInstr: isW}
	hit, reached := q.CanReach(nil, func(in ssa.Instruction) bool {
		ret, ok := in.(*ssa.Return)
		if !ok || ret.Parent() != fn || core.ErrorResultState(ret) > 0 {
			return false
		}
		vals := core.ReturnValues(ret)
		return len(vals) == 0 || !fromCache(vals[0])
	})
	pos := p.Pos(fn.Pos())
	if hit != nil {
		pos = p.Pos(core.InstrPos(hit))
	}
	r.Check(!reached, rule, "hashModule/memoised", "every hash computed by hashModule is stored in the cache before it is returned (the recursion over ancestors is linear only because of it)", "a successful return hands out a freshly computed hash without storing it in the cache", pos)
}

// checkUndoSignalKept (C12.R5): the undo signal resolved from the cursor is returned as resolved: on a successful
// return of BuildRequestDetails the second result is the value produced by resolveStartBlockNum on every path (a cursor
// on a forked block resolves to an undo signal whatever else the request says).
func checkUndoSignalKept(p *core.Prog, r *core.Report, rule string) {
	fn := p.Func(pkgPipe, "BuildRequestDetails")
	r.Touch(core.FuncName(fn))
	res := p.FuncObj(pkgPipe, "resolveStartBlockNum")
	n := 0
	core.Instrs(fn, func(in ssa.Instruction) {
		ret, ok := in.(*ssa.Return)
		if !ok || core.ErrorResultState(ret) > 0 {
			return
		}
		vals := core.ReturnValues(ret)
		if len(vals) != 3 {
			return
		}
		n++
		var bad []string
		seen := map[ssa.Value]bool{}
		var walk func(v ssa.Value)
		walk = func(v ssa.Value) {
			if seen[v] {
				return
			}
			seen[v] = true
			switch x := v.(type) {
			case *ssa.Phi:
				for _, e := range x.Edges {
					walk(e)
				}
			case *ssa.Extract:
				if c, ok := x.Tuple.(*ssa.Call); ok && core.CommonCallee(c.Common()) == res {
					return
				}
				bad = append(bad, "a value not produced by resolveStartBlockNum")
			case *ssa.Const:
				bad = append(bad, "the constant "+x.String())
			default:
				bad = append(bad, fmt.Sprintf("%T", v))
			}
		}
		walk(vals[1])
		sort.Strings(bad)
		r.Check(len(bad) == 0, rule, "BuildRequestDetails/undo-signal-kept", "on success the undo signal returned is the one resolveStartBlockNum produced, on every path", "the returned undo signal can be "+strings.Join(bad, ", "), p.Pos(core.InstrPos(ret)))
	})
	if n == 0 {
		core.Undecide("BuildRequestDetails: no successful return recognised")
	}
}

// checkFailureKeyCoversRequest (C04.R6): the key under which tier 1 remembers a failed request (and fails fast on the
// next identical one) is made of everything that distinguishes two requests for the client: module hash, start block,
// start cursor, stop block, mode and final-blocks-only.  Without the cursor, a failed request blocks every resumption
// of the same range from another cursor.
func checkFailureKeyCoversRequest(p *core.Prog, r *core.Report, rule string) {
	fn := p.Func(pkgSvc, "Tier1Service.Blocks")
	r.Touch(core.FuncName(fn))
	n := 0
	for _, name := range []string{"Tier1Service.errorFromRecordedFailure", "Tier1Service.recordFailure"} {
		obj := p.FuncObj(pkgSvc, name)
		for _, c := range core.FindInstrs(fn, core.IsCallTo(obj)) {
			cc := c.(ssa.CallInstruction).Common()
			if len(cc.Args) < 2 {
				continue
			}
			n++
			at := core.SiteIn(fn, c)
			_ = at
			src := core.TraceFrom(c.Parent(), cc.Args[1], 4)
			have := map[string]bool{}
			for _, f := range src.FieldNames() {
				have[f] = true
			}
			var missing []string
			for _, f := range []string{"StartBlockNum", "StartCursor", "StopBlockNum", "ProductionMode", "FinalBlocksOnly"} {
				if !have[f] {
					missing = append(missing, f)
				}
			}
			r.Check(len(missing) == 0, rule, "Blocks/failure-key←"+shortRecv(name), "the key of the failed-request memory is built from the request's start block, start cursor, stop block, mode and final-blocks-only (and the output module's hash)", fmt.Sprintf("request fields absent from the key: %v (fields flowing in: %v)", missing, src.FieldNames()), p.Pos(core.InstrPos(c)))
		}
	}
	if n < 2 {
		core.Undecide("Tier1Service.Blocks: failure-memory calls found: %d", n)
	}
}

func shortRecv(s string) string {
	if i := strings.LastIndex(s, "."); i >= 0 {
		return s[i+1:]
	}
	return s
}

// checkRequestSlotPaired (C16.R4): in tier 2's ProcessRange every path that follows the counting-in of the request
// (an increment of currentConcurrentRequests) registers or performs the counting-out, including the refusal paths: a
// slot leaked on each refused request leaves the worker "overloaded" for ever, and every retry of every job fails.
func checkRequestSlotPaired(p *core.Prog, r *core.Report, rule string) {
	fn := p.Func(pkgSvc, "Tier2Service.ProcessRange")
	r.Touch(core.FuncName(fn))
	f := p.Field(pkgSvc, "Tier2Service", "currentConcurrentRequests")
	changes := func(g *ssa.Function, op token.Token) bool {
		if g == nil {
			return false
		}
		for _, w := range fieldWritesFamily(g, 2, f) {
			if w.Kind != core.WAssign {
				continue
			}
			if bo, ok := core.SkipConv(w.Value).(*ssa.BinOp); ok && bo.Op == op {
				return true
			}
		}
		return false
	}
	calleeFn := func(in ssa.Instruction) *ssa.Function {
		ci, ok := in.(ssa.CallInstruction)
		if !ok {
			return nil
		}
		if mc, ok := ci.Common().Value.(*ssa.MakeClosure); ok {
			if g, ok := mc.Fn.(*ssa.Function); ok {
				return g
			}
		}
		return core.StaticFn(ci.Common())
	}
	isOut := func(in ssa.Instruction) bool {
		if in.Parent() != fn {
			return false
		}
		return changes(calleeFn(in), token.SUB)
	}
	var ins []ssa.Instruction
	for _, b := range fn.Blocks {
		for _, in := range b.Instrs {
			if _, isDefer := in.(*ssa.Defer); isDefer {
				continue
			}
			if g := calleeFn(in); g != nil && changes(g, token.ADD) && !changes(g, token.SUB) {
				ins = append(ins, in)
			}
		}
	}
	// an increment written in ProcessRange itself
	for _, w := range core.FieldWritesIn(fn, f) {
		if bo, ok := core.SkipConv(w.Value).(*ssa.BinOp); ok && bo.Op == token.ADD && w.Kind == core.WAssign {
			ins = append(ins, w.Instr)
		}
	}
	if len(ins) == 0 {
		core.Undecide("ProcessRange: no counting-in of the request found")
	}
	for _, in := range ins {
		q := core.PathQuery{Fn: fn, CutInstr: isOut, Inter: -1}
		hit, reached := q.CanReach(in, core.IsNormalExit)
		pos := p.Pos(core.InstrPos(in))
		if hit != nil {
			pos = p.Pos(core.InstrPos(hit))
		}
		r.Check(!reached, rule, "ProcessRange/request-slot-paired", "every path after the request is counted in registers (defer) or performs the counting-out before returning, refusals included", "a return is reachable after the increment of currentConcurrentRequests without the decrement being registered", pos)
	}
}

// carriedObserved lists the loop-header phis of fn with a boolean or pointer type whose value of the previous
// iteration can be observed in the body (a use other than being merged again into the same variable).
func carriedObserved(p *core.Prog, fn *ssa.Function) []string {
	var out []string
	for _, m := range core.WithClosures(fn) {
		for _, l := range core.Loops(m) {
			for _, hin := range l.Header.Instrs {
				ph, ok := hin.(*ssa.Phi)
				if !ok {
					break
				}
				switch t := ph.Type().Underlying().(type) {
				case *types.Basic:
					if t.Info()&types.IsBoolean == 0 {
						continue
					}
				case *types.Pointer:
				default:
					continue
				}
				carried := false
				for i, e := range ph.Edges {
					if l.Body[l.Header.Preds[i]] && e != ssa.Value(ph) {
						carried = true
					}
				}
				if !carried {
					continue
				}
				// observed in the body: a non-phi, non-debug referrer located in the loop (through phis of the body)
				seen := map[ssa.Value]bool{}
				var observed func(v ssa.Value) ssa.Instruction
				observed = func(v ssa.Value) ssa.Instruction {
					if seen[v] {
						return nil
					}
					seen[v] = true
					for _, ref := range *v.Referrers() {
						if ref.Block() == nil || !l.Body[ref.Block()] {
							continue
						}
						switch x := ref.(type) {
						case *ssa.DebugRef:
						case *ssa.Phi:
							if in := observed(x); in != nil {
								return in
							}
						default:
							return ref
						}
					}
					return nil
				}
				if in := observed(ph); in != nil {
					name := ph.Comment
					if name == "" {
						name = ph.Name()
					}
					out = append(out, fmt.Sprintf("%s (%s) read at %s", name, ph.Type(), p.Pos(core.InstrPos(in))))
				}
			}
		}
	}
	sort.Strings(out)
	return out
}

// checkNoCarriedState (C14.R6 / C15.R3): the loops that classify each input of each module (graph construction) and
// build each module's executor handle every element from that element alone: no flag or pointer set while handling
// one element is read while handling the next (a "reads a module" flag or a precomputed block filter surviving into
// the next iteration gives the next input/module the previous one's).
func checkNoCarriedState(p *core.Prog, r *core.Report, rule, rel, name, what string) {
	fn := p.Func(rel, name)
	r.Touch(core.FuncName(fn))
	if len(core.Loops(fn)) == 0 {
		core.Undecide("%s: no loop", name)
	}
	bad := carriedObserved(p, fn)
	r.Check(len(bad) == 0, rule, shortRecv(name)+"/per-element-state", what, "carried from the previous iteration: "+strings.Join(bad, "; "), p.Pos(fn.Pos()))
}

// checkRangeReceiverUntouched (C13.R5): the operations of block.Range that derive ranges (Split, the segment helpers)
// never write the fields of a Range they did not create: callers keep using the receiver after the call (the request
// range of the orchestrator is split and then read again).
func checkRangeReceiverUntouched(p *core.Prog, r *core.Report, rule string) {
	rng := p.Named(pkgBlock, "Range")
	n := 0
	var bad []string
	for _, fn := range p.RepoFunctions() {
		if fn.Pkg == nil || fn.Pkg.Pkg.Path() != core.ModPath+"/"+pkgBlock || p.IsTestFunc(fn) {
			continue
		}
		n++
		for _, fname := range []string{"StartBlock", "ExclusiveEndBlock"} {
			f := core.FieldOf(rng, fname)
			for _, w := range core.FieldWritesIn(fn, f) {
				if w.Kind != core.WAssign {
					bad = append(bad, fmt.Sprintf("%s: %s of %s at %s", core.FuncName(fn), w.Kind, fname, p.Pos(core.InstrPos(w.Instr))))
					continue
				}
				st := w.Instr.(*ssa.Store)
				fa := st.Addr.(*ssa.FieldAddr)
				if _, fresh := core.SkipConv(fa.X).(*ssa.Alloc); fresh {
					continue // a Range literal built here
				}
				bad = append(bad, fmt.Sprintf("%s writes %s of an existing Range at %s", core.FuncName(fn), fname, p.Pos(core.InstrPos(w.Instr))))
			}
		}
	}
	if n < 10 {
		core.Undecide("package block: only %d functions", n)
	}
	sort.Strings(bad)
	r.Check(len(bad) == 0, rule, "block.Range/immutable", "inside package block the bounds of a Range are written only while it is being built (a literal of the function): no operation moves the bounds of its receiver or of an argument", strings.Join(bad, "; "), "")
}

// checkHashBufferFresh (C06.R1): the buffer whose bytes are hashed into a module's identifier contains what
// hashModule wrote for this module and nothing else: it is created in the function, or emptied (Reset) on every path
// before the first write (a pooled buffer returned unreset by a failed call leaks one module's bytes into the next).
func checkHashBufferFresh(p *core.Prog, r *core.Report, rule string) {
	fn := p.Func(pkgMani, "ModuleHashes.hashModule")
	r.Touch(core.FuncName(fn))
	bufs := map[ssa.Value][]ssa.Instruction{}
	isBufMethod := func(in ssa.Instruction, names ...string) (ssa.Value, bool) {
		ci, ok := in.(ssa.CallInstruction)
		if !ok {
			return nil, false
		}
		cl := core.CommonCallee(ci.Common())
		if cl == nil || cl.Pkg() == nil || cl.Pkg().Path() != "bytes" {
			return nil, false
		}
		sig := cl.Type().(*types.Signature)
		if sig.Recv() == nil || !strings.HasSuffix(sig.Recv().Type().String(), "bytes.Buffer") {
			return nil, false
		}
		for _, n := range names {
			if cl.Name() == n {
				if len(ci.Common().Args) == 0 {
					return nil, false
				}
				return core.SkipConv(ci.Common().Args[0]), true
			}
		}
		return nil, false
	}
	core.Instrs(fn, func(in ssa.Instruction) {
		if b, ok := isBufMethod(in, "Write", "WriteString", "WriteByte", "WriteRune", "ReadFrom"); ok {
			bufs[b] = append(bufs[b], in)
		}
	})
	if len(bufs) == 0 {
		core.Undecide("hashModule: no bytes.Buffer write found")
	}
	for b, writes := range bufs {
		fresh := false
		switch x := b.(type) {
		case *ssa.Alloc:
			fresh = true
		case *ssa.Call:
			if cl := core.CommonCallee(x.Common()); cl != nil && cl.Pkg() != nil && cl.Pkg().Path() == "bytes" && (cl.Name() == "NewBuffer" || cl.Name() == "NewBufferString") {
				fresh = true
			}
		}
		if fresh {
			r.Check(true, rule, "hashModule/buffer-fresh", "the hashed buffer is created by hashModule for this module, or emptied before the first write on every path", "", p.Pos(core.InstrPos(writes[0])))
			continue
		}
		isReset := func(in ssa.Instruction) bool {
			v, ok := isBufMethod(in, "Reset", "Truncate")
			return ok && v == b
		}
		isWrite := func(in ssa.Instruction) bool {
			for _, w := range writes {
				if w == in {
					return true
				}
			}
			return false
		}
		hit, ok := core.MustPassBefore(fn, isReset, isWrite)
		pos := p.Pos(core.InstrPos(writes[0]))
		if hit != nil {
			pos = p.Pos(core.InstrPos(hit))
		}
		r.Check(ok, rule, "hashModule/buffer-fresh", "the hashed buffer is created by hashModule for this module, or emptied before the first write on every path", "the buffer comes from elsewhere (a pool, a field) and is written without having been emptied first", pos)
	}
}
