package props

import (
	"fmt"
	"go/token"
	"go/types"
	"sort"
	"strings"

	"golang.org/x/tools/go/ssa"

	"verif/sa/core"
)

// ---------------------------------------------------------------------------
// Engine E10: nondeterministic map iteration reaching an order-sensitive sink.
//
// For every `range` over a map in the functions reachable from the given
// roots, the loop body is classified:
//   commutative     — per-key map writes, integer accumulation, calls that reach
//                     no order-sensitive sink;
//   sorted-append   — appends to a slice that is sorted before it is used after
//                     the loop;
//   order-sensitive — writes to a stream/buffer/hash, sends, string
//                     concatenation, appends without a sort, early exits that
//                     carry a value derived from the iteration, time/rand.
// Order-sensitive loops must be listed in the allow-table (function → reason);
// anything else is a violation.  Loops the classifier cannot understand
// (dynamic calls) are listed as "unknown" and must be in the table too.
// ---------------------------------------------------------------------------

// mapOrderAllow is the confirmed instance table (read and triaged by hand).
var mapOrderAllow = map[string]string{
	"(*storage/store.baseStore).Iter/map-range#1":       "callers: the development-mode initial store snapshot (InitialSnapshotData of sendSnapshots) and the offline analytics tool; the order of keys inside a snapshot message is not part of the (block number, block id, output payload) sequence C01 speaks of",
	"wasm/wazero.addExtensionFunctions/map-range#1":     "the compiled host-extension modules are collected per namespace and instantiated independently of one another; their order is not observable in any module output",
	"(*storage/execout/pb.Map).MarshalFast/map-range#1": "the item order inside a cached-output file follows map iteration; readers (UnmarshalFast) rebuild a map keyed by block id and SortedItems sorts before anything is sent, so only the bytes — not the content — of the file vary",
}

type mapLoop struct {
	Fn      *ssa.Function
	Range   *ssa.Range
	Next    *ssa.Next
	Loop    *core.Loop
	Class   string
	Reasons []string
}

var orderSinkMethods = map[string]bool{"Write": true, "WriteString": true, "WriteByte": true, "WriteRune": true, "Sum": true, "Encode": true, "WriteObject": true, "Send": true, "SendMsg": true}
var orderSinkFuncs = map[string]bool{"fmt.Fprintf": true, "fmt.Fprint": true, "fmt.Fprintln": true, "io.WriteString": true, "encoding/binary.Write": true, "io.Copy": true}
var sortFuncs = map[string]bool{"sort.Slice": true, "sort.SliceStable": true, "sort.Strings": true, "sort.Sort": true, "sort.Stable": true, "sort.Ints": true,
	"slices.Sort": true, "slices.SortFunc": true, "slices.SortStableFunc": true}
var nondetFuncs = map[string]bool{"time.Now": true, "math/rand.Int": true, "math/rand.Intn": true, "math/rand.Int63": true, "math/rand.Float64": true, "crypto/rand.Read": true, "math/rand.Shuffle": true}

func calleeKey(c *types.Func) string {
	if c == nil {
		return ""
	}
	if c.Pkg() == nil {
		return c.Name()
	}
	return c.Pkg().Path() + "." + c.Name()
}

// isSinkCall: a direct call to an order-sensitive output primitive.
func isSinkCall(in ssa.Instruction) (string, bool) {
	if _, ok := in.(*ssa.Send); ok {
		return "channel send", true
	}
	c, ok := in.(ssa.CallInstruction)
	if !ok {
		return "", false
	}
	cc := c.Common()
	callee := core.CommonCallee(cc)
	if callee == nil {
		return "", false
	}
	if orderSinkFuncs[calleeKey(callee)] {
		return calleeKey(callee), true
	}
	sig, _ := callee.Type().(*types.Signature)
	if sig != nil && sig.Recv() != nil && orderSinkMethods[callee.Name()] {
		// only receivers that are writers/hashes/streams (not e.g. a repo type's own Write that is a map insert)
		rt := sig.Recv().Type().String()
		if strings.Contains(rt, "bytes.Buffer") || strings.Contains(rt, "strings.Builder") || strings.Contains(rt, "hash.Hash") ||
			strings.Contains(rt, "io.Writer") || strings.Contains(rt, "bufio.Writer") || strings.Contains(rt, "os.File") ||
			strings.Contains(rt, "dstore.Store") || strings.Contains(rt, "Stream") || strings.Contains(rt, "Encoder") || strings.Contains(rt, "crypto/") {
			return callee.Name() + " on " + rt, true
		}
	}
	return "", false
}

// reachesSink: does the function (or a repository function reachable from it) contain a sink call / slice-field append?
func reachesSink(p *core.Prog, fn *ssa.Function, memo map[*ssa.Function]string) string {
	if v, ok := memo[fn]; ok {
		return v
	}
	memo[fn] = ""
	res := ""
	cg := p.CallGraph(false)
	for f := range core.Reachable(cg, fn) {
		if !core.IsRepo(f) || f.Blocks == nil {
			continue
		}
		core.Instrs(f, func(in ssa.Instruction) {
			if res != "" {
				return
			}
			if what, ok := isSinkCall(in); ok {
				res = what + " in " + core.FuncName(f)
			}
		})
		if res != "" {
			break
		}
	}
	memo[fn] = res
	return res
}

func findMapLoops(p *core.Prog, fns []*ssa.Function) []*mapLoop {
	var out []*mapLoop
	for _, fn := range fns {
		if fn.Blocks == nil {
			continue
		}
		var loops []*core.Loop
		core.Instrs(fn, func(in ssa.Instruction) {
			rg, ok := in.(*ssa.Range)
			if !ok {
				return
			}
			if _, isMap := rg.X.Type().Underlying().(*types.Map); !isMap {
				return
			}
			var next *ssa.Next
			for _, ref := range *rg.Referrers() {
				if n, ok := ref.(*ssa.Next); ok {
					next = n
				}
			}
			if next == nil {
				return
			}
			if loops == nil {
				loops = core.Loops(fn)
			}
			var l *core.Loop
			for _, x := range loops {
				if x.Header == next.Block() {
					l = x
				}
			}
			out = append(out, &mapLoop{Fn: fn, Range: rg, Next: next, Loop: l})
		})
	}
	return out
}

func derivesFromNext(v ssa.Value, next *ssa.Next) bool {
	return core.SliceReaches(v, next, 0)
}

func classifyMapLoop(p *core.Prog, ml *mapLoop, memo map[*ssa.Function]string) {
	if ml.Loop == nil {
		ml.Class = "unknown"
		ml.Reasons = append(ml.Reasons, "loop structure not recognised")
		return
	}
	fn := ml.Fn
	sensitive := func(why string) {
		ml.Class = "order-sensitive"
		ml.Reasons = append(ml.Reasons, why)
	}
	unknown := func(why string) {
		if ml.Class != "order-sensitive" {
			ml.Class = "unknown"
		}
		ml.Reasons = append(ml.Reasons, why)
	}
	ml.Class = "commutative"
	appended := map[ssa.Value]bool{} // slices appended to inside the loop (the append results)
	var bodyBlocks []*ssa.BasicBlock
	for b := range ml.Loop.Body {
		bodyBlocks = append(bodyBlocks, b)
	}
	sort.Slice(bodyBlocks, func(i, j int) bool { return bodyBlocks[i].Index < bodyBlocks[j].Index })
	for _, b := range bodyBlocks {
		for _, in := range b.Instrs {
			if what, ok := isSinkCall(in); ok {
				sensitive("writes to an ordered sink: " + what + " at " + p.Pos(core.InstrPos(in)))
				continue
			}
			switch x := in.(type) {
			case *ssa.BinOp:
				if x.Op == token.ADD {
					if bt, ok := x.Type().Underlying().(*types.Basic); ok && bt.Info()&types.IsString != 0 {
						// string accumulation across iterations: one operand is a header phi
						for _, op := range []ssa.Value{x.X, x.Y} {
							if ph, ok := op.(*ssa.Phi); ok && ph.Block() == ml.Loop.Header {
								sensitive("string concatenation across iterations at " + p.Pos(x.Pos()))
							}
						}
					}
				}
			case *ssa.Store:
				// slice element written at a position given by a loop-carried counter: the position depends on iteration order
				if ia, ok := x.Addr.(*ssa.IndexAddr); ok {
					if _, isSlice := ia.X.Type().Underlying().(*types.Slice); isSlice {
						if ph, ok := core.SkipConv(ia.Index).(*ssa.Phi); ok && ph.Block() == ml.Loop.Header && derivesFromNext(x.Val, ml.Next) {
							sensitive("stores iteration values at positions given by a running counter (slice order = map iteration order) at " + p.Pos(x.Pos()))
						}
					}
				}
			case *ssa.MapUpdate:
				// commutative if keyed by the iteration; a constant key is last-writer-wins
				if !derivesFromNext(x.Key, ml.Next) {
					if _, isConst := x.Key.(*ssa.Const); isConst && derivesFromNext(x.Value, ml.Next) {
						sensitive("map entry with a fixed key overwritten with an iteration-dependent value at " + p.Pos(x.Pos()))
					}
				}
			case ssa.CallInstruction:
				cc := x.Common()
				if bi, ok := cc.Value.(*ssa.Builtin); ok {
					if bi.Name() == "append" {
						if v, ok := in.(ssa.Value); ok {
							appended[v] = true
						}
					}
					continue
				}
				if _, isGo := in.(*ssa.Go); isGo {
					// goroutine per key: results must be keyed; treat callee like a call
				}
				callee := core.CommonCallee(cc)
				if callee != nil && nondetFuncs[calleeKey(callee)] {
					// time.Now used for durations/logging is fine; flagged only if it flows to a sink (not tracked): ignore
					continue
				}
				if sf := core.StaticFn(cc); sf != nil {
					if core.IsRepo(sf) {
						if why := reachesSink(p, sf, memo); why != "" {
							sensitive("calls " + core.FuncName(sf) + " which reaches an ordered sink (" + why + ") at " + p.Pos(core.InstrPos(in)))
						}
					}
					continue
				}
				if cc.IsInvoke() {
					// interface call: resolve through the call graph
					if n := p.CallGraph(false).Nodes[fn]; n != nil {
						for _, e := range n.Out {
							if e.Site == x && core.IsRepo(e.Callee.Func) {
								if why := reachesSink(p, e.Callee.Func, memo); why != "" {
									sensitive("calls " + core.FuncName(e.Callee.Func) + " (dynamic dispatch) which reaches an ordered sink (" + why + ") at " + p.Pos(core.InstrPos(in)))
								}
							}
						}
					}
					continue
				}
				// call of a function value
				resolved := false
				if n := p.CallGraph(false).Nodes[fn]; n != nil {
					for _, e := range n.Out {
						if e.Site == x {
							resolved = true
							if core.IsRepo(e.Callee.Func) {
								if why := reachesSink(p, e.Callee.Func, memo); why != "" {
									sensitive("calls " + core.FuncName(e.Callee.Func) + " (function value) which reaches an ordered sink (" + why + ") at " + p.Pos(core.InstrPos(in)))
								}
							}
						}
					}
				}
				if !resolved {
					unknown("call of an unresolved function value at " + p.Pos(core.InstrPos(in)))
				}
			}
		}
	}
	// appended slices: need a sort after the loop before use, unless they never leave the loop
	if len(appended) > 0 {
		// the slice variable is a header phi fed by the append, or a local cell (captured variable) the append is stored into
		var vars []ssa.Value
		for _, in := range ml.Loop.Header.Instrs {
			if ph, ok := in.(*ssa.Phi); ok {
				for _, e := range ph.Edges {
					if appended[e] {
						vars = append(vars, ph)
					}
				}
			}
		}
		fieldAppend := false
		for v := range appended {
			for _, ref := range *v.Referrers() {
				if st, ok := ref.(*ssa.Store); ok {
					switch a := st.Addr.(type) {
					case *ssa.FieldAddr:
						fieldAppend = true
					case *ssa.Alloc:
						vars = append(vars, a)
					}
				}
			}
		}
		if fieldAppend {
			sensitive("appends to a struct field in map-iteration order")
		}
		for _, sv := range vars {
			name := sv.Name()
			if ph, ok := sv.(*ssa.Phi); ok {
				name = core.PhiName(ph)
			} else if al, ok := sv.(*ssa.Alloc); ok && al.Comment != "" {
				name = al.Comment
			}
			if !sortedAfter(fn, ml.Loop, sv) && usedAfter(ml.Loop, sv) {
				sensitive("appends to slice " + name + " in map-iteration order and the slice is used after the loop without being sorted")
			} else if ml.Class == "commutative" {
				ml.Class = "sorted-append"
			}
		}
	}
	// early exits carrying iteration-derived values
	for _, e := range ml.Loop.EarlyExits {
		if ml.Loop.ExitIsPanic(e) {
			continue
		}
		target := e.From.Succs[e.Idx]
		// phis at the target fed from inside the loop with iteration-derived values
		for _, in := range target.Instrs {
			ph, ok := in.(*ssa.Phi)
			if !ok {
				break
			}
			for i, pred := range target.Preds {
				if pred == e.From && derivesFromNext(ph.Edges[i], ml.Next) && !isErrorTyped(ph.Type()) {
					sensitive("early exit carries an iteration-dependent value (" + core.PhiName(ph) + ") out of the loop at " + p.Pos(core.InstrPos(e.From.Instrs[len(e.From.Instrs)-1])))
				}
			}
		}
		if ret, ok := target.Instrs[len(target.Instrs)-1].(*ssa.Return); ok {
			for _, rv := range ret.Results {
				if derivesFromNext(rv, ml.Next) && !isErrorTyped(rv.Type()) {
					sensitive("returns an iteration-dependent value from inside the loop at " + p.Pos(core.InstrPos(ret)))
				}
			}
		}
	}
}

func isErrorTyped(t types.Type) bool {
	return types.Identical(t, types.Universe.Lookup("error").Type())
}

// sortedAfter: every use of the slice variable (header phi or local cell) after
// the loop is preceded by a sort call on it.
func sortedAfter(fn *ssa.Function, l *core.Loop, slice ssa.Value) bool {
	isSort := func(in ssa.Instruction) bool {
		c, ok := in.(ssa.CallInstruction)
		if !ok {
			return false
		}
		callee := core.CommonCallee(c.Common())
		if callee == nil || !sortFuncs[calleeKey(callee)] {
			return false
		}
		for _, a := range c.Common().Args {
			if core.SliceReaches(a, slice, 0) {
				return true
			}
		}
		return false
	}
	sorts := core.FindInstrs(fn, isSort)
	if len(sorts) == 0 {
		return false
	}
	feedsSort := func(v ssa.Value) bool {
		for _, s := range sorts {
			for _, a := range s.(ssa.CallInstruction).Common().Args {
				if core.SliceReaches(a, v, 0) {
					return true
				}
			}
		}
		return false
	}
	ok := true
	core.Instrs(fn, func(in ssa.Instruction) {
		if l.Body[in.Block()] || isSort(in) {
			return
		}
		uses := false
		for _, op := range in.Operands(nil) {
			if *op == slice {
				uses = true
			}
		}
		if !uses {
			return
		}
		if st, isStore := in.(*ssa.Store); isStore && st.Addr == slice {
			return // a write to the variable, not a use of its content
		}
		if in.Block() != l.Header && in.Block().Dominates(l.Header) {
			return // happens before the loop
		}
		if v, isV := in.(ssa.Value); isV && feedsSort(v) {
			return // the load / closure that is the sort's own argument
		}
		if _, dom := core.MustPassBefore(fn, isSort, func(x ssa.Instruction) bool { return x == in }); !dom {
			ok = false
		}
	})
	return ok
}

func usedAfter(l *core.Loop, slice ssa.Value) bool {
	for _, ref := range *slice.Referrers() {
		if !l.Body[ref.Block()] {
			if _, isAlloc := slice.(*ssa.Alloc); isAlloc && ref.Block() == slice.(*ssa.Alloc).Block() && ref == ssa.Instruction(slice.(*ssa.Alloc)) {
				continue
			}
			return true
		}
	}
	return false
}

// checkMapOrder emits one obligation per map-range loop reachable from the roots.
func checkMapOrder(p *core.Prog, r *core.Report, rule string, roots []*ssa.Function, allow map[string]string) {
	cg := p.CallGraph(false)
	reach := core.Reachable(cg, roots...)
	var fns []*ssa.Function
	for f := range reach {
		if core.IsRepo(f) && f.Blocks != nil && !p.IsTestFunc(f) && !isGenerated(p, f) {
			fns = append(fns, f)
		}
	}
	sort.Slice(fns, func(i, j int) bool { return fns[i].String() < fns[j].String() })
	memo := map[*ssa.Function]string{}
	loops := findMapLoops(p, fns)
	count := map[string]int{}
	for _, ml := range loops {
		classifyMapLoop(p, ml, memo)
		name := core.FuncName(ml.Fn)
		count[name]++
		construct := fmt.Sprintf("%s/map-range#%d", name, count[name])
		r.Touch(name)
		pos := p.Pos(ml.Range.Pos())
		desc := "iteration over a map does not influence anything order-sensitive (stream, file, hash, delta order, returned value)"
		switch ml.Class {
		case "commutative", "sorted-append":
			r.Add(&core.Obligation{Rule: rule, Construct: construct, Desc: desc + " [" + ml.Class + "]", Status: core.OK, Sites: []string{pos}})
		default:
			if why, ok := mapOrderPkgAllow[pkgRel(ml.Fn)]; ok {
				r.Add(&core.Obligation{Rule: rule, Construct: construct, Desc: desc + " [" + ml.Class + ", package out of scope: " + why + "]", Status: core.OK, Sites: []string{pos}, Detail: strings.Join(ml.Reasons, "; ")})
			} else if why, ok := allow[construct]; ok {
				r.Add(&core.Obligation{Rule: rule, Construct: construct, Desc: desc + " [" + ml.Class + ", allowed: " + why + "]", Status: core.OK, Sites: []string{pos}, Detail: strings.Join(ml.Reasons, "; ")})
			} else if ml.Class == "unknown" {
				r.Add(&core.Obligation{Rule: rule, Construct: construct, Desc: desc, Status: core.Undec, Detail: strings.Join(ml.Reasons, "; "), Sites: []string{pos}})
			} else {
				r.Fail(rule, construct, desc, strings.Join(ml.Reasons, "; "), pos)
			}
		}
	}
	r.Notes = append(r.Notes, fmt.Sprintf("%s: %d functions reachable from %d roots, %d map-range loops classified", rule, len(fns), len(roots), len(loops)))
}

func isGenerated(p *core.Prog, fn *ssa.Function) bool {
	pos := fn.Pos()
	if !pos.IsValid() {
		return false
	}
	name := p.Fset.Position(pos).Filename
	return strings.HasSuffix(name, ".pb.go") || strings.HasSuffix(name, "_vtproto.pb.go") || strings.HasSuffix(name, ".connect.go")
}

// mapOrderPkgAllow: packages whose order-sensitive map loops cannot influence data outputs.
var mapOrderPkgAllow = map[string]string{
	"metrics": "progress / statistics messages only: never part of block data, cache files or stores",
}

func pkgRel(fn *ssa.Function) string {
	root := core.RootFn(fn)
	if root.Pkg == nil {
		return ""
	}
	return strings.TrimPrefix(root.Pkg.Pkg.Path(), core.ModPath+"/")
}
