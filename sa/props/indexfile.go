package props

import (
	"fmt"

	"golang.org/x/tools/go/ssa"

	"verif/sa/core"
)

// checkIndexFileCodec (C15.R6): the index file written at the end of a job is read back as the same key → bitmap map.
func checkIndexFileCodec(p *core.Prog, r *core.Report, rule string) {
	// writer side: out[key] = value.ToBytes() for the key and value of the same iteration, every entry visited
	cv := p.Func(pkgIndex, "ConvertIndexesMapToBytes")
	r.Touch(core.FuncName(cv))
	okW := false
	core.Instrs(cv, func(in ssa.Instruction) {
		mu, ok := in.(*ssa.MapUpdate)
		if !ok {
			return
		}
		kx, ok1 := mu.Key.(*ssa.Extract)
		vx, ok2 := mu.Value.(*ssa.Extract)
		if !ok1 || !ok2 {
			return
		}
		// key: range key (index 1 of Next); value: result of ToBytes on the range value of the same Next
		nk, ok := kx.Tuple.(*ssa.Next)
		if !ok || kx.Index != 1 {
			return
		}
		tb, ok := vx.Tuple.(*ssa.Call)
		if !ok || core.CommonCallee(tb.Common()) == nil || core.CommonCallee(tb.Common()).Name() != "ToBytes" {
			return
		}
		if rv, ok := tb.Call.Args[0].(*ssa.Extract); ok && rv.Tuple == ssa.Value(nk) && rv.Index == 2 {
			okW = true
		}
	})
	r.Check(okW, rule, "ConvertIndexesMapToBytes/entries", "each key of the index is written with the serialised form of its own bitmap", "out[key] is not value.ToBytes() of the same map entry", p.Pos(cv.Pos()))
	// reader side: a fresh bitmap per key, filled from that key's bytes, error propagated
	ld := p.Func(pkgIndex, "File.Load")
	r.Touch(core.FuncName(ld))
	okR, okErr := false, false
	core.Instrs(ld, func(in ssa.Instruction) {
		c, ok := in.(*ssa.Call)
		if !ok {
			return
		}
		cl := core.CommonCallee(c.Common())
		if cl == nil || (cl.Name() != "FromUnsafeBytes" && cl.Name() != "UnmarshalBinary" && cl.Name() != "FromBuffer") {
			return
		}
		// receiver: Indices[k] looked up with the range key; argument: the range value of the same Next
		vx0, okv := c.Call.Args[1].(*ssa.Extract)
		if nb, isNew := c.Call.Args[0].(*ssa.Call); isNew && okv && vx0.Index == 2 {
			// the other form: bitmap := New(); Indices[key] = bitmap; bitmap.FromUnsafeBytes(bytes)
			if cn := core.CommonCallee(nb.Common()); cn != nil && cn.Name() == "New" {
				core.Instrs(ld, func(x ssa.Instruction) {
					if mu, ok := x.(*ssa.MapUpdate); ok && mu.Value == ssa.Value(nb) {
						if kx, ok := mu.Key.(*ssa.Extract); ok && kx.Tuple == vx0.Tuple && kx.Index == 1 {
							okR = true
						}
					}
				})
				okErr = core.ErrorTested(c)
			}
			return
		}
		lk, ok := c.Call.Args[0].(*ssa.Lookup)
		if !ok {
			return
		}
		kx, ok1 := lk.Index.(*ssa.Extract)
		vx, ok2 := c.Call.Args[1].(*ssa.Extract)
		if ok1 && ok2 && kx.Tuple == vx.Tuple && kx.Index == 1 && vx.Index == 2 {
			// and that entry was set to a new bitmap in the same iteration
			for _, x := range c.Block().Instrs {
				if mu, ok := x.(*ssa.MapUpdate); ok && mu.Key == ssa.Value(kx) {
					if nb, ok := mu.Value.(*ssa.Call); ok && core.CommonCallee(nb.Common()) != nil && core.CommonCallee(nb.Common()).Name() == "New" {
						okR = true
					}
				}
			}
			okErr = core.ErrorTested(c)
		}
	})
	r.Check(okR && okErr, rule, "index.File.Load/entries", "each key of the file is read into a new bitmap filled from that key's bytes, and a decoding error fails the load", fmt.Sprintf("per-key fresh bitmap from its own bytes: %v; error tested: %v", okR, okErr), p.Pos(ld.Pos()))
	checkNoSilentTruncation(p, r, rule, []loopSite{{pkgIndex, "ConvertIndexesMapToBytes", nil}, {pkgIndex, "File.Load", nil}})
	// writers are created only for aligned ranges without an existing file; an existing file is used only if it loaded
	gw := p.Func(pkgIndex, "GenerateBlockIndexWriters")
	r.Touch(core.FuncName(gw))
	var loadCall ssa.Instruction
	for _, c := range core.FindInstrs(gw, core.IsCallTo(p.FuncObj(pkgIndex, "File.Load"))) {
		loadCall = c
	}
	if loadCall == nil {
		core.Undecide("GenerateBlockIndexWriters: no File.Load call")
	}
	nilEdges := errNilEdges(gw, loadCall)
	q := core.PathQuery{Fn: gw, CutEdge: func(e core.Edge) bool { return containsEdge(nilEdges, e) }}
	var existingUpd, writerUpd []ssa.Instruction
	core.Instrs(gw, func(in ssa.Instruction) {
		mu, ok := in.(*ssa.MapUpdate)
		if !ok {
			return
		}
		if f, _ := core.LoadedField(mu.Value); f != nil && f.Name() == "Indices" {
			existingUpd = append(existingUpd, in)
		}
		if c, ok := mu.Value.(*ssa.Call); ok && core.CommonCallee(c.Common()) == p.FuncObj(pkgIndex, "NewWriter") {
			writerUpd = append(writerUpd, in)
		}
	})
	okEx := len(existingUpd) > 0 && len(nilEdges) > 0
	for _, u := range existingUpd {
		if _, reach := q.CanReach(loadCall, func(x ssa.Instruction) bool { return x == u }); reach {
			okEx = false
		}
	}
	r.Check(okEx, rule, "GenerateBlockIndexWriters/existing", "an index file counts as existing only when it loaded without error", "existingIndices is filled although Load failed", p.Pos(gw.Pos()))
	// a writer only on the path where the load failed
	okWr := len(writerUpd) > 0
	for _, u := range writerUpd {
		q2 := core.PathQuery{Fn: gw, CutInstr: func(x ssa.Instruction) bool { return false }}
		_ = q2
		// cutting the non-nil edges must make the writer unreachable from the load
		var nonNil []core.Edge
		for _, e := range nilEdges {
			nonNil = append(nonNil, core.Edge{From: e.From, Idx: 1 - e.Idx})
		}
		q3 := core.PathQuery{Fn: gw, CutEdge: func(e core.Edge) bool { return containsEdge(nonNil, e) }}
		if _, reach := q3.CanReach(loadCall, func(x ssa.Instruction) bool { return x == u }); reach {
			okWr = false
		}
	}
	r.Check(okWr, rule, "GenerateBlockIndexWriters/writer", "an index writer is created only for a module whose index file could not be loaded", "a writer can be created although the file exists", p.Pos(gw.Pos()))
}
