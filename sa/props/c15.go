package props

import (
	"fmt"
	"go/token"
	"go/types"
	"sort"
	"strings"

	"golang.org/x/tools/go/ssa"

	"verif/sa/core"
)

func init() {
	register("C15", &Def{
		Title:     "Block-index filtering never changes results",
		Run:       runC15,
		Technique: "static analysis: sibling agreement of the two evaluators (case tables and the combiner each case binds), fresh-receiver discipline for mutating bitmap methods, who-may-construct rule for negation, polarity of the skip predicates, index-construction provenance",
		Explanation: "(R1) the bitmap evaluator and the per-block key evaluator dispatch on the same expression types; for AND they combine with Bitmap.And / &&, for OR with Bitmap.Or / ||, a single child and a parenthesis return the child unchanged, and an absent key is the empty set / false; " +
			"(R2) bitmaps of the shared index are never mutated: mutating bitmap methods are only called on receivers that are fresh (Clone()/New() results, or entries of a map built locally from New()) in the same function; " +
			"(R3) negation cannot be produced by the parser: no NotExpression is constructed in anything reachable from sqe.Parse, and the NOT token is an error; " +
			"(R4) both skip predicates are the negation of membership / evaluation, and the executor uses the pre-computed bitmap exactly when one exists; " +
			"(R5) the optimiser only flattens an OR into an OR; " +
			"(R6) the index maps each emitted key to the set of block numbers of the items that emitted it. Also (R1) both evaluators look a key term up under a key of the same provenance. Also (R6) nothing set while building one module's executor (block index, precomputed bitmap) is read while building the next. Also (R4) every value Skip returns is false or !Contains(block).",
		NotCovered:  "Semantic equality of the two evaluators on all expressions and data (only their case-by-case structure is compared); roaring bitmap correctness.",
		Assumptions: []string{"roaring64.Bitmap And/Or implement set intersection/union", "Clone() returns an independent copy"},
	})
}

// controllingTypes: the asserted types whose success edge leads (exclusively) to block b.
func controllingTypes(fn *ssa.Function, b *ssa.BasicBlock) []string {
	var out []string
	core.Instrs(fn, func(in ssa.Instruction) {
		ta, ok := in.(*ssa.TypeAssert)
		if !ok || !ta.CommaOk {
			return
		}
		for _, ref := range *ta.Referrers() {
			ex, ok := ref.(*ssa.Extract)
			if !ok || ex.Index != 1 {
				continue
			}
			for _, rr := range *ex.Referrers() {
				ifi, ok := rr.(*ssa.If)
				if !ok {
					continue
				}
				succ := ifi.Block().Succs[0]
				if succ == b || (succ.Dominates(b) && len(succ.Preds) == 1) {
					out = append(out, typeName(ta.AssertedType))
				}
			}
		}
	})
	sort.Strings(out)
	return out
}

// boolCombiners finds, in fn and its closures, the short-circuit combinations of a boolean with a
// constant edge (x && y lowers to phi[false, y]; x || y to phi[true, y]) and maps each to the
// expression node type under which it is selected: the type case that creates the closure holding
// it, the type case that encloses it, or the value of a flag assigned under the type cases.
func boolCombiners(fn *ssa.Function) (map[string]string, map[*ssa.Phi]bool) {
	ops := map[string]string{}
	sites := map[*ssa.Phi]bool{}
	kindOf := func(ph *ssa.Phi) string {
		if b, ok := ph.Type().Underlying().(*types.Basic); !ok || b.Kind() != types.Bool || len(ph.Edges) != 2 {
			return ""
		}
		kind, nonConst := "", 0
		for _, e := range ph.Edges {
			if k, ok := e.(*ssa.Const); ok && k.Value != nil {
				switch k.Value.ExactString() {
				case "false":
					kind = "&&"
				case "true":
					kind = "||"
				}
			} else {
				nonConst++
			}
		}
		if nonConst != 1 {
			return ""
		}
		return kind
	}
	selecting := func(b *ssa.BasicBlock) []string { return selectingTypes(fn, b) }
	for _, f := range append([]*ssa.Function{fn}, fn.AnonFuncs...) {
		core.Instrs(f, func(in ssa.Instruction) {
			ph, ok := in.(*ssa.Phi)
			if !ok {
				return
			}
			kind := kindOf(ph)
			if kind == "" {
				return
			}
			if f == fn {
				inLoop := false
				for _, l := range core.Loops(fn) {
					if l.Body[ph.Block()] {
						inLoop = true
					}
				}
				if !inLoop {
					return
				}
				sites[ph] = true
				for _, t := range selecting(ph.Block()) {
					ops[t] = kind
				}
				return
			}
			// in a closure: the combination must be stored (to the captured result)
			stored := false
			for _, ref := range *ph.Referrers() {
				if _, ok := ref.(*ssa.Store); ok {
					stored = true
				}
			}
			if !stored {
				return
			}
			sites[ph] = true
			core.Instrs(fn, func(in ssa.Instruction) {
				if mc, ok := in.(*ssa.MakeClosure); ok && mc.Fn == ssa.Value(f) {
					for _, t := range selecting(mc.Block()) {
						ops[t] = kind
					}
				}
			})
		})
	}
	return ops, sites
}

// selectingTypes: the And/Or node types under which block b of fn runs: enclosing type cases, or a dominating test of a
// flag assigned under the type cases, or of a type assertion.
func selectingTypes(fn *ssa.Function, b *ssa.BasicBlock) []string {
	isNode := func(t string) bool { return t == "*AndExpression" || t == "*OrExpression" }
	other := map[string]string{"*AndExpression": "*OrExpression", "*OrExpression": "*AndExpression"}

	var out []string
	for _, t := range controllingTypes(fn, b) {
		if isNode(t) {
			out = append(out, t)
		}
	}
	if len(out) > 0 {
		return out
	}
	for d := b; d != nil; d = d.Idom() {
		idom := d.Idom()
		if idom == nil || len(d.Preds) != 1 || d.Preds[0] != idom {
			continue
		}
		ifi, ok := idom.Instrs[len(idom.Instrs)-1].(*ssa.If)
		if !ok {
			continue
		}
		onTrue := idom.Succs[0] == d
		switch c := ifi.Cond.(type) {
		case *ssa.Phi: // a flag assigned constants under the type cases
			var hit, miss []string
			unknown := 0
			for i, e := range c.Edges {
				k, ok := e.(*ssa.Const)
				if !ok || k.Value == nil {
					return nil
				}
				var ts []string
				for _, t := range controllingTypes(fn, c.Block().Preds[i]) {
					if isNode(t) {
						ts = append(ts, t)
					}
				}
				if len(ts) == 0 {
					unknown++
				}
				if (k.Value.ExactString() == "true") == onTrue {
					hit = append(hit, ts...)
					if len(ts) == 0 {
						hit = append(hit, "?")
					}
				} else {
					miss = append(miss, ts...)
				}
			}
			// a default value of the flag stands for the node type no case names
			if unknown == 1 && len(hit)+len(miss) == 1+len(c.Edges)-1 {
				for i, t := range hit {
					if t == "?" && len(miss) == 1 {
						hit[i] = other[miss[0]]
					}
				}
			}
			var res []string
			for _, t := range hit {
				if isNode(t) {
					res = append(res, t)
				}
			}
			return res
		case *ssa.Extract: // v, ok := expr.(*AndExpression) tested directly
			if ta, ok := c.Tuple.(*ssa.TypeAssert); ok && c.Index == 1 {
				t := typeName(ta.AssertedType)
				if isNode(t) {
					if onTrue {
						return []string{t}
					}
					return []string{other[t]}
				}
			}
		}
	}
	return nil
}

func typeName(t types.Type) string {
	star := ""
	if p, ok := t.(*types.Pointer); ok {
		star = "*"
		t = p.Elem()
	}
	if n, ok := t.(*types.Named); ok {
		return star + n.Obj().Name()
	}
	return star + t.String()
}

func runC15(p *core.Prog, r *core.Report) {
	// ------------------------------------------------------------------ R1
	r.Guard("C15.R1", "evaluators", "sibling agreement", func() {
		bm := p.Func(pkgSqe, "roaringQuerier.apply")
		ky := p.Func(pkgSqe, "KeysQuerier.apply")
		r.Touch(core.FuncName(bm), core.FuncName(ky))
		caseSet := func(rel, name string) []string {
			fd, pk := p.FuncDecl(rel, name)
			var out []string
			for _, s := range core.SwitchesIn(pk, fd.Body) {
				if s.IsType {
					for l := range s.AllLabels() {
						out = append(out, l)
					}
					break // outermost type switch
				}
			}
			sort.Strings(out)
			return out
		}
		a, b := caseSet(pkgSqe, "roaringQuerier.apply"), caseSet(pkgSqe, "KeysQuerier.apply")
		r.Check(strings.Join(a, ",") == strings.Join(b, ",") && len(a) >= 4, "C15.R1", "apply/case-sets", "both evaluators handle the same expression node types", fmt.Sprintf("bitmap: %v, keys: %v", a, b), p.Pos(bm.Pos()))
		// bitmap combiners: bound methods created under *AndExpression / *OrExpression
		bmOps := map[string]string{}
		core.Instrs(bm, func(in ssa.Instruction) {
			mc, ok := in.(*ssa.MakeClosure)
			if !ok {
				return
			}
			f := mc.Fn.(*ssa.Function)
			if !strings.HasSuffix(f.Name(), "$bound") {
				return
			}
			meth := strings.TrimSuffix(f.Name(), "$bound")
			for _, t := range controllingTypes(bm, mc.Block()) {
				bmOps[t] = meth
			}
		})
		// direct method calls (no bound value) under the type cases
		core.Instrs(bm, func(in ssa.Instruction) {
			c := core.CalleeOf(in)
			if c == nil || c.Pkg() == nil || !strings.Contains(c.Pkg().Path(), "roaring") {
				return
			}
			if c.Name() != "And" && c.Name() != "Or" && c.Name() != "AndNot" && c.Name() != "Xor" {
				return
			}
			for _, t := range selectingTypes(bm, in.Block()) {
				bmOps[t] = c.Name()
			}
		})
		r.Check(bmOps["*AndExpression"] == "And", "C15.R1", "bitmap/AND", "an AND node intersects the children's bitmaps (Bitmap.And)", "combiner is "+bmOps["*AndExpression"], p.Pos(bm.Pos()))
		r.Check(bmOps["*OrExpression"] == "Or", "C15.R1", "bitmap/OR", "an OR node unites the children's bitmaps (Bitmap.Or)", "combiner is "+bmOps["*OrExpression"], p.Pos(bm.Pos()))
		// key combiners: result = result && x  /  result || x, selected by the node type — through closures
		// created under the type cases, directly under the type cases, or through a flag set under them
		kyOps, kySites := boolCombiners(ky)
		kyLoopFn := ky
		if len(kyOps) == 0 {
			// the folding of the remaining children may be a helper method of the evaluator
			for _, m := range core.Family(ky, 1) {
				if m == ky || m.Parent() != nil {
					continue
				}
				if ops, sites := boolCombiners(m); len(ops) > 0 {
					kyOps, kySites, kyLoopFn = ops, sites, m
					r.Touch(core.FuncName(m))
				}
			}
		}
		r.Check(kyOps["*AndExpression"] == "&&", "C15.R1", "keys/AND", "an AND node is the conjunction of the children's truth values", "combiner is "+kyOps["*AndExpression"], p.Pos(ky.Pos()))
		r.Check(kyOps["*OrExpression"] == "||", "C15.R1", "keys/OR", "an OR node is the disjunction of the children's truth values", "combiner is "+kyOps["*OrExpression"], p.Pos(ky.Pos()))
		// every child is combined: the loop over children[1:] applies op to apply(child)
		for _, f := range []*ssa.Function{bm, ky} {
			okLoop := false
			loopFn := f
			if f == ky {
				loopFn = kyLoopFn
			}
			for _, l := range core.Loops(loopFn) {
				hasRec, hasOp := false, false
				for blk := range l.Body {
					for _, in := range blk.Instrs {
						if c, ok := in.(*ssa.Call); ok {
							if core.StaticFn(c.Common()) == f {
								hasRec = true
							}
							if _, isPhi := c.Call.Value.(*ssa.Phi); isPhi {
								hasOp = true
							}
							if cl := core.CommonCallee(c.Common()); cl != nil && cl.Pkg() != nil && strings.Contains(cl.Pkg().Path(), "roaring") && (cl.Name() == "And" || cl.Name() == "Or") {
								hasOp = true
							}
						}
						if ph, ok := in.(*ssa.Phi); ok && f == ky && kySites[ph] {
							hasOp = true
						}
					}
				}
				if hasRec && hasOp {
					okLoop = true
				}
			}
			r.Check(okLoop, "C15.R1", shortFn(f)+"@"+recvName(f)+"/all-children", "every remaining child is evaluated and combined into the result", "loop applying the combiner to apply(child) not found", p.Pos(f.Pos()))
		}
		// KeyTerm: absent key → empty bitmap / false; present → its bitmap / true
		okAbsent := false
		core.InstrsDeep(bm, func(in ssa.Instruction) { // (the lookup may be a helper method of the evaluator)
			lk, ok := in.(*ssa.Lookup)
			if !ok || !lk.CommaOk {
				return
			}
			if f, _ := core.LoadedField(lk.X); f != nil && f.Name() == "bitmaps" {
				okAbsent = true
			}
		})
		r.Check(okAbsent, "C15.R1", "bitmap/key-term", "a key term evaluates to the key's bitmap, or the empty set when the key is absent", "lookup in the bitmaps map not found", p.Pos(bm.Pos()))
	})

	r.Guard("C15.R1", "key-term/same-key", "same lookup key", func() { checkKeyTermSameKey(p, r, "C15.R1") })
	r.GuardExact("C15.R1", "bitmap/no-early-exit", "every child of an OR is combined", func() { checkBitmapEvaluatorVisitsAll(p, r, "C15.R1") })
	// ------------------------------------------------------------------ R2
	checkSharedBitmaps(p, r, "C15.R2")

	// ------------------------------------------------------------------ R3
	r.Guard("C15.R3", "negation", "parser cannot produce NOT", func() {
		notT := p.Named(pkgSqe, "NotExpression")
		var builders []*ssa.Function
		for _, fn := range p.RepoFunctions() {
			if len(core.AllocsOf(fn, notT)) > 0 {
				builders = append(builders, fn)
			}
		}
		cg := p.CallGraph(false)
		reach := core.Reachable(cg, p.Func(pkgSqe, "Parse"))
		hit := ""
		for _, b := range builders {
			if reach[b] {
				hit = core.FuncName(b)
			}
		}
		r.Check(hit == "", "C15.R3", "Parse/no-NotExpression", "no function reachable from sqe.Parse constructs a NotExpression (bitmaps of one segment cannot represent a complement)", "reachable constructor: "+hit, p.Pos(p.Func(pkgSqe, "Parse").Pos()))
		// the NOT token is an error in parseUnaryExpression
		pu := p.Func(pkgSqe, "Parser.parseUnaryExpression")
		r.Touch(core.FuncName(pu))
		isNot := p.FuncObj(pkgSqe, "lexer.isNotOperator")
		okErr := false
		for _, c := range core.FindInstrs(pu, core.IsCallTo(isNot)) {
			for _, ref := range *c.(ssa.Value).Referrers() {
				if ifi, ok := ref.(*ssa.If); ok {
					tb := ifi.Block().Succs[0]
					if ret, ok := tb.Instrs[len(tb.Instrs)-1].(*ssa.Return); ok && !core.ReturnsNilError(ret) {
						if k, ok := core.ReturnValues(ret)[0].(*ssa.Const); ok && k.IsNil() {
							okErr = true
						}
					}
				}
			}
		}
		r.Check(okErr, "C15.R3", "parseUnaryExpression/not-token", "the NOT operator token is rejected with an error", "NOT token does not lead to (nil, error)", p.Pos(pu.Pos()))
	})

	// ------------------------------------------------------------------ R4
	r.Guard("C15.R4", "skip", "skip polarity", func() {
		sk := p.Func(pkgIndex, "BlockIndex.Skip")
		r.Touch(core.FuncName(sk))
		// returns bitmap != nil && !Contains(blk)
		okSkip := false
		core.Instrs(sk, func(in ssa.Instruction) {
			u, ok := in.(*ssa.UnOp)
			if !ok || u.Op != token.NOT {
				return
			}
			if c, ok := u.X.(*ssa.Call); ok {
				if cl := core.CommonCallee(c.Common()); cl != nil && cl.Name() == "Contains" && len(c.Call.Args) == 2 && c.Call.Args[1] == ssa.Value(sk.Params[1]) {
					// the negation flows to the return
					for _, s := range core.ForwardSinks(u, 3) {
						if s.IsRet {
							okSkip = true
						}
					}
				}
			}
		})
		r.Check(okSkip, "C15.R4", "BlockIndex.Skip", "a block is skipped iff the pre-computed bitmap does NOT contain it", "Skip is not the negation of Contains(block)", p.Pos(sk.Pos()))
		sfk := p.Func(pkgIndex, "BlockIndex.SkipFromKeys")
		r.Touch(core.FuncName(sfk))
		okSFK := false
		core.Instrs(sfk, func(in ssa.Instruction) {
			u, ok := in.(*ssa.UnOp)
			if !ok || u.Op != token.NOT {
				return
			}
			if c, ok := u.X.(*ssa.Call); ok && core.CommonCallee(c.Common()) == p.FuncObj(pkgSqe, "KeysApply") {
				if f, _ := core.LoadedField(c.Call.Args[0]); f != nil && f.Name() == "expression" {
					for _, s := range core.ForwardSinks(u, 3) {
						if s.IsRet {
							okSFK = true
						}
					}
				}
			}
		})
		r.Check(okSFK, "C15.R4", "BlockIndex.SkipFromKeys", "a block is skipped iff the filter expression evaluated on the block's own keys is NOT true", "SkipFromKeys is not the negation of KeysApply(expression, keys)", p.Pos(sfk.Pos()))
		// skipFromIndex: Precomputed → Skip(clock number) else SkipFromKeys(output of the index module)
		sfi := p.Func(pkgExec, "skipFromIndex")
		r.Touch(core.FuncName(sfi))
		pre := p.FuncObj(pkgIndex, "BlockIndex.Precomputed")
		var preTrue *ssa.BasicBlock
		for _, c := range core.FindInstrs(sfi, core.IsCallTo(pre)) {
			for _, ref := range *c.(ssa.Value).Referrers() {
				if ifi, ok := ref.(*ssa.If); ok {
					preTrue = ifi.Block().Succs[0]
				}
			}
		}
		okSel := false
		if preTrue != nil {
			inPre, outPre := false, false
			core.Instrs(sfi, func(in ssa.Instruction) {
				c := core.CalleeOf(in)
				if c == p.FuncObj(pkgIndex, "BlockIndex.Skip") && in.Block() == preTrue {
					inPre = true
				}
				if c == p.FuncObj(pkgIndex, "BlockIndex.SkipFromKeys") && !reachFromBlock(sfi, preTrue, in) {
					outPre = true
				}
			})
			okSel = inPre && outPre
		}
		r.Check(okSel, "C15.R4", "skipFromIndex/selection", "the pre-computed bitmap is consulted exactly when it exists; otherwise the expression is evaluated on the keys the index module produced for this block", "selection between Skip and SkipFromKeys differs", p.Pos(sfi.Pos()))
		// Precomputed is bitmap != nil
		pf := p.Func(pkgIndex, "BlockIndex.Precomputed")
		okPre := false
		core.Instrs(pf, func(in ssa.Instruction) {
			if bo, ok := in.(*ssa.BinOp); ok && bo.Op == token.NEQ {
				if f, _ := core.LoadedField(bo.X); f != nil && f.Name() == "bitmap" {
					okPre = true
				}
			}
		})
		r.Check(okPre, "C15.R4", "BlockIndex.Precomputed", "an index is pre-computed iff its bitmap is set", "other test", p.Pos(pf.Pos()))
		// RunModule: a skipped module produces nothing and is reported skipped
		rm := p.Func(pkgExec, "RunModule")
		okRM := false
		for _, c := range core.FindInstrs(rm, core.IsCallTo(p.FuncObj(pkgExec, "skipFromIndex"))) {
			for _, ref := range *c.(ssa.Value).Referrers() {
				if ifi, ok := ref.(*ssa.If); ok {
					q := core.PathQuery{Fn: rm}
					tb := ifi.Block().Succs[0]
					_, reach := q.CanReach(tb.Instrs[0], func(x ssa.Instruction) bool {
						cc, ok := x.(ssa.CallInstruction)
						return ok && cc.Common().IsInvoke() && (cc.Common().Method.Name() == "run" || cc.Common().Method.Name() == "applyCachedOutput")
					})
					okRM = !reach
				}
			}
		}
		r.Check(okRM, "C15.R4", "RunModule/skip", "a module skipped by its block filter is neither executed nor replayed on that block", "run/applyCachedOutput reachable on the skip branch", p.Pos(rm.Pos()))
	})

	// ------------------------------------------------------------------ R5
	r.Guard("C15.R5", "optimizer", "flatten like into like", func() {
		fn := p.Func(pkgSqe, "optimizeExpression")
		var tas []string
		for _, f := range core.Family(fn, 1) { // the optimiser, its closures and the helper that flattens the children
			core.Instrs(f, func(in ssa.Instruction) {
				if ta, ok := in.(*ssa.TypeAssert); ok && ta.CommaOk {
					tas = append(tas, typeName(ta.AssertedType))
				}
			})
		}
		sort.Strings(tas)
		r.Check(len(tas) == 2 && tas[0] == tas[1], "C15.R5", "optimizeExpression", "the optimiser merges the children of a node into its parent only when both are the same kind of node (OR into OR)", fmt.Sprintf("type assertions: %v", tas), p.Pos(fn.Pos()))
	})

	// ------------------------------------------------------------------ R6
	r.Guard("C15.R6", "index-build", "index construction", func() {
		fn := p.Func(pkgCache, "Engine.EndOfStream")
		r.Touch(core.FuncName(fn))
		item := p.Named(pkgPBOut, "Item")
		bn := core.FieldOf(item, "BlockNum")
		ok := false
		// (in EndOfStream or in the helper of its family that builds the bitmaps of one file)
		for _, fn := range core.Family(fn, 1) {
			core.Instrs(fn, func(in ssa.Instruction) {
				c, isC := in.(*ssa.Call)
				if !isC {
					return
				}
				cl := core.CommonCallee(c.Common())
				if cl == nil || cl.Name() != "Add" || cl.Pkg() == nil || !strings.Contains(cl.Pkg().Path(), "roaring64") {
					return
				}
				// receiver = indexes[key] with key ranging over the item's extracted keys; value = item.BlockNum
				lk, isLk := c.Call.Args[0].(*ssa.Lookup)
				f, base := core.LoadedField(c.Call.Args[1])
				if !isLk || f != bn {
					return
				}
				keySrc := core.Trace(lk.Index, 0)
				payloadSrc := false
				for fl := range keySrc.Fields {
					if fl.Name() == "Keys" {
						payloadSrc = true
					}
				}
				// the keys were decoded from the same item's payload
				okItem := false
				core.Instrs(fn, func(x ssa.Instruction) {
					cc, isCC := x.(*ssa.Call)
					if !isCC {
						return
					}
					if u := core.CommonCallee(cc.Common()); u != nil && u.Name() == "Unmarshal" {
						if pf, pb := core.LoadedField(cc.Call.Args[0]); pf != nil && pf.Name() == "Payload" && pb == base {
							okItem = true
						}
					}
				})
				if payloadSrc && okItem {
					ok = true
				}
			})
		}
		r.Check(ok, "C15.R6", "EndOfStream/index", "for each item of the index module's output, every key decoded from that item's payload gets that item's block number added to its bitmap", "Add(item.BlockNum) on indexes[key] with keys of the same item not found", p.Pos(fn.Pos()))
	})
	r.Guard("C15.R4", "skipFromIndex/absent-output", "no output of the index module = no key", func() { checkSkipFromIndexAbsentOutput(p, r, "C15.R4") })
	r.Guard("C15.R4", "SkipFromKeys/own-keys", "the block's own keys", func() {
		fn := p.Func(pkgIndex, "BlockIndex.SkipFromKeys")
		r.Touch(core.FuncName(fn))
		ka := p.FuncObj(pkgSqe, "KeysApply")
		calls := core.FindInstrs(fn, core.IsCallTo(ka))
		if len(calls) == 0 {
			core.Undecide("SkipFromKeys: no KeysApply call")
		}
		for _, c := range calls {
			// the keys evaluated: a message allocated in this call ...
			var keysObj ssa.Value
			okFresh := false
			fn, c := fn, c // (re-bound below when the decoding is delegated)
			bytesParam := ssa.Value(fn.Params[1])
			for _, nk := range core.FindInstrs(fn, core.IsCallTo(p.FuncObj(pkgSqe, "NewFromIndexKeys"))) {
				arg := nk.(ssa.CallInstruction).Common().Args[0]
				if al, ok := arg.(*ssa.Alloc); ok {
					keysObj, okFresh = al, true
				} else if hc, ok := arg.(*ssa.Call); ok {
					// ... or in a helper of the package that is handed the block's bytes and returns the message it decoded
					h := core.StaticFn(hc.Common())
					if h != nil && h.Blocks != nil && h.Pkg == fn.Pkg && h.Parent() == nil {
						var ret *ssa.Return
						nRet := 0
						core.Instrs(h, func(x ssa.Instruction) {
							if rt, ok := x.(*ssa.Return); ok {
								ret = rt
								nRet++
							}
						})
						for i, a := range hc.Call.Args {
							if core.SkipConv(a) == bytesParam && i < len(h.Params) && nRet == 1 && len(ret.Results) == 1 {
								if al, ok := core.ReturnValues(ret)[0].(*ssa.Alloc); ok {
									keysObj, okFresh = al, true
									fn, c, bytesParam = h, ret, h.Params[i]
								}
							}
						}
					}
					if !okFresh {
						keysObj = arg
					}
				} else {
					keysObj = arg
				}
			}
			// ... decoded, on every path, from the bytes given for this block
			isDecode := func(in ssa.Instruction) bool {
				cl := core.CalleeOf(in)
				if cl == nil || !strings.HasPrefix(cl.Name(), "Unmarshal") {
					return false
				}
				args := in.(ssa.CallInstruction).Common().Args
				fromParam, intoKeys := false, false
				for _, a := range args {
					if core.SkipConv(a) == bytesParam {
						fromParam = true
					}
					if mi, ok := a.(*ssa.MakeInterface); ok && mi.X == keysObj {
						intoKeys = true
					}
					if a == keysObj {
						intoKeys = true
					}
				}
				return fromParam && intoKeys
			}
			_, always := core.MustPassBefore(fn, isDecode, func(in ssa.Instruction) bool { return in == c })
			r.Check(okFresh && always, "C15.R4", "SkipFromKeys/own-keys", "the on-the-fly decision of a block is taken on that block's own keys: a key list allocated in the call and decoded from the bytes given for the block on every path (an index module that emits nothing for a block yields an empty list, not the previous block's)", fmt.Sprintf("fresh key list=%v, decoded on every path=%v", okFresh, always), p.Pos(c.Pos()))
		}
	})
	r.Guard("C15.R6", "index-file", "index file round trip", func() { checkIndexFileCodec(p, r, "C15.R6") })
	r.Guard("C15.R6", "index-upload", "the index file is uploaded whole on every attempt", func() { checkFreshReaderPerAttempt(p, r, "C15.R6") })
	r.Guard("C15.R6", "precomputed-bitmap", "same expression on keys and on stored bitmaps", func() { checkPrecomputedBitmap(p, r) })
	r.GuardExact("C15.R4", "skip/all-leaves", "Skip answers only from Contains", func() { checkSkipAllLeaves(p, r, "C15.R4") })
	r.GuardExact("C15.R6", "executors/per-module", "each module gets its own filter", func() {
		checkNoCarriedState(p, r, "C15.R6", pkgPipe, "Pipeline.BuildModuleExecutors", "each module's executor is built from that module alone: no block index or precomputed bitmap found for one module is handed to the next")
	})
	r.Guard("C15.R6", "index-per-module", "one index per index module", func() {
		fn := p.Func(pkgCache, "Engine.EndOfStream")
		var writes []*ssa.Call
		core.Instrs(fn, func(in ssa.Instruction) {
			if c, ok := in.(*ssa.Call); ok {
				if cl := core.CommonCallee(c.Common()); cl != nil && cl.Name() == "Write" && cl.Pkg() != nil && strings.HasSuffix(cl.Pkg().Path(), pkgIndex) {
					writes = append(writes, c)
				}
			}
		})
		if len(writes) == 0 {
			core.Undecide("EndOfStream: no index writer Write call")
		}
		for _, w := range writes {
			// outermost loop containing the write: the loop over the modules' output writers
			var outer *core.Loop
			for _, l := range core.Loops(fn) {
				if l.Body[w.Block()] && (outer == nil || len(l.Body) > len(outer.Body)) {
					outer = l
				}
			}
			ok := outer != nil
			seen := map[ssa.Value]bool{}
			var walk func(v ssa.Value)
			walk = func(v ssa.Value) {
				if seen[v] || !ok {
					return
				}
				seen[v] = true
				switch x := v.(type) {
				case *ssa.MakeMap:
					if !outer.Body[x.Block()] {
						ok = false
					}
				case *ssa.Phi:
					if x.Block() == outer.Header {
						ok = false
						return
					}
					for _, e := range x.Edges {
						walk(e)
					}
				case *ssa.Extract:
					walk(x.Tuple)
				case *ssa.Call:
					// a helper called for this module that returns only maps it creates itself
					callee := core.StaticFn(x.Common())
					if callee == nil || callee.Pkg != fn.Pkg || callee.Blocks == nil || !outer.Body[x.Block()] {
						ok = false
						return
					}
					for _, ri := range core.FindInstrs(callee, func(in ssa.Instruction) bool { _, isRet := in.(*ssa.Return); return isRet }) {
						for _, rv := range core.ReturnValues(ri.(*ssa.Return)) {
							if _, isMap := rv.Type().Underlying().(*types.Map); !isMap {
								continue
							}
							if k, isK := rv.(*ssa.Const); isK && k.IsNil() {
								continue
							}
							if _, fresh := rv.(*ssa.MakeMap); !fresh {
								ok = false
							}
						}
					}
				default:
					ok = false
				}
			}
			if ok {
				walk(w.Call.Args[len(w.Call.Args)-1])
			}
			r.Check(ok, "C15.R6", "EndOfStream/index-per-module", "the key→bitmap map written as a module's index file is created for that module alone (inside the iteration over the output writers), never accumulated across index modules", "the map handed to the index writer outlives one module's iteration", p.Pos(w.Pos()))
		}
	})
	r.MinInstances("C15.R1", 8)
	r.MinInstances("C15.R4", 5)
}

func recvName(fn *ssa.Function) string {
	if fn.Signature.Recv() == nil {
		return ""
	}
	return typeName(fn.Signature.Recv().Type())
}

// freshBitmap: the value is a bitmap created in this function.
func freshBitmap(v ssa.Value, depth int) bool {
	if depth == 0 {
		return false
	}
	switch x := v.(type) {
	case *ssa.Call:
		cl := core.CommonCallee(x.Common())
		if cl == nil {
			return false
		}
		switch cl.Name() {
		case "Clone", "New", "NewBitmap", "BitmapOf":
			return cl.Pkg() != nil && strings.Contains(cl.Pkg().Path(), "roaring")
		}
	case *ssa.Phi:
		for _, e := range x.Edges {
			if !freshBitmap(e, depth-1) {
				return false
			}
		}
		return len(x.Edges) > 0
	case *ssa.Lookup:
		// entry of a map built in this function whose stored values are all fresh
		mm, ok := x.X.(*ssa.MakeMap)
		if !ok {
			// a map field assigned a fresh map in this function, all of whose insertions here store fresh bitmaps
			f, _ := core.LoadedField(x.X)
			if f == nil {
				return false
			}
			fn := x.Parent()
			madeHere, n, allFresh := false, 0, true
			core.Instrs(fn, func(in ssa.Instruction) {
				switch y := in.(type) {
				case *ssa.Store:
					if fa, ok := y.Addr.(*ssa.FieldAddr); ok && core.FieldOfAddr(fa) == f {
						if _, isMake := y.Val.(*ssa.MakeMap); isMake {
							madeHere = true
						} else {
							allFresh = false
						}
					}
				case *ssa.MapUpdate:
					if g, _ := core.LoadedField(y.Map); g == f {
						n++
						if !freshBitmap(y.Value, depth-1) {
							allFresh = false
						}
					}
				}
			})
			return madeHere && allFresh && n > 0
		}
		n := 0
		for _, ref := range *mm.Referrers() {
			if mu, ok := ref.(*ssa.MapUpdate); ok {
				n++
				if !freshBitmap(mu.Value, depth-1) {
					return false
				}
			}
		}
		return n > 0
	case *ssa.Extract:
		if lk, ok := x.Tuple.(*ssa.Lookup); ok && x.Index == 0 {
			return freshBitmap(lk, depth)
		}
	case *ssa.UnOp:
		// load of a local cell assigned a fresh bitmap
		if al, ok := x.X.(*ssa.Alloc); ok && x.Op == token.MUL {
			n := 0
			for _, ref := range *al.Referrers() {
				if st, ok := ref.(*ssa.Store); ok && st.Addr == ssa.Value(al) {
					n++
					if !freshBitmap(st.Val, depth-1) {
						return false
					}
				}
			}
			return n > 0
		}
		// element of a map field of a struct built in this function (f.Indices[k] right after f.Indices[k] = New())
		if ia, ok := x.X.(*ssa.IndexAddr); ok {
			_ = ia
		}
	}
	return false
}

// checkSharedBitmaps: mutating roaring bitmap methods only on fresh receivers (shared by C15.R2 and C01.R4: the
// bitmaps of a cached index file are shared by every filtered module of a request, so mutating one makes the
// run/skip decisions depend on whether the index was cached).
func checkSharedBitmaps(p *core.Prog, r *core.Report, rule string) {
	r.Guard(rule, "bitmap-mutation", "fresh receivers only", func() {
		mutating := map[string]bool{"And": true, "Or": true, "Xor": true, "AndNot": true, "Flip": true, "Add": true, "AddMany": true, "AddRange": true, "Remove": true, "RemoveRange": true,
			"Clear": true, "CheckedAdd": true, "CheckedRemove": true, "AddInt": true, "RunOptimize": true, "FromUnsafeBytes": true, "UnmarshalBinary": true, "ReadFrom": true, "FromBuffer": true}
		isBitmapMethod := func(c *types.Func) bool {
			if c == nil || c.Pkg() == nil || !strings.Contains(c.Pkg().Path(), "roaring64") {
				return false
			}
			sig := c.Type().(*types.Signature)
			return sig.Recv() != nil && strings.Contains(sig.Recv().Type().String(), "Bitmap") && mutating[c.Name()]
		}
		n := 0
		for _, fn := range p.RepoFunctions() {
			root := core.RootFn(fn)
			if root.Pkg == nil {
				continue
			}
			pp := strings.TrimPrefix(root.Pkg.Pkg.Path(), core.ModPath+"/")
			if !(pp == pkgSqe || pp == pkgIndex || pp == pkgCache || pp == pkgPipe || pp == pkgExec || pp == pkgSvc) {
				continue
			}
			cnt := 0
			core.Instrs(fn, func(in ssa.Instruction) {
				var recv ssa.Value
				var meth string
				switch x := in.(type) {
				case *ssa.Call:
					cl := core.CommonCallee(x.Common())
					if isBitmapMethod(cl) && !x.Call.IsInvoke() {
						recv, meth = x.Call.Args[0], cl.Name()
					}
				case *ssa.MakeClosure:
					f := x.Fn.(*ssa.Function)
					if strings.HasSuffix(f.Name(), "$bound") && f.Signature != nil {
						name := strings.TrimSuffix(f.Name(), "$bound")
						if mutating[name] && len(x.Bindings) == 1 && strings.Contains(x.Bindings[0].Type().String(), "roaring64.Bitmap") {
							recv, meth = x.Bindings[0], name
						}
					}
				}
				if recv == nil {
					return
				}
				n++
				cnt++
				r.CallSites++
				construct := fmt.Sprintf("%s/%s#%d", core.FuncName(fn), meth, cnt)
				r.Touch(core.FuncName(fn))
				r.Check(freshBitmap(recv, 4), rule, construct, "a mutating bitmap method is only applied to a bitmap created in the same function (Clone()/New() or an entry of a locally built map), never to a bitmap of the shared index", "receiver may alias a shared bitmap", p.Pos(in.Pos()))
			})
		}
		if n < 4 {
			core.Undecide("only %d mutating bitmap call sites found", n)
		}
	})
}

// checkPrecomputedBitmap (C15.R6): a module's block filter is evaluated either block by block on the keys or, when the
// segment's index file exists, once on the stored bitmaps.  Both must use the same expression: the bitmap handed to
// NewBlockIndex is, on every path, nil or the result of RoaringBitmapsApply(<the very expression passed to
// NewBlockIndex>, <the indices of the very module passed to NewBlockIndex>).  A bitmap taken from a local cache is
// accepted only when every entry stored in that cache is such a result and the cache key is computed from the query
// string that was parsed into the expression (not from a raw request field: a query given through params resolves to a
// different string).
func checkPrecomputedBitmap(p *core.Prog, r *core.Report) {
	fn := p.Func(pkgPipe, "Pipeline.BuildModuleExecutors")
	r.Touch(core.FuncName(fn))
	nbi := p.FuncObj(pkgIndex, "NewBlockIndex")
	apply := p.FuncObj(pkgSqe, "RoaringBitmapsApply")
	parse := p.FuncObj(pkgSqe, "Parse")
	calls := core.FindInstrs(fn, core.IsCallTo(nbi))
	if len(calls) == 0 {
		core.Undecide("BuildModuleExecutors: no NewBlockIndex call")
	}
	sameVal := func(a, b ssa.Value) bool {
		return a == b || sameExpr(a, b, 4)
	}
	for i, c := range calls {
		args := c.(ssa.CallInstruction).Common().Args
		expr, modName, bitmap := args[0], args[1], args[2]
		// the string parsed into expr
		var parsed ssa.Value
		for v := range core.OperandSlice(expr) {
			if pc, ok := v.(*ssa.Call); ok && core.CommonCallee(pc.Common()) == parse {
				parsed = pc.Call.Args[len(pc.Call.Args)-1]
			}
		}
		okApply := func(v ssa.Value) (bool, string) {
			ac, ok := v.(*ssa.Call)
			if !ok || core.CommonCallee(ac.Common()) != apply {
				return false, "not a RoaringBitmapsApply result"
			}
			if !sameVal(ac.Call.Args[0], expr) {
				return false, "RoaringBitmapsApply on another expression than the one given to NewBlockIndex"
			}
			// indices looked up by the same module name
			okIdx := false
			for x := range core.OperandSlice(ac.Call.Args[1]) {
				if lk, ok := x.(*ssa.Lookup); ok && sameVal(lk.Index, modName) {
					okIdx = true
				}
			}
			if !okIdx {
				return false, "indices not looked up by the module name given to NewBlockIndex"
			}
			return true, ""
		}
		var bad []string
		seen := map[ssa.Value]bool{}
		var leaf func(v ssa.Value)
		leaf = func(v ssa.Value) {
			if seen[v] {
				return
			}
			seen[v] = true
			switch x := v.(type) {
			case *ssa.Phi:
				for _, e := range x.Edges {
					leaf(e)
				}
			case *ssa.Const:
				if !x.IsNil() {
					bad = append(bad, "non-nil constant")
				}
			case *ssa.UnOp:
				if al, ok := x.X.(*ssa.Alloc); ok && x.Op == token.MUL {
					for _, st := range core.StoresTo(al) {
						leaf(st.Val)
					}
					return
				}
				bad = append(bad, "loaded from "+x.X.String())
			case *ssa.Extract:
				leaf(x.Tuple)
			case *ssa.Lookup:
				// a local cache
				mm, ok := x.X.(*ssa.MakeMap)
				if !ok {
					bad = append(bad, "looked up in a map that is not local to the function")
					return
				}
				nUpd := 0
				for _, ref := range *mm.Referrers() {
					mu, ok := ref.(*ssa.MapUpdate)
					if !ok {
						continue
					}
					nUpd++
					okV := false
					for lv := range core.OperandSlice(mu.Value) {
						if ok2, _ := okApply(lv); ok2 {
							okV = true
						}
					}
					if !okV {
						bad = append(bad, "cache entry that is not RoaringBitmapsApply(expr, indices[module])")
					}
					if parsed == nil || !core.OperandSlice(mu.Key)[parsed] {
						bad = append(bad, "cache key not computed from the parsed query string")
					}
					if !sameVal(mu.Key, x.Index) && !sameKeySources(mu.Key, x.Index) {
						bad = append(bad, "cache read and written under different keys")
					}
				}
				if nUpd == 0 {
					bad = append(bad, "cache never filled")
				}
			case *ssa.Call:
				if ok, why := okApply(x); !ok {
					bad = append(bad, why)
				}
			default:
				bad = append(bad, fmt.Sprintf("%T", v))
			}
		}
		leaf(bitmap)
		r.Check(len(bad) == 0, "C15.R6", fmt.Sprintf("BuildModuleExecutors/precomputed-bitmap#%d", i+1), "the precomputed bitmap given to a module's block index is nil or the stored index evaluated with that module's own expression on that module's own index (a shared bitmap must be keyed by the resolved query)", strings.Join(bad, "; "), p.Pos(c.Pos()))
	}
}

func sameKeySources(a, b ssa.Value) bool {
	sa, sb := core.OperandSlice(a), core.OperandSlice(b)
	for v := range sa {
		switch v.(type) {
		case *ssa.Call, *ssa.UnOp, *ssa.Parameter:
			if !sb[v] {
				return false
			}
		}
	}
	return true
}
